/-
  Petl.Proto — line protocol between the Python harness and the Lean driver.

  A line is a sequence of whitespace-separated tokens.  Values:
    N                      None
    Q<num>/<den>:<t>       number, exact value, t ∈ b i f d (bool/int/float/Decimal)
    I+:<t>  I-:<t>         infinities
    S<cp>.<cp>…            str as decimal code points (S alone = '')
    B<b>.<b>…              bytes
    D<n> T<n> M<n>         date ordinal, datetime µs, time µs
    L<n> v…  U<n> v…       list / tuple of n values
  R<n> v…                  a row;  TB<m> row…  a table (first row = header)
-/
import Petl.Val
import Petl.Fields
namespace Petl

abbrev P := StateT (List String) (Except String)

def P.fail {α} (msg : String) : P α := throw msg

def tok : P String := do
  match (← get) with
  | [] => P.fail "unexpected end of line"
  | t :: ts => set ts; pure t

def peekTok : P (Option String) := do
  match (← get) with
  | [] => pure none
  | t :: _ => pure (some t)

def parseInt? (s : String) : Option Int := s.toInt?

def pNat : P Nat := do
  let t ← tok
  match t.toNat? with
  | some n => pure n
  | none => P.fail s!"expected nat, got {t}"

def pInt : P Int := do
  let t ← tok
  match t.toInt? with
  | some n => pure n
  | none => P.fail s!"expected int, got {t}"

def parseCps (s : String) : Option (List Nat) :=
  if s.isEmpty then some [] else
  (s.splitOn ".").mapM String.toNat?

def parseTy (s : String) : Option NumTy :=
  match s with
  | "b" => some .bool | "i" => some .int | "f" => some .float | "d" => some .dec
  | _ => none

def NumTy.code : NumTy → String
  | .bool => "b" | .int => "i" | .float => "f" | .dec => "d"

partial def pVal : P Val := do
  let t ← tok
  if t == "N" then return .none
  let c := t.front
  let rest := (t.drop 1).toString
  match c with
  | 'Q' =>
    match rest.splitOn ":" with
    | [frac, ty] =>
      match frac.splitOn "/", parseTy ty with
      | [n, d], some ty =>
        match n.toInt?, d.toNat? with
        | some n, some d => return .num ty (.fin (mkRat n d))
        | _, _ => P.fail s!"bad number {t}"
      | _, _ => P.fail s!"bad number {t}"
    | _ => P.fail s!"bad number {t}"
  | 'I' =>
    match rest.splitOn ":" with
    | [sgn, ty] =>
      match parseTy ty with
      | some ty => return .num ty (if sgn == "+" then .pinf else .ninf)
      | none => P.fail s!"bad inf {t}"
    | _ => P.fail s!"bad inf {t}"
  | 'S' => match parseCps rest with
    | some l => return .str l
    | none => P.fail s!"bad str {t}"
  | 'B' => match parseCps rest with
    | some l => return .bytes l
    | none => P.fail s!"bad bytes {t}"
  | 'D' => match rest.toInt? with
    | some n => return .date n
    | none => P.fail s!"bad date {t}"
  | 'T' => match rest.toInt? with
    | some n => return .datetime n
    | none => P.fail s!"bad datetime {t}"
  | 'M' => match rest.toInt? with
    | some n => return .time n
    | none => P.fail s!"bad time {t}"
  | 'L' | 'U' =>
    match rest.toNat? with
    | some n =>
      let mut xs : Array Val := #[]
      for _ in [0:n] do
        xs := xs.push (← pVal)
      return .seq (c == 'L') xs.toList
    | none => P.fail s!"bad seq {t}"
  | _ => P.fail s!"bad value token {t}"

def pRow : P Row := do
  let t ← tok
  if t.front != 'R' then P.fail s!"expected row, got {t}"
  match (t.drop 1).toString.toNat? with
  | some n =>
    let mut xs : Array Val := #[]
    for _ in [0:n] do
      xs := xs.push (← pVal)
    return xs.toList
  | none => P.fail s!"bad row {t}"

def pTable : P Table := do
  let t ← tok
  if !t.startsWith "TB" then P.fail s!"expected table, got {t}"
  match (t.drop 2).toString.toNat? with
  | some n =>
    let mut xs : Array Row := #[]
    for _ in [0:n] do
      xs := xs.push (← pRow)
    return xs.toList
  | none => P.fail s!"bad table {t}"

def pList {α} (p : P α) : P (List α) := do
  let n ← pNat
  let mut xs : Array α := #[]
  for _ in [0:n] do
    xs := xs.push (← p)
  return xs.toList

def pBool : P Bool := do
  let t ← tok
  match t with
  | "1" => pure true
  | "0" => pure false
  | _ => P.fail s!"expected 0/1, got {t}"

/-- optional nat: `-` for None -/
def pOptNat : P (Option Nat) := do
  let t ← tok
  if t == "-" then pure none else
  match t.toNat? with
  | some n => pure (some n)
  | none => P.fail s!"expected nat or -, got {t}"

def pOptInt : P (Option Int) := do
  let t ← tok
  if t == "-" then pure none else
  match t.toInt? with
  | some n => pure (some n)
  | none => P.fail s!"expected int or -, got {t}"

/-- key / field spec: `KN` = None, `K<n>` followed by n items `#<i>` (index) or a text token (name) -/
def pFSpec : P FSpec := do
  let t ← tok
  if t.front == '#' then
    match (t.drop 1).toString.toNat? with
    | some i => pure (.idx i)
    | none => P.fail s!"bad index spec {t}"
  else if t.front == 'S' then
    match parseCps (t.drop 1).toString with
    | some l => pure (.name l)
    | none => P.fail s!"bad name spec {t}"
  else P.fail s!"bad field spec {t}"

def pKey : P (Option (List FSpec)) := do
  let t ← tok
  if t == "KN" then pure none else
  if t.front != 'K' then P.fail s!"expected key, got {t}" else
  match (t.drop 1).toString.toNat? with
  | some n =>
    let mut xs : Array FSpec := #[]
    for _ in [0:n] do
      xs := xs.push (← pFSpec)
    pure (some xs.toList)
  | none => P.fail s!"bad key {t}"

/-! printing -/

def showCps (l : List Nat) : String := ".".intercalate (l.map toString)

partial def Val.show : Val → String
  | .none => "N"
  | .num ty (.fin q) => s!"Q{q.num}/{q.den}:{ty.code}"
  | .num ty .pinf => s!"I+:{ty.code}"
  | .num ty .ninf => s!"I-:{ty.code}"
  | .str s => "S" ++ showCps s
  | .bytes s => "B" ++ showCps s
  | .date d => s!"D{d}"
  | .datetime d => s!"T{d}"
  | .time d => s!"M{d}"
  | .seq isList xs =>
    let hd := (if isList then "L" else "U") ++ toString xs.length
    " ".intercalate (hd :: xs.map Val.show)

def showRow (r : Row) : String :=
  " ".intercalate (s!"R{r.length}" :: r.map Val.show)

def showTable (t : Table) : String :=
  " ".intercalate (s!"TB{t.length}" :: t.map showRow)

def showOut (o : Out) : String :=
  match o.err with
  | none => showTable o.rows
  | some e => showTable o.rows ++ " ERR " ++ e.code

def showBool (b : Bool) : String := if b then "1" else "0"

end Petl
