/-
  Petl.Ops — dispatch table of the driver: op name ↦ (parse arguments, run model, print).
-/
import Petl.Proto
import Petl.Sort
import Petl.Join
namespace Petl

def opCmp : P String := do
  let a ← pVal
  let b ← pVal
  pure (" ".intercalate [showBool (Val.lt a b), showBool (Val.eq a b), showBool (Val.le a b),
    showBool (Val.gt a b), showBool (Val.ge a b), showBool (Val.pyEq a b)])

/-- sort <key> <reverse> <buffersize|-> <table> -/
def opSort : P String := do
  let key ← pKey
  let rev ← pBool
  let bs ← pOptNat
  let t ← pTable
  pure (showOut (sortView t key rev bs))

/-- mergesorted <key> <reverse> <buffersize|-> <presorted> <n> <table>…  (tables over one header):
    the per-table sort followed by the k-way merge -/
def opMergeSort : P String := do
  let key ← pKey
  let rev ← pBool
  let bs ← pOptNat
  let presorted ← pBool
  let ts ← pList pTable
  match ts with
  | [] => pure (showOut (.ok []))
  | t0 :: _ =>
    let hdr := t0.headD []
    match (match key with
           | some k => asindices hdr k
           | none => .ok (List.range hdr.length)) with
    | .error e => pure (showOut (.fail [hdr] e))
    | .ok idx =>
      let le := rowLe idx rev
      let datas := ts.map (fun t => ((if presorted then t.drop 1 else sortRows le bs (t.drop 1))).map (squareRow hdr.length .none))
      pure (showOut (.ok (hdr :: mergeSorted le datas)))

/-- issorted <key> <reverse> <strict> <table> -/
def opIsSorted : P String := do
  let key ← pKey
  let rev ← pBool
  let strict ← pBool
  let t ← pTable
  match t with
  | [] => pure "ERR StopIteration"
  | hdr :: rows =>
    match (match key with
           | some k => asindices hdr k
           | none => .ok (List.range hdr.length)) with
    | .error e => pure ("ERR " ++ e.code)
    | .ok idx => pure (showBool (isSortedBy idx rev strict rows))

def pOptText : P (Option (List Nat)) := do
  let t ← tok
  if t == "-" then pure none else
  if t.front == 'S' then
    match parseCps (t.drop 1).toString with
    | some l => pure (some l)
    | none => P.fail s!"bad text {t}"
  else P.fail s!"expected text or -, got {t}"

def pJoinKind : P JoinKind := do
  let t ← tok
  match t with
  | "inner" => pure .inner | "left" => pure .left | "right" => pure .right
  | "outer" => pure .outer | "anti" => pure .anti | "lookup" => pure .lookup
  | _ => P.fail s!"bad join kind {t}"

/-- join <kind> <missing> <lprefix|-> <rprefix|-> <lkey> <rkey> <bs|-> <L> <R> -/
def opJoin : P String := do
  let kind ← pJoinKind
  let missing ← pVal
  let lp ← pOptText
  let rp ← pOptText
  let lkey ← pKey
  let rkey ← pKey
  let bs ← pOptNat
  let l ← pTable
  let r ← pTable
  match lkey, rkey with
  | some lk, some rk => pure (showOut (joinView kind missing lp rp lk rk bs l r))
  | _, _ => P.fail "join needs explicit keys"

/-- crossjoin <missing> <n> <table>… -/
def opCrossJoin : P String := do
  let missing ← pVal
  let ts ← pList pTable
  pure (showOut (crossJoinView missing ts))

def dispatch (op : String) : Option (P String) :=
  match op with
  | "cmp" => some opCmp
  | "sort" => some opSort
  | "mergesort" => some opMergeSort
  | "issorted" => some opIsSorted
  | "join" => some opJoin
  | "crossjoin" => some opCrossJoin
  | _ => none

end Petl
