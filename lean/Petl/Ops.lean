/-
  Petl.Ops — dispatch table of the driver: op name ↦ (parse arguments, run model, print).
-/
import Petl.Proto
import Petl.Sort
import Petl.Join
import Petl.HashJoin
import Petl.SetOps
namespace Petl

def opCmp : P String := do
  let a ← pVal
  let b ← pVal
  pure (" ".intercalate [showBool (Val.lt a b), showBool (Val.eq a b), showBool (Val.le a b),
    showBool (Val.gt a b), showBool (Val.ge a b), showBool (Val.pyEq a b)])

/-- sort <key> <reverse> <buffersize|-> <table> -/
def opSort : P String := do
  let key ← pKey
  let rev ← pBool
  let bs ← pOptNat
  let t ← pTable
  pure (showOut (sortView t key rev bs))

/-- mergesorted <key> <reverse> <buffersize|-> <presorted> <n> <table>…  (tables over one header):
    the per-table sort followed by the k-way merge -/
def opMergeSort : P String := do
  let key ← pKey
  let rev ← pBool
  let bs ← pOptNat
  let presorted ← pBool
  let ts ← pList pTable
  match ts with
  | [] => pure (showOut (.ok []))
  | t0 :: _ =>
    let hdr := t0.headD []
    match (match key with
           | some k => asindices hdr k
           | none => .ok (List.range hdr.length)) with
    | .error e => pure (showOut (.fail [hdr] e))
    | .ok idx =>
      let le := rowLe idx rev
      let datas := ts.map (fun t => ((if presorted then t.drop 1 else sortRows le bs (t.drop 1))).map (squareRow hdr.length .none))
      pure (showOut (.ok (hdr :: mergeSorted le datas)))

/-- issorted <key> <reverse> <strict> <table> -/
def opIsSorted : P String := do
  let key ← pKey
  let rev ← pBool
  let strict ← pBool
  let t ← pTable
  match t with
  | [] => pure "ERR StopIteration"
  | hdr :: rows =>
    match (match key with
           | some k => asindices hdr k
           | none => .ok (List.range hdr.length)) with
    | .error e => pure ("ERR " ++ e.code)
    | .ok idx => pure (showBool (isSortedBy idx rev strict rows))

def pOptText : P (Option (List Nat)) := do
  let t ← tok
  if t == "-" then pure none else
  if t.front == 'S' then
    match parseCps (t.drop 1).toString with
    | some l => pure (some l)
    | none => P.fail s!"bad text {t}"
  else P.fail s!"expected text or -, got {t}"

def pJoinKind : P JoinKind := do
  let t ← tok
  match t with
  | "inner" => pure .inner | "left" => pure .left | "right" => pure .right
  | "outer" => pure .outer | "anti" => pure .anti | "lookup" => pure .lookup
  | _ => P.fail s!"bad join kind {t}"

/-- join <kind> <missing> <lprefix|-> <rprefix|-> <lkey> <rkey> <bs|-> <L> <R> -/
def opJoin : P String := do
  let kind ← pJoinKind
  let missing ← pVal
  let lp ← pOptText
  let rp ← pOptText
  let lkey ← pKey
  let rkey ← pKey
  let bs ← pOptNat
  let l ← pTable
  let r ← pTable
  match lkey, rkey with
  | some lk, some rk => pure (showOut (joinView kind missing lp rp lk rk bs l r))
  | _, _ => P.fail "join needs explicit keys"

/-- crossjoin <missing> <n> <table>… -/
def opCrossJoin : P String := do
  let missing ← pVal
  let ts ← pList pTable
  pure (showOut (crossJoinView missing ts))

/-- hashjoin <kind> <missing> <lprefix|-> <rprefix|-> <lkey> <rkey> <L> <R> -/
def opHashJoin : P String := do
  let kind ← pJoinKind
  let missing ← pVal
  let lp ← pOptText
  let rp ← pOptText
  let lkey ← pKey
  let rkey ← pKey
  let l ← pTable
  let r ← pTable
  match lkey, rkey with
  | some lk, some rk => pure (showOut (hashJoinView kind missing lp rp lk rk l r))
  | _, _ => P.fail "hashjoin needs explicit keys"

def rawKey (idx : List Nat) (r : Row) : Val :=
  match idx with
  | [i] => getCell r i
  | _ => .seq false (idx.map (getCell r))

/-- lookup <one> <strict> <key> <value|KN> <table>: the dictionary as rows (key, value) in insertion order -/
def opLookup : P String := do
  let one ← pBool
  let strict ← pBool
  let key ← pKey
  let value ← pKey
  let t ← pTable
  let hdr := t.headD []
  let rows := t.drop 1
  match key with
  | none => P.fail "lookup needs a key"
  | some k =>
    match asindices hdr k with
    | .error e => pure ("ERR " ++ e.code)
    | .ok kidx =>
      if kidx.isEmpty then pure "ERR Assertion" else
      let vidx? : Except Err (Option (List Nat)) :=
        match value with
        | none => .ok none
        | some v => (asindices hdr v).map some
      match vidx? with
      | .error e => pure ("ERR " ++ e.code)
      | .ok vidx =>
        if vidx == some [] then pure "ERR Assertion" else
        let need := kidx ++ (match vidx with | some v => v | none => List.range hdr.length)
        -- raw itemgetter / rowgetter: IndexError on a row too short for a needed index;
        -- rows before it are processed first (a strict duplicate among them wins)
        let firstShort := rows.findIdx? (fun r => need.any (fun i => r.length ≤ i))
        let usable := match firstShort with | some j => rows.take j | none => rows
        let getv : Row → Val := match vidx with
          | none => fun r => .seq false ((List.range hdr.length).map (getCell r))
          | some v => rawKey v
        if one then
          let chk (idx : List Nat) (f : Row → Val) : Row → Except Err Val :=
            fun r => if idx.any (fun i => r.length ≤ i) then .error .index else .ok (f r)
          let vneed := match vidx with | some v => v | none => List.range hdr.length
          match buildLookupOneE (chk kidx (rawKey kidx)) (chk vneed getv) strict rows [] with
          | .error e => pure ("ERR " ++ e.code)
          | .ok d => pure (showTable (d.map (fun e => [e.1, e.2])))
        else
          if firstShort.isSome then pure "ERR Index" else
          let d := buildLookup (rawKey kidx) getv usable
          pure (showTable (d.map (fun e => [e.1, Val.seq true e.2])))

/-- setop <complement|intersection|hashcomplement|hashintersection> <strict> <bs|-> <A> <B> -/
def opSetOp : P String := do
  let t ← tok
  let op? : Option SetOp := match t with
    | "complement" => some .complement | "intersection" => some .intersection
    | "hashcomplement" => some .hashcomplement | "hashintersection" => some .hashintersection
    | _ => none
  match op? with
  | none => P.fail s!"bad set op {t}"
  | some op =>
    let strict ← pBool
    let bs ← pOptNat
    let a ← pTable
    let b ← pTable
    pure (showOut (setOpView op strict bs a b))

def dispatch (op : String) : Option (P String) :=
  match op with
  | "cmp" => some opCmp
  | "sort" => some opSort
  | "mergesort" => some opMergeSort
  | "issorted" => some opIsSorted
  | "join" => some opJoin
  | "crossjoin" => some opCrossJoin
  | "hashjoin" => some opHashJoin
  | "lookup" => some opLookup
  | "setop" => some opSetOp
  | _ => none

end Petl
