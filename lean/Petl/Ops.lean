/-
  Petl.Ops — dispatch table of the driver: op name ↦ (parse arguments, run model, print).
-/
import Petl.Proto
namespace Petl

def opCmp : P String := do
  let a ← pVal
  let b ← pVal
  pure (" ".intercalate [showBool (Val.lt a b), showBool (Val.eq a b), showBool (Val.le a b),
    showBool (Val.gt a b), showBool (Val.ge a b), showBool (Val.pyEq a b)])

def dispatch (op : String) : Option (P String) :=
  match op with
  | "cmp" => some opCmp
  | _ => none

end Petl
