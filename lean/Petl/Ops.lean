/-
  Petl.Ops — dispatch table of the driver: op name ↦ (parse arguments, run model, print).
-/
import Petl.Proto
import Petl.Sort
import Petl.Join
import Petl.HashJoin
import Petl.SetOps
import Petl.Group
import Petl.Dedup
import Petl.Select
import Petl.ErrPolicy
import Petl.Basics
import Petl.Reshape
import Petl.Views
import Petl.TempFiles
import Petl.Db
import Petl.Lazy
import Petl.Csv
namespace Petl

def opCmp : P String := do
  let a ← pVal
  let b ← pVal
  pure (" ".intercalate [showBool (Val.lt a b), showBool (Val.eq a b), showBool (Val.le a b),
    showBool (Val.gt a b), showBool (Val.ge a b), showBool (Val.pyEq a b)])

/-- sort <key> <reverse> <buffersize|-> <table> -/
def opSort : P String := do
  let key ← pKey
  let rev ← pBool
  let bs ← pOptNat
  let t ← pTable
  pure (showOut (sortView t key rev bs))

/-- mergesorted <key> <reverse> <buffersize|-> <presorted> <n> <table>…  (tables over one header):
    the per-table sort followed by the k-way merge -/
def opMergeSort : P String := do
  let key ← pKey
  let rev ← pBool
  let bs ← pOptNat
  let presorted ← pBool
  let ts ← pList pTable
  match ts with
  | [] => pure (showOut (.ok []))
  | t0 :: _ =>
    let hdr := t0.headD []
    match (match key with
           | some k => asindices hdr k
           | none => .ok (List.range hdr.length)) with
    | .error e => pure (showOut (.fail [hdr] e))
    | .ok idx =>
      let le := rowLe idx rev
      let datas := ts.map (fun t => ((if presorted then t.drop 1 else sortRows le bs (t.drop 1))).map (squareRow hdr.length .none))
      pure (showOut (.ok (hdr :: mergeSorted le datas)))

/-- mergesortH <key> <reverse> <buffersize|-> <missing> <n> <table>…  (tables with different fields, as repaired in /repo
    2f346d7): every table is first rearranged to the output header (`catRows`: union of the fields in order of first
    appearance, `missing` where a table has no such field or a row is short), then sorted, then merged -/
def mergesortH (idx : List Nat) (rev : Bool) (bs : Option Nat) (outhdr : Row) (missing : Val) (ts : List Table) : List Row :=
  mergeSorted (rowLe idx rev) (ts.map (fun t => sortRows (rowLe idx rev) bs (catRows outhdr missing t)))

def opMergeSortH : P String := do
  let key ← pKey
  let rev ← pBool
  let bs ← pOptNat
  let missing ← pVal
  let ts ← pList pTable
  let outhdr := catHeader (ts.map (fun t => t.headD []))
  match (match key with
         | some k => asindices outhdr k
         | none => .ok (List.range outhdr.length)) with
  | .error e => pure (showOut (.fail [outhdr] e))
  | .ok idx => pure (showOut (.ok (outhdr :: mergesortH idx rev bs outhdr missing ts)))

/-- issorted <key> <reverse> <strict> <table> -/
def opIsSorted : P String := do
  let key ← pKey
  let rev ← pBool
  let strict ← pBool
  let t ← pTable
  match t with
  | [] => pure "ERR StopIteration"
  | hdr :: rows =>
    match (match key with
           | some k => asindices hdr k
           | none => .ok (List.range hdr.length)) with
    | .error e => pure ("ERR " ++ e.code)
    | .ok idx => pure (showBool (isSortedBy idx rev strict rows))

def pOptText : P (Option (List Nat)) := do
  let t ← tok
  if t == "-" then pure none else
  if t.front == 'S' then
    match parseCps (t.drop 1).toString with
    | some l => pure (some l)
    | none => P.fail s!"bad text {t}"
  else P.fail s!"expected text or -, got {t}"

def pJoinKind : P JoinKind := do
  let t ← tok
  match t with
  | "inner" => pure .inner | "left" => pure .left | "right" => pure .right
  | "outer" => pure .outer | "anti" => pure .anti | "lookup" => pure .lookup
  | _ => P.fail s!"bad join kind {t}"

/-- join <kind> <missing> <lprefix|-> <rprefix|-> <lkey> <rkey> <bs|-> <L> <R> -/
def opJoin : P String := do
  let kind ← pJoinKind
  let missing ← pVal
  let lp ← pOptText
  let rp ← pOptText
  let lkey ← pKey
  let rkey ← pKey
  let bs ← pOptNat
  let l ← pTable
  let r ← pTable
  match lkey, rkey with
  | some lk, some rk => pure (showOut (joinView kind missing lp rp lk rk bs l r))
  | _, _ => P.fail "join needs explicit keys"

/-- crossjoin <missing> <n> <table>… -/
def opCrossJoin : P String := do
  let missing ← pVal
  let ts ← pList pTable
  pure (showOut (crossJoinView missing ts))

/-- hashjoin <kind> <missing> <lprefix|-> <rprefix|-> <lkey> <rkey> <L> <R> -/
def opHashJoin : P String := do
  let kind ← pJoinKind
  let missing ← pVal
  let lp ← pOptText
  let rp ← pOptText
  let lkey ← pKey
  let rkey ← pKey
  let l ← pTable
  let r ← pTable
  match lkey, rkey with
  | some lk, some rk => pure (showOut (hashJoinView kind missing lp rp lk rk l r))
  | _, _ => P.fail "hashjoin needs explicit keys"

def rawKey (idx : List Nat) (r : Row) : Val :=
  match idx with
  | [i] => getCell r i
  | _ => .seq false (idx.map (getCell r))

/-- lookup <one> <strict> <key> <value|KN> <table>: the dictionary as rows (key, value) in insertion order -/
def opLookup : P String := do
  let one ← pBool
  let strict ← pBool
  let key ← pKey
  let value ← pKey
  let t ← pTable
  let hdr := t.headD []
  let rows := t.drop 1
  match key with
  | none => P.fail "lookup needs a key"
  | some k =>
    match asindices hdr k with
    | .error e => pure ("ERR " ++ e.code)
    | .ok kidx =>
      if kidx.isEmpty then pure "ERR Assertion" else
      let vidx? : Except Err (Option (List Nat)) :=
        match value with
        | none => .ok none
        | some v => (asindices hdr v).map some
      match vidx? with
      | .error e => pure ("ERR " ++ e.code)
      | .ok vidx =>
        if vidx == some [] then pure "ERR Assertion" else
        let need := kidx ++ (match vidx with | some v => v | none => List.range hdr.length)
        -- raw itemgetter / rowgetter: IndexError on a row too short for a needed index;
        -- rows before it are processed first (a strict duplicate among them wins)
        let firstShort := rows.findIdx? (fun r => need.any (fun i => r.length ≤ i))
        let usable := match firstShort with | some j => rows.take j | none => rows
        let getv : Row → Val := match vidx with
          | none => fun r => .seq false ((List.range hdr.length).map (getCell r))
          | some v => rawKey v
        if one then
          let chk (idx : List Nat) (f : Row → Val) : Row → Except Err Val :=
            fun r => if idx.any (fun i => r.length ≤ i) then .error .index else .ok (f r)
          let vneed := match vidx with | some v => v | none => List.range hdr.length
          match buildLookupOneE (chk kidx (rawKey kidx)) (chk vneed getv) strict rows [] with
          | .error e => pure ("ERR " ++ e.code)
          | .ok d => pure (showTable (d.map (fun e => [e.1, e.2])))
        else
          if firstShort.isSome then pure "ERR Index" else
          let d := buildLookup (rawKey kidx) getv usable
          pure (showTable (d.map (fun e => [e.1, Val.seq true e.2])))

/-- setop <complement|intersection|hashcomplement|hashintersection> <strict> <bs|-> <A> <B> -/
def opSetOp : P String := do
  let t ← tok
  let op? : Option SetOp := match t with
    | "complement" => some .complement | "intersection" => some .intersection
    | "hashcomplement" => some .hashcomplement | "hashintersection" => some .hashintersection
    | _ => none
  match op? with
  | none => P.fail s!"bad set op {t}"
  | some op =>
    let strict ← pBool
    let bs ← pOptNat
    let a ← pTable
    let b ← pTable
    pure (showOut (setOpView op strict bs a b))

def pAggFn : P AggFn := do
  let t ← tok
  match t with
  | "len" => pure .len | "list" => pure .list | "sum" => pure .sum | "min" => pure .min
  | "max" => pure .max | "first" => pure .first | "last" => pure .last
  | _ => P.fail s!"bad aggregation {t}"

/-- the header cell a key spec item contributes: the name, or the index itself -/
def specCell : FSpec → Val
  | .name s => .str s
  | .idx i => .num .int (.fin (i : Rat))

/-- `aggregate(table, None, f, value)`: the single group of all rows -/
def keylessValues (vidx : Option (List Nat)) (rows : List Row) : List Val :=
  match vidx with
  | none => rows.map (fun r => .seq false r)
  | some [i] => rows.map (fun r => padGet .none r i)
  | some idx => rows.map (fun r => .seq false (idx.map (padGet .none r)))

def keylessAggregate (field : Val) (vidx : Option (List Nat)) (f : AggFn) (rows : List Row) : Out :=
  match f.apply (keylessValues vidx rows) with
  | .ok a => .ok [[field], [a]]
  | .error e => .fail [[field]] e

/-- agg <key|KN> <value|KN> <fn> <field> <bs|-> <table>  (simple aggregate, with or without a key) -/
def opAgg : P String := do
  let key ← pKey
  let value ← pKey
  let fn ← pAggFn
  let field ← pVal
  let bs ← pOptNat
  let t ← pTable
  match t, key with
  | hdr :: rows, some k =>
    let outhdr := k.map specCell ++ [field]
    match asindices hdr k with
    | .error e => pure (showOut (.fail [outhdr] e))
    | .ok kidx =>
      match (match value with | none => Except.ok none | some v => (asindices hdr v).map some) with
      | .error e => pure (showOut (.fail [outhdr] e))
      | .ok vidx => pure (showOut (simpleAggregate (k.map specCell) field kidx vidx fn bs rows))
  | hdr :: rows, none =>
    -- no key: one group made of all the rows (petl 88398f1: whole rows when no value field is given; `values()` pads
    -- short rows with None)
    match (match value with | none => Except.ok none | some v => (asindices hdr v).map some) with
    | .error e => pure (showOut (.fail [[field]] e))
    | .ok vidx => pure (showOut (keylessAggregate field vidx fn rows))
  | _, _ => pure "ERR unsupported"

/-- `groupcountdistinctvalues(table, key, value)` as implemented (petl d4bbfd2): cut to the key fields followed by the value
    field, `distinct` (sort whole rows, keep the first row of every run of equal rows), then count the rows of each key -/
def gcdvDistinct (kidx : List Nat) (vidx : Nat) (bs : Option Nat) (rows : List Row) : List Row :=
  let all := List.range (kidx.length + 1)
  distinctRows (getKey all) (sortRows (rowLe all false) bs (pickRows (kidx ++ [vidx]) .none rows))

def groupCountDistinct (kidx : List Nat) (vidx : Nat) (bs : Option Nat) (rows : List Row) : List (Val × Nat) :=
  (sortedGroups (List.range kidx.length) bs (gcdvDistinct kidx vidx bs rows)).map (fun g => (g.1, g.2.length))

/-- gcdv <key> <valuefield> <bs|-> <table>: the data rows (key cells…, count) -/
def opGcdv : P String := do
  let key ← pKey
  let value ← pKey
  let bs ← pOptNat
  let t ← pTable
  match t, key, value with
  | hdr :: rows, some k, some [v] =>
    match asindices hdr k, asindices hdr [v] with
    | .ok kidx, .ok [vidx] =>
      let out := (groupCountDistinct kidx vidx bs rows).map (fun g => keyCells (List.range kidx.length) g.1 ++ [intVal g.2])
      pure (showOut (.ok out))
    | .error e, _ => pure (showOut (.fail [] e))
    | _, .error e => pure (showOut (.fail [] e))
    | _, _ => pure "ERR unsupported"
  | _, _, _ => pure "ERR unsupported"

/-- multiagg <key|KN> <n> (<outfield> <src|KN> <fn>)… <bs|-> <table> -/
def opMultiAgg : P String := do
  let key ← pKey
  let cols ← pList (do
    let name ← pVal
    let src ← pKey
    let fn ← pAggFn
    pure (name, src, fn))
  let bs ← pOptNat
  let t ← pTable
  match t with
  | hdr :: rows =>
    let keyHdr := match key with | some k => k.map specCell | none => []
    let outhdr := keyHdr ++ cols.map (·.1)
    let kidx? : Except Err (Option (List Nat)) :=
      match key with | none => .ok none | some k => (asindices hdr k).map some
    match kidx? with
    | .error e => pure (showOut (.fail [outhdr] e))
    | .ok kidx =>
      -- `hdr.index(f)`: first field equal to the name; ValueError if absent
      let resolve (src : Option (List FSpec)) : Except Err (Option (List Nat)) :=
        match src with
        | none => .ok none
        | some fs => (fs.mapM (fun (f : FSpec) => match f with
            | FSpec.name s => match hdr.findIdx? (fun c => Val.pyEq c (.str s)) with
              | some i => (Except.ok i : Except Err Nat)
              | none => .error .value
            | FSpec.idx _ => .error .value)).map some
      -- sources are resolved lazily, per group: with no groups nothing is resolved
      let colsR := cols.map (fun c => (resolve c.2.1, c.2.2))
      let gs : List (Val × List Row) :=
        match kidx with
        | some k => sortedGroups k bs rows
        | none => if rows.isEmpty then [] else [(.none, rows)]
      let res := mapGroups (fun g => do
        let cells ← colsR.mapM (fun c => do
          let src ← c.1
          let vs ← groupValues src g.2
          c.2.apply vs)
        pure ((match kidx with | some k => keyCells k g.1 | none => []) ++ cells)) gs
      pure (showOut (mkOut outhdr res))
  | _ => pure "ERR unsupported"

/-- gsel <first|last|min|max> <key> <value|KN> <bs|-> <table> -/
def opGroupSelect : P String := do
  let which ← tok
  let key ← pKey
  let value ← pKey
  let bs ← pOptNat
  let t ← pTable
  match t, key with
  | hdr :: rows, some k =>
    match asindices hdr k with
    | .error e => pure (showOut (.fail [hdr] e))
    | .ok kidx =>
      match which, value with
      | "first", _ => pure (showOut (groupSelect false hdr kidx bs rows))
      | "last", _ => pure (showOut (groupSelect true hdr kidx bs rows))
      | w, some v =>
        match asindices hdr v with
        | .error e => pure (showOut (.fail [hdr] e))
        | .ok vidx => pure (showOut (groupSelectExt (w == "max") hdr kidx vidx bs rows))
      | _, none => P.fail "gsel min/max needs a value field"
  | _, _ => pure "ERR unsupported"

/-- foldadd <key> <value> <bs|-> <table> -/
def opFoldAdd : P String := do
  let key ← pKey
  let value ← pKey
  let bs ← pOptNat
  let t ← pTable
  let outhdr : Row := [.str [107, 101, 121], .str [118, 97, 108, 117, 101]]
  match t, key, value with
  | hdr :: rows, some k, some v =>
    match asindices hdr k, asindices hdr v with
    | .ok kidx, .ok vidx => pure (showOut (foldAdd kidx vidx bs rows))
    | .error e, _ => pure (showOut (.fail [outhdr] e))
    | _, .error e => pure (showOut (.fail [outhdr] e))
  | _, _, _ => pure "ERR unsupported"

/-- mergedup <key (names)> <missing> <bs|-> <table> -/
def opMergeDup : P String := do
  let key ← pKey
  let missing ← pVal
  let bs ← pOptNat
  let t ← pTable
  match t, key with
  | hdr :: rows, some k =>
    let keyNames := k.filterMap (fun f => match f with | .name s => some s | .idx _ => none)
    let isKey (c : Val) : Bool := match c with | .str s => keyNames.contains s | _ => false
    -- value fields: header fields whose name is not a key name; each resolved with `flds.index(f)`
    let vfidx := (hdr.filter (fun c => !isKey c)).filterMap (fun c => hdr.findIdx? (fun d => Val.pyEq d c))
    let outhdr := k.map specCell ++ hdr.filter (fun c => !isKey c)
    match asindices hdr k with
    | .error e => pure (showOut (.fail [outhdr] e))
    | .ok kidx => pure (showOut (mergeDuplicates outhdr kidx vfidx missing bs rows))
  | _, _ => pure "ERR unsupported"

/-- dedup <duplicates|unique|distinct> <key|KN> <bs|-> <table>
    dedup distinctcount <key|KN> <bs|-> <field> <table>
    dedup conflicts <key> <bs|-> <missing> <all|include|exclude> <names K..|KN> <table> -/
def opDedup : P String := do
  let which ← tok
  let key ← pKey
  let bs ← pOptNat
  match which with
  | "duplicates" => do let t ← pTable; pure (showOut (dedupView .duplicates key bs t))
  | "unique" => do let t ← pTable; pure (showOut (dedupView .unique key bs t))
  | "distinct" => do let t ← pTable; pure (showOut (dedupView .distinct key bs t))
  | "distinctcount" => do
    let f ← pVal
    let t ← pTable
    pure (showOut (dedupView (.distinctCount f) key bs t))
  | "conflicts" => do
    let missing ← pVal
    let mode ← tok
    let names ← pKey
    let t ← pTable
    let hdr := t.headD []
    let ns := (names.getD []).filterMap (fun f => match f with | FSpec.name s => some s | FSpec.idx _ => none)
    let inNames (c : Val) : Bool := match c with | .str s => ns.contains s | _ => false
    let sel := (List.range hdr.length).filter (fun i =>
      match mode with
      | "include" => inNames (getCell hdr i)
      | "exclude" => !inNames (getCell hdr i)
      | _ => true)
    pure (showOut (dedupView (.conflicts sel missing) key bs t))
  | _ => P.fail s!"bad dedup op {which}"

/-- isunique <field> <table> -/
def opIsUnique : P String := do
  let key ← pKey
  let t ← pTable
  match t, key with
  | hdr :: rows, some k =>
    match asindices hdr k with
    | .error e => pure ("ERR " ++ e.code)
    | .ok idx => pure (showBool (isUniqueVals (rows.map (getKey idx))))
  | _, _ => pure "ERR unsupported"

def pPred : P Pred := do
  let t ← tok
  match t with
  | "eq" => return .eq (← pVal) | "ne" => return .ne (← pVal)
  | "lt" => return .lt (← pVal) | "le" => return .le (← pVal)
  | "gt" => return .gt (← pVal) | "ge" => return .ge (← pVal)
  | "rol" => do let a ← pVal; let b ← pVal; return .rangeOpenLeft a b
  | "ror" => do let a ← pVal; let b ← pVal; return .rangeOpenRight a b
  | "ro" => do let a ← pVal; let b ← pVal; return .rangeOpen a b
  | "rc" => do let a ← pVal; let b ← pVal; return .rangeClosed a b
  | "in" => do
    match (← pVal) with
    | .seq _ xs => return .isIn xs
    | _ => P.fail "in needs a sequence"
  | "notin" => do
    match (← pVal) with
    | .seq _ xs => return .notIn xs
    | _ => P.fail "notin needs a sequence"
  | "none" => return .isNone | "notnone" => return .notNone
  | "true" => return .isTrue | "false" => return .isFalse
  | _ => P.fail s!"bad predicate {t}"

/-- select <field> <missing> <complement> <pred…> <table> -/
def opSelect : P String := do
  let key ← pKey
  let missing ← pVal
  let compl ← pBool
  let p ← pPred
  let t ← pTable
  match t, key with
  | hdr :: _, some k =>
    match asindices hdr k with
    | .error e => pure (showOut (.fail [hdr] e))
    | .ok idx => pure (showOut (selectView idx missing p compl t))
  | [], some _ => pure (showOut (.fail [] .fieldSelection))
  | _, none => P.fail "select needs a field"

/-- rowlen <n> <complement> <table> -/
def opRowLen : P String := do
  let n ← pNat
  let compl ← pBool
  let t ← pTable
  match t with
  | [] => pure (showOut (.ok []))
  | hdr :: rows => pure (showOut (.ok (hdr :: rowSelect (fun r => r.length == n) compl rows)))

/-- search <complement> <field(s)|KN> <table> <mask table>: the mask holds, cell by cell, whether the pattern matches -/
def opSearch : P String := do
  let compl ← pBool
  let key ← pKey
  let t ← pTable
  let mask ← pTable
  match t with
  | [] => pure (showOut (.ok []))
  | hdr :: rows =>
    match (match key with | none => Except.ok none | some k => (asindices hdr k).map some) with
    | .error e => pure (showOut (.fail [hdr] e))
    | .ok idx =>
      let ms := (mask.drop 1).map (fun r => r.map Val.truthy)
      pure (showOut (.ok (hdr :: searchRows idx compl (rows.zip ms))))

/-- slice <start|-> <stop|-> <step|-> <table> ; tail <n> <table> ; skip <n> <table> -/
def opSlice : P String := do
  let start ← pOptNat
  let stop ← pOptNat
  let step ← pOptNat
  let t ← pTable
  match t with
  | [] => pure (showOut (.ok []))
  | hdr :: rows => pure (showOut (.ok (hdr :: islice (start.getD 0) stop (step.getD 1) rows)))

def opTail : P String := do
  let n ← pNat
  let t ← pTable
  match t with
  | [] => pure (showOut (.ok []))
  | hdr :: rows => pure (showOut (.ok (hdr :: tailRows n rows)))

def opSkip : P String := do
  let n ← pNat
  let t ← pTable
  pure (showOut (.ok (islice n none 1 t)))

def pPolicy : P Policy := do
  let t ← tok
  match t with
  | "s" => pure .suppress | "r" => pure .raise | "i" => pure .inline
  | _ => P.fail s!"bad policy {t}"

def pErrKind : P Err := do
  let t ← tok
  match t with
  | "Value" => pure .value | "Type" => pure .type | "Key" => pure .key | "Index" => pure .index
  | _ => P.fail s!"bad error kind {t}"

def pSeq : P (List Val) := do
  match (← pVal) with
  | .seq _ xs => pure xs
  | _ => P.fail "expected a sequence"

def outOf (hdr : Row) (res : List Row × Option Err) : Out := { rows := hdr :: res.1, err := res.2 }

/-- convert <policy> <errorvalue> <n> (<fieldidx> <errkind> <failset>)… <table> -/
def opConvert : P String := do
  let pol ← pPolicy
  let ev ← pVal
  let cs ← pList (do
    let i ← pNat
    let e ← pErrKind
    let fs ← pSeq
    pure (i, failOn fs e))
  let t ← pTable
  match t with
  | [] => pure (showOut (.ok []))
  | hdr :: rows =>
    let convs : Nat → Option Conv := fun i => (cs.find? (fun c => c.1 == i)).map (·.2)
    pure (showOut (outOf hdr (convertRows pol ev convs rows)))

/-- rowmap <policy> <errkind> <failset> <outhdr row> <table>:
    the mapper fails when the row's first cell is in the set, else returns row + [len(row)] -/
def opRowMap : P String := do
  let pol ← pPolicy
  let e ← pErrKind
  let fs ← pSeq
  let oh ← pRow
  let t ← pTable
  match t with
  | [] => pure (showOut (.ok []))
  | _ :: rows =>
    let f : Row → Except Err Row := fun r =>
      if fs.any (fun x => Val.pyEq x (getCell r 0)) then .error e else .ok (r ++ [intVal r.length])
    pure (showOut (outOf oh (rowmapRows pol f rows)))

/-- rowmapmany <policy> <errkind> <failset> <outhdr row> <table>:
    the generator yields the row, fails if its first cell is in the set, then yields the row again -/
def opRowMapMany : P String := do
  let pol ← pPolicy
  let e ← pErrKind
  let fs ← pSeq
  let oh ← pRow
  let t ← pTable
  match t with
  | [] => pure (showOut (.ok []))
  | _ :: rows =>
    let f : Row → List Row × Option Err := fun r =>
      if fs.any (fun x => Val.pyEq x (getCell r 0)) then ([r], some e) else ([r, r], none)
    pure (showOut (outOf oh (rowmapmanyRows pol f rows)))

/-- fieldmap <policy> <errorvalue> <n> (<outname> <srcidx> <errkind> <failset>)… <table> -/
def opFieldMap : P String := do
  let pol ← pPolicy
  let ev ← pVal
  let ms ← pList (do
    let name ← pVal
    let i ← pNat
    let e ← pErrKind
    let fs ← pSeq
    pure (name, (fun (r : Row) => failOn fs e (getCell r i))))
  let t ← pTable
  match t with
  | [] => pure (showOut (.ok []))
  | _ :: rows =>
    pure (showOut (outOf (ms.map (·.1)) (fieldmapRows pol ev (ms.map (·.2)) rows)))

/-! ### C12: row / field transforms -/

def pKeyReq : P (List FSpec) := do
  match (← pKey) with
  | some k => pure k
  | none => P.fail "field spec required"

def pFieldVal : P FieldVal := do
  let t ← tok
  match t with
  | "c" => return .const (← pVal)
  | "len" => return .rowLen
  | "cell" => return .cellPlus (← pNat)
  | _ => P.fail s!"bad field value {t}"

def pOptRow : P (Option Row) := do
  match (← peekTok) with
  | some "-" => do let _ ← tok; pure none
  | _ => do let r ← pRow; pure (some r)

def strLe (a b : Val) : Bool :=
  match a, b with
  | .str x, .str y => !natListLt y x
  | _, _ => true

def opXf : P String := do
  let name ← tok
  match name with
  | "cut" => do
    let spec ← pKeyReq; let m ← pVal; let t ← pTable
    pure (showOut (cutView spec m t))
  | "cutout" => do
    let spec ← pKeyReq; let m ← pVal; let t ← pTable
    pure (showOut (cutoutView spec m t))
  | "cat" => do
    let m ← pVal; let h ← pOptRow; let ts ← pList pTable
    pure (showOut (catView m h ts))
  | "stack" => do
    let m ← pVal; let trim ← pBool; let pad ← pBool; let ts ← pList pTable
    pure (showOut (stackView m trim pad ts))
  | "annex" => do
    let m ← pVal; let ts ← pList pTable
    pure (showOut (annexView m ts))
  | "addfield" => do
    let f ← pVal; let fv ← pFieldVal; let i ← pOptInt; let m ← pVal; let t ← pTable
    pure (showOut (addfieldView f fv i m t))
  | "addfields" => do
    let defs ← pList (do let f ← pVal; let fv ← pFieldVal; let i ← pOptInt; pure (f, fv, i))
    let m ← pVal; let t ← pTable
    pure (showOut (addfieldsView defs m t))
  | "addrownumbers" => do
    let a ← pInt; let b ← pInt; let f ← pVal; let t ← pTable
    pure (showOut (addrownumbersView a b f t))
  | "addcolumn" => do
    let f ← pVal; let col ← pSeq; let i ← pOptInt; let m ← pVal; let t ← pTable
    pure (showOut (addcolumnView f col i m t))
  | "setheader" => do let h ← pRow; let t ← pTable; pure (showOut (setheaderView h t))
  | "extendheader" => do let h ← pRow; let t ← pTable; pure (showOut (extendheaderView h t))
  | "pushheader" => do let h ← pRow; let t ← pTable; pure (showOut (pushheaderView h t))
  | "prefixheader" => do
    match (← pOptText) with
    | some p => do let t ← pTable; pure (showOut (prefixheaderView p t))
    | none => P.fail "prefix required"
  | "suffixheader" => do
    match (← pOptText) with
    | some p => do let t ← pTable; pure (showOut (suffixheaderView p t))
    | none => P.fail "suffix required"
  | "rename" => do
    let strict ← pBool
    let spec ← pList (do let f ← pFSpec; let v ← pVal; pure (f, v))
    let t ← pTable
    pure (showOut (renameView spec strict t))
  | "sortheader" => do
    let rev ← pBool; let m ← pVal; let t ← pTable
    match t with
    | [] => pure (showOut (.ok []))
    | hdr :: rows =>
      -- `sorted(hdr, reverse=rev)`: descending order keeps equal names in their original order, too
      let shdr := if rev then hdr.mergeSort (fun a b => strLe b a) else hdr.mergeSort strLe
      let spec := shdr.filterMap (fun c => match c with | .str s => some (FSpec.name s) | _ => none)
      match asindices hdr spec with
      | .error e => pure (showOut (.fail [] e))
      | .ok idx => pure (showOut (.ok (shdr :: pickRows idx m rows)))
  | "movefield" => do
    let f ← pVal; let i ← pInt; let m ← pVal; let t ← pTable
    let hdr := t.headD []
    -- by position (petl, since the repair of movefield on duplicate field names): the first field of that name moves,
    -- every other field — also another one of the same name — stays
    match hdr.findIdx? (fun c => Val.pyEq c f) with
    | some fidx =>
      let idx := moveFieldIdx hdr.length fidx i
      pure (showOut (.ok (idx.map (padGet .none hdr) :: pickRows idx m (t.drop 1))))
    | none =>
      let outhdr := pyInsert hdr (some i) f
      let spec := outhdr.filterMap (fun c => match c with | .str s => some (FSpec.name s) | _ => none)
      match asindices hdr spec with
      | .error e => pure (showOut (.fail [outhdr] e))
      | .ok idx => pure (showOut (.ok (outhdr :: pickRows idx m (t.drop 1))))
  | "filldown" => do
    let fields ← pKey; let m ← pVal; let t ← pTable
    match t with
    | [] => pure (showOut (.ok []))
    | [hdr] => pure (showOut (.ok [hdr]))
    | hdr :: first :: rows =>
      let spec := match fields with
        | some k => k
        | none => hdr.filterMap (fun c => match c with | .str s => some (FSpec.name s) | _ => none)
      match asindices hdr spec with
      | .error e => pure (showOut (.fail [hdr] e))
      | .ok idx => pure (showOut (.ok (hdr :: first :: filldownRows idx m first rows)))
  | "fillright" => do
    let m ← pVal; let t ← pTable
    match t with
    | [] => pure (showOut (.ok []))
    | hdr :: rows => pure (showOut (.ok (hdr :: rows.map (fillrightRow m none))))
  | "fillleft" => do
    let m ← pVal; let t ← pTable
    match t with
    | [] => pure (showOut (.ok []))
    | hdr :: rows => pure (showOut (.ok (hdr :: rows.map (fillleftRow m))))
  | "values" => do
    let spec ← pKeyReq; let m ← pVal; let t ← pTable
    let hdr := t.headD []
    match asindices hdr spec with
    | .error e => pure (showOut (.fail [] e))
    | .ok idx =>
      if idx.isEmpty then pure (showOut (.fail [] .assertion)) else
      pure (showOut (.ok ((valuesOf idx m (t.drop 1)).map (fun v => [v]))))
  | "records" => do
    let m ← pVal; let t ← pTable
    match t with
    | [] => pure (showOut (.ok []))
    | hdr :: rows => pure (showOut (.ok (recordsOf hdr.length m rows)))
  | "columns" => do
    let m ← pVal; let t ← pTable
    let hdr := t.headD []
    pure (showOut (.ok (columnsOf hdr.length m (t.drop 1))))
  | _ => P.fail s!"bad transform {name}"

/-! ### C14: reshape -/

def valLe (a b : Val) : Bool := !Val.lt b a

def distinctSorted (vs : List Val) : List Val := (dedupVals vs).mergeSort valLe

def opRs : P String := do
  let name ← tok
  match name with
  | "melt" => do
    let key ← pKeyReq; let vars ← pKeyReq; let vf ← pVal; let valf ← pVal; let t ← pTable
    match t with
    | [] => pure (showOut (.ok []))
    | hdr :: rows =>
      match asindices hdr key, asindices hdr vars with
      | .ok kidx, .ok vidx =>
        let outhdr := kidx.map (getCell hdr) ++ [vf, valf]
        pure (showOut (outOf outhdr (meltRows kidx (vidx.map (fun i => (i, getCell hdr i))) rows)))
      | .error e, _ => pure (showOut (.fail [] e))
      | _, .error e => pure (showOut (.fail [] e))
  | "recast" => do
    let key ← pKeyReq; let varf ← pVal; let valf ← pVal; let m ← pVal; let bs ← pOptNat; let t ← pTable
    match t with
    | [] => pure (showOut (.ok []))
    | hdr :: rows =>
      match asindices hdr key, hdrIndex hdr varf, hdrIndex hdr valf with
      | .ok kidx, some vi, some wi =>
        let variables := distinctSorted (rows.map (fun r => getCell r vi))
        pure (showOut (.ok ((kidx.map (getCell hdr) ++ variables) :: recastRows kidx vi wi variables m bs rows)))
      | _, _, _ => pure "ERR unsupported"
  | "transpose" => do let t ← pTable; pure (showOut (.ok (transposeT t)))
  | "flatten" => do let t ← pTable; pure (showOut (.ok [flattenVals (t.drop 1)]))
  | "unflatten" => do
    let n ← pNat; let m ← pVal; let vals ← pSeq
    let hdr : Row := (List.range n).map (fun i => Val.str (("f" ++ toString i).toList.map Char.toNat))
    pure (showOut (.ok (hdr :: unflattenRows n m vals)))
  | "pivot" => do
    let f1 ← pNat; let f2 ← pNat; let f3 ← pNat; let agg ← pAggFn; let m ← pVal; let bs ← pOptNat; let t ← pTable
    match t with
    | [] => pure "ERR unsupported"
    | hdr :: rows =>
      let f2vals := distinctSorted (rows.map (fun r => padGet .none r f2))
      pure (showOut (outOf (getCell hdr f1 :: f2vals) (pivotRows f1 f2 f3 f2vals agg m bs rows)))
  | "unpack" => do
    let fi ← pNat; let n ← pNat; let names ← pOptRow; let incl ← pBool; let m ← pVal; let t ← pTable
    match t with
    | [] => pure "ERR unsupported"
    | hdr :: rows =>
      let fname := getCell hdr fi
      let newf : Row := match names with
        | some ns => ns
        | none => (List.range n).map (fun i => match fname with
            | .str s => Val.str (s ++ (toString (i + 1)).toList.map Char.toNat)
            | v => v)
      let outhdr := (if incl then hdr else hdr.eraseIdx fi) ++ newf
      let rec go : List Row → List Row × Option Err
        | [] => ([], none)
        | r :: rs => match unpackRow fi n incl m r with
          | .error e => ([], some e)
          | .ok o => let (rest, e) := go rs; (o :: rest, e)
      pure (showOut (outOf outhdr (go rows)))
  | "unpackdict" => do
    let fi ← pNat; let incl ← pBool; let m ← pVal
    let keys? ← (do match (← peekTok) with
      | some "-" => do let _ ← tok; pure (none : Option (List Val))
      | _ => do let ks ← pSeq; pure (some ks))
    let t ← pTable
    match t with
    | [] => pure "ERR unsupported"
    | hdr :: rows =>
      let keys := match keys? with
        | some ks => ks
        | none => distinctSorted (rows.flatMap (fun r => match getCell r fi with
            | .seq _ items => items.filterMap (fun it => match it with | .seq _ [k, _] => some k | _ => none)
            | _ => []))
      let outhdr := (if incl then hdr else hdr.eraseIdx fi) ++ keys
      pure (showOut (.ok (outhdr :: rows.map (unpackdictRow fi keys incl m))))
  | "expand" => do
    let fi ← pNat; let incl ← pBool; let newf ← pRow; let t ← pTable; let parts ← pTable
    match t with
    | [] => pure "ERR unsupported"
    | hdr :: rows =>
      let outhdr := (if incl then hdr else hdr.eraseIdx fi) ++ newf
      pure (showOut (.ok (outhdr :: (rows.zip parts).map (fun (r, p) => expandRow fi incl r p))))
  | "splitdown" => do
    let fi ← pNat; let t ← pTable; let parts ← pTable
    match t with
    | [] => pure (showOut (.ok []))
    | hdr :: rows =>
      pure (showOut (.ok (hdr :: ((rows.zip parts).map (fun (r, p) => splitdownRow hdr.length fi r p)).flatten)))
  | "fromcolumns" => do
    let m ← pVal; let cols ← pTable
    let hdr : Row := (List.range cols.length).map (fun i => Val.str (("f" ++ toString i).toList.map Char.toNat))
    pure (showOut (.ok (hdr :: fromColumnsRows m cols)))
  | _ => P.fail s!"bad reshape op {name}"

/-! ### C01: view machines driven by a schedule -/

def pSched : P (List SOp) := do
  let n ← pNat
  let mut ops : Array SOp := #[]
  for _ in [0:n] do
    let t ← tok
    if t == "n" then ops := ops.push .new
    else if t.front == 'x' then
      match (t.drop 1).toString.toNat? with
      | some i => ops := ops.push (.next i)
      | none => P.fail s!"bad schedule op {t}"
    else P.fail s!"bad schedule op {t}"
  return ops.toList

/-- per-operation trace: `.` for new, the row or STOP for next (BAD if the iterator does not exist) -/
def traceRun {σ ι : Type} (m : Machine σ ι) (crashed : ι → Bool) (sched : List SOp) : List String × RunState σ ι :=
  sched.foldl (fun (acc : List String × RunState σ ι) op =>
    let st := acc.2
    match op with
    | .new => (acc.1 ++ ["."], m.apply st op)
    | .next i =>
      match st.iters[i]? with
      | none => (acc.1 ++ ["BAD"], st)
      | some it =>
        let r := m.step st.shared it
        let st' := m.apply st op
        let s := match r.2.2 with
          | some row => showRow row
          | none => if crashed r.2.1 then "CRASH" else "STOP"
        (acc.1 ++ [s], st')) ([], m.start)

def opMach : P String := do
  let kind ← tok
  match kind with
  | "cache" => do
    let guard ← pBool; let n ← pOptNat; let inner ← pTable; let sched ← pSched
    let (tr, st) := traceRun (cacheMachine guard inner n) (fun _ => false) sched
    pure (" | ".intercalate tr ++ s!" # cache={st.shared.cache.length} complete={showBool st.shared.complete}")
  | "dictsgen" => do
    let rows ← pTable; let sched ← pSched
    let (tr, _) := traceRun (dictsGenMachine rows) (fun _ => false) sched
    pure (" | ".intercalate tr)
  | "sort" => do
    let cacheOn ← pBool; let out ← pTable; let sched ← pSched
    let (tr, _) := traceRun (sortViewMachine cacheOn out) (fun _ => false) sched
    pure (" | ".intercalate tr)
  | "sortold" => do
    let out ← pTable; let sched ← pSched
    let (tr, _) := traceRun (sortViewMachineOld out) (fun it => match it with | .crashed => true | _ => false) sched
    pure (" | ".intercalate tr)
  | "pure" => do
    let rows ← pTable; let sched ← pSched
    let (tr, _) := traceRun (pureMachine rows) (fun _ => false) sched
    pure (" | ".intercalate tr)
  | _ => P.fail s!"bad machine {kind}"

/-! ### C18: temp-file histories -/

def showTFOut : TFOut → String
  | .none => "." | .row k => s!"r{k}" | .stop => "STOP" | .raised => "RAISED" | .crash => "CRASH"

/-- tf <nrows> <buffersize> <cache> <failAt|-> <n> ops…  with ops n | x<i> | d<i> | v -/
def opTf : P String := do
  let nrows ← pNat; let bs ← pNat; let cache ← pBool; let failAt ← pOptNat
  let n ← pNat
  let mut ops : Array TFOp := #[]
  for _ in [0:n] do
    let t ← tok
    if t == "n" then ops := ops.push .new
    else if t == "v" then ops := ops.push .dropView
    else
      match (t.drop 1).toString.toNat? with
      | some i => ops := ops.push (if t.front == 'x' then .next i else .drop i)
      | none => P.fail s!"bad op {t}"
  let p : TFParams := { nrows := nrows, buffersize := bs, cache := cache, failAt := failAt }
  let res := ops.toList.foldl (fun (acc : TFState × List String) op =>
    let (s', o) := tfStep p acc.1 op
    (s', acc.2 ++ [s!"{showTFOut o}:{s'.files.length}"])) (({} : TFState), [])
  pure (" | ".intercalate res.2)

/-- db <truncate> <commit> <closes> <failAt|-> <prior rows> <rows> -/
def opDb : P String := do
  let truncate ← pBool; let commit ← pBool; let closes ← pBool; let failAt ← pOptNat
  let prior ← pTable; let rows ← pTable
  let ops := loadOps truncate commit closes rows failAt
  let d := ({ committed := prior, pending := none } : Db).run ops
  pure (" ".intercalate (ops.map DbOp.show) ++ " # committed=" ++ showTable d.committed ++
        " pending=" ++ (match d.pending with | none => "none" | some p => toString p.length))

/-- lazy <map|filter|look> <k> <table>: first k output rows of the streaming operator and the number
    of source rows it pulled.  map: append the first cell; filter: keep rows whose first cell is truthy
    (source = data rows); look: one row of lookahead, appends (prev[0], next[0]) (source incl. header) -/
def opLazy : P String := do
  let kind ← tok
  let k ← pNat
  let t ← pTable
  let fst (r : Row) : Val := getCell r 0
  let ofst (r : Option Row) : Val := match r with | some r => getCell r 0 | none => .none
  let res ← match kind with
    | "map" => pure (runLazy (mapT (fun r => r ++ [fst r])) k () t)
    | "filter" => pure (runLazy (filterT (fun r => (fst r).truthy)) k () t)
    | "look" => pure (runLazy (lookaheadT (fun p c n => c ++ [.seq false [ofst p, ofst n]])) k (0, none, none) t)
    | _ => P.fail s!"bad lazy kind {kind}"
  pure (toString res.2 ++ " " ++ showTable res.1)

/-- csv w <qa> <d> <q> <table of text cells>  ->  the text `csv.writer` produces (as one S token)
    csv r <d> <q> <text as S token>          ->  the records `csv.reader` delivers, then `ERR` if the machine flagged an error -/
def opCsv : P String := do
  let which ← tok
  match which with
  | "w" =>
    let qa ← pBool
    let d ← pNat
    let q ← pNat
    let t ← pTable
    let recs : List Csv.Record := t.map (fun r => r.map (fun v => match v with | .str s => s | _ => []))
    pure ("S" ++ showCps (Csv.writeAll qa d q recs))
  | "r" =>
    let d ← pNat
    let q ← pNat
    let v ← pVal
    match v with
    | .str text =>
      let ps := Csv.run d q (.none, Csv.St.init) text
      let recs := Csv.finish ps
      let out := showTable (recs.map (fun r => r.map Val.str))
      pure (if ps.2.err then out ++ " ERR csv" else out)
    | _ => P.fail "csv r needs text"
  | _ => P.fail s!"bad csv op {which}"

def dispatch (op : String) : Option (P String) :=
  match op with
  | "cmp" => some opCmp
  | "sort" => some opSort
  | "mergesort" => some opMergeSort
  | "mergesortH" => some opMergeSortH
  | "issorted" => some opIsSorted
  | "join" => some opJoin
  | "crossjoin" => some opCrossJoin
  | "hashjoin" => some opHashJoin
  | "lookup" => some opLookup
  | "setop" => some opSetOp
  | "agg" => some opAgg
  | "multiagg" => some opMultiAgg
  | "gcdv" => some opGcdv
  | "gsel" => some opGroupSelect
  | "foldadd" => some opFoldAdd
  | "mergedup" => some opMergeDup
  | "dedup" => some opDedup
  | "isunique" => some opIsUnique
  | "select" => some opSelect
  | "rowlen" => some opRowLen
  | "search" => some opSearch
  | "slice" => some opSlice
  | "tail" => some opTail
  | "skip" => some opSkip
  | "convert" => some opConvert
  | "rowmap" => some opRowMap
  | "rowmapmany" => some opRowMapMany
  | "fieldmap" => some opFieldMap
  | "xf" => some opXf
  | "rs" => some opRs
  | "mach" => some opMach
  | "tf" => some opTf
  | "db" => some opDb
  | "lazy" => some opLazy
  | "csv" => some opCsv
  | _ => none

end Petl
