/-
  Petl.Select — model of petl.transform.selects (field/row selection, the comparison selectors),
  rowslice/head/tail (itertools.islice), skip.
-/
import Petl.Group
namespace Petl

/-- the documented predicates of the comparison selectors -/
inductive Pred where
  | eq (v : Val) | ne (v : Val)
  | lt (v : Val) | le (v : Val) | gt (v : Val) | ge (v : Val)
  | rangeOpenLeft (a b : Val) | rangeOpenRight (a b : Val) | rangeOpen (a b : Val) | rangeClosed (a b : Val)
  | isIn (vs : List Val) | notIn (vs : List Val)
  | isNone | notNone | isTrue | isFalse

/-- as the lambdas of selects.py evaluate them (`v` raw, reference values wrapped in Comparable):
    `v < ref` is the reflected `ref > v`, `minv <= v < maxv` is `minv <= v and v < maxv` -/
def Pred.eval : Pred → Val → Bool
  | .eq r, v => Val.pyEq v r
  | .ne r, v => !Val.pyEq v r
  | .lt r, v => Val.gt r v
  | .le r, v => Val.ge r v
  | .gt r, v => Val.lt r v
  | .ge r, v => Val.le r v
  | .rangeOpenLeft a b, v => Val.le a v && Val.gt b v
  | .rangeOpenRight a b, v => Val.lt a v && Val.ge b v
  | .rangeOpen a b, v => Val.le a v && Val.ge b v
  | .rangeClosed a b, v => Val.lt a v && Val.lt v b
  | .isIn vs, v => vs.any (fun x => Val.pyEq x v)
  | .notIn vs, v => !vs.any (fun x => Val.pyEq x v)
  | .isNone, v => Val.pyEq v .none
  | .notNone, v => !Val.pyEq v .none
  | .isTrue, v => v.truthy
  | .isFalse, v => !v.truthy

/-- one cell of a row, an absent cell being read as `missing` -/
def cellOr (missing : Val) (r : Row) (i : Nat) : Val :=
  if r.length ≤ i then missing else getCell r i

/-- `getv(row)` of iterfieldselect: the cell of a single field, the tuple of cells of a compound field;
    every absent cell is read as `missing` (for a compound field: that cell only, not the whole key) -/
def fieldValue (idx : List Nat) (missing : Val) (r : Row) : Val :=
  match idx with
  | [i] => cellOr missing r i
  | _ => .seq false (idx.map (cellOr missing r))

/-- `select(table, field, where, complement, missing)` on the data rows -/
def fieldSelect (idx : List Nat) (missing : Val) (p : Val → Bool) (complement : Bool) (rows : List Row) : List Row :=
  rows.filter (fun r => (p (fieldValue idx missing r)) != complement)

/-- `select(table, where, complement)` with a row predicate -/
def rowSelect (p : Row → Bool) (complement : Bool) (rows : List Row) : List Row :=
  rows.filter (fun r => p r != complement)

/-- every `step`-th element starting with the first -/
def everyNth {α : Type} (step : Nat) : List α → List α
  | [] => []
  | x :: xs => x :: everyNth step (xs.drop (step - 1))
termination_by l => l.length
decreasing_by simp [List.length_drop]; omega

/-- `itertools.islice(it, start, stop, step)` (None: start 0, no stop, step 1) -/
def islice {α : Type} (start : Nat) (stop : Option Nat) (step : Nat) (l : List α) : List α :=
  everyNth step ((match stop with | some s => l.take s | none => l).drop start)

def tailRows {α : Type} (n : Nat) (l : List α) : List α := l.drop (l.length - n)

/-- `search` / `searchcomplement` (petl b1fac41): a row matches when one of the cells under consideration matches the
    pattern — every cell when no field is given, otherwise the cells present at the given positions (a row too short to
    have the field does not match).  `m` is the verdict of `re.search` on the text of each cell of the row. -/
def searchMatch (idx : Option (List Nat)) (r : Row) (m : List Bool) : Bool :=
  match idx with
  | none => (m.take r.length).any id
  | some is => is.any (fun i => decide (i < r.length) && m.getD i false)

def searchRows (idx : Option (List Nat)) (complement : Bool) (rows : List (Row × List Bool)) : List Row :=
  (rows.filter (fun rm => searchMatch idx rm.1 rm.2 != complement)).map (·.1)

def selectView (idx : List Nat) (missing : Val) (p : Pred) (complement : Bool) (t : Table) : Out :=
  match t with
  | [] => .fail [] .fieldSelection
  | hdr :: rows => .ok (hdr :: fieldSelect idx missing p.eval complement rows)

end Petl
