/-
  Petl.SetOps — model of petl.transform.setops: complement / intersection (two-pointer loops over
  the sorted inputs), hashcomplement / hashintersection (Counter loops), recordcomplement, diff.
-/
import Petl.Sort
namespace Petl

/-- rows compared as tuples: `Comparable(a) < Comparable(b)` and `a == b` -/
def rowLt (a b : Row) : Bool := Val.lt (.seq false a) (.seq false b)
def rowEq (a b : Row) : Bool := Val.eq (.seq false a) (.seq false b)

/-- the loop of `itercomplement` on sorted inputs -/
def complLoop (strict : Bool) : List Row → List Row → List Row
  | [], _ => []
  | a :: as, [] => a :: as
  | a :: as, b :: bs =>
    if rowLt a b then a :: complLoop strict as (b :: bs)
    else if rowEq a b then (if strict then complLoop strict as (b :: bs) else complLoop strict as bs)
    else complLoop strict (a :: as) bs
termination_by as bs => as.length + bs.length

/-- the loop of `iterintersection` -/
def interLoop : List Row → List Row → List Row
  | [], _ => []
  | _ :: _, [] => []
  | a :: as, b :: bs =>
    if rowLt a b then interLoop as (b :: bs)
    else if rowEq a b then a :: interLoop as bs
    else interLoop (a :: as) bs
termination_by as bs => as.length + bs.length

/-- `Counter` of b's rows as a list; `bcnt[t] -= 1` removes one equal row -/
def eraseRow (a : Row) : List Row → List Row
  | [] => []
  | b :: bs => if rowEq a b then bs else b :: eraseRow a bs

def hashComplLoop (strict : Bool) : List Row → List Row → List Row
  | [], _ => []
  | a :: as, bcnt =>
    if bcnt.any (rowEq a) then
      (if strict then hashComplLoop strict as bcnt else hashComplLoop strict as (eraseRow a bcnt))
    else a :: hashComplLoop strict as bcnt

def hashInterLoop : List Row → List Row → List Row
  | [], _ => []
  | a :: as, bcnt =>
    if bcnt.any (rowEq a) then a :: hashInterLoop as (eraseRow a bcnt)
    else hashInterLoop as bcnt

/-- sort with key=None: all header fields -/
def sortAll (hdr : Row) (bs : Option Nat) (rows : List Row) : List Row :=
  sortRows (rowLe (List.range hdr.length) false) bs rows

inductive SetOp where
  | complement | intersection | hashcomplement | hashintersection
deriving DecidableEq, Repr

def setOpView (op : SetOp) (strict : Bool) (bs : Option Nat) (A B : Table) : Out :=
  match A, B with
  | ahdr :: arows, bhdr :: brows =>
    match op with
    | .complement =>
      if ahdr.isEmpty || bhdr.isEmpty then .fail [] .type else
      .ok (ahdr :: complLoop strict (sortAll ahdr bs arows) (sortAll bhdr bs brows))
    | .intersection =>
      if ahdr.isEmpty || bhdr.isEmpty then .fail [] .type else
      .ok (ahdr :: interLoop (sortAll ahdr bs arows) (sortAll bhdr bs brows))
    | .hashcomplement => .ok (ahdr :: hashComplLoop strict arows brows)
    | .hashintersection => .ok (ahdr :: hashInterLoop arows brows)
  | _, _ => .fail [] .runtime

/-- number of rows equal (as tuples) to `x` -/
def countRow (x : Row) (l : List Row) : Nat := (l.filter (rowEq x)).length

end Petl
