/-
  Petl.Views — iterator protocol of table views as state machines.

  A view has shared state σ; `iter(view)` creates an iterator state ι (possibly touching σ);
  `next(it)` steps one iterator (possibly touching σ) and yields a row or stops.  A *schedule*
  interleaves `new` and `next i` operations on any number of live iterators.
-/
import Petl.Sort
namespace Petl

structure Machine (σ ι : Type) where
  init : σ
  newIter : σ → σ × ι
  step : σ → ι → σ × ι × Option Row

inductive SOp where
  | new
  | next (i : Nat)
deriving DecidableEq, Repr

structure RunState (σ ι : Type) where
  shared : σ
  iters : List ι
  outs : List (List Row)       -- rows delivered to each iterator so far

def Machine.start {σ ι} (m : Machine σ ι) : RunState σ ι := { shared := m.init, iters := [], outs := [] }

def Machine.apply {σ ι} (m : Machine σ ι) (s : RunState σ ι) : SOp → RunState σ ι
  | .new =>
    let (sh, it) := m.newIter s.shared
    { shared := sh, iters := s.iters ++ [it], outs := s.outs ++ [[]] }
  | .next i =>
    match s.iters[i]? with
    | none => s
    | some it =>
      let (sh, it', r) := m.step s.shared it
      { shared := sh, iters := s.iters.set i it',
        outs := match r with
          | some row => s.outs.set i ((s.outs.getD i []) ++ [row])
          | none => s.outs }

def Machine.run {σ ι} (m : Machine σ ι) (sched : List SOp) : RunState σ ι :=
  sched.foldl m.apply m.start

/-! ### CacheView (petl.util.materialise.cache) -/

structure CacheShared where
  cache : List Row
  complete : Bool

inductive CacheIter where
  | fromCache (pos : Nat)       -- `for row in self.cache` (a live list iterator)
  | fromInner (pos : Nat)       -- `islice(iter(inner), len(cache), None)` at position pos
  | done

def cacheRoom (n : Option Nat) (s : CacheShared) : Bool :=
  match n with | none => true | some k => decide (s.cache.length < k)

/-- `guard = true` is the repaired loop (a row is appended only if it is the next uncached one);
    `guard = false` is the loop as it was (every filling iterator appends) -/
def cacheShouldAppend (guard : Bool) (n : Option Nat) (s : CacheShared) (i : Nat) : Bool :=
  cacheRoom n s && (!guard || s.cache.length == i)

def cacheStepInner (guard : Bool) (inner : List Row) (n : Option Nat) (s : CacheShared) (i : Nat) :
    CacheShared × CacheIter × Option Row :=
  match inner[i]? with
  | some row =>
    ((if cacheShouldAppend guard n s i then { s with cache := s.cache ++ [row] } else s), .fromInner (i + 1), some row)
  | none =>
    ((if cacheRoom n s then { s with complete := true } else s), .done, none)

def cacheMachine (guard : Bool) (inner : List Row) (n : Option Nat) : Machine CacheShared CacheIter where
  init := { cache := [], complete := false }
  newIter := fun s => (s, .fromCache 0)
  step := fun s it =>
    match it with
    | .done => (s, .done, none)
    | .fromInner i => cacheStepInner guard inner n s i
    | .fromCache p =>
      match s.cache[p]? with
      | some row => (s, .fromCache (p + 1), some row)
      | none =>
        if s.complete then (s, .done, none)
        else cacheStepInner guard inner n s s.cache.length

/-! ### fromdicts on a generator (petl.io.json.DictsGeneratorView): a one-shot source, an
    append-only spill log shared by all iterators, a private position per iterator -/

structure GenShared where
  remaining : List Row        -- what the generator has not produced yet
  log : List Row              -- rows spilled to the cache file so far

def dictsGenMachine (rows : List Row) : Machine GenShared Nat where
  init := { remaining := rows, log := [] }
  newIter := fun s => (s, 0)
  step := fun s pos =>
    match s.log[pos]? with
    | some row => (s, pos + 1, some row)
    | none =>
      match s.remaining with
      | [] => (s, pos, none)
      | r :: rest => ({ remaining := rest, log := s.log ++ [r] }, s.log.length + 1, some r)

/-! ### SortView cache protocol (repaired: cached data are bound when the iterator is created) -/

inductive SortIter where
  | pending                    -- `_iternocache` generator not started
  | afterHeader                -- header delivered; sorting happens at the next `next`
  | cursor (rest : List Row)   -- delivering sorted rows (own or bound from the cache)
  | done

/-- shared = the cached complete output, if any; `out` = header :: sorted data rows of the source -/
def sortViewMachine (cacheOn : Bool) (out : List Row) : Machine (Option (List Row)) SortIter where
  init := none
  newIter := fun s =>
    match cacheOn, s with
    | true, some rows => (s, .cursor rows)
    | _, _ => (s, .pending)
  step := fun s it =>
    match it with
    | .pending =>
      -- clearcache(); yield header
      match out with
      | [] => (none, .done, none)
      | hdr :: _ => (none, .afterHeader, some hdr)
    | .afterHeader =>
      -- sort the source, fill the cache, deliver the first row
      let s' := if cacheOn then some out else s
      match out.drop 1 with
      | [] => (s', .done, none)
      | r :: rest => (s', .cursor rest, some r)
    | .cursor [] => (s, .done, none)
    | .cursor (r :: rest) => (s, .cursor rest, some r)
    | .done => (s, .done, none)

/-- the iterator as it was: the cached header/rows are read from the shared state lazily, at the
    first `next` (so another iterator's clearcache in between breaks it) -/
inductive SortIterOld where
  | pending | afterHeader | fromCachePending | cursor (rest : List Row) | done | crashed

def sortViewMachineOld (out : List Row) : Machine (Option (List Row)) SortIterOld where
  init := none
  newIter := fun s =>
    match s with
    | some _ => (s, .fromCachePending)
    | none => (s, .pending)
  step := fun s it =>
    match it with
    | .pending => (match out with | [] => (none, .done, none) | hdr :: _ => (none, .afterHeader, some hdr))
    | .afterHeader => (match out.drop 1 with | [] => (some out, .done, none) | r :: rest => (some out, .cursor rest, some r))
    | .fromCachePending =>
      (match s with
       | some (hdr :: rest) => (s, .cursor rest, some hdr)
       | _ => (s, .crashed, none))          -- tuple(None): TypeError
    | .cursor [] => (s, .done, none)
    | .cursor (r :: rest) => (s, .cursor rest, some r)
    | .done => (s, .done, none)
    | .crashed => (s, .crashed, none)

/-- a view without shared state: every iterator is a private cursor over the same rows -/
def pureMachine (rows : List Row) : Machine Unit (List Row) where
  init := ()
  newIter := fun _ => ((), rows)
  step := fun _ it => match it with | [] => ((), [], none) | r :: rest => ((), rest, some r)

end Petl
