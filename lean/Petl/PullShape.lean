/-
  Petl.PullShape — the "pull shape" of a generator function: how its `yield`s interleave with the
  rows it takes from a source iterator (`next(it)`, `for row in it`).

  `translators/pullshape.py` regenerates one `PS` program per generator function of petl
  (lean/Petl/Gen/PullShapes.lean).  `Run p tr` is the (over-approximating) set of event traces of a
  complete run; every actual execution — including one abandoned by the consumer, ended by `return`,
  or cut short by an exception — is a prefix of such a trace.  `bound p = some (n, k)` is a static
  upper bound: over complete runs, pulls − yields ≤ n, and over every prefix, pulls − yields ≤ k.
  So a function with `bound = some (_, k)` has pulled at most `j + k` source rows when it delivers
  its `j`-th row: it can never scan ahead (PetlProofs/Props/C02Shape.lean).
-/
namespace Petl.PullShape

inductive Ev where
  | pull | yld
  deriving DecidableEq, Repr

inductive PS where
  | skip
  | pull                       -- one row taken from a source iterator
  | yld                        -- one row delivered
  | opq                        -- source handed to code this analysis does not follow
  | seq (a b : PS)
  | branch (a b : PS)          -- if / else, conditional expression
  | forSrc (body : PS)         -- `for row in it: body` — every iteration takes one source row first
  | loop (body : PS)           -- any other loop: zero or more rounds of `body`
  | tryS (body handler : PS)   -- `try: body except: handler` — the body may stop at any point
  deriving DecidableEq, Repr

inductive Run : PS → List Ev → Prop where
  | skip : Run .skip []
  | pull : Run .pull [.pull]
  | yld : Run .yld [.yld]
  | opq (tr : List Ev) : Run .opq tr
  | seq {a b t1 t2} : Run a t1 → Run b t2 → Run (.seq a b) (t1 ++ t2)
  | brL {a b t} : Run a t → Run (.branch a b) t
  | brR {a b t} : Run b t → Run (.branch a b) t
  | forNil {b} : Run (.forSrc b) []
  | forCons {b t1 t2} : Run b t1 → Run (.forSrc b) t2 → Run (.forSrc b) (.pull :: (t1 ++ t2))
  | loopNil {b} : Run (.loop b) []
  | loopCons {b t1 t2} : Run b t1 → Run (.loop b) t2 → Run (.loop b) (t1 ++ t2)
  | tryOk {b h t} : Run b t → Run (.tryS b h) t
  | tryExc {b h t p t2} : Run b t → p <+: t → Run h t2 → Run (.tryS b h) (p ++ t2)

def delta : Ev → Int
  | .pull => 1
  | .yld => -1

/-- pulls − yields over a whole trace -/
def net : List Ev → Int
  | [] => 0
  | e :: t => delta e + net t

/-- the largest pulls − yields over all prefixes of a trace (the empty prefix gives 0) -/
def peak : List Ev → Int
  | [] => 0
  | e :: t => max 0 (delta e + peak t)

def pulls (tr : List Ev) : Nat := tr.count .pull
def ylds (tr : List Ev) : Nat := tr.count .yld

/-- static bound: `(n, k)` with net ≤ n over complete runs and peak ≤ k; `none` = no bound derived -/
def bound : PS → Option (Int × Int)
  | .skip => some (0, 0)
  | .pull => some (1, 1)
  | .yld => some (-1, 0)
  | .opq => none
  | .seq a b =>
    match bound a, bound b with
    | some (na, pa), some (nb, pb) => some (na + nb, max pa (na + pb))
    | _, _ => none
  | .branch a b =>
    match bound a, bound b with
    | some (na, pa), some (nb, pb) => some (max na nb, max pa pb)
    | _, _ => none
  | .forSrc b =>
    match bound b with
    | some (nb, pb) => if 1 + nb ≤ 0 then some (0, max 0 (1 + pb)) else none
    | none => none
  | .loop b =>
    match bound b with
    | some (nb, pb) => if nb ≤ 0 then some (0, max 0 pb) else none
    | none => none
  | .tryS b h =>
    match bound b, bound h with
    | some (nb, pb), some (nh, ph) => some (max nb (pb + nh), pb + max 0 ph)
    | _, _ => none

/-- does the program hand a source to code the analysis does not follow? -/
def hasOpaque : PS → Bool
  | .opq => true
  | .seq a b | .branch a b | .tryS a b => hasOpaque a || hasOpaque b
  | .forSrc b | .loop b => hasOpaque b
  | _ => false

/-- does the program take rows from a source at all? -/
def hasPull : PS → Bool
  | .pull | .forSrc _ => true
  | .seq a b | .branch a b | .tryS a b => hasPull a || hasPull b
  | .loop b => hasPull b
  | _ => false

/-- what the expected table records for one function: the look-ahead `k` (if bounded), whether it is opaque -/
def summary (p : PS) : Option Int × Bool := ((bound p).map (·.2), hasOpaque p)

end Petl.PullShape
