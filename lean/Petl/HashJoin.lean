/-
  Petl.HashJoin — model of petl.util.lookups (lookup / lookupone) and petl.transform.hashjoins.

  A Python dict on the hashable value domain is modelled as an insertion-ordered association list
  whose key equality is `Val.eq` (Python `==`; 1 == 1.0 == True share one slot).
-/
import Petl.Join
namespace Petl

variable {β : Type}

abbrev Dict (β : Type) := List (Val × β)

def Dict.get (d : Dict β) (k : Val) : Option β := (d.find? (fun e => Val.eq e.1 k)).map (·.2)
def Dict.contains (d : Dict β) (k : Val) : Bool := d.any (fun e => Val.eq e.1 k)

/-- `if k in d: d[k].append(v) else: d[k] = [v]` -/
def lookupInsert (d : Dict (List β)) (k : Val) (v : β) : Dict (List β) :=
  match d with
  | [] => [(k, [v])]
  | (k', vs) :: rest =>
    if Val.eq k' k then (k', vs ++ [v]) :: rest else (k', vs) :: lookupInsert rest k v

/-- `lookup(table, key, value)`: every key ↦ all its values in table order -/
def buildLookup (key : Row → Val) (value : Row → β) (rows : List Row) : Dict (List β) :=
  rows.foldl (fun d r => lookupInsert d (key r) (value r)) []

/-- `lookupone(table, key, value, strict)`: first value wins; strict raises on the first repeat -/
def buildLookupOne (key : Row → Val) (value : Row → β) (strict : Bool) :
    List Row → Dict β → Except Err (Dict β)
  | [], d => .ok d
  | r :: rest, d =>
    if d.contains (key r) then
      if strict then .error .duplicateKey else buildLookupOne key value strict rest d
    else buildLookupOne key value strict rest (d ++ [(key r, value r)])

/-- the same with raw `itemgetter` key/value extraction that raises IndexError on short rows:
    the value is only extracted for a key that is not yet present -/
def buildLookupOneE (key : Row → Except Err Val) (value : Row → Except Err β) (strict : Bool) :
    List Row → Dict β → Except Err (Dict β)
  | [], d => .ok d
  | r :: rest, d =>
    match key r with
    | .error e => .error e
    | .ok k =>
      if d.contains k then
        if strict then .error .duplicateKey else buildLookupOneE key value strict rest d
      else
        match value r with
        | .error e => .error e
        | .ok v => buildLookupOneE key value strict rest (d ++ [(k, v)])

/-! ### hash joins: build a lookup on one side, stream the other -/

def hashInner (ops : JoinOps) (kl kr : Row → Val) (L R : List Row) : List Row :=
  let d := buildLookup kr id R
  L.flatMap (fun l => match d.get (kl l) with
    | some rs => rs.map (fun r => ops.pair l r)
    | none => [])

def hashLeft (ops : JoinOps) (kl kr : Row → Val) (L R : List Row) : List Row :=
  let d := buildLookup kr id R
  L.flatMap (fun l => match d.get (kl l) with
    | some rs => rs.map (fun r => ops.pair l r)
    | none => [ops.padL l])

def hashRight (ops : JoinOps) (kl kr : Row → Val) (L R : List Row) : List Row :=
  let d := buildLookup kl id L
  R.flatMap (fun r => match d.get (kr r) with
    | some ls => ls.map (fun l => ops.pair l r)
    | none => [ops.padR r])

/-- `rkeys = set(...)`; left rows whose key is not in it -/
def hashAnti (kl kr : Row → Val) (L R : List Row) : List Row :=
  let keys := R.map kr
  L.filter (fun l => !(keys.any (fun k => Val.eq k (kl l))))

def hashLookup (ops : JoinOps) (kl kr : Row → Val) (L R : List Row) : List Row :=
  match buildLookupOne kr id false R [] with
  | .error _ => []
  | .ok d =>
    L.map (fun l => match d.get (kl l) with
      | some r => ops.pair l r
      | none => ops.padL l)

/-- hashjoin / hashleftjoin / hashrightjoin / hashantijoin / hashlookupjoin on tables with headers -/
def hashJoinView (kind : JoinKind) (missing : Val) (lprefix rprefix : Option (List Nat))
    (lkey rkey : List FSpec) (L R : Table) : Out :=
  match L, R with
  | lhdr :: lrows, rhdr :: rrows =>
    match asindices lhdr lkey, asindices rhdr rkey with
    | .error e, _ => .fail (if kind == .anti then [lhdr] else []) e
    | .ok _, .error e => .fail (if kind == .anti then [lhdr] else []) e
    | .ok lkind, .ok rkind =>
      let lw := lhdr.length
      let rw := rhdr.length
      let ls := if kind == .anti then lrows else stackRows lw missing lrows
      let rs := if kind == .anti then rrows else stackRows rw missing rrows
      let rv := rvind rw rkind
      let ops := petlJoinOps lw lkind rkind rv missing
      let kl := getKey lkind
      let kr := getKey rkind
      let outhdr := prefixHdr lprefix lhdr ++ prefixHdr rprefix (pickIdx rv rhdr)
      match kind with
      | .inner => .ok (outhdr :: hashInner ops kl kr ls rs)
      | .left => .ok (outhdr :: hashLeft ops kl kr ls rs)
      | .right => .ok (outhdr :: hashRight ops kl kr ls rs)
      | .outer => .fail [] .arg
      | .anti =>
        -- raw itemgetter keys: a row too short for the key is an IndexError
        if (rrows.any (fun r => rkind.any (fun i => r.length ≤ i))) then .fail [lhdr] .index
        else
          let out := hashAnti kl kr ls rs
          match ls.findIdx? (fun l => lkind.any (fun i => l.length ≤ i)) with
          | some j => .fail (lhdr :: hashAnti kl kr (ls.take j) rs) .index
          | none => .ok (lhdr :: out)
      | .lookup => .ok (outhdr :: hashLookup ops kl kr ls rs)
  | _, _ => .fail [] .runtime

end Petl
