/-
  Petl.Group — model of rowgroupby and the grouping operators of petl.transform.reductions
  (aggregate simple/multi/key=None, rowreduce-based groupselect*, fold, mergeduplicates).
-/
import Petl.Join
namespace Petl

/-- named aggregation functions shared with the harness -/
inductive AggFn where
  | len | list | sum | min | max | first | last
deriving DecidableEq, Repr, Inhabited

def asInt? : Val → Option Int
  | .num .int (.fin q) => if q.den = 1 then some q.num else none
  | _ => none

def intVal (i : Int) : Val := .num .int (.fin (i : Rat))

def AggFn.apply (f : AggFn) (vs : List Val) : Except Err Val :=
  match f with
  | .len => .ok (intVal vs.length)
  | .list => .ok (.seq true vs)
  | .first => match vs with | v :: _ => .ok v | [] => .error .stopIteration
  | .last => match vs.getLast? with | some v => .ok v | none => .ok .none
  | .sum =>
    match vs.mapM asInt? with
    | some is => .ok (intVal is.sum)
    | none => .error .type
  | .min =>
    if let [v] := vs then .ok v else
    match vs.mapM asInt? with
    | some (i :: is) => .ok (intVal (is.foldl (fun a b => if b < a then b else a) i))
    | some [] => .error .value
    | none => .error .type
  | .max =>
    if let [v] := vs then .ok v else
    match vs.mapM asInt? with
    | some (i :: is) => .ok (intVal (is.foldl (fun a b => if a < b then b else a) i))
    | some [] => .error .value
    | none => .error .type

/-- `key.inner` spread into output cells: one cell for a single key field, the tuple's items otherwise -/
def keyCells (kidx : List Nat) (k : Val) : Row :=
  match kidx, k with
  | [_], v => [v]
  | _, .seq _ xs => xs
  | _, v => [v]

/-- `operator.itemgetter(*idx)` on a `Record` (rowgroupby wraps rows): a missing cell reads as None -/
def rawGet (idx : List Nat) (r : Row) : Except Err Val :=
  .ok (match idx with
    | [i] => getCell r i
    | _ => .seq false (idx.map (getCell r)))

/-- the values handed to an aggregation: whole rows (as tuples) or the selected field(s) -/
def groupValues (vidx : Option (List Nat)) (g : List Row) : Except Err (List Val) :=
  match vidx with
  | none => .ok (g.map (fun r => .seq false r))
  | some idx => g.mapM (rawGet idx)

/-- run a per-group row producer over the groups, stopping at the first error (rows before it are delivered) -/
def mapGroups (f : Val × List Row → Except Err Row) : List (Val × List Row) → List Row × Option Err
  | [] => ([], none)
  | g :: gs =>
    match f g with
    | .error e => ([], some e)
    | .ok r => let (rs, e) := mapGroups f gs; (r :: rs, e)

def mkOut (hdr : Row) (res : List Row × Option Err) : Out :=
  { rows := hdr :: res.1, err := res.2 }

def sortedGroups (kidx : List Nat) (bs : Option Nat) (rows : List Row) : List (Val × List Row) :=
  groups (getKey kidx) (sortRows (rowLe kidx false) bs rows)

/-- `aggregate(table, key, aggregation, value)` with a key (simple form); output field name `field` -/
def simpleAggregate (keyHdr : Row) (field : Val) (kidx : List Nat) (vidx : Option (List Nat)) (f : AggFn)
    (bs : Option Nat) (rows : List Row) : Out :=
  mkOut (keyHdr ++ [field]) (mapGroups (fun g => do
    let vs ← groupValues vidx g.2
    let a ← f.apply vs
    pure (keyCells kidx g.1 ++ [a])) (sortedGroups kidx bs rows))

/-- one column of a multi-aggregation: source field indices (none = whole rows) and function -/
structure AggCol where
  src : Option (List Nat)
  fn : AggFn

def multiAggregate (outHdr : Row) (kidx : Option (List Nat)) (cols : List AggCol)
    (bs : Option Nat) (rows : List Row) : Out :=
  let gs : List (Val × List Row) :=
    match kidx with
    | some k => sortedGroups k bs rows
    | none => if rows.isEmpty then [] else [(.none, rows)]
  mkOut outHdr (mapGroups (fun g => do
    let cells ← cols.mapM (fun c => do
      let vs ← groupValues c.src g.2
      c.fn.apply vs)
    pure ((match kidx with | some k => keyCells k g.1 | none => []) ++ cells)) gs)

/-- groupselectfirst / groupselectlast -/
def groupSelect (last : Bool) (hdr : Row) (kidx : List Nat) (bs : Option Nat) (rows : List Row) : Out :=
  mkOut hdr (mapGroups (fun g =>
    match (if last then g.2.getLast? else g.2.head?) with
    | some r => .ok r
    | none => .error .stopIteration) (sortedGroups kidx bs rows))

/-- groupselectmin / groupselectmax: sort by the value field first (stable), then first of each key group -/
def groupSelectExt (max : Bool) (hdr : Row) (kidx vidx : List Nat) (bs : Option Nat) (rows : List Row) : Out :=
  groupSelect false hdr kidx bs (sortRows (rowLe vidx max) none rows)

/-- `fold(table, key, operator.add, value)` on integer values -/
def foldAdd (kidx : List Nat) (vidx : List Nat) (bs : Option Nat) (rows : List Row) : Out :=
  mkOut [.str [107, 101, 121], .str [118, 97, 108, 117, 101]] (mapGroups (fun g => do
    let vs ← groupValues (some vidx) g.2
    if let [v] := vs then pure [g.1, v] else
    match vs.mapM asInt? with
    | some (i :: is) => pure [g.1, intVal (is.foldl (· + ·) i)]
    | some [] => .error .type
    | none => .error .type) (sortedGroups kidx bs rows))

/-- distinct values (first representative kept), as a Python set of hashable cells does -/
def dedupVals : List Val → List Val
  | [] => []
  | v :: vs => v :: (dedupVals vs).filter (fun w => !Val.eq v w)

/-- mergeduplicates: per key group and value field, the set of non-missing values:
    one value ↦ it, none ↦ missing, several ↦ Conflict (printed as a list, order-insensitive) -/
def mergeDuplicates (outHdr : Row) (kidx : List Nat) (vfidx : List Nat) (missing : Val)
    (bs : Option Nat) (rows : List Row) : Out :=
  mkOut outHdr (mapGroups (fun g =>
    let cells := vfidx.map (fun i =>
      let vals := dedupVals ((g.2.filter (fun r => i < r.length)).map (fun r => getCell r i)
                    |>.filter (fun v => !Val.pyEq v missing))
      match vals with
      | [] => missing
      | [v] => v
      | vs => .seq true vs)
    .ok (keyCells kidx g.1 ++ cells)) (sortedGroups kidx bs rows))

end Petl
