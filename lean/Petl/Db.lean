/-
  Petl.Db — model of todb / appenddb against a transactional DB-API connection.
-/
import Petl.Fields
namespace Petl

structure Db where
  committed : List Row            -- what a fresh connection sees
  pending : Option (List Row)     -- contents inside the open transaction of petl's connection, if any
deriving Inhabited

inductive DbOp where
  | delete            -- cursor.execute('DELETE FROM t')
  | insert (r : Row)  -- one row consumed by cursor.executemany(INSERT …)
  | commit
  | close             -- connection.close(): an open transaction is rolled back
deriving Inhabited

def Db.apply (d : Db) : DbOp → Db
  | .delete => { d with pending := some [] }
  | .insert r => { d with pending := some (d.pending.getD d.committed ++ [r]) }
  | .commit => { committed := d.pending.getD d.committed, pending := none }
  | .close => { d with pending := none }

def Db.run (d : Db) (ops : List DbOp) : Db := ops.foldl Db.apply d

/-- the operations a load issues.
    `truncate`: todb (True) or appenddb (False); `commit`: the commit flag; `closes`: petl opened the
    connection itself (file name handle) and closes it in `finally`;
    `failAt`: none = the source never fails; some 0 = it fails at the header; some (k+1) = it fails
    when data row k is requested (k = nrows: at exhaustion) -/
def loadOps (truncate commit closes : Bool) (rows : List Row) (failAt : Option Nat) : List DbOp :=
  let tail := if closes then [DbOp.close] else []
  match failAt with
  | some 0 => tail
  | some (k + 1) =>
    (if truncate then [DbOp.delete] else []) ++ (rows.take k).map DbOp.insert ++ tail
  | none =>
    (if truncate then [DbOp.delete] else []) ++ rows.map DbOp.insert ++
      (if commit then [DbOp.commit] else []) ++ tail

def DbOp.show : DbOp → String
  | .delete => "DELETE" | .insert _ => "INSERT" | .commit => "COMMIT" | .close => "CLOSE"

end Petl
