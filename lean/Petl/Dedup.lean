/-
  Petl.Dedup — model of petl.transform.dedup: the run detectors of duplicates / unique /
  distinct / conflicts over the key-sorted table, with exactly the state the Python loops carry.
-/
import Petl.Group
namespace Petl

/-- `iterduplicates`: state = previous row, previous_yielded -/
def dupAux (key : Row → Val) (prev : Row) (yielded : Bool) : List Row → List Row
  | [] => []
  | row :: rest =>
    if Val.eq (key prev) (key row) then
      (if yielded then [] else [prev]) ++ row :: dupAux key row true rest
    else dupAux key row false rest

def dupRows (key : Row → Val) : List Row → List Row
  | [] => []
  | r :: rest => dupAux key r false rest

/-- `iterunique`: state = prev, prev_comp_ne -/
def uniqAux (key : Row → Val) (prev : Row) (prevNe : Bool) : List Row → List Row
  | [] => if prevNe then [prev] else []
  | curr :: rest =>
    let currNe := !Val.eq (key curr) (key prev)
    (if prevNe && currNe then [prev] else []) ++ uniqAux key curr currNe rest

def uniqRows (key : Row → Val) : List Row → List Row
  | [] => []
  | r :: rest => uniqAux key r true rest

/-- `distinct` without count: state = previous_keys -/
def distAux (key : Row → Val) (prevKey : Option Val) : List Row → List Row
  | [] => []
  | row :: rest =>
    let keep := match prevKey with | none => true | some k => !Val.eq (key row) k
    (if keep then [row] else []) ++ distAux key (some (key row)) rest

def distinctRows (key : Row → Val) (rows : List Row) : List Row := distAux key none rows

/-- `distinct(count=…)`: state = previous (first row of the run), n_dup -/
def distCountAux (key : Row → Val) (prev : Row) (n : Nat) : List Row → List Row
  | [] => [prev ++ [intVal n]]
  | row :: rest =>
    if Val.eq (key prev) (key row) then distCountAux key prev (n + 1) rest
    else (prev ++ [intVal n]) :: distCountAux key row 1 rest

def distinctCountRows (key : Row → Val) : List Row → List Row
  | [] => []
  | r :: rest => distCountAux key r 1 rest

/-- do two rows of one key group conflict on some selected field? (`missing not in (x, y) and x != y`) -/
def conflictOn (sel : Nat → Bool) (missing : Val) (a b : Row) : Bool :=
  ((a.zip b).zipIdx.any (fun ((x, y), i) =>
    sel i && !(Val.pyEq missing x || Val.pyEq missing y) && !Val.pyEq x y))

/-- `iterconflicts` -/
def confAux (key : Row → Val) (sel : Nat → Bool) (missing : Val) (prev : Row) (yielded : Bool) :
    List Row → List Row
  | [] => []
  | row :: rest =>
    if Val.eq (key prev) (key row) then
      if conflictOn sel missing prev row then
        (if yielded then [] else [prev]) ++ row :: confAux key sel missing row true rest
      else confAux key sel missing row yielded rest
    else confAux key sel missing row false rest

def confRows (key : Row → Val) (sel : Nat → Bool) (missing : Val) : List Row → List Row
  | [] => []
  | r :: rest => confAux key sel missing r false rest

/-- `isunique`: a seen-set over the values -/
def isUniqueAux (seen : List Val) : List Val → Bool
  | [] => true
  | v :: vs => if seen.any (fun s => Val.eq s v) then false else isUniqueAux (v :: seen) vs

def isUniqueVals (vs : List Val) : Bool := isUniqueAux [] vs

inductive DedupOp where
  | duplicates | unique | distinct | distinctCount (field : Val) | conflicts (sel : List Nat) (missing : Val)

/-- the views: key=None means all fields; raw itemgetter keys raise IndexError on short rows -/
def dedupView (op : DedupOp) (key : Option (List FSpec)) (bs : Option Nat) (t : Table) : Out :=
  match t with
  | [] => .ok []
  | hdr :: rows =>
    let idx? : Except Err (List Nat) :=
      match key with
      | some k => asindices hdr k
      | none => if hdr.isEmpty then .error .type else .ok (List.range hdr.length)
    let outHdr := match op with | .distinctCount f => hdr ++ [f] | _ => hdr
    match idx? with
    | .error e => match op with
      | .distinct => .fail [] e
      | .distinctCount _ => .fail [] e
      | _ => .fail [hdr] e
    | .ok idx =>
      let sorted := sortRows (rowLe idx false) bs rows
      -- `iterduplicates` / `iterconflicts` / `distinct(count=…)` only evaluate the raw key once there is a second row
      let keyed : Bool := match op with
        | .duplicates => decide (2 ≤ sorted.length)
        | .conflicts _ _ => decide (2 ≤ sorted.length)
        | .distinctCount _ => decide (2 ≤ sorted.length)
        | _ => true
      if keyed && sorted.any (fun r => idx.any (fun i => r.length ≤ i)) then .fail [outHdr] .index else
      let k := getKey idx
      match op with
      | .duplicates => .ok (hdr :: dupRows k sorted)
      | .unique => .ok (hdr :: uniqRows k sorted)
      | .distinct => .ok (hdr :: distinctRows k sorted)
      | .distinctCount _ => .ok (outHdr :: distinctCountRows k sorted)
      | .conflicts sel missing => .ok (hdr :: confRows k (fun i => sel.contains i) missing sorted)

end Petl
