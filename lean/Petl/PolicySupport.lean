/-
  Petl.PolicySupport — vocabulary for the generated failonerror ladders (translators/policy.py).
-/
import Petl.ErrPolicy
namespace Petl.Gen
open Petl

inductive PCond where
  | isInline      -- failonerror == 'inline'
  | truthy        -- failonerror        ('inline' and True are truthy, False is not)
  | otherwise     -- else
deriving DecidableEq, Repr

inductive PAct where
  | deliverExc | reraise | errorvalue | drop
deriving DecidableEq, Repr

def PCond.holds : PCond → Policy → Bool
  | .isInline, p => p == .inline
  | .truthy, p => p == .inline || p == .raise
  | .otherwise, _ => true

/-- the action the if-chain takes under a policy: the first branch whose condition holds -/
def ladderAct : List (PCond × PAct) → Policy → PAct
  | [], _ => .drop
  | (c, a) :: rest, p => if c.holds p then a else ladderAct rest p

end Petl.Gen
