/-
  Petl.Reshape — models of petl.transform.reshape (melt, recast, transpose, pivot, flatten,
  unflatten), petl.transform.unpacks (unpack, unpackdict), the row assembly of capture / split /
  splitdown (regex results supplied), and the dicts/columns round trips.
-/
import Petl.Basics
namespace Petl

/-- `melt`: one output row per (row, variable) cell; a missing variable cell yields no row,
    a missing key cell is an IndexError -/
def meltRow (kidx : List Nat) (vars : List (Nat × Val)) (r : Row) : Except Err (List Row) :=
  if kidx.any (fun i => r.length ≤ i) then .error .index
  else .ok (vars.filterMap (fun (i, name) =>
    if i < r.length then some (kidx.map (getCell r) ++ [name, getCell r i]) else none))

def meltRows (kidx : List Nat) (vars : List (Nat × Val)) : List Row → List Row × Option Err
  | [] => ([], none)
  | r :: rs =>
    match meltRow kidx vars r with
    | .error e => ([], some e)
    | .ok out => let (rest, e) := meltRows kidx vars rs; (out ++ rest, e)

/-- `recast` of a long table (key fields, one variable field, one value field) -/
def recastRows (kidx : List Nat) (vari vali : Nat) (variables : List Val) (missing : Val)
    (bs : Option Nat) (rows : List Row) : List Row :=
  (sortedGroups kidx bs rows).map (fun g =>
    (match g.2 with | r :: _ => kidx.map (getCell r) | [] => []) ++
    variables.map (fun v =>
      match (g.2.filter (fun r => Val.pyEq (getCell r vari) v)).map (fun r => getCell r vali) with
      | [] => missing
      | [x] => x
      | xs => .seq true xs))

/-- `transpose`: row i of the output is column i of the whole table (header row included) -/
def transposeT (t : Table) : Table :=
  (List.range (t.headD []).length).map (fun i => t.map (fun r => getCell r i))

/-- `flatten`: the data cells row by row -/
def flattenVals (rows : List Row) : List Val := rows.flatten

/-- the loop of `unflatten`: fill a row up to `period` cells, emit it when the next value arrives -/
def unflattenLoop (period : Nat) (missing : Val) (cur : Row) : List Val → List Row
  | [] => if cur.isEmpty then [] else [cur ++ List.replicate (period - cur.length) missing]
  | v :: vs =>
    if cur.length < period then unflattenLoop period missing (cur ++ [v]) vs
    else cur :: unflattenLoop period missing [v] vs

def unflattenRows (period : Nat) (missing : Val) (vals : List Val) : List Row :=
  unflattenLoop period missing [] vals

/-- `pivot` on data sorted by (f1, f2): one row per f1 value, one column per distinct f2 value -/
def pivotRows (f1i f2i f3i : Nat) (f2vals : List Val) (agg : AggFn) (missing : Val)
    (bs : Option Nat) (rows : List Row) : List Row × Option Err :=
  let sorted := sortRows (rowLe [f1i, f2i] false) bs rows
  mapGroups (fun g1 => do
    let g2s := groups (fun r => getCell r f2i) g1.2
    let cells ← f2vals.mapM (fun v2 =>
      match g2s.find? (fun g2 => Val.pyEq g2.1 v2) with
      | none => Except.ok missing
      | some g2 => agg.apply (g2.2.map (fun r => getCell r f3i)))
    pure (g1.1 :: cells)) (groups (fun r => getCell r f1i) sorted)

/-- `unpack`: the cell at `fi` must be a sequence; its first `n` items (padded) are appended -/
def unpackRow (fi : Nat) (n : Nat) (includeOriginal : Bool) (missing : Val) (r : Row) : Except Err Row :=
  if r.length ≤ fi then .error .index else
  match getCell r fi with
  | .seq _ xs =>
    let base := if includeOriginal then r else r.eraseIdx fi
    .ok (if n = 0 then base else base ++ (xs.take n ++ List.replicate (n - xs.length) missing))
  | .str s =>
    -- a str is a sequence of 1-character strings
    let xs : List Val := s.map (fun c => .str [c])
    let base := if includeOriginal then r else r.eraseIdx fi
    .ok (if n = 0 then base else base ++ (xs.take n ++ List.replicate (n - xs.length) missing))
  | _ => .error .type

/-- rows assembled by capture / split (regex results supplied per row) -/
def expandRow (fi : Nat) (includeOriginal : Bool) (r : Row) (parts : List Val) : Row :=
  (if includeOriginal then r else r.eraseIdx fi) ++ parts

/-- `splitdown`: one output row per part, the part in place of the field, other cells unchanged -/
def splitdownRow (w fi : Nat) (r : Row) (parts : List Val) : List Row :=
  parts.map (fun p => (List.range w).map (fun i => if i = fi then p else getCell r i))

/-- dict lookup in a dict coded as a sequence of (key, value) pairs -/
def dictGet (d : Val) (k : Val) : Option Val :=
  match d with
  | .seq _ items => (items.find? (fun it => match it with
      | .seq _ [k', _] => Val.pyEq k' k | _ => false)).bind (fun it => match it with
      | .seq _ [_, v] => some v | _ => none)
  | _ => none

def unpackdictRow (fi : Nat) (keys : List Val) (includeOriginal : Bool) (missing : Val) (r : Row) : Row :=
  (if includeOriginal then r else r.eraseIdx fi) ++ keys.map (fun k => (dictGet (getCell r fi) k).getD missing)

/-- `fromcolumns(cols)`: zip_longest of the columns -/
def fromColumnsRows (missing : Val) (cols : List (List Val)) : List Row :=
  let n := (cols.map List.length).foldl max 0
  (List.range n).map (fun i => cols.map (fun c => c.getD i missing))

end Petl
