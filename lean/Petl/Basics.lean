/-
  Petl.Basics — models of the row/field level transforms of petl.transform.basics, headers, fills
  and the accessors of petl.util.base / materialise (data rows only unless stated; headers
  are computed alongside).
-/
import Petl.ErrPolicy
namespace Petl

variable {α : Type}

/-- Python `list.insert(i, x)`: negative indices count from the end, out-of-range clamps -/
def pyInsertPos (n : Nat) (i : Int) : Nat :=
  if i < 0 then (if (n : Int) + i < 0 then 0 else ((n : Int) + i).toNat) else min i.toNat n

def pyInsert (l : List α) (i : Option Int) (x : α) : List α :=
  let j := match i with | none => l.length | some i => pyInsertPos l.length i
  l.take j ++ x :: l.drop j

/-- `movefield`: the positions of the output fields — the field at `fidx` taken out and put back at `i` (Python's
    `list.insert`), every other position kept in order -/
def moveFieldIdx (n fidx : Nat) (i : Int) : List Nat :=
  pyInsert ((List.range n).filter (fun j => j != fidx)) (some i) fidx

/-- a cell read with padding -/
def padGet (missing : Val) (r : Row) (i : Nat) : Val := r.getD i missing

/-- `cut` / `cutout` / `sortheader` / `movefield` data rows: pick the given indices, padding short rows -/
def pickRows (idx : List Nat) (missing : Val) (rows : List Row) : List Row :=
  rows.map (fun r => idx.map (padGet missing r))

def cutView (spec : List FSpec) (missing : Val) (t : Table) : Out :=
  let hdr := t.headD []
  match asindices hdr spec with
  | .error e => .fail [] e
  | .ok idx => .ok (idx.map (padGet .none hdr) :: pickRows idx missing (t.drop 1))

def cutoutView (spec : List FSpec) (missing : Val) (t : Table) : Out :=
  let hdr := t.headD []
  match asindices hdr spec with
  | .error e => .fail [] e
  | .ok out =>
    let idx := (List.range hdr.length).filter (fun i => !out.contains i)
    .ok (idx.map (padGet .none hdr) :: pickRows idx missing (t.drop 1))

/-- index of the first header cell equal (raw ==) to `h` -/
def hdrIndex (hdr : Row) (h : Val) : Option Nat := hdr.findIdx? (fun c => Val.pyEq c h)

/-- `cat`: output header = union of the headers in order of first appearance; cells aligned by name -/
def catHeader (hdrs : List Row) : Row :=
  hdrs.foldl (fun out hdr => hdr.foldl (fun o h => if o.any (fun c => Val.pyEq c h) then o else o ++ [h]) out) []

def catRows (outhdr : Row) (missing : Val) (t : Table) : List Row :=
  let hdr := t.headD []
  (t.drop 1).map (fun r => outhdr.map (fun h =>
    match hdrIndex hdr h with
    | some i => padGet missing r i
    | none => missing))

def catView (missing : Val) (header : Option Row) (ts : List Table) : Out :=
  let outhdr := match header with | some h => h | none => catHeader (ts.map (fun t => t.headD []))
  .ok (outhdr :: (ts.map (catRows outhdr missing)).flatten)

/-- `stack(*tables, missing, trim, pad)` -/
def stackRow (w : Nat) (missing : Val) (trim pad : Bool) (r : Row) : Row :=
  let r1 := if trim then r.take w else r
  if pad && r1.length < w then r1 ++ List.replicate (w - r1.length) missing else r1

def stackView (missing : Val) (trim pad : Bool) (ts : List Table) : Out :=
  match ts with
  | [] => .fail [] .index
  | t0 :: _ =>
    let hdr := t0.headD []
    .ok (hdr :: (ts.map (fun t => (t.drop 1).map (stackRow hdr.length missing trim pad))).flatten)

/-- `annex`: tables side by side; shorter tables padded with rows of `missing` -/
def annexRows (missing : Val) : Nat → List (Nat × List Row) → List Row
  | 0, _ => []
  | n + 1, parts =>
    if parts.all (fun p => p.2.isEmpty) then [] else
    ((parts.map (fun p => match p.2 with
        | [] => List.replicate p.1 missing
        | r :: _ => squareRow p.1 missing r)).flatten)
      :: annexRows missing n (parts.map (fun p => (p.1, p.2.drop 1)))

def annexView (missing : Val) (ts : List Table) : Out :=
  let hdrs := ts.map (fun t => t.headD [])
  let parts := ts.map (fun t => ((t.headD []).length, t.drop 1))
  let n := (parts.map (fun p => p.2.length)).foldl max 0
  .ok (hdrs.flatten :: annexRows missing n parts)

/-- value of an added field: a constant or a catalogue function of the (squared) row -/
inductive FieldVal where
  | const (v : Val)
  | rowLen                 -- lambda row: len(row)
  | cellPlus (i : Nat)     -- lambda row: [row[i]]  (wraps the cell in a list)

def FieldVal.eval (f : FieldVal) (r : Row) : Val :=
  match f with
  | .const v => v
  | .rowLen => intVal r.length
  | .cellPlus i => .seq true [getCell r i]

/-- `addfield(table, field, value, index, missing)`: square up, then `insert` -/
def addfieldView (field : Val) (value : FieldVal) (index : Option Int) (missing : Val) (t : Table) : Out :=
  let hdr := t.headD []
  .ok (pyInsert hdr index field ::
       (t.drop 1).map (fun r => let r' := squareRow hdr.length missing r; pyInsert r' index (value.eval r')))

/-- `addfields`: the definitions are inserted one after the other -/
def addfieldsView (defs : List (Val × FieldVal × Option Int)) (missing : Val) (t : Table) : Out :=
  let hdr := t.headD []
  let outhdr := defs.foldl (fun h d => pyInsert h d.2.2 d.1) hdr
  .ok (outhdr :: (t.drop 1).map (fun r =>
        let r0 := squareRow hdr.length missing r
        defs.foldl (fun o d => pyInsert o d.2.2 (d.2.1.eval r0)) r0))

/-- `addrownumbers(table, start, step, field)` -/
def addrownumbersRows (start step : Int) : Nat → List Row → List Row
  | _, [] => []
  | k, r :: rs => (intVal (start + step * k) :: r) :: addrownumbersRows start step (k + 1) rs

def addrownumbersView (start step : Int) (field : Val) (t : Table) : Out :=
  .ok ((field :: t.headD []) :: addrownumbersRows start step 0 (t.drop 1))

/-- `addcolumn(table, field, col, index, missing)`: zip_longest of rows and column values -/
def addcolumnRows (w : Nat) (index : Option Int) (missing : Val) : List Row → List Val → List Row
  | [], [] => []
  | r :: rs, [] => pyInsert r index missing :: addcolumnRows w index missing rs []
  | [], v :: vs => pyInsert (List.replicate w missing) index v :: addcolumnRows w index missing [] vs
  | r :: rs, v :: vs => pyInsert r index v :: addcolumnRows w index missing rs vs

def addcolumnView (field : Val) (col : List Val) (index : Option Int) (missing : Val) (t : Table) : Out :=
  let hdr := t.headD []
  -- `if index is None: index = len(hdr)`: the position is fixed by the header, also for ragged rows
  let index' : Option Int := some (index.getD hdr.length)
  .ok (pyInsert hdr index' field :: addcolumnRows hdr.length index' missing (t.drop 1) col)

/-! ### header functions -/

def setheaderView (header : Row) (t : Table) : Out := .ok (header :: t.drop 1)
def extendheaderView (fields : Row) (t : Table) : Out := .ok ((t.headD [] ++ fields) :: t.drop 1)
def pushheaderView (header : Row) (t : Table) : Out := .ok (header :: t)

def prefixCell (p : List Nat) (c : Val) : Val := match c with | .str s => .str (p ++ s) | v => v
def suffixCell (p : List Nat) (c : Val) : Val := match c with | .str s => .str (s ++ p) | v => v

def prefixheaderView (p : List Nat) (t : Table) : Out :=
  match t with | [] => .ok [] | hdr :: rows => .ok (hdr.map (prefixCell p) :: rows)
def suffixheaderView (p : List Nat) (t : Table) : Out :=
  match t with | [] => .ok [] | hdr :: rows => .ok (hdr.map (suffixCell p) :: rows)

/-- `rename(table, spec)`: spec maps field names (or indices) to new names; index has priority -/
def renameView (spec : List (FSpec × Val)) (strict : Bool) (t : Table) : Out :=
  let hdr := t.headD []
  let bad := spec.any (fun s => match s.1 with
    | .idx i => decide (hdr.length ≤ i)
    | .name n => !hdr.any (fun c => Val.pyEq c (.str n)))
  if strict && bad then .fail [] .fieldSelection else
  let outhdr := hdr.zipIdx.map (fun (c, i) =>
    match spec.find? (fun s => s.1 == .idx i) with
    | some s => s.2
    | none => match spec.find? (fun s => match s.1, c with | .name n, .str m => n == m | _, _ => false) with
      | some s => s.2
      | none => c)
  .ok (outhdr :: t.drop 1)

/-! ### fills -/

def filldownRows (idx : List Nat) (missing : Val) : Row → List Row → List Row
  | _, [] => []
  | fill, r :: rs =>
    let out := r.zipIdx.map (fun (c, i) => if idx.contains i && Val.pyEq c missing then padGet .none fill i else c)
    let fill' := fill.zipIdx.map (fun (f, i) => if idx.contains i && !Val.pyEq (padGet missing r i) missing then padGet .none r i else f)
    out :: filldownRows idx missing fill' rs

/-- `fillright` on one row, left to right -/
def fillrightRow (missing : Val) : Option Val → Row → Row
  | _, [] => []
  | none, c :: cs => c :: fillrightRow missing (some c) cs
  | some p, c :: cs =>
    let c' := if Val.pyEq c missing && !Val.pyEq p missing then p else c
    c' :: fillrightRow missing (some c') cs

def fillleftRow (missing : Val) (r : Row) : Row := (fillrightRow missing none r.reverse).reverse

/-! ### accessors -/

/-- `values(table, field, missing)` -/
def valuesOf (idx : List Nat) (missing : Val) (rows : List Row) : List Val :=
  rows.map (fun r => match idx with
    | [i] => padGet missing r i
    | _ => .seq false (idx.map (padGet missing r)))

/-- `dicts` / `records` / `namedtuples`: each row as its header-width padded form -/
def recordsOf (w : Nat) (missing : Val) (rows : List Row) : List Row := rows.map (squareRow w missing)

/-- `columns(table, missing)` -/
def columnsOf (w : Nat) (missing : Val) (rows : List Row) : List (List Val) :=
  (List.range w).map (fun j => rows.map (fun r => padGet missing r j))

end Petl
