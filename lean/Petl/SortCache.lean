/-
  Petl.SortCache — the cache clause of sort (and of every operator built on it): histories of
  "edit the source" and "iterate the view to the end".
-/
import Petl.Sort
namespace Petl

structure SCState where
  src : List Row                       -- current contents of the source (data rows)
  cache : Option (List Row) := none    -- output of a completed pass, if cached
deriving Inhabited

inductive SCOp where
  | edit (rows : List Row)     -- the source container is changed
  | pass                       -- a complete iteration of the view

/-- one operation: new state, what the pass yielded (none for an edit), source rows read -/
def scStep (cacheOn : Bool) (sortOf : List Row → List Row) (s : SCState) : SCOp → SCState × Option (List Row) × Nat
  | .edit rows => ({ s with src := rows }, none, 0)
  | .pass =>
    match cacheOn, s.cache with
    | true, some out => (s, some out, 0)
    | _, _ =>
      let out := sortOf s.src
      ({ s with cache := if cacheOn then some out else none }, some out, s.src.length)

def scRun (cacheOn : Bool) (sortOf : List Row → List Row) (s : SCState) (ops : List SCOp) :
    SCState × List (Option (List Row) × Nat) :=
  ops.foldl (fun (acc : SCState × List (Option (List Row) × Nat)) op =>
    let r := scStep cacheOn sortOf acc.1 op
    (r.1, acc.2 ++ [(r.2.1, r.2.2)])) (s, [])

end Petl
