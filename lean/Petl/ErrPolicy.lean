/-
  Petl.ErrPolicy — model of the failonerror policy of convert / fieldmap / rowmap / rowmapmany.
  Converters and mappers are arbitrary functions that may fail (`Except Err _`).
-/
import Petl.Select
namespace Petl

inductive Policy where
  | suppress    -- failonerror=False
  | raise       -- failonerror=True
  | inline      -- failonerror='inline'
deriving DecidableEq, Repr, Inhabited

abbrev Conv := Val → Except Err Val

/-- an exception object delivered in a cell: identified by its class only -/
def excName : Err → String
  | .value => "ValueError" | .type => "TypeError" | .key => "KeyError" | .index => "IndexError"
  | .fieldSelection => "FieldSelectionError" | .duplicateKey => "DuplicateKeyError"
  | .stopIteration => "StopIteration" | .runtime => "RuntimeError" | .assertion => "AssertionError"
  | .arg => "ArgumentError"

def excVal (e : Err) : Val := .str (("EXC:" ++ excName e).toList.map Char.toNat)

/-- `transform_value(i, v)` -/
def transformValue (pol : Policy) (errorvalue : Val) (conv : Option Conv) (v : Val) : Except Err Val :=
  match conv with
  | none => .ok v
  | some c =>
    match c v with
    | .ok w => .ok w
    | .error e =>
      match pol with
      | .inline => .ok (excVal e)
      | .raise => .error e
      | .suppress => .ok errorvalue

/-- cells left to right; the first failing cell under `raise` aborts the row -/
def transformCells (pol : Policy) (errorvalue : Val) (convs : Nat → Option Conv) : Nat → Row → Except Err Row
  | _, [] => .ok []
  | i, v :: vs =>
    match transformValue pol errorvalue (convs i) v with
    | .error e => .error e
    | .ok w => (transformCells pol errorvalue convs (i + 1) vs).map (w :: ·)

/-- data rows of `convert`: rows delivered, then possibly the exception -/
def convertRows (pol : Policy) (errorvalue : Val) (convs : Nat → Option Conv) : List Row → List Row × Option Err
  | [] => ([], none)
  | r :: rs =>
    match transformCells pol errorvalue convs 0 r with
    | .error e => ([], some e)
    | .ok r' => let (out, e) := convertRows pol errorvalue convs rs; (r' :: out, e)

/-- `fieldmap`: one mapping function per output field, applied to the whole row -/
def fieldmapRow (pol : Policy) (errorvalue : Val) : List (Row → Except Err Val) → Row → Except Err Row
  | [], _ => .ok []
  | f :: fs, r =>
    match (match f r with
           | .ok w => Except.ok w
           | .error e => match pol with
             | .inline => .ok (excVal e) | .raise => .error e | .suppress => .ok errorvalue) with
    | .error e => .error e
    | .ok w => (fieldmapRow pol errorvalue fs r).map (w :: ·)

def fieldmapRows (pol : Policy) (errorvalue : Val) (fs : List (Row → Except Err Val)) : List Row → List Row × Option Err
  | [] => ([], none)
  | r :: rs =>
    match fieldmapRow pol errorvalue fs r with
    | .error e => ([], some e)
    | .ok r' => let (out, e) := fieldmapRows pol errorvalue fs rs; (r' :: out, e)

/-- `rowmap` -/
def rowmapRows (pol : Policy) (f : Row → Except Err Row) : List Row → List Row × Option Err
  | [] => ([], none)
  | r :: rs =>
    match f r with
    | .ok r' => let (out, e) := rowmapRows pol f rs; (r' :: out, e)
    | .error e =>
      match pol with
      | .raise => ([], some e)
      | .inline => let (out, e') := rowmapRows pol f rs; ([excVal e] :: out, e')
      | .suppress => rowmapRows pol f rs

/-- `rowmapmany`: the generator yields some rows and may then fail -/
def rowmapmanyRows (pol : Policy) (f : Row → List Row × Option Err) : List Row → List Row × Option Err
  | [] => ([], none)
  | r :: rs =>
    match f r with
    | (produced, none) => let (out, e) := rowmapmanyRows pol f rs; (produced ++ out, e)
    | (produced, some e) =>
      match pol with
      | .raise => (produced, some e)
      | .inline => let (out, e') := rowmapmanyRows pol f rs; (produced ++ [excVal e] :: out, e')
      | .suppress => let (out, e') := rowmapmanyRows pol f rs; (produced ++ out, e')

/-- the views read the global default when they are constructed, not when they are iterated -/
structure PolicyView where
  stored : Policy

def PolicyView.make (arg : Option Policy) (configAtConstruction : Policy) : PolicyView :=
  { stored := arg.getD configAtConstruction }

def PolicyView.policyAtIteration (v : PolicyView) (_configAtIteration : Policy) : Policy := v.stored

/-- catalogue converter shared with the harness: fails (with `e`) on the values of `fs`, wraps others in a list -/
def failOn (fs : List Val) (e : Err) : Conv :=
  fun v => if fs.any (fun x => Val.pyEq x v) then .error e else .ok (.seq true [v])

end Petl
