/-
  Petl.TempFiles — ownership of the temporary files of an external sort (SortView) and of the
  spill file behind fromdicts on a generator.

  Files are owned by reference-counted wrappers (`_NamedTempFileDeleteOnGC`).  Holders of a
  wrapper: the view's `_filecache`, the frame of a running `_iternocache` generator (its local
  `chunkfiles`), the frame of an `_iterfromfilecache` generator.  Every live generator also keeps
  the view object itself alive (bound method).  A file exists exactly as long as some holder is
  reachable; `gc` below removes the files nobody holds.
-/
import Petl.Views
namespace Petl

inductive TFIter where
  | pending                                  -- `_iternocache` not started
  | afterHeader                              -- header delivered
  | running (chunks : List Nat) (pos : Nat)  -- merging its own chunk files, `pos` rows delivered
  | fromFile (chunks : List Nat) (pos : Nat) -- `_iterfromfilecache`, bound to the cached chunk files
  | fromMem (pos : Nat)                      -- in-memory paths (no files)
  | dead                                     -- exhausted, failed, or released
deriving Inhabited

structure TFState where
  nextId : Nat := 0
  files : List Nat := []            -- files present in the temp directory
  userHoldsView : Bool := true
  viewCache : Option (List Nat) := none    -- `self._filecache`
  memCached : Bool := false                -- `self._memcache is not None`
  iters : List TFIter := []
deriving Inhabited

/-- parameters of one sort view over a source of `nrows` data rows that fails when row `failAt` is read -/
structure TFParams where
  nrows : Nat
  buffersize : Nat          -- ≥ 1
  cache : Bool
  failAt : Option Nat       -- none: the source never fails; some j: raises when data row j is requested
                            --   (j = nrows: at exhaustion)

def TFIter.alive : TFIter → Bool
  | .dead => false
  | _ => true

def TFIter.held : TFIter → List Nat
  | .running cs _ => cs
  | .fromFile cs _ => cs
  | _ => []

/-- the view object is reachable from the user or from any live generator frame -/
def TFState.viewReachable (s : TFState) : Bool := s.userHoldsView || s.iters.any TFIter.alive

def TFState.holders (s : TFState) : List Nat :=
  (if s.viewReachable then (s.viewCache.getD []) else []) ++ (s.iters.map TFIter.held).flatten

/-- reference counting: files nobody holds are unlinked -/
def TFState.gc (s : TFState) : TFState := { s with files := s.files.filter (fun f => s.holders.contains f) }

def TFParams.chunked (p : TFParams) : Bool := decide (p.buffersize ≤ p.nrows)
/-- number of data rows that can be read before the source raises (nrows + 1: never) -/
def TFParams.readable (p : TFParams) : Nat := match p.failAt with | none => p.nrows + 1 | some j => j
def TFParams.nchunks (p : TFParams) : Nat := (p.nrows + p.buffersize - 1) / p.buffersize

inductive TFOp where
  | new | next (i : Nat) | drop (i : Nat) | dropView
deriving Repr

/-- result of a `next`: number of the data row delivered (0 = header), stop, or the source's exception -/
inductive TFOut where
  | none | row (k : Nat) | stop | raised | crash
deriving DecidableEq, Repr

def tfStep (p : TFParams) (s : TFState) : TFOp → TFState × TFOut
  | .new =>
    -- a new iterator can only be obtained by someone who still holds the view
    if !s.userHoldsView then (s, .none) else
    let it : TFIter :=
      if p.cache && s.memCached then .fromMem 0
      else match p.cache, s.viewCache with
        | true, some cs => .fromFile cs 0
        | _, _ => .pending
    ({ s with iters := s.iters ++ [it] }.gc, .none)
  | .drop i => ({ s with iters := s.iters.set i .dead }.gc, .none)
  | .dropView => ({ s with userHoldsView := false }.gc, .none)
  | .next i =>
    match s.iters[i]? with
    | Option.none => (s, .none)
    | some it =>
      match it with
      | .dead => (s, .stop)
      | .pending =>
        -- clearcache(); next(source) for the header
        let s1 := { s with viewCache := Option.none, memCached := false }
        ({ s1 with iters := s1.iters.set i .afterHeader }.gc, .row 0)
      | .afterHeader =>
        -- read the source, sort; in memory or via chunk files
        if p.chunked then
          if p.readable ≤ p.nrows then
            -- the source raises while the chunks are being read: the frame dies with its chunk files
            let created := p.readable / p.buffersize
            let s1 := { s with nextId := s.nextId + created, iters := s.iters.set i .dead }
            (s1.gc, .raised)
          else
            let cs := (List.range p.nchunks).map (· + s.nextId)
            let s1 := { s with nextId := s.nextId + p.nchunks, files := s.files ++ cs,
                               viewCache := if p.cache then some cs else s.viewCache }
            if p.nrows = 0 then ({ s1 with iters := s1.iters.set i .dead }.gc, .stop)
            else ({ s1 with iters := s1.iters.set i (.running cs 1) }.gc, .row 1)
        else
          if p.readable ≤ p.nrows then ({ s with iters := s.iters.set i .dead }.gc, .raised)
          else
            let s1 := { s with memCached := p.cache }
            if p.nrows = 0 then ({ s1 with iters := s1.iters.set i .dead }.gc, .stop)
            else ({ s1 with iters := s1.iters.set i (.fromMem 2) }.gc, .row 1)
      | .running cs pos =>
        if pos < p.nrows then ({ s with iters := s.iters.set i (.running cs (pos + 1)) }.gc, .row (pos + 1))
        else ({ s with iters := s.iters.set i .dead }.gc, .stop)
      | .fromFile cs pos =>
        -- reads the chunk files by name: they must still exist
        if cs.all (fun c => s.files.contains c) then
          if pos = 0 then ({ s with iters := s.iters.set i (.fromFile cs 1) }.gc, .row 0)
          else if pos ≤ p.nrows then ({ s with iters := s.iters.set i (.fromFile cs (pos + 1)) }.gc, .row pos)
          else ({ s with iters := s.iters.set i .dead }.gc, .stop)
        else ({ s with iters := s.iters.set i .dead }.gc, .crash)
      | .fromMem pos =>
        if pos ≤ p.nrows then ({ s with iters := s.iters.set i (.fromMem (pos + 1)) }.gc, .row pos)
        else ({ s with iters := s.iters.set i .dead }.gc, .stop)

def tfRun (p : TFParams) (ops : List TFOp) : TFState × List TFOut :=
  ops.foldl (fun (acc : TFState × List TFOut) op =>
    let (s', o) := tfStep p acc.1 op
    (s', acc.2 ++ [o])) ({}, [])

end Petl
