/-
  Petl.SelSupport — vocabulary for the generated table of comparison selectors
  (translators/selectors.py -> Petl/Gen/Selectors.lean): the lambda each `select*` function of
  petl/transform/selects.py hands to `select`, as an expression over the cell `v` and the reference
  values, and what Python makes of it.
-/
import Petl.Val
namespace Petl.Gen
open Petl

inductive COp where
  | eq | ne | lt | le | gt | ge
deriving DecidableEq, Repr

/-- an operand of a comparison: the cell (possibly wrapped by `Comparable(v)` inside the lambda) or the
    i-th reference argument (wrapped when the function body rebinds it to `Comparable(..)` first) -/
inductive Operand where
  | cell (wrapped : Bool)
  | ref (i : Nat) (wrapped : Bool)
deriving DecidableEq, Repr

inductive SExpr where
  | cmp (a : Operand) (op : COp) (b : Operand)                          -- a op b
  | chain (a : Operand) (op1 : COp) (b : Operand) (op2 : COp) (c : Operand)  -- a op1 b op2 c = (a op1 b) and (b op2 c)
  | isNone | isNotNone            -- v is None / v is not None
  | truthy | notTruthy            -- bool(v) / not bool(v)
  | isIn (i : Nat) | notIn (i : Nat)   -- v in ref_i / v not in ref_i
  | unsupported (what : String)   -- identity / isinstance / contains: outside the value domain of the model
deriving DecidableEq, Repr

def Operand.value (refs : List Val) (v : Val) : Operand → Val
  | .cell _ => v
  | .ref i _ => refs.getD i .none

def Operand.isWrapped : Operand → Bool
  | .cell w => w
  | .ref _ w => w

/-- Python's `x op y`: with a `Comparable` on the left its method decides; with a raw value on the left and a
    `Comparable` on the right the builtin returns NotImplemented and the reflected method of the right operand
    decides; two raw values are only compared with == / != here -/
def evalCmp (x : Val) (xw : Bool) (op : COp) (y : Val) (yw : Bool) : Option Bool :=
  if xw then
    some (match op with
      | .eq => Val.eq x y | .ne => !Val.eq x y
      | .lt => Val.lt x y | .le => Val.le x y | .gt => Val.gt x y | .ge => Val.ge x y)
  else if yw then
    some (match op with
      | .eq => Val.eq y x | .ne => !Val.eq y x
      | .lt => Val.gt y x | .le => Val.ge y x | .gt => Val.lt y x | .ge => Val.le y x)
  else
    match op with
    | .eq => some (Val.pyEq x y)
    | .ne => some (!Val.pyEq x y)
    | _ => none

def SExpr.eval (refs : List Val) (v : Val) : SExpr → Option Bool
  | .cmp a op b => evalCmp (a.value refs v) a.isWrapped op (b.value refs v) b.isWrapped
  | .chain a op1 b op2 c =>
    match evalCmp (a.value refs v) a.isWrapped op1 (b.value refs v) b.isWrapped,
          evalCmp (b.value refs v) b.isWrapped op2 (c.value refs v) c.isWrapped with
    | some p, some q => some (p && q)
    | _, _ => none
  | .isNone => some (Val.pyEq v .none)
  | .isNotNone => some (!Val.pyEq v .none)
  | .truthy => some v.truthy
  | .notTruthy => some (!v.truthy)
  | .isIn i => match refs.getD i .none with
    | .seq _ xs => some (xs.any (fun x => Val.pyEq x v))
    | _ => none
  | .notIn i => match refs.getD i .none with
    | .seq _ xs => some (!xs.any (fun x => Val.pyEq x v))
    | _ => none
  | .unsupported _ => none

end Petl.Gen
