/-
  Petl.Heap — ownership discipline of a row-handling function body (property C03).

  A tiny imperative IR over object references.  The only facts that matter for "never modify the
  inputs or rows already delivered" are: which objects did this function allocate itself (copies,
  literals), which of them has it already handed out (yielded, returned, or stored into another
  object), and which objects does it write to in place.

  Concrete semantics: an event log of `alloc / release / write` over object ids; `okLog` says every
  write hits an object allocated by the function and not yet released.
  Abstract semantics: `analyze`, a flow-sensitive must-own analysis; `safe p = (analyze p [] ≠ none)`.
-/
namespace Petl.Heap

inductive Prog where
  | skip
  | bindExt (x : Nat)                 -- x := something that is not ours (parameter, item of an iterator, attribute, subscript)
  | bindFresh (x : Nat) (site : Nat)  -- x := a newly allocated object (list(...), tuple(...), literal, comprehension, a + b)
  | bindVar (x y : Nat)               -- x := y
  | bindUnknown (x : Nat)             -- x := result of something the translator does not understand
  | mutate (x : Nat)                  -- in-place write to the object x refers to (append, x[i] = v, sort, del x[i], +=)
  | release (x : Nat)                 -- the object leaves our hands: yield x, return x, or x stored into another object
  | seq (p q : Prog)
  | branch (p q : Prog)                  -- either (if/else, try/except, early exit)
  | loop (p : Prog)                      -- zero or more times
deriving Repr, Inhabited, DecidableEq

/-! ### concrete semantics -/

inductive Ev where
  | alloc (o : Nat)
  | release (o : Nat)
  | write (o : Nat)
deriving Repr, DecidableEq

structure HState where
  env : Nat → Nat             -- variable ↦ object id (unbound variables point at some foreign object)
  tag : Nat → Nat             -- object id ↦ allocation site
  owned : List Nat            -- allocated here and not yet released
  next : Nat                  -- ids from here on are unused
  log : List Ev               -- oldest first

def upd (env : Nat → Nat) (x : Nat) (o : Nat) : Nat → Nat := fun y => if y = x then o else env y

inductive Exec : Prog → HState → HState → Prop where
  | skip (s) : Exec .skip s s
  | bindExt (s x o) : o < s.next → o ∉ s.owned → Exec (.bindExt x) s { s with env := upd s.env x o }
  | bindFresh (s x n) : Exec (.bindFresh x n) s
      { env := upd s.env x s.next, tag := fun o => if o = s.next then n else s.tag o,
        owned := s.next :: s.owned, next := s.next + 1, log := s.log ++ [.alloc s.next] }
  | bindVar (s x y) : Exec (.bindVar x y) s { s with env := upd s.env x (s.env y) }
  | bindUnknown (s x o) : o < s.next → Exec (.bindUnknown x) s { s with env := upd s.env x o }
  | mutate (s x) : Exec (.mutate x) s { s with log := s.log ++ [.write (s.env x)] }
  | release (s x) : Exec (.release x) s
      { s with owned := s.owned.filter (· ≠ s.env x), log := s.log ++ [.release (s.env x)] }
  | seq (p q s t u) : Exec p s t → Exec q t u → Exec (.seq p q) s u
  | branchL (p q s t) : Exec p s t → Exec (.branch p q) s t
  | branchR (p q s t) : Exec q s t → Exec (.branch p q) s t
  | loopDone (p s) : Exec (.loop p) s s
  | loopStep (p s t u) : Exec p s t → Exec (.loop p) t u → Exec (.loop p) s u

/-- the trace property: every in-place write hits an object that the function allocated itself and
    has not yet released (yielded / returned / stored away).  `own` = objects owned at the start. -/
def okLog : List Nat → List Ev → Bool
  | _, [] => true
  | own, .alloc o :: es => okLog (o :: own) es
  | own, .release o :: es => okLog (own.filter (· ≠ o)) es
  | own, .write o :: es => own.contains o && okLog own es

def ownedAfter : List Nat → List Ev → List Nat
  | own, [] => own
  | own, .alloc o :: es => ownedAfter (o :: own) es
  | own, .release o :: es => ownedAfter (own.filter (· ≠ o)) es
  | own, .write _ :: es => ownedAfter own es

/-! ### abstract semantics -/

inductive AVal where
  | own (site : Nat)     -- refers to an object we own, allocated at `site`
  | ext                  -- refers to an object we do not own (and never will)
  | maybe (site : Nat)   -- either foreign, or owned and allocated at `site` (join of the two above)
deriving DecidableEq, Repr

/-- `w.le v`: `w` is at least as precise as `v` -/
def AVal.le : AVal → AVal → Bool
  | .own n, .maybe m => n == m
  | .ext, .maybe _ => true
  | w, v => w == v

/-- least upper bound, if there is one -/
def AVal.join (v w : AVal) : Option AVal :=
  if v = w then some v else
  match v, w with
  | .own n, .ext => some (.maybe n)
  | .ext, .own n => some (.maybe n)
  | .own n, .maybe m => if n = m then some (.maybe n) else none
  | .maybe m, .own n => if n = m then some (.maybe n) else none
  | .ext, .maybe n => some (.maybe n)
  | .maybe n, .ext => some (.maybe n)
  | _, _ => none

abbrev Abs := List (Nat × AVal)

def Abs.get (a : Abs) (x : Nat) : Option AVal := (a.find? (·.1 = x)).map (·.2)
def Abs.drop (a : Abs) (x : Nat) : Abs := a.filter (·.1 ≠ x)
def Abs.set (a : Abs) (x : Nat) (v : AVal) : Abs := (x, v) :: a.drop x
/-- an object allocated at `site` has been released: a variable known to own a `site` object may be that very object -/
def Abs.dropSite (a : Abs) (n : Nat) : Abs := a.map (fun f => if f.2 = .own n then (f.1, .maybe n) else f)
/-- some object we cannot identify has been released: every ownership claim becomes a "maybe" -/
def Abs.dropOwn (a : Abs) : Abs := a.map (fun f => match f.2 with | .own k => (f.1, .maybe k) | _ => f)
/-- facts implied by both -/
def Abs.meet (a b : Abs) : Abs :=
  a.filterMap (fun f => match b.get f.1 with
    | some w => (f.2.join w).map (fun u => (f.1, u))
    | none => none)
/-- every fact of `a` is implied by `b` -/
def Abs.sub (a b : Abs) : Bool :=
  a.all (fun f => match b.get f.1 with
    | some w => w.le f.2
    | none => false)

/-- find an invariant for a loop body by weakening until stable; `none` if the body is unsafe or fuel runs out -/
def loopInv (f : Abs → Option Abs) : Nat → Abs → Option Abs
  | 0, _ => none
  | fuel + 1, inv =>
    match f inv with
    | none => none
    | some out => if inv.sub out then some inv else loopInv f fuel (inv.meet out)

def analyze : Prog → Abs → Option Abs
  | .skip, a => some a
  | .bindExt x, a => some (a.set x .ext)
  | .bindFresh x n, a => some (a.set x (.own n))
  | .bindVar x y, a =>
    match a.get y with
    | some v => some (a.set x v)
    | none => some (a.drop x)
  | .bindUnknown x, a => some (a.drop x)
  | .mutate x, a =>
    match a.get x with
    | some (.own _) => some a
    | _ => none
  | .release x, a =>
    match a.get x with
    | some (.own n) => some (a.dropSite n)
    | some (.maybe n) => some (a.dropSite n)
    | some .ext => some a
    | none => some a.dropOwn
  | .seq p q, a => (analyze p a).bind (analyze q)
  | .branch p q, a =>
    match analyze p a, analyze q a with
    | some b, some c => some (b.meet c)
    | _, _ => none
  | .loop p, a => loopInv (analyze p) (2 * a.length + 2) a

def safe (p : Prog) : Bool := (analyze p []).isSome

end Petl.Heap
