/-
  Petl.Join — model of petl.transform.joins: sort-merge join family.

  `mergeGroups` is the merge loop of `iterjoin` over the key groups that `itertools.groupby`
  forms on the two key-sorted inputs: three branches (left key smaller / right key smaller /
  equal) and the two tails.  `nl*` are the relational definitions (nested loops).
-/
import Petl.Sort
namespace Petl

/-- `stack(table, missing)` on the data rows: pad/trim to the header's width -/
def stackRows (w : Nat) (missing : Val) (rows : List Row) : List Row := rows.map (squareRow w missing)

/-- `itertools.groupby(rows, key)`: maximal runs of adjacent rows with equal keys,
    each labelled with the key of its first row -/
def groups (key : Row → Val) : List Row → List (Val × List Row)
  | [] => []
  | r :: rest =>
    match groups key rest with
    | (k, g) :: gs => if Val.eq (key r) k then (key r, r :: g) :: gs else (key r, [r]) :: (k, g) :: gs
    | [] => [(key r, [r])]

/-- parameters of one join: how to combine / pad rows -/
structure JoinOps where
  pair : Row → Row → Row          -- matched left row, right row
  padL : Row → Row                -- unmatched left row
  padR : Row → Row                -- unmatched right row

def crossRows (ops : JoinOps) (lg rg : List Row) : List Row :=
  lg.flatMap (fun l => rg.map (fun r => ops.pair l r))

/-- the merge loop of `iterjoin` -/
def mergeGroups (ops : JoinOps) (lo ro : Bool) :
    List (Val × List Row) → List (Val × List Row) → List Row
  | [], rs => if ro then rs.flatMap (fun g => g.2.map ops.padR) else []
  | l :: ls, [] => if lo then (l :: ls).flatMap (fun g => g.2.map ops.padL) else []
  | (lk, lg) :: ls, (rk, rg) :: rs =>
    if Val.lt lk rk then
      (if lo then lg.map ops.padL else []) ++ mergeGroups ops lo ro ls ((rk, rg) :: rs)
    else if Val.gt lk rk then
      (if ro then rg.map ops.padR else []) ++ mergeGroups ops lo ro ((lk, lg) :: ls) rs
    else
      crossRows ops lg rg ++ mergeGroups ops lo ro ls rs
termination_by ls rs => ls.length + rs.length

/-- the merge loop of `iterantijoin`: left groups without a partner -/
def antiGroups : List (Val × List Row) → List (Val × List Row) → List Row
  | [], _ => []
  | l :: ls, [] => (l :: ls).flatMap (fun g => g.2)
  | (lk, lg) :: ls, (rk, rg) :: rs =>
    if Val.lt lk rk then lg ++ antiGroups ls ((rk, rg) :: rs)
    else if Val.gt lk rk then antiGroups ((lk, lg) :: ls) rs
    else antiGroups ls rs
termination_by ls rs => ls.length + rs.length

/-- the merge loop of `iterlookupjoin`: each left row with the first row of the matching right group -/
def lookupGroups (ops : JoinOps) : List (Val × List Row) → List (Val × List Row) → List Row
  | [], _ => []
  | l :: ls, [] => (l :: ls).flatMap (fun g => g.2.map ops.padL)
  | (lk, lg) :: ls, (rk, rg) :: rs =>
    if Val.lt lk rk then lg.map ops.padL ++ lookupGroups ops ls ((rk, rg) :: rs)
    else if Val.gt lk rk then lookupGroups ops ((lk, lg) :: ls) rs
    else (match rg with
          | [] => lg.map ops.padL
          | r :: _ => lg.map (fun l => ops.pair l r)) ++ lookupGroups ops ls rs
termination_by ls rs => ls.length + rs.length

/-! ### relational definitions -/

def nlInner (ops : JoinOps) (kl kr : Row → Val) (L R : List Row) : List Row :=
  L.flatMap (fun l => (R.filter (fun r => Val.eq (kl l) (kr r))).map (fun r => ops.pair l r))

/-- left rows without any partner -/
def unmatchedL (kl kr : Row → Val) (L R : List Row) : List Row :=
  L.filter (fun l => !(R.any (fun r => Val.eq (kl l) (kr r))))

def unmatchedR (kl kr : Row → Val) (L R : List Row) : List Row :=
  R.filter (fun r => !(L.any (fun l => Val.eq (kl l) (kr r))))

/-- left outer join in nested-loop form: each left row followed by its partners, or padded -/
def nlLeft (ops : JoinOps) (kl kr : Row → Val) (L R : List Row) : List Row :=
  L.flatMap (fun l =>
    let ms := R.filter (fun r => Val.eq (kl l) (kr r))
    if ms.isEmpty then [ops.padL l] else ms.map (fun r => ops.pair l r))

def nlLookup (ops : JoinOps) (kl kr : Row → Val) (L R : List Row) : List Row :=
  L.map (fun l =>
    match R.find? (fun r => Val.eq (kl l) (kr r)) with
    | some r => ops.pair l r
    | none => ops.padL l)

/-! ### the concrete row operations of `iterjoin` -/

def pickIdx (idx : List Nat) (r : Row) : Row := idx.map (getCell r)

/-- indices of the right table's non-key fields -/
def rvind (rw : Nat) (rkind : List Nat) : List Nat := (List.range rw).filter (fun i => !rkind.contains i)

def setCells (row : Row) : List (Nat × Val) → Row
  | [] => row
  | (i, v) :: rest => setCells (row.set i v) rest

def petlJoinOps (lw : Nat) (lkind rkind rv : List Nat) (missing : Val) : JoinOps where
  pair := fun l r => l ++ pickIdx rv r
  padL := fun l => l ++ List.replicate rv.length missing
  padR := fun r => setCells (List.replicate lw missing) (lkind.zip (pickIdx rkind r)) ++ pickIdx rv r

def prefixHdr (p : Option (List Nat)) (hdr : Row) : Row :=
  match p with
  | none => hdr
  | some p => hdr.map (fun f => match f with | .str s => .str (p ++ s) | v => v)

inductive JoinKind where
  | inner | left | right | outer | anti | lookup
deriving DecidableEq, Repr

/-- join / leftjoin / rightjoin / outerjoin / antijoin / lookupjoin on tables with headers -/
def joinView (kind : JoinKind) (missing : Val) (lprefix rprefix : Option (List Nat))
    (lkey rkey : List FSpec) (bs : Option Nat) (L R : Table) : Out :=
  match L, R with
  | lhdr :: lrows, rhdr :: rrows =>
    match asindices lhdr lkey, asindices rhdr rkey with
    | .error e, _ => .fail (if kind == .anti then [lhdr] else []) e
    | .ok _, .error e => .fail (if kind == .anti then [lhdr] else []) e
    | .ok lkind, .ok rkind =>
      let lw := lhdr.length
      let rw := rhdr.length
      -- antijoin does not square up its inputs
      let ls := if kind == .anti then lrows else stackRows lw missing lrows
      let rs := if kind == .anti then rrows else stackRows rw missing rrows
      let lsorted := sortRows (rowLe lkind false) bs ls
      let rsorted := sortRows (rowLe rkind false) bs rs
      let lg := groups (getKey lkind) lsorted
      let rg := groups (getKey rkind) rsorted
      let rv := rvind rw rkind
      let ops := petlJoinOps lw lkind rkind rv missing
      let outhdr := prefixHdr lprefix lhdr ++ prefixHdr rprefix (pickIdx rv rhdr)
      match kind with
      | .inner => .ok (outhdr :: mergeGroups ops false false lg rg)
      | .left => .ok (outhdr :: mergeGroups ops true false lg rg)
      | .right => .ok (outhdr :: mergeGroups ops false true lg rg)
      | .outer => .ok (outhdr :: mergeGroups ops true true lg rg)
      | .anti => .ok (lhdr :: antiGroups lg rg)
      | .lookup => .ok (outhdr :: lookupGroups ops lg rg)
  | _, _ => .fail [] .runtime

/-- crossjoin of stacked tables (no prefix) -/
def crossProduct : List (List Row) → List Row
  | [] => [[]]
  | t :: ts => t.flatMap (fun r => (crossProduct ts).map (fun rest => r ++ rest))

def crossJoinView (missing : Val) (ts : List Table) : Out :=
  let hdr := (ts.map (fun t => t.headD [])).flatten
  let datas := ts.map (fun t => stackRows (t.headD []).length missing (t.drop 1))
  .ok (hdr :: crossProduct datas)

end Petl
