/-
  Petl.Sort — model of petl.transform.sorts: SortView._iternocache (in-memory sort or external
  chunk sort + k-way merge), mergesort, issorted.
-/
import Petl.Fields
namespace Petl

variable {α : Type}

/-! ### k-way merge: repeatedly take the head of the *first* run whose head is minimal.
    This is `heapq.merge` on `_Keyed` items (ties broken by iterable order) and petl's own
    shortlist merge (`min`/`max` return the first extremal element). -/

abbrev Run (α : Type) := α × List α
def Run.toList (r : Run α) : List α := r.1 :: r.2
def flat (runs : List (Run α)) : List α := (runs.map Run.toList).flatten

def toRuns : List (List α) → List (Run α)
  | [] => []
  | [] :: rest => toRuns rest
  | (x :: xs) :: rest => (x, xs) :: toRuns rest

def pickMin (le : α → α → Bool) : List (Run α) → Option (Nat × α)
  | [] => none
  | (h, _) :: rest =>
    match pickMin le rest with
    | none => some (0, h)
    | some (j, m) => if le h m then some (0, h) else some (j + 1, m)

def advance : List (Run α) → Nat → List (Run α)
  | [], _ => []
  | (_, []) :: rest, 0 => rest
  | (_, t :: ts) :: rest, 0 => (t, ts) :: rest
  | r :: rest, i + 1 => r :: advance rest i

def total (runs : List (Run α)) : Nat := (runs.map (fun r => r.2.length + 1)).sum

theorem total_advance_lt (le : α → α → Bool) :
    ∀ (runs : List (Run α)) i m, pickMin le runs = some (i, m) → total (advance runs i) < total runs := by
  intro runs
  induction runs with
  | nil => intro i m h; simp [pickMin] at h
  | cons r rest ih =>
    intro i m h
    obtain ⟨hd, tl⟩ := r
    simp only [pickMin] at h
    cases hp : pickMin le rest with
    | none =>
      simp [hp] at h
      obtain ⟨rfl, rfl⟩ := h
      cases tl <;> simp [advance, total] <;> omega
    | some jm =>
      obtain ⟨j, m'⟩ := jm
      simp [hp] at h
      split at h
      · simp at h; obtain ⟨rfl, rfl⟩ := h
        cases tl <;> simp [advance, total] <;> omega
      · simp at h; obtain ⟨rfl, rfl⟩ := h
        have := ih j m' hp
        simp [advance, total] at *
        omega

def kmerge (le : α → α → Bool) (runs : List (Run α)) : List α :=
  match _h : pickMin le runs with
  | none => []
  | some (i, m) => m :: kmerge le (advance runs i)
termination_by total runs
decreasing_by exact total_advance_lt le runs i m _h

/-! ### chunking: `rows = list(islice(it, 0, buffersize))` repeated until empty -/

def chunksAux (b : Nat) : Nat → List α → List (List α)
  | 0, _ => []
  | fuel + 1, l => if l.isEmpty then [] else l.take b :: chunksAux b fuel (l.drop b)

def chunks (b : Nat) (l : List α) : List (List α) := chunksAux b l.length l

/-- the data-row part of `SortView._iternocache` for a row relation `le`
    (`le a b` = "a may come before b" = `not key(b) < key(a)`, flipped for reverse) -/
def sortRows (le : α → α → Bool) (buffersize : Option Nat) (rows : List α) : List α :=
  match buffersize with
  | none => rows.mergeSort le
  | some b =>
    let first := rows.take b
    if first.length < b then first.mergeSort le
    else kmerge le (toRuns ((chunks b rows).map (fun c => c.mergeSort le)))

/-- the relation a sort with key indices `idx` uses -/
def rowLe (idx : List Nat) (reverse : Bool) (a b : Row) : Bool :=
  if reverse then !Val.lt (getKey idx a) (getKey idx b) else !Val.lt (getKey idx b) (getKey idx a)

/-- `sort(table, key, reverse, buffersize)`: every pass of the view (cache on or off) -/
def sortView (t : Table) (key : Option (List FSpec)) (reverse : Bool) (buffersize : Option Nat) : Out :=
  match t with
  | [] =>
    match key with
    | none => .ok []
    | some k =>
      match asindices [] k with
      | .error e => .fail [[]] e
      | .ok idx => .ok ([] :: sortRows (rowLe idx reverse) buffersize [])
  | hdr :: rows =>
    let idx? : Except Err (List Nat) :=
      match key with
      | some k => asindices hdr k
      | none => if hdr.isEmpty then .error .type else .ok (List.range hdr.length)
    match idx? with
    | .error e => .fail [hdr] e
    | .ok idx => .ok (hdr :: sortRows (rowLe idx reverse) buffersize rows)

/-- merging already sorted tables with one header (the core of `mergesort`) -/
def mergeSorted (le : α → α → Bool) (tables : List (List α)) : List α :=
  kmerge le (toRuns tables)

/-- `issorted(table, key, reverse, strict)` on the data rows -/
def isSortedBy (idx : List Nat) (reverse strict : Bool) : List Row → Bool
  | [] => true
  | [_] => true
  | a :: b :: rest =>
    let ka := getKey idx a
    let kb := getKey idx b
    let ok :=
      match reverse, strict with
      | true, true => Val.lt kb ka
      | true, false => Val.le kb ka
      | false, true => Val.gt kb ka
      | false, false => Val.ge kb ka
    ok && isSortedBy idx reverse strict (b :: rest)

end Petl
