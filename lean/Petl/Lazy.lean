/-
  Petl.Lazy — demand-driven evaluation of streaming operators.

  A streaming operator is a transducer: it consumes source rows one at a time and emits output
  rows.  Under generator semantics the consumer asks for one output row at a time; the operator
  pulls source rows only until it has something to deliver.  `runLazy t k s src` is what the first
  k output rows cost: the outputs delivered and the number of source rows pulled.
-/
import Petl.Fields
namespace Petl

structure Transducer (σ : Type) where
  step : σ → Row → σ × List Row      -- consume one source row, emit zero or more output rows
  finish : σ → List Row              -- emitted when the source is exhausted

def runLazy {σ : Type} (t : Transducer σ) : Nat → σ → List Row → List Row × Nat
  | 0, _, _ => ([], 0)
  | k + 1, s, [] => ((t.finish s).take (k + 1), 0)
  | k + 1, s, r :: rest =>
    if k + 1 ≤ (t.step s r).2.length then ((t.step s r).2.take (k + 1), 1)
    else
      ((t.step s r).2 ++ (runLazy t (k + 1 - (t.step s r).2.length) (t.step s r).1 rest).1,
       (runLazy t (k + 1 - (t.step s r).2.length) (t.step s r).1 rest).2 + 1)

/-- what the operator emits while consuming the source (without the final flush) -/
def runBody {σ : Type} (t : Transducer σ) : σ → List Row → List Row
  | _, [] => []
  | s, r :: rest => (t.step s r).2 ++ runBody t (t.step s r).1 rest

/-- everything the operator emits on the whole source -/
def runAll {σ : Type} (t : Transducer σ) : σ → List Row → List Row
  | s, [] => t.finish s
  | s, r :: rest => (t.step s r).2 ++ runAll t (t.step s r).1 rest

/-- one-to-one operators (cut, convert, addfield, rename, …): each source row gives one output row -/
def mapT (f : Row → Row) : Transducer Unit where
  step := fun _ r => ((), [f r])
  finish := fun _ => []

/-- filters (select and friends): a source row gives zero or one output row -/
def filterT (p : Row → Bool) : Transducer Unit where
  step := fun _ r => ((), if p r then [r] else [])
  finish := fun _ => []

/-- one row of lookahead (addfieldusingcontext, selectusingcontext): row i is emitted when row i+1
    arrives, the last one at exhaustion.  The header passes straight through. -/
def lookaheadT (f : Option Row → Row → Option Row → Row) : Transducer (Nat × Option Row × Option Row) where
  step := fun s r =>
    match s with
    | (0, _, _) => ((1, none, none), [r])                         -- header
    | (n + 1, prev, none) => ((n + 2, prev, some r), [])          -- first data row: wait
    | (n + 1, prev, some cur) => ((n + 2, some cur, some r), [f prev cur (some r)])
  finish := fun s =>
    match s with
    | (_, prev, some cur) => [f prev cur none]
    | _ => []

end Petl
