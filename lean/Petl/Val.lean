/-
  Petl.Val — the value domain of the petl models.

  Cells of petl tables are arbitrary Python objects.  The models work on the
  supported value domain of property C04: None, numbers (bool/int/float/Decimal,
  by exact value, with ±inf), bytes, str, date, naive datetime, naive time and
  nested lists/tuples of these.  `ty`/`isList` tags are presentation only: they
  let the driver print a value back with its Python type but take no part in
  ordering or in `Comparable` equality.

  No imports: this file is part of the compiled driver.
-/
namespace Petl

inductive NumTy where
  | bool | int | float | dec
deriving DecidableEq, Repr, Inhabited

/-- exact numeric value: a rational or an infinity (NaN is outside the domain) -/
inductive Num where
  | ninf
  | fin (q : Rat)
  | pinf
deriving DecidableEq, Inhabited

inductive Val where
  | none
  | num (ty : NumTy) (n : Num)
  | bytes (b : List Nat)
  | str (s : List Nat)
  | date (d : Int)
  | datetime (us : Int)
  | time (us : Int)
  | seq (isList : Bool) (xs : List Val)
deriving Inhabited

abbrev Row := List Val
abbrev Table := List Row

namespace Num

def lt : Num → Num → Bool
  | .ninf, .ninf => false
  | .ninf, _ => true
  | .fin _, .ninf => false
  | .fin a, .fin b => decide (a < b)
  | .fin _, .pinf => true
  | .pinf, _ => false

def eq : Num → Num → Bool
  | .ninf, .ninf => true
  | .fin a, .fin b => decide (a = b)
  | .pinf, .pinf => true
  | _, _ => false

end Num

/-- lexicographic `<` on code-point / byte / element lists (Python `str`/`bytes` order) -/
def natListLt : List Nat → List Nat → Bool
  | [], [] => false
  | [], _ :: _ => true
  | _ :: _, [] => false
  | a :: as, b :: bs => if a = b then natListLt as bs else decide (a < b)

/-- rank of the `_typestr` names of the non-numeric kinds:
    'date' < 'datetime' < 'str' (bytes) < 'time' < 'tuple' (list/tuple) < 'unicode' (str) -/
def Val.rank : Val → Nat
  | .none => 0
  | .num _ _ => 0
  | .date _ => 1
  | .datetime _ => 2
  | .bytes _ => 3
  | .time _ => 4
  | .seq _ _ => 5
  | .str _ => 6

mutual
/-- `Comparable(a) == Comparable(b)`: Python `==`, with lists and tuples identified -/
def Val.eq : Val → Val → Bool
  | .none, .none => true
  | .num _ a, .num _ b => Num.eq a b
  | .bytes a, .bytes b => decide (a = b)
  | .str a, .str b => decide (a = b)
  | .date a, .date b => decide (a = b)
  | .datetime a, .datetime b => decide (a = b)
  | .time a, .time b => decide (a = b)
  | .seq _ a, .seq _ b => Val.eqList a b
  | _, _ => false
def Val.eqList : List Val → List Val → Bool
  | [], [] => true
  | a :: as, b :: bs => Val.eq a b && Val.eqList as bs
  | _, _ => false
end

mutual
/-- `Comparable(a) < Comparable(b)` (petl/comparison.py), as a closed recursive function -/
def Val.lt : Val → Val → Bool
  | _, .none => false
  | .none, _ => true
  | .num _ a, .num _ b => Num.lt a b
  | .num _ _, _ => true
  | _, .num _ _ => false
  | .bytes a, .bytes b => natListLt a b
  | .str a, .str b => natListLt a b
  | .date a, .date b => decide (a < b)
  | .datetime a, .datetime b => decide (a < b)
  | .time a, .time b => decide (a < b)
  | .seq _ a, .seq _ b => Val.ltList a b
  | a, b => decide (a.rank < b.rank)
/-- Python tuple comparison over `Comparable` items -/
def Val.ltList : List Val → List Val → Bool
  | [], [] => false
  | [], _ :: _ => true
  | _ :: _, [] => false
  | a :: as, b :: bs => if Val.eq a b then Val.ltList as bs else Val.lt a b
end

/-- the derived operators exactly as `Comparable` defines them -/
def Val.le (a b : Val) : Bool := Val.lt a b || Val.eq a b
def Val.gt (a b : Val) : Bool := !(Val.lt a b || Val.eq a b)
def Val.ge (a b : Val) : Bool := !Val.lt a b

mutual
/-- raw Python `==` (no `Comparable`): as `Val.eq` but a list never equals a tuple -/
def Val.pyEq : Val → Val → Bool
  | .none, .none => true
  | .num _ a, .num _ b => Num.eq a b
  | .bytes a, .bytes b => decide (a = b)
  | .str a, .str b => decide (a = b)
  | .date a, .date b => decide (a = b)
  | .datetime a, .datetime b => decide (a = b)
  | .time a, .time b => decide (a = b)
  | .seq la a, .seq lb b => la == lb && Val.pyEqList a b
  | _, _ => false
def Val.pyEqList : List Val → List Val → Bool
  | [], [] => true
  | a :: as, b :: bs => Val.pyEq a b && Val.pyEqList as bs
  | _, _ => false
end

/-- key extraction of `comparable_itemgetter`: one index gives the cell, several a tuple;
    missing cells read as None -/
def getCell (row : Row) (i : Nat) : Val := row.getD i .none

def getKey (idx : List Nat) (row : Row) : Val :=
  match idx with
  | [i] => getCell row i
  | _ => .seq false (idx.map (getCell row))

/-- the sort relation on rows for key indices `idx`: `¬ key b < key a` -/
def keyLe (idx : List Nat) (a b : Row) : Bool := !Val.lt (getKey idx b) (getKey idx a)

/-- Python truthiness of a value -/
def Val.truthy : Val → Bool
  | .none => false
  | .num _ (.fin q) => decide (q ≠ 0)
  | .num _ _ => true
  | .bytes b => !b.isEmpty
  | .str s => !s.isEmpty
  | .date _ => true
  | .datetime _ => true
  | .time _ => true
  | .seq _ xs => !xs.isEmpty

end Petl
