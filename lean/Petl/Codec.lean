/-
  Petl.Codec — petl's side of writing and reading tables: which rows are rendered, framing,
  header flags, append, and the tee views.  The codecs themselves (csv, pickle, json, text
  encodings, compression) are parameters; Petl/Csv.lean models the csv dialect machinery.
-/
import Petl.Fields
namespace Petl

abbrev Bytes := List Nat

/-- `to*`: `rows = table if write_header else data(table)`, every row rendered, optional
    prologue / epilogue (totext, tohtml) -/
def toBytes (render : Row → Bytes) (writeHeader : Bool) (pro epi : Bytes) (t : Table) : Bytes :=
  pro ++ ((if writeHeader then t else t.drop 1).flatMap render) ++ epi

/-- `append*` in mode 'ab': the existing bytes followed by what `to*` would write
    (append* default to write_header=False) -/
def appendBytes (render : Row → Bytes) (writeHeader : Bool) (existing : Bytes) (t : Table) : Bytes :=
  existing ++ toBytes render writeHeader [] [] t

/-- a tee view after `k` calls of `next`: the rows delivered and the bytes handed to the sink -/
def teeAfter (render : Row → Bytes) (writeHeader : Bool) (pro : Bytes) (t : Table) (k : Nat) : List Row × Bytes :=
  (t.take k, pro ++ ((if writeHeader then t.take k else (t.take k).drop 1).flatMap render))

/-- a tee view iterated to the end (the epilogue is written and the sink flushed at exhaustion) -/
def teeRun (render : Row → Bytes) (writeHeader : Bool) (pro epi : Bytes) (t : Table) : List Row × Bytes :=
  match t with
  | [] => ([], pro)     -- a table without any header: the generator returns at once
  | _ => ((teeAfter render writeHeader pro t t.length).1, (teeAfter render writeHeader pro t t.length).2 ++ epi)

/-- `from*`: parse the bytes into rows; an explicit `header=` argument is put in front -/
def fromBytes (parse : Bytes → List Row) (header : Option Row) (b : Bytes) : Table :=
  match header with
  | none => parse b
  | some h => h :: parse b

/-- pickle / json-lines: a file is a concatenation of self-delimiting frames read until EOF -/
def readFrames {α : Type} (load : Bytes → Option (α × Bytes)) : Nat → Bytes → List α
  | 0, _ => []
  | fuel + 1, b =>
    if b.isEmpty then [] else
    match load b with
    | none => []
    | some (x, rest) => x :: readFrames load fuel rest

end Petl
