/-
  Petl.Fields — field selection (`petl.util.base.asindices`), error kinds, results of generators.
-/
import Petl.Val
namespace Petl

inductive Err where
  | fieldSelection | duplicateKey | type | stopIteration | runtime | index | assertion | arg | value | key
deriving DecidableEq, Repr, Inhabited

def Err.code : Err → String
  | .fieldSelection => "FieldSelection" | .duplicateKey => "DuplicateKey" | .type => "Type"
  | .stopIteration => "StopIteration" | .runtime => "Runtime" | .index => "Index"
  | .assertion => "Assertion" | .arg => "Arg" | .value => "Value" | .key => "Key"

/-- what a generator delivers: the rows yielded, then possibly an exception -/
structure Out where
  rows : List Row
  err : Option Err := none
deriving Inhabited

def Out.ok (rows : List Row) : Out := { rows := rows }
def Out.fail (rows : List Row) (e : Err) : Out := { rows := rows, err := some e }

/-- a field specifier: an index or a field name (text) -/
inductive FSpec where
  | idx (i : Nat)
  | name (s : List Nat)
deriving DecidableEq, Repr, Inhabited

/-- header cells rendered by `text_type`: only text cells can be matched by name in the model
    (non-text header cells are outside the generated domain) -/
def fldName : Val → Option (List Nat)
  | .str s => some s
  | _ => none

def findName (s : List Nat) : List (Option (List Nat)) → Option Nat
  | [] => none
  | f :: fs => if f = some s then some 0 else (findName s fs).map (· + 1)

def asindicesAux (n : Nat) : List (Option (List Nat)) → List FSpec → Except Err (List Nat)
  | _, [] => .ok []
  | flds, .idx i :: rest =>
    if i < n then (asindicesAux n flds rest).map (i :: ·) else .error .fieldSelection
  | flds, .name s :: rest =>
    match findName s flds with
    | some j => (asindicesAux n (flds.set j none) rest).map (j :: ·)
    | none => .error .fieldSelection

/-- `asindices(hdr, spec)`: an index (< len(hdr)) has priority, names are consumed left to right -/
def asindices (hdr : Row) (spec : List FSpec) : Except Err (List Nat) :=
  asindicesAux hdr.length (hdr.map fldName) spec

/-- pad a short row with `missing` and trim a long one to width `w` -/
def squareRow (w : Nat) (missing : Val) (r : Row) : Row := (r ++ List.replicate w missing).take w

end Petl
