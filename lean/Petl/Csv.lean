/-
  Petl.Csv — the csv row codec petl relies on (property C15): CPython's `csv.writer` with
  QUOTE_MINIMAL or QUOTE_ALL / doublequote / lineterminator "\r\n", and `csv.reader`'s state machine
  (Modules/_csv.c, `parse_process_char`) fed by text lines split as `io.TextIOWrapper(newline='')`
  splits them (after "\n", after a lone "\r", after "\r\n"; line endings kept).

  Text is a list of code points.  `d` = delimiter, `q` = quotechar.  No escapechar,
  skipinitialspace = False, strict = False — the dialect family petl's tocsv/fromcsv use.
-/
namespace Petl.Csv

abbrev Field := List Nat
abbrev Record := List Field

def CR : Nat := 13
def LF : Nat := 10

/-! ### writer -/

def needsQuote (d q : Nat) (f : Field) : Bool := f.any (fun c => c == d || c == q || c == CR || c == LF)

def escape (q : Nat) (f : Field) : List Nat := f.flatMap (fun c => if c == q then [q, q] else [c])

/-- `qa` = QUOTE_ALL; otherwise QUOTE_MINIMAL -/
def writeField (qa : Bool) (d q : Nat) (f : Field) : List Nat :=
  if qa || needsQuote d q f then [q] ++ escape q f ++ [q] else f

/-- fields joined by the delimiter -/
def joinFields (qa : Bool) (d q : Nat) : Record → List Nat
  | [] => []
  | [f] => writeField qa d q f
  | f :: fs => writeField qa d q f ++ [d] ++ joinFields qa d q fs

/-- `writer.writerow`: a record whose only field is empty is written as `""` -/
def writeRow (qa : Bool) (d q : Nat) (r : Record) : List Nat :=
  match r with
  | [[]] => [q, q, CR, LF]
  | _ => joinFields qa d q r ++ [CR, LF]

def writeAll (qa : Bool) (d q : Nat) (rows : List Record) : List Nat := rows.flatMap (writeRow qa d q)

/-! ### reader -/

inductive Mode where
  | startRecord | startField | inField | inQuoted | quoteInQuoted | eatCRNL
deriving DecidableEq, Repr

structure St where
  mode : Mode
  field : Field                -- characters of the field being read
  fields : Record              -- fields of the record being read
  records : List Record        -- records delivered so far
  err : Bool                   -- "new-line character seen in unquoted field"
deriving Repr

def St.init : St := { mode := .startRecord, field := [], fields := [], records := [], err := false }

def St.add (s : St) (c : Nat) : St := { s with field := s.field ++ [c] }
def St.save (s : St) : St := { s with fields := s.fields ++ [s.field], field := [] }
def St.emit (s : St) : St := { s with records := s.records ++ [s.fields], fields := [] }

def isNL (c : Nat) : Bool := c == CR || c == LF

def startFieldChar (d q : Nat) (s : St) (c : Nat) : St :=
  if isNL c then { s.save with mode := .eatCRNL }
  else if c == q then { s with mode := .inQuoted }
  else if c == d then { s.save with mode := .startField }
  else { s.add c with mode := .inField }

/-- `parse_process_char` on an ordinary character -/
def char (d q : Nat) (s : St) (c : Nat) : St :=
  match s.mode with
  | .startRecord => if isNL c then { s with mode := .eatCRNL } else startFieldChar d q s c
  | .startField => startFieldChar d q s c
  | .inField =>
    if isNL c then { s.save with mode := .eatCRNL }
    else if c == d then { s.save with mode := .startField }
    else s.add c
  | .inQuoted => if c == q then { s with mode := .quoteInQuoted } else s.add c
  | .quoteInQuoted =>
    if c == q then { s.add c with mode := .inQuoted }
    else if c == d then { s.save with mode := .startField }
    else if isNL c then { s.save with mode := .eatCRNL }
    else { s.add c with mode := .inField }
  | .eatCRNL => if isNL c then s else { s with err := true }

/-- `parse_process_char` on the end-of-line marker; `Reader_iternext` returns the record when the
    machine is back in START_RECORD -/
def eol (s : St) : St :=
  match s.mode with
  | .startRecord => s.emit
  | .startField => { s.save with mode := .startRecord }.emit
  | .inField => { s.save with mode := .startRecord }.emit
  | .inQuoted => s
  | .quoteInQuoted => { s.save with mode := .startRecord }.emit
  | .eatCRNL => { s with mode := .startRecord }.emit

/-- where we are in the current text line -/
inductive Pend where
  | none     -- at the start of a line
  | dirty    -- inside a line
  | cr       -- just after a "\r": the line ends here unless a "\n" follows
deriving DecidableEq, Repr

/-- one character of the text, with the line splitting of `TextIOWrapper(newline='')` done on the fly -/
def feed (d q : Nat) (ps : Pend × St) (c : Nat) : Pend × St :=
  let s1 := if ps.1 = .cr ∧ c ≠ LF then eol ps.2 else ps.2
  let s2 := char d q s1 c
  if c = LF then (.none, eol s2)
  else if c = CR then (.cr, s2)
  else (.dirty, s2)

def run (d q : Nat) (ps : Pend × St) (text : List Nat) : Pend × St := text.foldl (feed d q) ps

/-- end of input: finish the last line; a field in progress or an open quoted field is still delivered -/
def finish (ps : Pend × St) : List Record :=
  let s1 := if ps.1 = .none then ps.2 else eol ps.2
  let s2 := if s1.field ≠ [] ∨ s1.mode = .inQuoted then s1.save.emit else s1
  s2.records

def readAll (d q : Nat) (text : List Nat) : List Record := finish (run d q (.none, St.init) text)

end Petl.Csv
