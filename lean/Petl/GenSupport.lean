/-
  Petl.GenSupport — hand-written vocabulary the generated (translator) files are written in.
-/
import Petl.Val
namespace Petl.Gen
open Petl

/-- `type(x).__name__` of the wrapped object inside a `Comparable`
    (lists and tuples have both been turned into tuples by `Comparable.__init__`) -/
def pyTypeName : Val → String
  | .none => "NoneType"
  | .num .bool _ => "bool"
  | .num .int _ => "int"
  | .num .float _ => "float"
  | .num .dec _ => "Decimal"
  | .bytes _ => "bytes"
  | .str _ => "str"
  | .date _ => "date"
  | .datetime _ => "datetime"
  | .time _ => "time"
  | .seq _ _ => "tuple"

/-- CPython's native `<` between two wrapped objects: defined (`some`) within one kind,
    `none` = raises TypeError.  Sequences compare as tuples of `Comparable` items, i.e. through
    the given `lt`/`eq`. -/
def nativeOf (ltList : List Val → List Val → Bool) : Val → Val → Option Bool
  | .num _ a, .num _ b => some (Num.lt a b)
  | .bytes a, .bytes b => some (natListLt a b)
  | .str a, .str b => some (natListLt a b)
  | .date a, .date b => some (decide (a < b))
  | .datetime a, .datetime b => some (decide (a < b))
  | .time a, .time b => some (decide (a < b))
  | .seq _ a, .seq _ b => some (ltList a b)
  | _, _ => none

end Petl.Gen
