/-
  Helper lemmas for C18: the holder / file invariant of the temp-file model.
-/
import Petl.TempFiles

namespace Petl

theorem mem_holders (s : TFState) (c : Nat) :
    c ∈ s.holders ↔ (s.viewReachable = true ∧ c ∈ s.viewCache.getD []) ∨ ∃ it ∈ s.iters, c ∈ it.held := by
  simp only [TFState.holders, List.mem_append, List.mem_flatten, List.mem_map]
  constructor
  · rintro (h | ⟨l, ⟨it, hit, rfl⟩, hc⟩)
    · left; split at h
      · rename_i hr; exact ⟨hr, h⟩
      · simp at h
    · right; exact ⟨it, hit, hc⟩
  · rintro (⟨hr, hc⟩ | ⟨it, hit, hc⟩)
    · left; simp [hr, hc]
    · right; exact ⟨_, ⟨it, hit, rfl⟩, hc⟩

/-- every held file exists, and every existing file is held by someone -/
def TFInv (s : TFState) : Prop := (∀ c ∈ s.holders, c ∈ s.files) ∧ (∀ f ∈ s.files, f ∈ s.holders)

theorem gc_holders (s : TFState) : s.gc.holders = s.holders := rfl

theorem gc_inv (s : TFState) (h : ∀ c ∈ s.holders, c ∈ s.files) : TFInv s.gc := by
  constructor
  · intro c hc
    rw [gc_holders] at hc
    simp only [TFState.gc, List.mem_filter]
    exact ⟨h c hc, by simpa using hc⟩
  · intro f hf
    simp only [TFState.gc, List.mem_filter] at hf
    rw [gc_holders]; simpa using hf.2

/-- the shape every transition has: what is held afterwards was held before or has just been
    created, and nothing is unlinked before the collection -/
theorem step_holders (s s1 : TFState) (new : List Nat)
    (h : ∀ c ∈ s1.holders, c ∈ s.holders ∨ c ∈ new)
    (hf : ∀ c, c ∈ s.files ∨ c ∈ new → c ∈ s1.files)
    (hinv : ∀ c ∈ s.holders, c ∈ s.files) : ∀ c ∈ s1.holders, c ∈ s1.files := by
  intro c hc
  rcases h c hc with h0 | hn
  · exact hf c (Or.inl (hinv c h0))
  · exact hf c (Or.inr hn)

theorem reachable_of_alive (s : TFState) (i : Nat) (it : TFIter) (hi : s.iters[i]? = some it)
    (ha : it.alive = true) : s.viewReachable = true := by
  simp only [TFState.viewReachable, Bool.or_eq_true, List.any_eq_true]
  exact Or.inr ⟨it, List.mem_of_getElem? hi, ha⟩

/-- holders after replacing iterator i by X and the view cache by vc -/
theorem holders_after_set (s s1 : TFState) (i : Nat) (X : TFIter)
    (hit : s1.iters = s.iters.set i X) (c : Nat) (hc : c ∈ s1.holders) :
    (s1.viewReachable = true ∧ c ∈ s1.viewCache.getD []) ∨ c ∈ X.held ∨ ∃ it ∈ s.iters, c ∈ it.held := by
  rcases (mem_holders s1 c).1 hc with h | ⟨it, hit1, hch⟩
  · exact Or.inl h
  · rw [hit] at hit1
    rcases List.mem_or_eq_of_mem_set hit1 with h | rfl
    · exact Or.inr (Or.inr ⟨it, h, hch⟩)
    · exact Or.inr (Or.inl hch)

theorem mem_holders_of_iter (s : TFState) (c : Nat) (h : ∃ it ∈ s.iters, c ∈ it.held) : c ∈ s.holders :=
  (mem_holders s c).2 (Or.inr h)

theorem mem_holders_of_view (s : TFState) (c : Nat) (hr : s.viewReachable = true) (h : c ∈ s.viewCache.getD []) :
    c ∈ s.holders := (mem_holders s c).2 (Or.inl ⟨hr, h⟩)

/-- generic transition on an alive iterator i: the new iterator state holds a subset of the old one's
    files plus `new`; the view cache is kept, cleared, or set to `new` -/
theorem next_inv (s s1 : TFState) (i : Nat) (old X : TFIter) (new : List Nat)
    (hold : s.iters[i]? = some old) (halive : old.alive = true)
    (hit : s1.iters = s.iters.set i X)
    (hX : ∀ c ∈ X.held, c ∈ old.held ∨ c ∈ new)
    (hvc : s1.viewCache = s.viewCache ∨ s1.viewCache = none ∨ s1.viewCache = some new)
    (hf : ∀ c, c ∈ s.files ∨ c ∈ new → c ∈ s1.files)
    (hinv : TFInv s) : TFInv s1.gc := by
  apply gc_inv
  apply step_holders s s1 new ?_ hf hinv.1
  intro c hc
  rcases holders_after_set s s1 i X hit c hc with ⟨_, h⟩ | h | h
  · rcases hvc with e | e | e
    · rw [e] at h; exact Or.inl (mem_holders_of_view s c (reachable_of_alive s i old hold halive) h)
    · rw [e] at h; simp at h
    · rw [e] at h; exact Or.inr (by simpa using h)
  · rcases hX c h with h1 | h1
    · exact Or.inl (mem_holders_of_iter s c ⟨old, List.mem_of_getElem? hold, h1⟩)
    · exact Or.inr h1
  · exact Or.inl (mem_holders_of_iter s c h)

end Petl

namespace Petl

theorem alive_of_set_dead (iters : List TFIter) (i : Nat) (h : (iters.set i .dead).any TFIter.alive = true) :
    iters.any TFIter.alive = true := by
  obtain ⟨it, hit, ha⟩ := List.any_eq_true.1 h
  rcases List.mem_or_eq_of_mem_set hit with h1 | rfl
  · exact List.any_eq_true.2 ⟨it, h1, ha⟩
  · simp [TFIter.alive] at ha

macro "tf_leaf" s:term "," i:term "," hi:term "," hinv:term : tactic =>
  `(tactic| first
    | exact next_inv $s _ $i _ _ [] $hi rfl rfl (by simp [TFIter.held]) (Or.inl rfl) (by simp) $hinv
    | exact next_inv $s _ $i _ _ [] $hi rfl rfl (by simp [TFIter.held]) (Or.inr (Or.inl rfl)) (by simp) $hinv)

theorem tfStep_inv (p : TFParams) (s : TFState) (op : TFOp) (hinv : TFInv s) : TFInv (tfStep p s op).1 := by
  cases op with
  | new =>
    simp only [tfStep]
    split
    · exact hinv
    · rename_i hu
      have hu' : s.userHoldsView = true := by simpa using hu
      have hr : s.viewReachable = true := by simp [TFState.viewReachable, hu']
      apply gc_inv
      apply step_holders s _ [] ?_ (by simp) hinv.1
      intro c hc
      left
      rcases (mem_holders _ c).1 hc with ⟨_, h⟩ | ⟨it, hit, hch⟩
      · exact mem_holders_of_view s c hr h
      · simp only [List.mem_append, List.mem_singleton] at hit
        rcases hit with h | rfl
        · exact mem_holders_of_iter s c ⟨it, h, hch⟩
        · split at hch
          · simp [TFIter.held] at hch
          · split at hch
            · rename_i cs hcs
              simp only [TFIter.held] at hch
              exact mem_holders_of_view s c hr (by simp [hcs, hch])
            · simp [TFIter.held] at hch
  | drop i =>
    simp only [tfStep]
    apply gc_inv
    apply step_holders s _ [] ?_ (by simp) hinv.1
    intro c hc
    left
    rcases holders_after_set s _ i .dead rfl c hc with ⟨hr, h⟩ | h | h
    · refine mem_holders_of_view s c ?_ h
      simp only [TFState.viewReachable, Bool.or_eq_true] at hr ⊢
      rcases hr with hr | hr
      · exact Or.inl hr
      · exact Or.inr (alive_of_set_dead s.iters i hr)
    · simp [TFIter.held] at h
    · exact mem_holders_of_iter s c h
  | dropView =>
    simp only [tfStep]
    apply gc_inv
    apply step_holders s _ [] ?_ (by simp) hinv.1
    intro c hc
    left
    rcases (mem_holders _ c).1 hc with ⟨hr, h⟩ | h
    · refine mem_holders_of_view s c ?_ h
      simp only [TFState.viewReachable, Bool.false_or] at hr
      simp [TFState.viewReachable, hr]
    · exact mem_holders_of_iter s c h
  | next i =>
    simp only [tfStep]
    cases hi : s.iters[i]? with
    | none => exact hinv
    | some it =>
      cases it with
      | dead => exact hinv
      | pending => tf_leaf s, i, hi, hinv
      | fromMem pos =>
        simp only
        split <;> tf_leaf s, i, hi, hinv
      | running cs pos =>
        simp only
        split
        · exact next_inv s _ i _ _ [] hi rfl rfl (by simp [TFIter.held]) (Or.inl rfl) (by simp) hinv
        · tf_leaf s, i, hi, hinv
      | fromFile cs pos =>
        simp only
        split
        · split
          · exact next_inv s _ i _ _ [] hi rfl rfl (by simp [TFIter.held]) (Or.inl rfl) (by simp) hinv
          · split
            · exact next_inv s _ i _ _ [] hi rfl rfl (by simp [TFIter.held]) (Or.inl rfl) (by simp) hinv
            · tf_leaf s, i, hi, hinv
        · tf_leaf s, i, hi, hinv
      | afterHeader =>
        simp only
        split
        · split
          · tf_leaf s, i, hi, hinv
          · -- chunk files created
            split
            · refine next_inv s _ i _ _ ((List.range p.nchunks).map (· + s.nextId)) hi rfl rfl
                (by simp [TFIter.held]) ?_ (by intro c hc; simpa using hc) hinv
              by_cases hc : p.cache = true <;> simp [hc]
            · refine next_inv s _ i _ _ ((List.range p.nchunks).map (· + s.nextId)) hi rfl rfl
                (by simp [TFIter.held]) ?_ (by intro c hc; simpa using hc) hinv
              by_cases hc : p.cache = true <;> simp [hc]
        · split
          · tf_leaf s, i, hi, hinv
          · split <;> tf_leaf s, i, hi, hinv

theorem tfRun_inv (p : TFParams) (ops : List TFOp) : TFInv (tfRun p ops).1 := by
  have : ∀ (ops : List TFOp) (acc : TFState × List TFOut), TFInv acc.1 →
      TFInv (ops.foldl (fun (acc : TFState × List TFOut) op =>
        let (s', o) := tfStep p acc.1 op
        (s', acc.2 ++ [o])) acc).1 := by
    intro ops
    induction ops with
    | nil => intro acc h; exact h
    | cons op ops ih =>
      intro acc h
      exact ih _ (tfStep_inv p acc.1 op h)
  exact this ops ({}, []) ⟨by simp [TFState.holders, TFState.viewReachable], by simp⟩

end Petl
