/-
  Helper lemmas for C06: the merge loop over key groups computes the relational joins.
-/
import Petl.Join
import PetlProofs.Sort

namespace Petl

/-- key groups as `itertools.groupby` delivers them on key-sorted input:
    strictly ascending labels; every row of a group has the group's key -/
structure GroupsWF (key : Row → Val) (gs : List (Val × List Row)) : Prop where
  asc : gs.Pairwise (fun g h => Val.lt g.1 h.1 = true)
  keyed : ∀ g ∈ gs, ∀ r ∈ g.2, Val.eq (key r) g.1 = true

def flattenG (gs : List (Val × List Row)) : List Row := gs.flatMap (fun g => g.2)

theorem flattenG_cons (g : Val × List Row) (gs) : flattenG (g :: gs) = g.2 ++ flattenG gs := by
  simp [flattenG]

theorem GroupsWF.tail {key} {g} {gs} (h : GroupsWF key (g :: gs)) : GroupsWF key gs :=
  ⟨(List.pairwise_cons.1 h.asc).2, fun g' hg' => h.keyed g' (List.mem_cons_of_mem _ hg')⟩

theorem GroupsWF.nil (key) : GroupsWF key [] := ⟨List.Pairwise.nil, by simp⟩

/-- rows of later groups have strictly larger keys than the head group's label -/
theorem GroupsWF.later {key} {g} {gs} (h : GroupsWF key (g :: gs)) :
    ∀ r ∈ flattenG gs, Val.lt g.1 (key r) = true := by
  intro r hr
  simp only [flattenG, List.mem_flatMap] at hr
  obtain ⟨g', hg', hr'⟩ := hr
  have h1 := (List.pairwise_cons.1 h.asc).1 g' hg'
  have h2 := h.keyed g' (List.mem_cons_of_mem _ hg') r hr'
  rw [Val.lt_congr_right g.1 (key r) g'.1 h2]; exact h1

theorem GroupsWF.head {key} {g} {gs} (h : GroupsWF key (g :: gs)) :
    ∀ r ∈ g.2, Val.eq (key r) g.1 = true := h.keyed g (by simp)

/-! ### key comparison facts -/

theorem eq_false_of_lt {a b : Val} (h : Val.lt a b = true) : Val.eq a b = false := Val.lt_ne a b h
theorem eq_false_of_gt {a b : Val} (h : Val.lt b a = true) : Val.eq a b = false := by
  rw [Val.eq_symm]; exact Val.lt_ne b a h

theorem gt_eq_lt (a b : Val) : Val.gt a b = Val.lt b a := by
  unfold Val.gt
  rcases Val.tri a b with h | h | h
  · simp [h, Val.lt_asymm a b h]
  · have := (Val.incomparable_iff_eq a b).2 h; simp [h, this.2]
  · have h1 := Val.lt_asymm b a h
    have h2 : Val.eq a b = false := eq_false_of_gt h
    simp [h, h1, h2]

theorem eq_of_not_lt_not_gt {a b : Val} (h1 : Val.lt a b = false) (h2 : Val.gt a b = false) :
    Val.eq a b = true := by
  rw [gt_eq_lt] at h2
  exact (Val.incomparable_iff_eq a b).1 ⟨h1, h2⟩

/-! ### nested-loop algebra -/

theorem nlInner_append_left (ops : JoinOps) (kl kr) (A B R : List Row) :
    nlInner ops kl kr (A ++ B) R = nlInner ops kl kr A R ++ nlInner ops kl kr B R := by
  simp [nlInner, List.flatMap_append]

theorem nlInner_nil_left (ops : JoinOps) (kl kr) (R : List Row) : nlInner ops kl kr [] R = [] := rfl

theorem nlInner_congr (ops : JoinOps) (kl kr) (L R R' : List Row)
    (h : ∀ l ∈ L, R.filter (fun r => Val.eq (kl l) (kr r)) = R'.filter (fun r => Val.eq (kl l) (kr r))) :
    nlInner ops kl kr L R = nlInner ops kl kr L R' := by
  induction L with
  | nil => rfl
  | cons l L ih =>
    simp only [nlInner, List.flatMap_cons]
    rw [h l (by simp)]
    congr 1
    exact ih (fun l' hl' => h l' (List.mem_cons_of_mem _ hl'))

theorem flatMap_congr' {α β : Type} (l : List α) (f g : α → List β) (h : ∀ a ∈ l, f a = g a) :
    l.flatMap f = l.flatMap g := by
  simp only [List.flatMap_def]; rw [List.map_congr_left h]

theorem filter_none (R : List Row) (p : Row → Bool) (h : ∀ r ∈ R, p r = false) : R.filter p = [] :=
  List.filter_eq_nil_iff.2 (fun r hr => by simp [h r hr])

theorem filter_all (R : List Row) (p : Row → Bool) (h : ∀ r ∈ R, p r = true) : R.filter p = R :=
  List.filter_eq_self.2 h

theorem nlInner_no_match (ops : JoinOps) (kl kr) (L R : List Row)
    (h : ∀ l ∈ L, ∀ r ∈ R, Val.eq (kl l) (kr r) = false) : nlInner ops kl kr L R = [] := by
  simp only [nlInner, List.flatMap_eq_nil_iff]
  intro l hl
  rw [filter_none R _ (fun r hr => h l hl r hr)]; rfl

/-! ### inner join -/

theorem mergeGroups_inner' (ops : JoinOps) (kl kr : Row → Val) (lo ro : Bool) (hlo : lo = false) (hro : ro = false) :
    ∀ (lgs rgs : List (Val × List Row)), GroupsWF kl lgs → GroupsWF kr rgs →
      mergeGroups ops lo ro lgs rgs = nlInner ops kl kr (flattenG lgs) (flattenG rgs) := by
  intro lgs rgs
  fun_induction mergeGroups ops lo ro lgs rgs with
  | case1 rs h => simp [hro] at h
  | case2 rs h => intro _ _; simp [flattenG, nlInner]
  | case3 l ls h => simp [hlo] at h
  | case4 l ls h =>
    intro _ _
    rw [nlInner_no_match]; intro l hl r hr; simp [flattenG] at hr
  | case5 lk lg ls rk rg rs hlt ih =>
    intro hl hr
    subst hlo
    simp only [Bool.false_eq_true, if_false, List.nil_append]
    rw [ih hl.tail hr, flattenG_cons (lk, lg) ls, nlInner_append_left]
    have : nlInner ops kl kr lg (flattenG ((rk, rg) :: rs)) = [] := by
      apply nlInner_no_match
      intro l hl' r hr'
      have e1 := hl.head l hl'
      have hrk : Val.lt lk (kr r) = true := by
        rw [flattenG_cons, List.mem_append] at hr'
        rcases hr' with h | h
        · have := hr.head r h
          rw [Val.lt_congr_right lk (kr r) rk this]; exact hlt
        · exact Val.lt_trans _ _ _ hlt (hr.later r h)
      rw [Val.lt_congr_left lk (kl l) (kr r) (by rw [Val.eq_symm]; exact e1)] at hrk
      exact eq_false_of_lt hrk
    simp [this]
  | case6 lk lg ls rk rg rs hlt hgt ih =>
    intro hl hr
    subst hro
    simp only [Bool.false_eq_true, if_false, List.nil_append]
    rw [ih hl hr.tail]
    apply nlInner_congr
    intro l hl'
    rw [flattenG_cons, List.filter_append]
    have hgt' : Val.lt rk lk = true := by rw [← gt_eq_lt]; exact hgt
    have : rg.filter (fun r => Val.eq (kl l) (kr r)) = [] := by
      apply filter_none
      intro r hr'
      have e1 := hr.head r hr'
      have hlk : Val.lt rk (kl l) = true := by
        rw [flattenG_cons, List.mem_append] at hl'
        rcases hl' with h | h
        · have := hl.head l h
          rw [Val.lt_congr_right rk (kl l) lk this]; exact hgt'
        · exact Val.lt_trans _ _ _ hgt' (hl.later l h)
      rw [Val.lt_congr_left rk (kr r) (kl l) (by rw [Val.eq_symm]; exact e1)] at hlk
      exact eq_false_of_gt hlk
    simp [this]
  | case7 lk lg ls rk rg rs hlt hgt ih =>
    intro hl hr
    have heq : Val.eq lk rk = true := eq_of_not_lt_not_gt (by simpa using hlt) (by simpa using hgt)
    rw [ih hl.tail hr.tail, flattenG_cons, flattenG_cons, nlInner_append_left]
    congr 1
    · simp only [crossRows, nlInner]
      apply flatMap_congr'
      intro l hl'
      have e1 := hl.head l hl'
      have ekl : Val.eq (kl l) rk = true := Val.eq_trans _ _ _ e1 heq
      rw [List.filter_append, filter_all rg _ (fun r hr' => by
            have := hr.head r hr'
            exact Val.eq_trans _ _ _ ekl (by rw [Val.eq_symm]; exact this)),
          filter_none (flattenG rs) _ (fun r hr' => by
            have := hr.later r hr'
            rw [Val.lt_congr_left rk (kl l) (kr r) (by rw [Val.eq_symm]; exact ekl)] at this
            exact eq_false_of_lt this)]
      simp
    · apply nlInner_congr
      intro l hl'
      rw [List.filter_append]
      have : rg.filter (fun r => Val.eq (kl l) (kr r)) = [] := by
        apply filter_none
        intro r hr'
        have e1 := hr.head r hr'
        have h1 := hl.later l hl'
        have ekr : Val.eq (kr r) lk = true := Val.eq_trans _ _ _ e1 (by rw [Val.eq_symm]; exact heq)
        rw [Val.lt_congr_left lk (kr r) (kl l) (by rw [Val.eq_symm]; exact ekr)] at h1
        exact eq_false_of_gt h1
      simp [this]

theorem mergeGroups_inner (ops : JoinOps) (kl kr : Row → Val) (lgs rgs : List (Val × List Row))
    (hl : GroupsWF kl lgs) (hr : GroupsWF kr rgs) :
    mergeGroups ops false false lgs rgs = nlInner ops kl kr (flattenG lgs) (flattenG rgs) :=
  mergeGroups_inner' ops kl kr false false rfl rfl lgs rgs hl hr

/-! ### `groups` on key-sorted rows -/

theorem groups_spec (key : Row → Val) :
    ∀ (rows : List Row), rows.Pairwise (fun a b => Val.lt (key b) (key a) = false) →
      flattenG (groups key rows) = rows ∧ GroupsWF key (groups key rows) ∧
      (∀ g ∈ groups key rows, g.2 ≠ []) := by
  intro rows
  induction rows with
  | nil => intro _; exact ⟨rfl, GroupsWF.nil key, by simp [groups]⟩
  | cons r rest ih =>
    intro hs
    obtain ⟨hr, hrest⟩ := List.pairwise_cons.1 hs
    obtain ⟨hflat, hwf, hne⟩ := ih hrest
    simp only [groups]
    cases hg : groups key rest with
    | nil =>
      rw [hg] at hflat
      simp [flattenG] at hflat
      subst hflat
      refine ⟨by simp [flattenG], ⟨by simp, ?_⟩, by simp⟩
      intro g hg' x hx
      simp at hg'; subst hg'; simp at hx; subst hx; exact Val.eq_refl _
    | cons kg gs =>
      obtain ⟨k, g⟩ := kg
      rw [hg] at hflat hwf hne
      simp only
      have hgne : g ≠ [] := hne (k, g) (by simp)
      -- the label of the next group is not below key r
      have hk : Val.lt k (key r) = false := by
        cases g with
        | nil => exact absurd rfl hgne
        | cons x xs =>
          have hx : x ∈ rest := by rw [← hflat]; simp [flattenG]
          have e := hwf.head x (by simp)
          rw [← Val.lt_congr_left (key x) k (key r) e]
          exact hr x hx
      by_cases he : Val.eq (key r) k = true
      · simp only [he, if_true]
        refine ⟨by simp [flattenG_cons, ← hflat], ⟨?_, ?_⟩, ?_⟩
        · apply List.pairwise_cons.2
          refine ⟨?_, (List.pairwise_cons.1 hwf.asc).2⟩
          intro h hh
          have := (List.pairwise_cons.1 hwf.asc).1 h hh
          simp only at this ⊢
          rw [Val.lt_congr_left (key r) k h.1 he]; exact this
        · intro g' hg' x hx
          simp only [List.mem_cons] at hg'
          rcases hg' with rfl | hg'
          · simp only [List.mem_cons] at hx
            rcases hx with rfl | hx
            · exact Val.eq_refl _
            · exact Val.eq_trans _ _ _ (hwf.head x hx) (by rw [Val.eq_symm]; exact he)
          · exact hwf.keyed g' (List.mem_cons_of_mem _ hg') x hx
        · intro g' hg'
          simp only [List.mem_cons] at hg'
          rcases hg' with rfl | hg'
          · simp
          · exact hne g' (List.mem_cons_of_mem _ hg')
      · have he' : Val.eq (key r) k = false := by simpa using he
        simp only [he', Bool.false_eq_true, if_false]
        have hlt : Val.lt (key r) k = true := by
          rcases Val.tri (key r) k with h | h | h
          · exact h
          · simp [h] at he'
          · simp [h] at hk
        refine ⟨by simp [flattenG_cons, ← hflat], ⟨?_, ?_⟩, ?_⟩
        · apply List.pairwise_cons.2
          refine ⟨?_, hwf.asc⟩
          intro h hh
          simp only [List.mem_cons] at hh
          rcases hh with rfl | hh
          · exact hlt
          · exact Val.lt_trans _ _ _ hlt ((List.pairwise_cons.1 hwf.asc).1 h hh)
        · intro g' hg' x hx
          simp only [List.mem_cons] at hg'
          rcases hg' with rfl | hg'
          · simp at hx; subst hx; exact Val.eq_refl _
          · exact hwf.keyed g' (by simpa using hg') x hx
        · intro g' hg'
          simp only [List.mem_cons] at hg'
          rcases hg' with rfl | hg'
          · simp
          · exact hne g' (by simpa using hg')

/-! ### which right rows a left row matches, in the three branches of the merge loop -/

section rowmatches
variable {kl kr : Row → Val} {lk rk : Val} {lg rg : List Row} {ls rs : List (Val × List Row)}

theorem matches_lt (hl : GroupsWF kl ((lk, lg) :: ls)) (hr : GroupsWF kr ((rk, rg) :: rs))
    (hlt : Val.lt lk rk = true) (l : Row) (hl' : l ∈ lg) :
    (flattenG ((rk, rg) :: rs)).filter (fun r => Val.eq (kl l) (kr r)) = [] := by
  apply filter_none
  intro r hr'
  have e1 := hl.head l hl'
  have hrk : Val.lt lk (kr r) = true := by
    rw [flattenG_cons, List.mem_append] at hr'
    rcases hr' with h | h
    · have := hr.head r h
      rw [Val.lt_congr_right lk (kr r) rk this]; exact hlt
    · exact Val.lt_trans _ _ _ hlt (hr.later r h)
  rw [Val.lt_congr_left lk (kl l) (kr r) (by rw [Val.eq_symm]; exact e1)] at hrk
  exact eq_false_of_lt hrk

theorem matches_gt (hl : GroupsWF kl ((lk, lg) :: ls)) (hr : GroupsWF kr ((rk, rg) :: rs))
    (hgt : Val.lt rk lk = true) (l : Row) (hl' : l ∈ flattenG ((lk, lg) :: ls)) :
    (flattenG ((rk, rg) :: rs)).filter (fun r => Val.eq (kl l) (kr r))
      = (flattenG rs).filter (fun r => Val.eq (kl l) (kr r)) := by
  rw [flattenG_cons, List.filter_append]
  have : rg.filter (fun r => Val.eq (kl l) (kr r)) = [] := by
    apply filter_none
    intro r hr'
    have e1 := hr.head r hr'
    have hlk : Val.lt rk (kl l) = true := by
      rw [flattenG_cons, List.mem_append] at hl'
      rcases hl' with h | h
      · have := hl.head l h
        rw [Val.lt_congr_right rk (kl l) lk this]; exact hgt
      · exact Val.lt_trans _ _ _ hgt (hl.later l h)
    rw [Val.lt_congr_left rk (kr r) (kl l) (by rw [Val.eq_symm]; exact e1)] at hlk
    exact eq_false_of_gt hlk
  simp [this]

theorem matches_eq_head (hl : GroupsWF kl ((lk, lg) :: ls)) (hr : GroupsWF kr ((rk, rg) :: rs))
    (heq : Val.eq lk rk = true) (l : Row) (hl' : l ∈ lg) :
    (flattenG ((rk, rg) :: rs)).filter (fun r => Val.eq (kl l) (kr r)) = rg := by
  have e1 := hl.head l hl'
  have ekl : Val.eq (kl l) rk = true := Val.eq_trans _ _ _ e1 heq
  rw [flattenG_cons, List.filter_append, filter_all rg _ (fun r hr' => by
        have := hr.head r hr'
        exact Val.eq_trans _ _ _ ekl (by rw [Val.eq_symm]; exact this)),
      filter_none (flattenG rs) _ (fun r hr' => by
        have := hr.later r hr'
        rw [Val.lt_congr_left rk (kl l) (kr r) (by rw [Val.eq_symm]; exact ekl)] at this
        exact eq_false_of_lt this)]
  simp

theorem matches_eq_tail (hl : GroupsWF kl ((lk, lg) :: ls)) (hr : GroupsWF kr ((rk, rg) :: rs))
    (heq : Val.eq lk rk = true) (l : Row) (hl' : l ∈ flattenG ls) :
    (flattenG ((rk, rg) :: rs)).filter (fun r => Val.eq (kl l) (kr r))
      = (flattenG rs).filter (fun r => Val.eq (kl l) (kr r)) := by
  rw [flattenG_cons, List.filter_append]
  have : rg.filter (fun r => Val.eq (kl l) (kr r)) = [] := by
    apply filter_none
    intro r hr'
    have e1 := hr.head r hr'
    have h1 := hl.later l hl'
    have ekr : Val.eq (kr r) lk = true := Val.eq_trans _ _ _ e1 (by rw [Val.eq_symm]; exact heq)
    rw [Val.lt_congr_left lk (kr r) (kl l) (by rw [Val.eq_symm]; exact ekr)] at h1
    exact eq_false_of_gt h1
  simp [this]

end rowmatches

/-! ### left outer join, antijoin, lookupjoin: exact nested-loop forms -/

/-- a per-left-row join: the output is a function of the left row and its list of partners -/
def perLeft (f : Row → List Row → List Row) (kl kr : Row → Val) (L R : List Row) : List Row :=
  L.flatMap (fun l => f l (R.filter (fun r => Val.eq (kl l) (kr r))))

theorem perLeft_append (f) (kl kr) (A B R : List Row) :
    perLeft f kl kr (A ++ B) R = perLeft f kl kr A R ++ perLeft f kl kr B R := by
  simp [perLeft, List.flatMap_append]

theorem perLeft_congr (f) (kl kr) (L R R' : List Row)
    (h : ∀ l ∈ L, R.filter (fun r => Val.eq (kl l) (kr r)) = R'.filter (fun r => Val.eq (kl l) (kr r))) :
    perLeft f kl kr L R = perLeft f kl kr L R' := by
  simp only [perLeft]
  apply flatMap_congr'
  intro l hl; rw [h l hl]

theorem perLeft_const (f) (kl kr) (L R : List Row) (ms : List Row)
    (h : ∀ l ∈ L, R.filter (fun r => Val.eq (kl l) (kr r)) = ms) :
    perLeft f kl kr L R = L.flatMap (fun l => f l ms) := by
  simp only [perLeft]
  apply flatMap_congr'
  intro l hl; rw [h l hl]

/-- a merge loop that emits `f l []` for rows of unmatched left groups, `f l rg` for matched ones,
    and nothing for unmatched right groups -/
def mergeLeft (f : Row → List Row → List Row) :
    List (Val × List Row) → List (Val × List Row) → List Row
  | [], _ => []
  | l :: ls, [] => (l :: ls).flatMap (fun g => g.2.flatMap (fun x => f x []))
  | (lk, lg) :: ls, (rk, rg) :: rs =>
    if Val.lt lk rk then lg.flatMap (fun x => f x []) ++ mergeLeft f ls ((rk, rg) :: rs)
    else if Val.gt lk rk then mergeLeft f ((lk, lg) :: ls) rs
    else lg.flatMap (fun x => f x rg) ++ mergeLeft f ls rs
termination_by ls rs => ls.length + rs.length

theorem mergeLeft_eq_perLeft (f) (kl kr : Row → Val) :
    ∀ (lgs rgs : List (Val × List Row)), GroupsWF kl lgs → GroupsWF kr rgs →
      mergeLeft f lgs rgs = perLeft f kl kr (flattenG lgs) (flattenG rgs) := by
  intro lgs rgs
  fun_induction mergeLeft f lgs rgs with
  | case1 rs => intro _ _; simp [flattenG, perLeft]
  | case2 l ls =>
    intro _ _
    rw [perLeft_const f kl kr _ (flattenG []) [] (fun l _ => by simp [flattenG])]
    simp [flattenG, List.flatMap_assoc]
  | case3 lk lg ls rk rg rs hlt ih =>
    intro hl hr
    rw [ih hl.tail hr, flattenG_cons (lk, lg) ls, perLeft_append]
    congr 1
    rw [perLeft_const f kl kr lg _ [] (fun l hl' => matches_lt hl hr hlt l hl')]
  | case4 lk lg ls rk rg rs hlt hgt ih =>
    intro hl hr
    rw [ih hl hr.tail]
    have hgt' : Val.lt rk lk = true := by rw [← gt_eq_lt]; exact hgt
    exact (perLeft_congr f kl kr _ _ _ (fun l hl' => matches_gt hl hr hgt' l hl')).symm
  | case5 lk lg ls rk rg rs hlt hgt ih =>
    intro hl hr
    have heq : Val.eq lk rk = true := eq_of_not_lt_not_gt (by simpa using hlt) (by simpa using hgt)
    rw [ih hl.tail hr.tail, flattenG_cons (lk, lg) ls, perLeft_append]
    congr 1
    · rw [perLeft_const f kl kr lg _ rg (fun l hl' => matches_eq_head hl hr heq l hl')]
    · exact (perLeft_congr f kl kr _ _ _ (fun l hl' => matches_eq_tail hl hr heq l hl')).symm

/-! ### the concrete loops are instances of `mergeLeft` -/

def fInner (ops : JoinOps) (l : Row) (ms : List Row) : List Row := ms.map (fun r => ops.pair l r)
def fLeft (ops : JoinOps) (l : Row) (ms : List Row) : List Row :=
  if ms.isEmpty then [ops.padL l] else ms.map (fun r => ops.pair l r)
def fAnti (l : Row) (ms : List Row) : List Row := if ms.isEmpty then [l] else []
def fLookup (ops : JoinOps) (l : Row) (ms : List Row) : List Row :=
  match ms with
  | [] => [ops.padL l]
  | r :: _ => [ops.pair l r]

theorem flatMap_singleton' {α β : Type} (l : List α) (f : α → β) : l.flatMap (fun x => [f x]) = l.map f := by
  induction l with
  | nil => rfl
  | cons a l ih => simp [List.flatMap_cons, ih]

theorem mergeGroups_left_eq (ops : JoinOps) (lo ro : Bool) (hlo : lo = true) (hro : ro = false) :
    ∀ (lgs rgs : List (Val × List Row)), (∀ g ∈ rgs, g.2 ≠ []) →
      mergeGroups ops lo ro lgs rgs = mergeLeft (fLeft ops) lgs rgs := by
  intro lgs rgs
  fun_induction mergeGroups ops lo ro lgs rgs with
  | case1 rs h => simp [hro] at h
  | case2 rs h => intro _; simp [mergeLeft]
  | case3 l ls h =>
    intro _
    rw [mergeLeft]
    apply flatMap_congr'
    intro g _
    simp [fLeft, flatMap_singleton']
  | case4 l ls h => simp [hlo] at h
  | case5 lk lg ls rk rg rs hlt ih =>
    intro hne
    subst hlo
    rw [mergeLeft, ih hne]
    simp [hlt, fLeft, flatMap_singleton']
  | case6 lk lg ls rk rg rs hlt hgt ih =>
    intro hne
    subst hro
    rw [mergeLeft, ih (fun g hg => hne g (List.mem_cons_of_mem _ hg))]
    simp [hlt, hgt]
  | case7 lk lg ls rk rg rs hlt hgt ih =>
    intro hne
    rw [mergeLeft, ih (fun g hg => hne g (List.mem_cons_of_mem _ hg))]
    have hrg : rg ≠ [] := hne (rk, rg) (by simp)
    have : rg.isEmpty = false := by cases rg <;> simp_all
    simp [hlt, hgt, fLeft, crossRows, this]

theorem antiGroups_eq : ∀ (lgs rgs : List (Val × List Row)), (∀ g ∈ rgs, g.2 ≠ []) →
    antiGroups lgs rgs = mergeLeft fAnti lgs rgs := by
  intro lgs rgs
  fun_induction antiGroups lgs rgs with
  | case1 rs => intro _; simp [mergeLeft]
  | case2 l ls =>
    intro _
    rw [mergeLeft]
    apply flatMap_congr'
    intro g _
    simp [fAnti, flatMap_singleton']
  | case3 lk lg ls rk rg rs hlt ih =>
    intro hne
    rw [mergeLeft, ih hne]
    simp [hlt, fAnti, flatMap_singleton']
  | case4 lk lg ls rk rg rs hlt hgt ih =>
    intro hne
    rw [mergeLeft, ih (fun g hg => hne g (List.mem_cons_of_mem _ hg))]
    simp [hlt, hgt]
  | case5 lk lg ls rk rg rs hlt hgt ih =>
    intro hne
    rw [mergeLeft, ih (fun g hg => hne g (List.mem_cons_of_mem _ hg))]
    have hrg : rg ≠ [] := hne (rk, rg) (by simp)
    have : rg.isEmpty = false := by cases rg <;> simp_all
    simp [hlt, hgt, fAnti, this]

theorem lookupGroups_eq (ops : JoinOps) : ∀ (lgs rgs : List (Val × List Row)),
    lookupGroups ops lgs rgs = mergeLeft (fLookup ops) lgs rgs := by
  intro lgs rgs
  fun_induction lookupGroups ops lgs rgs with
  | case1 rs => simp [mergeLeft]
  | case2 l ls =>
    rw [mergeLeft]
    apply flatMap_congr'
    intro g _
    simp [fLookup, flatMap_singleton']
  | case3 lk lg ls rk rg rs hlt ih =>
    rw [mergeLeft, ih]
    simp [hlt, fLookup, flatMap_singleton']
  | case4 lk lg ls rk rg rs hlt hgt ih =>
    rw [mergeLeft, ih]
    simp [hlt, hgt]
  | case5 lk lg ls rk rg rs hlt hgt ih =>
    rw [mergeLeft, ih]
    cases rg <;> simp [hlt, hgt, fLookup, flatMap_singleton']

theorem perLeft_fLeft (ops : JoinOps) (kl kr) (L R : List Row) :
    perLeft (fLeft ops) kl kr L R = nlLeft ops kl kr L R := rfl

theorem filter_isEmpty_eq_not_any (R : List Row) (p : Row → Bool) :
    (R.filter p).isEmpty = !(R.any p) := by
  induction R with
  | nil => rfl
  | cons r R ihR =>
    simp only [List.filter_cons, List.any_cons]
    cases p r <;> simp [ihR]

theorem perLeft_fAnti (kl kr) (L R : List Row) :
    perLeft fAnti kl kr L R = unmatchedL kl kr L R := by
  induction L with
  | nil => rfl
  | cons l L ih =>
    simp only [perLeft, List.flatMap_cons, unmatchedL, List.filter_cons] at ih ⊢
    rw [ih]
    simp only [fAnti, filter_isEmpty_eq_not_any]
    cases R.any (fun r => Val.eq (kl l) (kr r)) <;> simp

theorem perLeft_fLookup (ops : JoinOps) (kl kr) (L R : List Row) :
    perLeft (fLookup ops) kl kr L R = nlLookup ops kl kr L R := by
  simp only [perLeft, nlLookup]
  rw [← flatMap_singleton']
  apply flatMap_congr'
  intro l _
  have : ∀ R : List Row, fLookup ops l (R.filter (fun r => Val.eq (kl l) (kr r))) =
      [match R.find? (fun r => Val.eq (kl l) (kr r)) with | some r => ops.pair l r | none => ops.padL l] := by
    intro R
    induction R with
    | nil => rfl
    | cons r R ihR =>
      simp only [List.filter_cons, List.find?_cons]
      cases h : Val.eq (kl l) (kr r)
      · simpa using ihR
      · simp [fLookup]
  exact this R

/-! ### outer joins: the merge loop emits the inner join plus the padded unmatched groups -/

theorem perm_P1 {α : Type} (a b c d : List α) : (a ++ (b ++ c ++ d)).Perm (b ++ (a ++ c) ++ d) := by
  have h1 : a ++ (b ++ c ++ d) = a ++ (b ++ (c ++ d)) := by simp
  have h2 : b ++ (a ++ c) ++ d = b ++ (a ++ (c ++ d)) := by simp
  rw [h1, h2]
  exact List.perm_append_comm_assoc a b (c ++ d)

theorem perm_P2 {α : Type} (a b c d : List α) : (a ++ (b ++ c ++ d)).Perm (b ++ c ++ (a ++ d)) := by
  have h1 : a ++ (b ++ c ++ d) = a ++ ((b ++ c) ++ d) := by simp
  rw [h1]
  exact List.perm_append_comm_assoc a (b ++ c) d

theorem lt_swap_facts {lk rk : Val} (hlt : Val.lt lk rk = true) :
    Val.lt rk lk = false ∧ Val.gt rk lk = true := by
  refine ⟨Val.lt_asymm _ _ hlt, ?_⟩
  rw [gt_eq_lt]; exact hlt

theorem mergeGroups_decomp (ops : JoinOps) (lo ro : Bool) :
    ∀ (lgs rgs : List (Val × List Row)),
      (mergeGroups ops lo ro lgs rgs).Perm
        (mergeGroups ops false false lgs rgs
          ++ (if lo then (antiGroups lgs rgs).map ops.padL else [])
          ++ (if ro then (antiGroups rgs lgs).map ops.padR else [])) := by
  intro lgs rgs
  fun_induction mergeGroups ops lo ro lgs rgs with
  | case1 rs h =>
    cases rs with
    | nil => simp [mergeGroups, antiGroups]
    | cons r rs => simp [mergeGroups, antiGroups, h, List.map_flatMap]
  | case2 rs h =>
    have : ro = false := by simpa using h
    simp [mergeGroups, antiGroups, this]
  | case3 l ls h =>
    simp [mergeGroups, antiGroups, h, List.map_flatMap]
  | case4 l ls h =>
    have : lo = false := by simpa using h
    simp [mergeGroups, antiGroups, this]
  | case5 lk lg ls rk rg rs hlt ih =>
    obtain ⟨h1, h2⟩ := lt_swap_facts hlt
    rw [mergeGroups, antiGroups, antiGroups]
    simp only [hlt, h1, h2, if_true, Bool.false_eq_true, if_false, List.nil_append]
    cases lo
    · simpa using ih
    · simp only [if_true, List.map_append] at ih ⊢
      exact (List.Perm.append_left _ ih).trans (perm_P1 _ _ _ _)
  | case6 lk lg ls rk rg rs hlt hgt ih =>
    have hlt' : Val.lt lk rk = false := by simpa using hlt
    have h1 : Val.lt rk lk = true := by rw [← gt_eq_lt]; exact hgt
    rw [mergeGroups, antiGroups, antiGroups]
    simp only [hlt', hgt, h1, if_true, Bool.false_eq_true, if_false, List.nil_append]
    cases ro
    · simpa using ih
    · simp only [if_true, List.map_append] at ih ⊢
      exact (List.Perm.append_left _ ih).trans (perm_P2 _ _ _ _)
  | case7 lk lg ls rk rg rs hlt hgt ih =>
    have hlt' : Val.lt lk rk = false := by simpa using hlt
    have hgt' : Val.gt lk rk = false := by simpa using hgt
    have h1 : Val.lt rk lk = false := by rw [← gt_eq_lt]; exact hgt'
    have h2 : Val.gt rk lk = false := by rw [gt_eq_lt]; exact hlt'
    rw [mergeGroups, antiGroups, antiGroups]
    simp only [hlt', hgt', h1, h2, Bool.false_eq_true, if_false]
    have := List.Perm.append_left (crossRows ops lg rg) ih
    simpa [List.append_assoc] using this

/-! ### the relational definitions do not depend on the order of the input rows -/

theorem flatMap_perm_pointwise {α β : Type} (l : List α) (f g : α → List β)
    (h : ∀ a ∈ l, (f a).Perm (g a)) : (l.flatMap f).Perm (l.flatMap g) := by
  induction l with
  | nil => exact List.Perm.refl _
  | cons a l ih =>
    simp only [List.flatMap_cons]
    exact List.Perm.append (h a (by simp)) (ih (fun b hb => h b (List.mem_cons_of_mem _ hb)))

theorem nlInner_perm (ops : JoinOps) (kl kr) {L L' R R' : List Row} (hL : L.Perm L') (hR : R.Perm R') :
    (nlInner ops kl kr L R).Perm (nlInner ops kl kr L' R') := by
  refine (List.Perm.flatMap_right _ hL).trans ?_
  apply flatMap_perm_pointwise
  intro l _
  exact (hR.filter _).map _

theorem any_perm {R R' : List Row} (p : Row → Bool) (h : R.Perm R') : R.any p = R'.any p := by
  have : ∀ {A B : List Row}, A.Perm B → A.any p = true → B.any p = true := by
    intro A B hAB hA
    obtain ⟨x, hx, hpx⟩ := List.any_eq_true.1 hA
    exact List.any_eq_true.2 ⟨x, hAB.mem_iff.1 hx, hpx⟩
  cases h1 : R.any p
  · cases h2 : R'.any p
    · rfl
    · have := this h.symm h2; simp [this] at h1
  · exact (this h h1).symm

theorem unmatchedL_perm (kl kr) {L L' R R' : List Row} (hL : L.Perm L') (hR : R.Perm R') :
    (unmatchedL kl kr L R).Perm (unmatchedL kl kr L' R') := by
  simp only [unmatchedL]
  have : (fun l => !(R.any (fun r => Val.eq (kl l) (kr r)))) = (fun l => !(R'.any (fun r => Val.eq (kl l) (kr r)))) := by
    funext l; rw [any_perm _ hR]
  rw [this]
  exact hL.filter _

end Petl
