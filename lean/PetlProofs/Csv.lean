/-
  The csv codec is lossless on text: reading what the writer wrote returns the records
  (discharges the `RowCodecOK` hypothesis of C15 for csv, QUOTE_MINIMAL and QUOTE_ALL, any delimiter / quotechar
  that differ and are not CR / LF).
-/
import Petl.Csv

namespace Petl.Csv

variable {d q : Nat} {qa : Bool}

/-- the dialect guard -/
structure Dialect (d q : Nat) : Prop where
  dq : d ≠ q
  dnl : isNL d = false
  qnl : isNL q = false

theorem run_append (ps : Pend × St) (a b : List Nat) : run d q ps (a ++ b) = run d q (run d q ps a) b := by
  simp [run, List.foldl_append]

theorem run_cons (ps : Pend × St) (c : Nat) (t : List Nat) : run d q ps (c :: t) = run d q (feed d q ps c) t := rfl

theorem run_nil (ps : Pend × St) : run d q ps [] = ps := rfl

theorem isNL_false {c : Nat} (h : isNL c = false) : c ≠ CR ∧ c ≠ LF := by
  simp [isNL] at h; exact h

/-! ### inside a quoted field -/

theorem feed_inQuoted_other (p : Pend) (s : St) (c : Nat) (hm : s.mode = .inQuoted) (hc : c ≠ q) :
    ∃ p', feed d q (p, s) c = (p', s.add c) := by
  have he : eol s = s := by simp [eol, hm]
  have hch : char d q s c = s.add c := by simp [char, hm, hc]
  have hm' : (s.add c).mode = .inQuoted := by simp [St.add, hm]
  have he' : eol (s.add c) = s.add c := by simp [eol, hm']
  by_cases h1 : c = LF
  · subst h1
    refine ⟨.none, ?_⟩
    unfold feed
    by_cases hp : p = .cr <;> simp [hp, he, hch, he']
  · by_cases h2 : c = CR
    · subst h2
      refine ⟨.cr, ?_⟩
      unfold feed
      by_cases hp : p = .cr <;> simp [hp, he, hch, h1]
    · refine ⟨.dirty, ?_⟩
      unfold feed
      by_cases hp : p = .cr <;> simp [h1, h2, hp, he, hch]

theorem feed_inQuoted_quote (D : Dialect d q) (p : Pend) (s : St) (hm : s.mode = .inQuoted) :
    feed d q (p, s) q = (.dirty, { s with mode := .quoteInQuoted }) := by
  have ⟨h1, h2⟩ := isNL_false D.qnl
  have he : eol s = s := by simp [eol, hm]
  unfold feed
  by_cases hp : p = .cr <;> simp [h1, h2, hp, he, char, hm]

theorem feed_quoteInQuoted_quote (D : Dialect d q) (s : St) (hm : s.mode = .quoteInQuoted) :
    feed d q (.dirty, s) q = (.dirty, { s.add q with mode := .inQuoted }) := by
  have ⟨h1, h2⟩ := isNL_false D.qnl
  unfold feed
  simp [h1, h2, char, hm]

/-- the escaped content of a quoted field is read back as the content -/
theorem run_escape (D : Dialect d q) : ∀ (f : Field) (p : Pend) (s : St), s.mode = .inQuoted →
    ∃ p', run d q (p, s) (escape q f) = (p', { s with field := s.field ++ f }) := by
  intro f
  induction f with
  | nil => intro p s _; exact ⟨p, by simp [escape, run]⟩
  | cons c f ih =>
    intro p s hm
    by_cases hc : c = q
    · subst hc
      have h1 := feed_inQuoted_quote D p s hm
      have h2 := feed_quoteInQuoted_quote D { s with mode := .quoteInQuoted } rfl
      have ⟨p', h3⟩ := ih .dirty { ({ s with mode := .quoteInQuoted } : St).add c with mode := .inQuoted } rfl
      refine ⟨p', ?_⟩
      have : escape c (c :: f) = c :: c :: escape c f := by simp [escape]
      rw [this, run_cons, h1, run_cons, h2, h3]
      simp [St.add, hm]
    · have ⟨p1, h1⟩ := feed_inQuoted_other (d := d) p s c hm hc
      have ⟨p', h3⟩ := ih p1 (s.add c) (by simp [St.add, hm])
      refine ⟨p', ?_⟩
      have : escape q (c :: f) = c :: escape q f := by simp [escape, hc]
      rw [this, run_cons, h1, h3]
      simp [St.add]

/-! ### plain (unquoted) characters -/

def Plain (d q : Nat) (c : Nat) : Prop := c ≠ d ∧ c ≠ q ∧ isNL c = false

theorem plain_of_needsQuote {f : Field} (h : needsQuote d q f = false) : ∀ c ∈ f, Plain d q c := by
  intro c hc
  simp only [needsQuote, List.any_eq_false] at h
  have := h c hc
  simp at this
  refine ⟨this.1.1.1, this.1.1.2, ?_⟩
  simp [isNL, this.1.2, this.2]

theorem feed_plain_start (p : Pend) (s : St) (c : Nat) (hp : p ≠ .cr) (hc : Plain d q c)
    (hm : s.mode = .startRecord ∨ s.mode = .startField) :
    feed d q (p, s) c = (.dirty, { s.add c with mode := .inField }) := by
  have ⟨h1, h2⟩ := isNL_false hc.2.2
  unfold feed
  rcases hm with hm | hm <;> simp [hp, h1, h2, char, hm, startFieldChar, hc.2.2, hc.1, hc.2.1]

theorem feed_plain_inField (p : Pend) (s : St) (c : Nat) (hp : p ≠ .cr) (hc : Plain d q c) (hm : s.mode = .inField) :
    feed d q (p, s) c = (.dirty, s.add c) := by
  have ⟨h1, h2⟩ := isNL_false hc.2.2
  unfold feed
  simp [hp, h1, h2, char, hm, hc.2.2, hc.1]

theorem run_plain_inField : ∀ (f : Field) (p : Pend) (s : St), p ≠ .cr → (∀ c ∈ f, Plain d q c) → s.mode = .inField →
    ∃ p', p' ≠ .cr ∧ run d q (p, s) f = (p', { s with field := s.field ++ f }) := by
  intro f
  induction f with
  | nil => intro p s hp _ _; exact ⟨p, hp, by simp [run]⟩
  | cons c f ih =>
    intro p s hp hf hm
    have h1 := feed_plain_inField (d := d) (q := q) p s c hp (hf c (by simp)) hm
    have ⟨p', hp', h2⟩ := ih .dirty (s.add c) (by simp) (fun x hx => hf x (by simp [hx])) (by simp [St.add, hm])
    refine ⟨p', hp', ?_⟩
    rw [run_cons, h1, h2]; simp [St.add]

/-! ### one field -/

/-- the reader has just consumed the text of field `f`, starting from `s0` -/
def Parsed (s0 s' : St) (f : Field) : Prop :=
  s'.fields = s0.fields ∧ s'.records = s0.records ∧ s'.err = s0.err ∧ s'.field = f ∧
  (s'.mode = .inField ∨ s'.mode = .quoteInQuoted ∨ (f = [] ∧ s'.mode = s0.mode))

theorem run_writeField (D : Dialect d q) (f : Field) (p : Pend) (s0 : St) (hp : p ≠ .cr) (hf : s0.field = [])
    (hm : s0.mode = .startRecord ∨ s0.mode = .startField) :
    ∃ p' s', p' ≠ .cr ∧ run d q (p, s0) (writeField qa d q f) = (p', s') ∧ Parsed s0 s' f := by
  unfold writeField
  by_cases hn : (qa || needsQuote d q f) = true
  · simp only [hn, if_true]
    have ⟨h1, h2⟩ := isNL_false D.qnl
    have hopen : feed d q (p, s0) q = (.dirty, { s0 with mode := .inQuoted }) := by
      unfold feed
      rcases hm with hm | hm <;> simp [hp, h1, h2, char, hm, startFieldChar, D.qnl]
    have ⟨p1, hbody⟩ := run_escape D f .dirty { s0 with mode := .inQuoted } rfl
    have hclose := feed_inQuoted_quote D p1 { ({ s0 with mode := .inQuoted } : St) with field := s0.field ++ f } rfl
    refine ⟨.dirty, { s0 with mode := .quoteInQuoted, field := s0.field ++ f }, by simp, ?_, ?_⟩
    · rw [List.append_assoc, List.singleton_append, run_cons, hopen, run_append, hbody, run_cons, hclose, run_nil]
    · simp [Parsed, hf]
  · have hn0 : (qa || needsQuote d q f) = false := by simpa using hn
    have hn' : needsQuote d q f = false := by
      cases qa <;> simp_all
    simp only [hn0, Bool.false_eq_true, if_false]
    have hpl := plain_of_needsQuote hn'
    cases f with
    | nil => exact ⟨p, s0, hp, rfl, by simp [Parsed, hf]⟩
    | cons c f =>
      have h1 := feed_plain_start (d := d) (q := q) p s0 c hp (hpl c (by simp)) hm
      have ⟨p', hp', h2⟩ := run_plain_inField (d := d) (q := q) f .dirty { s0.add c with mode := .inField } (by simp)
        (fun x hx => hpl x (by simp [hx])) rfl
      refine ⟨p', { ({ s0.add c with mode := .inField } : St) with field := ({ s0.add c with mode := .inField } : St).field ++ f }, hp', ?_, ?_⟩
      · rw [run_cons, h1, h2]
      · simp [Parsed, St.add, hf]

/-- a delimiter after a parsed field stores it and starts the next -/
theorem feed_delim (D : Dialect d q) (p : Pend) (s0 s' : St) (f : Field) (hp : p ≠ .cr) (hP : Parsed s0 s' f)
    (hm : s0.mode = .startRecord ∨ s0.mode = .startField) :
    feed d q (p, s') d =
      (.dirty, { mode := .startField, field := [], fields := s0.fields ++ [f], records := s0.records, err := s0.err }) := by
  have ⟨h1, h2⟩ := isNL_false D.dnl
  obtain ⟨e1, e2, e3, e4, hmode⟩ := hP
  have hqd : ¬ d = q := D.dq
  unfold feed
  rcases hmode with hmode | hmode | ⟨hf, hmode⟩
  · simp [hp, h1, h2, char, hmode, D.dnl, St.save, e1, e2, e3, e4]
  · simp [hp, h1, h2, char, hmode, D.dnl, hqd, St.save, e1, e2, e3, e4]
  · rcases hm with hm | hm <;>
      simp [hp, h1, h2, char, hmode, hm, startFieldChar, D.dnl, hqd, St.save, e1, e2, e3, e4]

/-- the line terminator after a parsed (last) field stores it and delivers the record -/
theorem run_term (D : Dialect d q) (p : Pend) (s0 s' : St) (f : Field) (hp : p ≠ .cr) (hP : Parsed s0 s' f)
    (hm : s0.mode = .startField ∨ (s0.mode = .startRecord ∧ (f = [] → s'.mode ≠ .startRecord))) :
    run d q (p, s') [CR, LF] =
      (.none, { mode := .startRecord, field := [], fields := [], records := s0.records ++ [s0.fields ++ [f]], err := s0.err }) := by
  obtain ⟨e1, e2, e3, e4, hmode⟩ := hP
  have hcq : ¬ CR = q := fun h => by have := D.qnl; simp [isNL, ← h] at this
  have hcd : ¬ CR = d := fun h => by have := D.dnl; simp [isNL, ← h] at this
  have hnl : isNL CR = true := by simp [isNL]
  have hnl2 : isNL LF = true := by simp [isNL]
  have hne : ¬ CR = LF := by decide
  have key : ∀ s1 : St, s1.mode = .eatCRNL → feed d q (.cr, s1) LF = (.none, { s1 with mode := .startRecord }.emit) := by
    intro s1 h1
    unfold feed
    simp [char, h1, hnl2, eol]
  rw [run_cons, run_cons, run_nil]
  rcases hmode with hmode | hmode | ⟨hf, hmode⟩
  · have : feed d q (p, s') CR = (.cr, { s'.save with mode := .eatCRNL }) := by
      unfold feed; simp [hp, hne, char, hmode, hnl]
    rw [this, key _ rfl]; simp [St.save, St.emit, e1, e2, e3, e4]
  · have : feed d q (p, s') CR = (.cr, { s'.save with mode := .eatCRNL }) := by
      unfold feed; simp [hp, hne, char, hmode, hnl, hcq, hcd]
    rw [this, key _ rfl]; simp [St.save, St.emit, e1, e2, e3, e4]
  · have hsf : s'.mode = .startField := by
      rcases hm with hm | ⟨hm, hx⟩
      · rw [hmode, hm]
      · exact absurd (hmode.trans hm) (hx hf)
    have : feed d q (p, s') CR = (.cr, { s'.save with mode := .eatCRNL }) := by
      unfold feed; simp [hp, hne, char, hsf, startFieldChar, hnl]
    rw [this, key _ rfl]; simp [St.save, St.emit, e1, e2, e3, e4]

/-! ### one record -/

theorem run_joinFields (D : Dialect d q) : ∀ (r : Record) (p : Pend) (s0 : St), r ≠ [] → p ≠ .cr → s0.field = [] →
    (s0.mode = .startField ∨ (s0.mode = .startRecord ∧ r ≠ [[]])) →
    run d q (p, s0) (joinFields qa d q r ++ [CR, LF]) =
      (.none, { mode := .startRecord, field := [], fields := [], records := s0.records ++ [s0.fields ++ r], err := s0.err }) := by
  intro r
  induction r with
  | nil => intro p s0 h; exact absurd rfl h
  | cons f rest ih =>
    intro p s0 _ hp hf hm
    have hm' : s0.mode = .startRecord ∨ s0.mode = .startField := by
      rcases hm with h | h
      · exact Or.inr h
      · exact Or.inl h.1
    obtain ⟨p1, s1, hp1, hrun, hP⟩ := run_writeField D f p s0 hp hf hm'
    cases rest with
    | nil =>
      simp only [joinFields]
      rw [run_append, hrun]
      refine run_term D p1 s0 s1 f hp1 hP ?_
      rcases hm with h | ⟨h, hne⟩
      · exact Or.inl h
      · refine Or.inr ⟨h, fun hfe => ?_⟩
        subst hfe
        exact absurd rfl hne
    | cons f2 rest2 =>
      simp only [joinFields]
      rw [List.append_assoc, List.append_assoc, run_append, hrun, List.singleton_append, run_cons,
        feed_delim D p1 s0 s1 f hp1 hP hm']
      have := ih .dirty { mode := .startField, field := [], fields := s0.fields ++ [f], records := s0.records, err := s0.err }
        (by simp) (by simp) rfl (Or.inl rfl)
      rw [this]; simp

/-- a record ready to be started -/
def Ready (s : St) : Prop := s.mode = .startRecord ∧ s.field = [] ∧ s.fields = []

theorem run_writeRow (D : Dialect d q) (r : Record) (s0 : St) (h0 : Ready s0) :
    run d q (.none, s0) (writeRow qa d q r) =
      (.none, { mode := .startRecord, field := [], fields := [], records := s0.records ++ [r], err := s0.err }) := by
  obtain ⟨hm, hf, hfs⟩ := h0
  have hnl2 : isNL LF = true := by simp [isNL]
  have hnl : isNL CR = true := by simp [isNL]
  have hne : ¬ CR = LF := by decide
  by_cases h1 : r = [[]]
  · -- the lone empty field is written as ""
    subst h1
    have ⟨q1, q2⟩ := isNL_false D.qnl
    have hcq : ¬ CR = q := fun h => by have := D.qnl; simp [isNL, ← h] at this
    have hcd : ¬ CR = d := fun h => by have := D.dnl; simp [isNL, ← h] at this
    simp only [writeRow]
    rw [run_cons, run_cons, run_cons, run_cons, run_nil]
    have a1 : feed d q (.none, s0) q = (.dirty, { s0 with mode := .inQuoted }) := by
      unfold feed; simp [q1, q2, char, hm, startFieldChar, D.qnl]
    have a2 := feed_inQuoted_quote D .dirty { s0 with mode := .inQuoted } rfl
    rw [a1, a2]
    have a3 : feed d q (.dirty, { ({ s0 with mode := .inQuoted } : St) with mode := .quoteInQuoted }) CR =
        (.cr, { mode := .eatCRNL, field := [], fields := [[]], records := s0.records, err := s0.err }) := by
      unfold feed; simp [hne, char, hcq, hcd, hnl, St.save, hf, hfs]
    rw [a3]
    unfold feed; simp [char, hnl2, eol, St.emit]
  · by_cases h2 : r = []
    · subst h2
      simp only [writeRow, joinFields, List.nil_append]
      rw [run_cons, run_cons, run_nil]
      have a1 : feed d q (.none, s0) CR = (.cr, { s0 with mode := .eatCRNL }) := by
        unfold feed; simp [hne, char, hm, hnl]
      rw [a1]
      unfold feed; simp [char, hnl2, eol, St.emit, hf, hfs]
    · have : writeRow qa d q r = joinFields qa d q r ++ [CR, LF] := by
        unfold writeRow
        split
        · exact absurd rfl h1
        · rfl
      rw [this, run_joinFields D r .none s0 h2 (by simp) hf (Or.inr ⟨hm, h1⟩), hfs]
      simp

/-! ### whole tables -/

theorem run_writeAll (D : Dialect d q) : ∀ (rows : List Record) (s0 : St), Ready s0 →
    run d q (.none, s0) (writeAll qa d q rows) =
      (.none, { mode := .startRecord, field := [], fields := [], records := s0.records ++ rows, err := s0.err }) := by
  intro rows
  induction rows with
  | nil =>
    intro s0 ⟨hm, hf, hfs⟩
    simp only [writeAll, List.flatMap_nil, run_nil, List.append_nil]
    cases s0; simp_all
  | cons r rows ih =>
    intro s0 h0
    have : writeAll qa d q (r :: rows) = writeRow qa d q r ++ writeAll qa d q rows := by simp [writeAll]
    rw [this, run_append, run_writeRow D r s0 h0, ih _ ⟨rfl, rfl, rfl⟩]
    simp

/-- **csv round trip.**  For every delimiter and quote character that differ and are not CR or LF, and every
    table of text cells (empty cells, empty records, embedded delimiters, quotes, CR, LF, CRLF included),
    reading what `csv.writer` (QUOTE_MINIMAL or QUOTE_ALL, doublequote, "\r\n") wrote gives the table back, without error. -/
theorem read_write (D : Dialect d q) (rows : List Record) : readAll d q (writeAll qa d q rows) = rows := by
  unfold readAll
  rw [run_writeAll D rows St.init ⟨rfl, rfl, rfl⟩]
  simp [finish, St.init]

theorem read_write_no_error (D : Dialect d q) (rows : List Record) :
    (run d q (.none, St.init) (writeAll qa d q rows)).2.err = false := by
  rw [run_writeAll D rows St.init ⟨rfl, rfl, rfl⟩]; rfl

/-- the guard is needed: with delimiter = quotechar the round trip fails -/
example : readAll 44 44 (writeAll false 44 44 [[[44], [98]]]) ≠ [[[44], [98]]] := by decide

/-- non-vacuity: the usual dialects satisfy the guard, and a nasty table goes through -/
example : Dialect 44 34 := ⟨by decide, by decide, by decide⟩
example : Dialect 9 34 := ⟨by decide, by decide, by decide⟩
example : readAll 44 34 (writeAll false 44 34 [[[34, 44, 13, 10, 34], []], [[]], [], [[13], [10, 97]]]) =
    [[[34, 44, 13, 10, 34], []], [[]], [], [[13], [10, 97]]] := by decide
example : readAll 9 39 (writeAll true 9 39 [[[39, 9], []], [[]], [[13, 10]]]) = [[[39, 9], []], [[]], [[13, 10]]] := by decide

end Petl.Csv
