/-
  Snapshot of the petl function bodies the hand-written model of C17 was validated against
  (tools/source_snapshot.py, run by the reviewer).  `Petl.Gen.fpC17` is regenerated from the source on every run.
-/
import Petl.Gen.FpC17

namespace Petl.Snapshot
open Petl.Gen

def expectedC17 : List (String × String) := [
  ("file:io/db.py", "29a8207a5d7ac50e"),
  ("file:io/db_create.py", "511c2584bfe921e5"),
  ("file:io/db_utils.py", "1b080de0ed8ec655"),
  ("file:util/base.py", "771a68108eeb730d"),
  ("io.db._iter_dbapi_connection", "2cd387ab719085f4"),
  ("io.db._iter_dbapi_cursor", "fa60968be8c054cc"),
  ("io.db._iter_dbapi_mkcurs", "4b53539bf31380f5"),
  ("io.db._todb", "ba9e68dde3e02fa9"),
  ("io.db._todb_dbapi_connection", "2e55058e30d3c647"),
  ("io.db._todb_dbapi_cursor", "f82bd9b2b3af3df6"),
  ("io.db._todb_dbapi_mkcurs", "81f228ec409c5513"),
  ("io.db.appenddb", "b911f8c3cdd4205d"),
  ("io.db.todb", "8acf69b23011e501")
]

/-- every function or class the model of C17 mirrors still has the body it was validated against -/
theorem C17_sources_as_validated : fpC17 = expectedC17 := by decide +kernel

end Petl.Snapshot
