/-
  Snapshot of the petl function bodies the hand-written model of C18 was validated against
  (tools/source_snapshot.py, run by the reviewer).  `Petl.Gen.fpC18` is regenerated from the source on every run.
-/
import Petl.Gen.FpC18

namespace Petl.Snapshot
open Petl.Gen

def expectedC18 : List (String × String) := [
  ("file:comparison.py", "c46d05a1308c92ce"),
  ("file:compat.py", "2a259e16acd200bc"),
  ("file:config.py", "142bde514c82c29d"),
  ("file:io/json.py", "88171728b8aebfec"),
  ("file:transform/sorts.py", "137f7e8a70e043fe"),
  ("file:util/base.py", "771a68108eeb730d"),
  ("io.json.DictsGeneratorView", "c8aa475e2b283f0e"),
  ("transform.sorts.SortView", "39c82fa00f3f0fc2"),
  ("transform.sorts._NamedTempFileDeleteOnGC", "fe187490fb07ae00")
]

/-- every function or class the model of C18 mirrors still has the body it was validated against -/
theorem C18_sources_as_validated : fpC18 = expectedC18 := by decide +kernel

end Petl.Snapshot
