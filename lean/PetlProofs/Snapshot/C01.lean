/-
  Snapshot of the petl function bodies the hand-written model of C01 was validated against
  (tools/source_snapshot.py, run by the reviewer).  `Petl.Gen.fpC01` is regenerated from the source on every run.
-/
import Petl.Gen.FpC01

namespace Petl.Snapshot
open Petl.Gen

def expectedC01 : List (String × String) := [
  ("io.json.DictsGeneratorView", "814ca50f549ea08b"),
  ("transform.hashjoins.HashJoinView", "412a56e0830fe87a"),
  ("transform.hashjoins.HashLeftJoinView", "763079af6f690813"),
  ("transform.hashjoins.HashRightJoinView", "74040bd4cabc24ca"),
  ("transform.sorts.SortView", "39c82fa00f3f0fc2"),
  ("util.materialise.CacheView", "5b1ee4b5274360d5"),
  ("util.random.DummyTable", "30c15880d851abee"),
  ("util.random.RandomTable", "5641af1218691232")
]

/-- every function or class the model of C01 mirrors still has the body it was validated against -/
theorem C01_sources_as_validated : fpC01 = expectedC01 := by decide +kernel

end Petl.Snapshot
