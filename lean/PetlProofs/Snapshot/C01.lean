/-
  Snapshot of the petl function bodies the hand-written model of C01 was validated against
  (tools/source_snapshot.py, run by the reviewer).  `Petl.Gen.fpC01` is regenerated from the source on every run.
-/
import Petl.Gen.FpC01

namespace Petl.Snapshot
open Petl.Gen

def expectedC01 : List (String × String) := [
  ("file:comparison.py", "c46d05a1308c92ce"),
  ("file:compat.py", "2a259e16acd200bc"),
  ("file:config.py", "142bde514c82c29d"),
  ("file:io/db.py", "29a8207a5d7ac50e"),
  ("file:io/json.py", "88171728b8aebfec"),
  ("file:io/sources.py", "7c2b0cb2619a6b10"),
  ("file:transform/hashjoins.py", "b948265980fadaea"),
  ("file:transform/sorts.py", "137f7e8a70e043fe"),
  ("file:util/base.py", "771a68108eeb730d"),
  ("file:util/materialise.py", "66208e10041a09c8"),
  ("file:util/random.py", "5ef62df76549c098"),
  ("io.json.DictsGeneratorView", "c8aa475e2b283f0e"),
  ("transform.hashjoins.HashJoinView", "412a56e0830fe87a"),
  ("transform.hashjoins.HashLeftJoinView", "763079af6f690813"),
  ("transform.hashjoins.HashRightJoinView", "74040bd4cabc24ca"),
  ("transform.sorts.SortView", "39c82fa00f3f0fc2"),
  ("util.materialise.CacheView", "5b1ee4b5274360d5"),
  ("util.random.DummyTable", "30c15880d851abee"),
  ("util.random.RandomTable", "5641af1218691232")
]

/-- every function or class the model of C01 mirrors still has the body it was validated against -/
theorem C01_sources_as_validated : fpC01 = expectedC01 := by decide +kernel

end Petl.Snapshot
