/-
  Snapshot of the petl function bodies the hand-written model of C20 was validated against
  (tools/source_snapshot.py, run by the reviewer).  `Petl.Gen.fpC20` is regenerated from the source on every run.
-/
import Petl.Gen.FpC20

namespace Petl.Snapshot
open Petl.Gen

def expectedC20 : List (String × String) := [
  ("file:comparison.py", "c46d05a1308c92ce"),
  ("file:compat.py", "2a259e16acd200bc"),
  ("file:config.py", "142bde514c82c29d"),
  ("file:transform/basics.py", "093d71f68c43a00a"),
  ("file:transform/conversions.py", "2209b8de15c75a9f"),
  ("file:transform/dedup.py", "bd5f47cbc6d0c73d"),
  ("file:transform/fills.py", "dd9addc453365c1c"),
  ("file:transform/hashjoins.py", "b948265980fadaea"),
  ("file:transform/headers.py", "b170f0cc5a1c0354"),
  ("file:transform/joins.py", "bb9e0069e4d5e3a6"),
  ("file:transform/maps.py", "e13eb9e40cc9aa94"),
  ("file:transform/reductions.py", "bbf60b10e10110b8"),
  ("file:transform/regex.py", "7acd499a0489265c"),
  ("file:transform/reshape.py", "b1f08e12c952f763"),
  ("file:transform/selects.py", "f935e8905e1e021c"),
  ("file:transform/setops.py", "6dff26ed32585dcd"),
  ("file:transform/sorts.py", "137f7e8a70e043fe"),
  ("file:transform/unpacks.py", "dc09fa3e6a63a9d8"),
  ("file:transform/validation.py", "d6c489f84a1f0cd7"),
  ("file:util/base.py", "771a68108eeb730d"),
  ("file:util/counting.py", "d1842a2eb811b294"),
  ("file:util/lookups.py", "18ad3f3b3f749ffe"),
  ("file:util/materialise.py", "66208e10041a09c8")
]

/-- every function or class the model of C20 mirrors still has the body it was validated against -/
theorem C20_sources_as_validated : fpC20 = expectedC20 := by decide +kernel

end Petl.Snapshot
