/-
  Snapshot of the petl function bodies the hand-written model of C05 was validated against
  (tools/source_snapshot.py, run by the reviewer).  `Petl.Gen.fpC05` is regenerated from the source on every run.
-/
import Petl.Gen.FpC05

namespace Petl.Snapshot
open Petl.Gen

def expectedC05 : List (String × String) := [
  ("file:comparison.py", "c46d05a1308c92ce"),
  ("file:compat.py", "2a259e16acd200bc"),
  ("file:config.py", "142bde514c82c29d"),
  ("file:transform/basics.py", "093d71f68c43a00a"),
  ("file:transform/sorts.py", "137f7e8a70e043fe"),
  ("file:util/base.py", "771a68108eeb730d"),
  ("transform.sorts.MergeSortView", "737d0646d5facf91"),
  ("transform.sorts.SortView", "39c82fa00f3f0fc2"),
  ("transform.sorts._Keyed", "584fe9dce5893b72"),
  ("transform.sorts._heapqmergesorted", "23fa6d6f863b7b86"),
  ("transform.sorts._iterchunk", "110c768832fd7520"),
  ("transform.sorts._mergesorted", "f111489c26abfbd5"),
  ("transform.sorts._shortlistmergesorted", "a46bc364e42ebcf2"),
  ("transform.sorts.issorted", "76ed0b881076d03d"),
  ("transform.sorts.itermergesort", "24123b19efcef020")
]

/-- every function or class the model of C05 mirrors still has the body it was validated against -/
theorem C05_sources_as_validated : fpC05 = expectedC05 := by decide +kernel

end Petl.Snapshot
