/-
  Snapshot of the petl function bodies the hand-written model of C15 was validated against
  (tools/source_snapshot.py, run by the reviewer).  `Petl.Gen.fpC15` is regenerated from the source on every run.
-/
import Petl.Gen.FpC15

namespace Petl.Snapshot
open Petl.Gen

def expectedC15 : List (String × String) := [
  ("file:io/base.py", "e2315106bbcaaf95"),
  ("file:io/csv.py", "143722bf0e79c91e"),
  ("file:io/csv_py3.py", "c1e744ce52bf68bb"),
  ("file:io/html.py", "860313482e8c113f"),
  ("file:io/json.py", "88171728b8aebfec"),
  ("file:io/pickle.py", "40e23d34076571f8"),
  ("file:io/sources.py", "7c2b0cb2619a6b10"),
  ("file:io/text.py", "b72fac07748bae66"),
  ("file:util/base.py", "771a68108eeb730d"),
  ("io.csv_py3.CSVView", "eaf3783a92f57ad7"),
  ("io.csv_py3._writecsv", "9694ef1e4cf29325"),
  ("io.csv_py3.appendcsv_impl", "7583da41b0241cd7"),
  ("io.csv_py3.fromcsv_impl", "ce0122605256dd62"),
  ("io.csv_py3.tocsv_impl", "79562d28d51078a0"),
  ("io.json.JsonView", "81b047865d3a6a40"),
  ("io.json._writejson", "735341b237bd47a1"),
  ("io.json._writeobj", "9e23211b28e87cca"),
  ("io.json.iterjlines", "cfd69f88da6ea212"),
  ("io.json.tojson", "e724fbba992de4ce"),
  ("io.json.tojsonarrays", "036916cdf6942750"),
  ("io.pickle.PickleView", "d5a9908c244c71b9"),
  ("io.pickle._writepickle", "4894aae22d46722a"),
  ("io.pickle.appendpickle", "54d31b3e3c5b66da"),
  ("io.pickle.topickle", "1d7f5afc949f5e5b"),
  ("io.sources.BZ2Source", "aa25556b80716f26"),
  ("io.sources.FileSource", "fe21ee3d44444396"),
  ("io.sources.GzipSource", "2dda4db88d9716b7"),
  ("io.sources.MemorySource", "8dcd95dbd19f32b8")
]

/-- every function or class the model of C15 mirrors still has the body it was validated against -/
theorem C15_sources_as_validated : fpC15 = expectedC15 := by decide +kernel

end Petl.Snapshot
