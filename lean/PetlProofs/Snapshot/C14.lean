/-
  Snapshot of the petl function bodies the hand-written model of C14 was validated against
  (tools/source_snapshot.py, run by the reviewer).  `Petl.Gen.fpC14` is regenerated from the source on every run.
-/
import Petl.Gen.FpC14

namespace Petl.Snapshot
open Petl.Gen

def expectedC14 : List (String × String) := [
  ("file:comparison.py", "c46d05a1308c92ce"),
  ("file:compat.py", "2a259e16acd200bc"),
  ("file:config.py", "142bde514c82c29d"),
  ("file:io/base.py", "e2315106bbcaaf95"),
  ("file:io/json.py", "88171728b8aebfec"),
  ("file:transform/regex.py", "7acd499a0489265c"),
  ("file:transform/reshape.py", "b1f08e12c952f763"),
  ("file:transform/sorts.py", "137f7e8a70e043fe"),
  ("file:transform/unpacks.py", "dc09fa3e6a63a9d8"),
  ("file:util/base.py", "771a68108eeb730d"),
  ("file:util/materialise.py", "66208e10041a09c8"),
  ("io.json.DictsView", "0730cd8e741c1a29"),
  ("io.json.iterdicts", "0c25092df070e5c5"),
  ("transform.regex.itercapture", "0644195b669301b0"),
  ("transform.regex.itersplit", "03ea6b898ba44dc6"),
  ("transform.regex.itersplitdown", "3daabc31aa75deb4"),
  ("transform.reshape.FlattenView", "5fc5230cb9bc0f2b"),
  ("transform.reshape.UnflattenView", "5f577361423f6aa7"),
  ("transform.reshape.itermelt", "65263f3aa79af60b"),
  ("transform.reshape.iterpivot", "395bb26e4fdfc15e"),
  ("transform.reshape.iterrecast", "e11b8f8444c41df5"),
  ("transform.reshape.itertranspose", "ff40ae8f0c651466"),
  ("transform.unpacks.iterunpack", "07feefca2ee4294b"),
  ("transform.unpacks.iterunpackdict", "1e5340f0eb69a9a3"),
  ("util.materialise.columns", "b01b7c3eaa4ba4eb")
]

/-- every function or class the model of C14 mirrors still has the body it was validated against -/
theorem C14_sources_as_validated : fpC14 = expectedC14 := by decide +kernel

end Petl.Snapshot
