/-
  Snapshot of the petl function bodies the hand-written model of C10 was validated against
  (tools/source_snapshot.py, run by the reviewer).  `Petl.Gen.fpC10` is regenerated from the source on every run.
-/
import Petl.Gen.FpC10

namespace Petl.Snapshot
open Petl.Gen

def expectedC10 : List (String × String) := [
  ("file:comparison.py", "c46d05a1308c92ce"),
  ("file:compat.py", "2a259e16acd200bc"),
  ("file:config.py", "142bde514c82c29d"),
  ("file:transform/dedup.py", "bd5f47cbc6d0c73d"),
  ("file:transform/sorts.py", "137f7e8a70e043fe"),
  ("file:util/base.py", "771a68108eeb730d"),
  ("transform.dedup.DistinctView", "93824747ea188389"),
  ("transform.dedup.isunique", "ae424b2c66465559"),
  ("transform.dedup.iterconflicts", "a8099413abafefa1"),
  ("transform.dedup.iterduplicates", "b089397d38c1d73c"),
  ("transform.dedup.iterunique", "3a3a4a7083f76d63")
]

/-- every function or class the model of C10 mirrors still has the body it was validated against -/
theorem C10_sources_as_validated : fpC10 = expectedC10 := by decide +kernel

end Petl.Snapshot
