/-
  Snapshot of the petl function bodies the hand-written model of C10 was validated against
  (tools/source_snapshot.py, run by the reviewer).  `Petl.Gen.fpC10` is regenerated from the source on every run.
-/
import Petl.Gen.FpC10

namespace Petl.Snapshot
open Petl.Gen

def expectedC10 : List (String × String) := [
  ("file:comparison.py", "17971f67ee946013"),
  ("file:config.py", "142bde514c82c29d"),
  ("file:transform/dedup.py", "00c85272c501507a"),
  ("file:transform/sorts.py", "137f7e8a70e043fe"),
  ("file:util/base.py", "771a68108eeb730d"),
  ("transform.dedup.DistinctView", "0efc0b2939e279f2"),
  ("transform.dedup.isunique", "ae424b2c66465559"),
  ("transform.dedup.iterconflicts", "936e44b09579a4d3"),
  ("transform.dedup.iterduplicates", "4e367d11e5b90cbe"),
  ("transform.dedup.iterunique", "6972c806451165ee")
]

/-- every function or class the model of C10 mirrors still has the body it was validated against -/
theorem C10_sources_as_validated : fpC10 = expectedC10 := by decide +kernel

end Petl.Snapshot
