/-
  Snapshot of the petl function bodies the hand-written model of C19 was validated against
  (tools/source_snapshot.py, run by the reviewer).  `Petl.Gen.fpC19` is regenerated from the source on every run.
-/
import Petl.Gen.FpC19

namespace Petl.Snapshot
open Petl.Gen

def expectedC19 : List (String × String) := [
  ("file:comparison.py", "c46d05a1308c92ce"),
  ("file:compat.py", "2a259e16acd200bc"),
  ("file:config.py", "142bde514c82c29d"),
  ("file:transform/conversions.py", "2209b8de15c75a9f"),
  ("file:transform/maps.py", "e13eb9e40cc9aa94"),
  ("file:util/base.py", "771a68108eeb730d"),
  ("transform.conversions.FieldConvertView", "b1346e6539cc1ac2"),
  ("transform.conversions.iterfieldconvert", "ee107c581a77cc3a"),
  ("transform.maps.FieldMapView", "25107991aea0e6ce"),
  ("transform.maps.RowMapManyView", "53fd3c192fcd4b8f"),
  ("transform.maps.RowMapView", "635dac7cc87be32d"),
  ("transform.maps.iterfieldmap", "da056bbb56365074"),
  ("transform.maps.iterrowmap", "2ee8a4558e846354"),
  ("transform.maps.iterrowmapmany", "89a3315cb2106c9a")
]

/-- every function or class the model of C19 mirrors still has the body it was validated against -/
theorem C19_sources_as_validated : fpC19 = expectedC19 := by decide +kernel

end Petl.Snapshot
