/-
  Snapshot of the petl function bodies the hand-written model of C07 was validated against
  (tools/source_snapshot.py, run by the reviewer).  `Petl.Gen.fpC07` is regenerated from the source on every run.
-/
import Petl.Gen.FpC07

namespace Petl.Snapshot
open Petl.Gen

def expectedC07 : List (String × String) := [
  ("file:comparison.py", "c46d05a1308c92ce"),
  ("file:compat.py", "2a259e16acd200bc"),
  ("file:config.py", "142bde514c82c29d"),
  ("file:transform/hashjoins.py", "b948265980fadaea"),
  ("file:transform/joins.py", "bb9e0069e4d5e3a6"),
  ("file:transform/sorts.py", "137f7e8a70e043fe"),
  ("file:util/base.py", "771a68108eeb730d"),
  ("file:util/lookups.py", "18ad3f3b3f749ffe"),
  ("transform.hashjoins.iterhashantijoin", "c5b36af12810a7d5"),
  ("transform.hashjoins.iterhashjoin", "e88b30071bdbfa08"),
  ("transform.hashjoins.iterhashleftjoin", "f6708e181964e9f2"),
  ("transform.hashjoins.iterhashlookupjoin", "deb61022e08d6bd5"),
  ("transform.hashjoins.iterhashrightjoin", "2724f46b40aa9553"),
  ("util.lookups._setup_lookup", "eb2d347aac2ec1e1"),
  ("util.lookups.dictlookup", "01804acae64bf8a3"),
  ("util.lookups.dictlookupone", "e759294ca3703cf8"),
  ("util.lookups.lookup", "aa2949089df482a0"),
  ("util.lookups.lookupone", "f73aecb63a8d3f67"),
  ("util.lookups.recordlookup", "e4aef48cc31816f1"),
  ("util.lookups.recordlookupone", "cf506b70a51c66d2")
]

/-- every function or class the model of C07 mirrors still has the body it was validated against -/
theorem C07_sources_as_validated : fpC07 = expectedC07 := by decide +kernel

end Petl.Snapshot
