/-
  Snapshot of the petl function bodies the hand-written model of C06 was validated against
  (tools/source_snapshot.py, run by the reviewer).  `Petl.Gen.fpC06` is regenerated from the source on every run.
-/
import Petl.Gen.FpC06

namespace Petl.Snapshot
open Petl.Gen

def expectedC06 : List (String × String) := [
  ("file:comparison.py", "c46d05a1308c92ce"),
  ("file:compat.py", "2a259e16acd200bc"),
  ("file:config.py", "142bde514c82c29d"),
  ("file:transform/basics.py", "093d71f68c43a00a"),
  ("file:transform/joins.py", "bb9e0069e4d5e3a6"),
  ("file:transform/sorts.py", "137f7e8a70e043fe"),
  ("file:util/base.py", "771a68108eeb730d"),
  ("transform.joins.AntiJoinView", "186aa24c67cf2f25"),
  ("transform.joins.CrossJoinView", "23f758e751cf407d"),
  ("transform.joins.JoinView", "f25f79d527b6c240"),
  ("transform.joins.LookupJoinView", "91b34180acb6c5ed"),
  ("transform.joins.iterantijoin", "0c81409e97e784b3"),
  ("transform.joins.itercrossjoin", "70901c46340c788c"),
  ("transform.joins.iterjoin", "3bdb6dfedf69a1f8"),
  ("transform.joins.iterlookupjoin", "0fde0fb795ba52cc"),
  ("transform.joins.keys_from_args", "347fcdab128168a5"),
  ("transform.joins.natural_key", "84dc49c9fc51e1c2")
]

/-- every function or class the model of C06 mirrors still has the body it was validated against -/
theorem C06_sources_as_validated : fpC06 = expectedC06 := by decide +kernel

end Petl.Snapshot
