/-
  Snapshot of the petl function bodies the hand-written model of C12 was validated against
  (tools/source_snapshot.py, run by the reviewer).  `Petl.Gen.fpC12` is regenerated from the source on every run.
-/
import Petl.Gen.FpC12

namespace Petl.Snapshot
open Petl.Gen

def expectedC12 : List (String × String) := [
  ("transform.basics.MoveFieldView", "faf9d612466cd19b"),
  ("transform.basics.iteraddcolumn", "59f86fc347c271ef"),
  ("transform.basics.iteraddfield", "56c943453c7a55a0"),
  ("transform.basics.iteraddfields", "2e933e36ad76bbcf"),
  ("transform.basics.iteraddrownumbers", "2a92da817281f947"),
  ("transform.basics.iterannex", "29bc630275bcee99"),
  ("transform.basics.itercat", "56188b93d3789c94"),
  ("transform.basics.itercut", "27d04fca571f4fa7"),
  ("transform.basics.itercutout", "1b0087070b645f9a"),
  ("transform.basics.iterstack", "567c1bd52ee4dddc"),
  ("transform.conversions.iterfieldconvert", "463dce8a1dd7af86"),
  ("transform.fills.iterfilldown", "9ef9266c0a1d3f1c"),
  ("transform.fills.iterfillleft", "a74aaba5e58df795"),
  ("transform.fills.iterfillright", "e955965623f6e4b1"),
  ("transform.headers.PrefixHeaderView", "97da2c4ba6e8bb83"),
  ("transform.headers.SortHeaderView", "808028889f18d6cf"),
  ("transform.headers.SuffixHeaderView", "31fd4b0392367812"),
  ("transform.headers.iterextendheader", "527fe8a6e676013c"),
  ("transform.headers.iterpushheader", "a35d949fb95dfb0a"),
  ("transform.headers.iterrename", "42e0b31d702320e3"),
  ("transform.headers.itersetheader", "22bdead1a6decea1"),
  ("transform.headers.iterskip", "c4a0cb1e97dd7b3d"),
  ("util.base.Record", "ce61d5ee23845cf6"),
  ("util.base.asindices", "ac8eef9a83c85381"),
  ("util.base.iterdata", "8352feab08b0cd45"),
  ("util.base.iterdicts", "aec57ee69209d31e"),
  ("util.base.iternamedtuples", "c305a844bbf46ec9"),
  ("util.base.iterrecords", "ebc5a86e63ffa291"),
  ("util.base.itervalues", "2405156081efa095"),
  ("util.base.rowgetter", "1209005fdc815142")
]

/-- every function or class the model of C12 mirrors still has the body it was validated against -/
theorem C12_sources_as_validated : fpC12 = expectedC12 := by decide +kernel

end Petl.Snapshot
