/-
  Snapshot of the petl function bodies the hand-written model of C12 was validated against
  (tools/source_snapshot.py, run by the reviewer).  `Petl.Gen.fpC12` is regenerated from the source on every run.
-/
import Petl.Gen.FpC12

namespace Petl.Snapshot
open Petl.Gen

def expectedC12 : List (String × String) := [
  ("file:comparison.py", "c46d05a1308c92ce"),
  ("file:compat.py", "2a259e16acd200bc"),
  ("file:config.py", "142bde514c82c29d"),
  ("file:transform/basics.py", "093d71f68c43a00a"),
  ("file:transform/conversions.py", "2209b8de15c75a9f"),
  ("file:transform/fills.py", "dd9addc453365c1c"),
  ("file:transform/headers.py", "b170f0cc5a1c0354"),
  ("file:transform/maps.py", "e13eb9e40cc9aa94"),
  ("file:transform/regex.py", "7acd499a0489265c"),
  ("file:util/base.py", "771a68108eeb730d"),
  ("file:util/materialise.py", "66208e10041a09c8"),
  ("transform.basics.AddColumnView", "946e1a09be0e21a7"),
  ("transform.basics.AddFieldView", "4852d8efdadc32cc"),
  ("transform.basics.AddFieldsView", "53c09244b538d734"),
  ("transform.basics.AddRowNumbersView", "a8a87aeb5c23628c"),
  ("transform.basics.AnnexView", "3cd793a9682acc0b"),
  ("transform.basics.CatView", "b1bcf802eb1634d3"),
  ("transform.basics.CutOutView", "ee421b9f0943ec7c"),
  ("transform.basics.CutView", "2a867b8144a190ab"),
  ("transform.basics.MoveFieldView", "e1c4e305c35abc12"),
  ("transform.basics.StackView", "b846bfc3b89a18eb"),
  ("transform.basics.iteraddcolumn", "59f86fc347c271ef"),
  ("transform.basics.iteraddfield", "56c943453c7a55a0"),
  ("transform.basics.iteraddfields", "2e933e36ad76bbcf"),
  ("transform.basics.iteraddrownumbers", "2a92da817281f947"),
  ("transform.basics.iterannex", "29bc630275bcee99"),
  ("transform.basics.itercat", "56188b93d3789c94"),
  ("transform.basics.itercut", "27d04fca571f4fa7"),
  ("transform.basics.itercutout", "1b0087070b645f9a"),
  ("transform.basics.iterstack", "567c1bd52ee4dddc"),
  ("transform.conversions.FieldConvertView", "b1346e6539cc1ac2"),
  ("transform.conversions.convert", "7d0e99f18f920024"),
  ("transform.conversions.convertall", "e55e36571c365f13"),
  ("transform.conversions.iterfieldconvert", "ee107c581a77cc3a"),
  ("transform.conversions.replace", "8ead0995c13b926d"),
  ("transform.conversions.replaceall", "b047d03a0f5a5c8e"),
  ("transform.conversions.update", "0cdc895f11144a7e"),
  ("transform.fills.FillDownView", "8c8a2f9498e6f75a"),
  ("transform.fills.FillLeftView", "712a5445e3443bed"),
  ("transform.fills.FillRightView", "9675c119322e3c41"),
  ("transform.fills.iterfilldown", "9ef9266c0a1d3f1c"),
  ("transform.fills.iterfillleft", "a74aaba5e58df795"),
  ("transform.fills.iterfillright", "e955965623f6e4b1"),
  ("transform.headers.ExtendHeaderView", "1950129a6c159c98"),
  ("transform.headers.PrefixHeaderView", "97da2c4ba6e8bb83"),
  ("transform.headers.PushHeaderView", "12e824dbe7c6272c"),
  ("transform.headers.RenameView", "48e9d7e3cdcb6aa5"),
  ("transform.headers.SetHeaderView", "b63afa9dd92826ac"),
  ("transform.headers.SkipView", "b1408e8f2752dce6"),
  ("transform.headers.SortHeaderView", "a1f00def180255a6"),
  ("transform.headers.SuffixHeaderView", "31fd4b0392367812"),
  ("transform.headers.iterextendheader", "527fe8a6e676013c"),
  ("transform.headers.iterpushheader", "a35d949fb95dfb0a"),
  ("transform.headers.iterrename", "42e0b31d702320e3"),
  ("transform.headers.itersetheader", "22bdead1a6decea1"),
  ("transform.headers.iterskip", "c4a0cb1e97dd7b3d"),
  ("util.base.Record", "ce61d5ee23845cf6"),
  ("util.base.asindices", "ac8eef9a83c85381"),
  ("util.base.iterdata", "8352feab08b0cd45"),
  ("util.base.iterdicts", "aec57ee69209d31e"),
  ("util.base.iternamedtuples", "c305a844bbf46ec9"),
  ("util.base.iterrecords", "ebc5a86e63ffa291"),
  ("util.base.itervalues", "2405156081efa095"),
  ("util.base.rowgetter", "1209005fdc815142")
]

/-- every function or class the model of C12 mirrors still has the body it was validated against -/
theorem C12_sources_as_validated : fpC12 = expectedC12 := by decide +kernel

end Petl.Snapshot
