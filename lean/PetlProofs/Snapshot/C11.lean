/-
  Snapshot of the petl function bodies the hand-written model of C11 was validated against
  (tools/source_snapshot.py, run by the reviewer).  `Petl.Gen.fpC11` is regenerated from the source on every run.
-/
import Petl.Gen.FpC11

namespace Petl.Snapshot
open Petl.Gen

def expectedC11 : List (String × String) := [
  ("file:comparison.py", "c46d05a1308c92ce"),
  ("file:compat.py", "2a259e16acd200bc"),
  ("file:config.py", "142bde514c82c29d"),
  ("file:transform/basics.py", "093d71f68c43a00a"),
  ("file:transform/dedup.py", "bd5f47cbc6d0c73d"),
  ("file:transform/joins.py", "bb9e0069e4d5e3a6"),
  ("file:transform/maps.py", "e13eb9e40cc9aa94"),
  ("file:transform/reductions.py", "bbf60b10e10110b8"),
  ("file:transform/reshape.py", "b1f08e12c952f763"),
  ("file:transform/setops.py", "6dff26ed32585dcd"),
  ("file:transform/sorts.py", "137f7e8a70e043fe"),
  ("file:util/base.py", "771a68108eeb730d")
]

/-- every function or class the model of C11 mirrors still has the body it was validated against -/
theorem C11_sources_as_validated : fpC11 = expectedC11 := by decide +kernel

end Petl.Snapshot
