/-
  Snapshot of the petl function bodies the hand-written model of C08 was validated against
  (tools/source_snapshot.py, run by the reviewer).  `Petl.Gen.fpC08` is regenerated from the source on every run.
-/
import Petl.Gen.FpC08

namespace Petl.Snapshot
open Petl.Gen

def expectedC08 : List (String × String) := [
  ("file:comparison.py", "c46d05a1308c92ce"),
  ("file:compat.py", "2a259e16acd200bc"),
  ("file:config.py", "142bde514c82c29d"),
  ("file:transform/basics.py", "093d71f68c43a00a"),
  ("file:transform/setops.py", "6dff26ed32585dcd"),
  ("file:transform/sorts.py", "137f7e8a70e043fe"),
  ("file:util/base.py", "771a68108eeb730d"),
  ("transform.setops.ComplementView", "ed6c1a0856905afb"),
  ("transform.setops.IntersectionView", "b1a5362a08986fc1"),
  ("transform.setops.diff", "768b8676047eb145"),
  ("transform.setops.itercomplement", "83727cae4f100fea"),
  ("transform.setops.iterhashcomplement", "2a525b9fe5233554"),
  ("transform.setops.iterhashintersection", "2f3ede7fd01cfd5d"),
  ("transform.setops.iterintersection", "6bc0382056bc0d41"),
  ("transform.setops.recordcomplement", "7668004eaf52ed6f"),
  ("transform.setops.recorddiff", "7ff7e076f6bc921e")
]

/-- every function or class the model of C08 mirrors still has the body it was validated against -/
theorem C08_sources_as_validated : fpC08 = expectedC08 := by decide +kernel

end Petl.Snapshot
