/-
  Snapshot of the petl function bodies the hand-written model of C16 was validated against
  (tools/source_snapshot.py, run by the reviewer).  `Petl.Gen.fpC16` is regenerated from the source on every run.
-/
import Petl.Gen.FpC16

namespace Petl.Snapshot
open Petl.Gen

def expectedC16 : List (String × String) := [
  ("file:io/base.py", "e2315106bbcaaf95"),
  ("file:io/csv.py", "143722bf0e79c91e"),
  ("file:io/csv_py3.py", "c1e744ce52bf68bb"),
  ("file:io/html.py", "860313482e8c113f"),
  ("file:io/json.py", "88171728b8aebfec"),
  ("file:io/pickle.py", "40e23d34076571f8"),
  ("file:io/sources.py", "7c2b0cb2619a6b10"),
  ("file:io/text.py", "b72fac07748bae66"),
  ("file:util/base.py", "771a68108eeb730d"),
  ("file:util/materialise.py", "66208e10041a09c8"),
  ("file:util/timing.py", "0484ce267f7215fe"),
  ("io.csv_py3.TeeCSVView", "c2e0445ef438bb2c"),
  ("io.pickle.TeePickleView", "bed46c801a87d63b"),
  ("io.text.TeeTextView", "ab3a909625dceaca"),
  ("io.text._iterteetext", "ade084b6057c6ba0"),
  ("io.text._writetext", "70dc8085cfa9a570"),
  ("util.materialise.CacheView", "5b1ee4b5274360d5")
]

/-- every function or class the model of C16 mirrors still has the body it was validated against -/
theorem C16_sources_as_validated : fpC16 = expectedC16 := by decide +kernel

end Petl.Snapshot
