/-
  Snapshot of the petl function bodies the hand-written model of C09 was validated against
  (tools/source_snapshot.py, run by the reviewer).  `Petl.Gen.fpC09` is regenerated from the source on every run.
-/
import Petl.Gen.FpC09

namespace Petl.Snapshot
open Petl.Gen

def expectedC09 : List (String × String) := [
  ("file:comparison.py", "c46d05a1308c92ce"),
  ("file:compat.py", "2a259e16acd200bc"),
  ("file:config.py", "142bde514c82c29d"),
  ("file:transform/basics.py", "093d71f68c43a00a"),
  ("file:transform/dedup.py", "bd5f47cbc6d0c73d"),
  ("file:transform/reductions.py", "bbf60b10e10110b8"),
  ("file:transform/sorts.py", "137f7e8a70e043fe"),
  ("file:util/base.py", "771a68108eeb730d"),
  ("file:util/counting.py", "d1842a2eb811b294"),
  ("transform.reductions.MultiAggregateView", "991cad24f5d44e50"),
  ("transform.reductions.SimpleAggregateView", "234efe16a0c64fe4"),
  ("transform.reductions.groupselectfirst", "d6c100b970ef3e59"),
  ("transform.reductions.groupselectlast", "8af5dae8d1e7d549"),
  ("transform.reductions.groupselectmax", "571391b3e4e5a0d9"),
  ("transform.reductions.groupselectmin", "c7ddeb002b2da3d3"),
  ("transform.reductions.iterfold", "008a11c035764541"),
  ("transform.reductions.itermergeduplicates", "b9b09ef707696fc6"),
  ("transform.reductions.itermultiaggregate", "2d2ee34929687eeb"),
  ("transform.reductions.iterrowreduce", "10ad0bff66a50cc3"),
  ("transform.reductions.itersimpleaggregate", "a60fcc47e481ad91"),
  ("util.base.rowgroupby", "afbe1d16a7951a17")
]

/-- every function or class the model of C09 mirrors still has the body it was validated against -/
theorem C09_sources_as_validated : fpC09 = expectedC09 := by decide +kernel

end Petl.Snapshot
