/-
  Snapshot of the petl function bodies the hand-written model of C04 was validated against
  (tools/source_snapshot.py, run by the reviewer).  `Petl.Gen.fpC04` is regenerated from the source on every run.
-/
import Petl.Gen.FpC04

namespace Petl.Snapshot
open Petl.Gen

def expectedC04 : List (String × String) := [
  ("comparison.Comparable", "8a588fbb99818892"),
  ("comparison._itemgetter_with_default", "6ab67f1857478e78"),
  ("comparison._typestr", "8ffeb3d6c9e56621"),
  ("comparison.comparable_itemgetter", "4dfedddaf612993a"),
  ("file:comparison.py", "c46d05a1308c92ce"),
  ("file:compat.py", "2a259e16acd200bc"),
  ("file:config.py", "142bde514c82c29d"),
  ("file:transform/joins.py", "bb9e0069e4d5e3a6"),
  ("file:transform/selects.py", "f935e8905e1e021c"),
  ("file:transform/sorts.py", "137f7e8a70e043fe"),
  ("file:util/base.py", "771a68108eeb730d")
]

/-- every function or class the model of C04 mirrors still has the body it was validated against -/
theorem C04_sources_as_validated : fpC04 = expectedC04 := by decide +kernel

end Petl.Snapshot
