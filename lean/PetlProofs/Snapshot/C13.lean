/-
  Snapshot of the petl function bodies the hand-written model of C13 was validated against
  (tools/source_snapshot.py, run by the reviewer).  `Petl.Gen.fpC13` is regenerated from the source on every run.
-/
import Petl.Gen.FpC13

namespace Petl.Snapshot
open Petl.Gen

def expectedC13 : List (String × String) := [
  ("file:comparison.py", "c46d05a1308c92ce"),
  ("file:compat.py", "2a259e16acd200bc"),
  ("file:config.py", "142bde514c82c29d"),
  ("file:transform/basics.py", "093d71f68c43a00a"),
  ("file:transform/headers.py", "b170f0cc5a1c0354"),
  ("file:transform/regex.py", "7acd499a0489265c"),
  ("file:transform/selects.py", "f935e8905e1e021c"),
  ("file:util/base.py", "771a68108eeb730d"),
  ("transform.basics.head", "14e815556131ea10"),
  ("transform.basics.iterrowslice", "8702797bf2f3a3f8"),
  ("transform.basics.itertail", "c873a4078b472ed7"),
  ("transform.headers.iterskip", "c4a0cb1e97dd7b3d"),
  ("transform.selects.biselect", "a096252a8d24505c"),
  ("transform.selects.facet", "93f96a6abfa56357"),
  ("transform.selects.iterfieldselect", "1972a22696a83cc6"),
  ("transform.selects.iterrowselect", "e3fcfd8d72b4cf96"),
  ("transform.selects.rowlenselect", "f6cfb12f16a710b3")
]

/-- every function or class the model of C13 mirrors still has the body it was validated against -/
theorem C13_sources_as_validated : fpC13 = expectedC13 := by decide +kernel

end Petl.Snapshot
