/-
  Soundness of the pull-shape bound: `bound p = some (n, k)` bounds pulls − yields of every complete
  run (by n) and of every prefix of every run (by k).
-/
import Petl.PullShape
namespace Petl.PullShape

theorem net_append (a b : List Ev) : net (a ++ b) = net a + net b := by
  induction a with
  | nil => simp [net]
  | cons e t ih => simp [net, ih]; omega

theorem peak_nonneg (t : List Ev) : 0 ≤ peak t := by
  cases t with
  | nil => simp [peak]
  | cons e t => simp [peak]; omega

theorem peak_append (a b : List Ev) : peak (a ++ b) = max (peak a) (net a + peak b) := by
  induction a with
  | nil => simp [peak, net]; have := peak_nonneg b; omega
  | cons e t ih => simp [peak, net, ih]; omega

theorem net_le_peak (t : List Ev) : net t ≤ peak t := by
  induction t with
  | nil => simp [net, peak]
  | cons e t ih => simp [net, peak]; omega

/-- a prefix never exceeds the peak of the whole trace -/
theorem prefix_le_peak {p t : List Ev} (h : p <+: t) : net p ≤ peak t ∧ peak p ≤ peak t := by
  obtain ⟨s, rfl⟩ := h
  rw [peak_append]
  have := net_le_peak p
  have := peak_nonneg s
  constructor <;> omega

theorem net_eq_pulls_sub_ylds (t : List Ev) : net t = (pulls t : Int) - (ylds t : Int) := by
  induction t with
  | nil => simp [net, pulls, ylds]
  | cons e t ih =>
    cases e <;> simp [net, delta, pulls, ylds] at * <;> omega

theorem bound_sound {p : PS} {tr : List Ev} (h : Run p tr) :
    ∀ n k, bound p = some (n, k) → net tr ≤ n ∧ peak tr ≤ k := by
  induction h with
  | skip => intro n k hb; simp [bound] at hb; obtain ⟨rfl, rfl⟩ := hb; simp [net, peak]
  | pull => intro n k hb; simp [bound] at hb; obtain ⟨rfl, rfl⟩ := hb; simp [net, peak, delta]; omega
  | yld => intro n k hb; simp [bound] at hb; obtain ⟨rfl, rfl⟩ := hb; simp [net, peak, delta]; omega
  | opq tr => intro n k hb; simp [bound] at hb
  | @seq a b t1 t2 _ _ iha ihb =>
    intro n k hb
    simp only [bound] at hb
    cases ha' : bound a with
    | none => simp [ha'] at hb
    | some x =>
      cases hb' : bound b with
      | none => simp [ha', hb'] at hb
      | some y =>
        obtain ⟨na, pa⟩ := x
        obtain ⟨nb, pb⟩ := y
        simp [ha', hb'] at hb
        obtain ⟨rfl, rfl⟩ := hb
        have h1 := iha na pa ha'
        have h2 := ihb nb pb hb'
        rw [net_append, peak_append]
        constructor <;> omega
  | @brL a b t _ ih =>
    intro n k hb
    simp only [bound] at hb
    cases ha' : bound a with
    | none => simp [ha'] at hb
    | some x =>
      cases hb' : bound b with
      | none => simp [ha', hb'] at hb
      | some y =>
        obtain ⟨na, pa⟩ := x
        obtain ⟨nb, pb⟩ := y
        simp [ha', hb'] at hb
        obtain ⟨rfl, rfl⟩ := hb
        have h1 := ih na pa ha'
        constructor <;> omega
  | @brR a b t _ ih =>
    intro n k hb
    simp only [bound] at hb
    cases ha' : bound a with
    | none => simp [ha'] at hb
    | some x =>
      cases hb' : bound b with
      | none => simp [ha', hb'] at hb
      | some y =>
        obtain ⟨na, pa⟩ := x
        obtain ⟨nb, pb⟩ := y
        simp [ha', hb'] at hb
        obtain ⟨rfl, rfl⟩ := hb
        have h1 := ih nb pb hb'
        constructor <;> omega
  | @forNil b =>
    intro n k hb
    simp only [bound] at hb
    cases hb' : bound b with
    | none => simp [hb'] at hb
    | some y =>
      obtain ⟨nb, pb⟩ := y
      simp [hb'] at hb
      obtain ⟨hle, rfl, rfl⟩ := hb
      simp [net, peak]
      omega
  | @forCons b t1 t2 _ _ ih1 ih2 =>
    intro n k hb
    have hb0 := hb
    simp only [bound] at hb
    cases hb' : bound b with
    | none => simp [hb'] at hb
    | some y =>
      obtain ⟨nb, pb⟩ := y
      simp [hb'] at hb
      obtain ⟨hle, rfl, rfl⟩ := hb
      have h1 := ih1 nb pb hb'
      have h2 := ih2 0 (max 0 (1 + pb)) hb0
      simp only [net, peak, delta, net_append, peak_append]
      constructor <;> omega
  | @loopNil b =>
    intro n k hb
    simp only [bound] at hb
    cases hb' : bound b with
    | none => simp [hb'] at hb
    | some y =>
      obtain ⟨nb, pb⟩ := y
      simp [hb'] at hb
      obtain ⟨hle, rfl, rfl⟩ := hb
      simp [net, peak]
      omega
  | @loopCons b t1 t2 _ _ ih1 ih2 =>
    intro n k hb
    have hb0 := hb
    simp only [bound] at hb
    cases hb' : bound b with
    | none => simp [hb'] at hb
    | some y =>
      obtain ⟨nb, pb⟩ := y
      simp [hb'] at hb
      obtain ⟨hle, rfl, rfl⟩ := hb
      have h1 := ih1 nb pb hb'
      have h2 := ih2 0 (max 0 pb) hb0
      rw [net_append, peak_append]
      constructor <;> omega
  | @tryOk b h t _ ih =>
    intro n k hb
    simp only [bound] at hb
    cases hb' : bound b with
    | none => simp [hb'] at hb
    | some x =>
      cases hh' : bound h with
      | none => simp [hb', hh'] at hb
      | some y =>
        obtain ⟨nb, pb⟩ := x
        obtain ⟨nh, ph⟩ := y
        simp [hb', hh'] at hb
        obtain ⟨rfl, rfl⟩ := hb
        have h1 := ih nb pb hb'
        constructor <;> omega
  | @tryExc b h t p t2 _ hp _ ih1 ih2 =>
    intro n k hb
    simp only [bound] at hb
    cases hb' : bound b with
    | none => simp [hb'] at hb
    | some x =>
      cases hh' : bound h with
      | none => simp [hb', hh'] at hb
      | some y =>
        obtain ⟨nb, pb⟩ := x
        obtain ⟨nh, ph⟩ := y
        simp [hb', hh'] at hb
        obtain ⟨rfl, rfl⟩ := hb
        have h1 := ih1 nb pb hb'
        have h2 := ih2 nh ph hh'
        have h3 := prefix_le_peak hp
        rw [net_append, peak_append]
        constructor <;> omega

end Petl.PullShape
