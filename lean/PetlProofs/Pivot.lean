/-
  Helper lemmas for the pivot theorems of C14: the composite (f1, f2) key order.
-/
import Petl.Reshape
import PetlProofs.Group
namespace Petl.Pivot
open Petl

/-- composite key order: the first component is never out of order -/
theorem lex_first (f1 f2 : Nat) (a b : Row)
    (h : Val.lt (getKey [f1, f2] b) (getKey [f1, f2] a) = false) :
    Val.lt (getCell b f1) (getCell a f1) = false := by
  simp only [getKey, List.map_cons, List.map_nil, Val.lt, Val.ltList] at h
  cases he : Val.eq (getCell b f1) (getCell a f1)
  · simpa [he] using h
  · cases hl : Val.lt (getCell b f1) (getCell a f1)
    · rfl
    · have := Val.lt_ne _ _ hl; simp [this] at he

/-- … and among rows with the same first component the second is in order -/
theorem lex_second (f1 f2 : Nat) (a b : Row)
    (h : Val.lt (getKey [f1, f2] b) (getKey [f1, f2] a) = false)
    (he : Val.eq (getCell b f1) (getCell a f1) = true) :
    Val.lt (getCell b f2) (getCell a f2) = false := by
  simp only [getKey, List.map_cons, List.map_nil, Val.lt, Val.ltList, he, if_true] at h
  cases he2 : Val.eq (getCell b f2) (getCell a f2)
  · simpa [he2] using h
  · cases hl : Val.lt (getCell b f2) (getCell a f2)
    · rfl
    · have := Val.lt_ne _ _ hl; simp [this] at he2

theorem eq_pairKey (f1 f2 : Nat) (r a : Row) :
    Val.eq (getKey [f1, f2] r) (getKey [f1, f2] a)
      = (Val.eq (getCell r f1) (getCell a f1) && Val.eq (getCell r f2) (getCell a f2)) := by
  simp [getKey, Val.eq, Val.eqList]

theorem eq_congr_right (x a b : Val) (h : Val.eq a b = true) : Val.eq x a = Val.eq x b := by
  cases h1 : Val.eq x a
  · cases h2 : Val.eq x b
    · rfl
    · have := Val.eq_trans _ _ _ h2 (by rw [Val.eq_symm]; exact h); simp [this] at h1
  · exact (Val.eq_trans _ _ _ h1 h).symm

end Petl.Pivot
