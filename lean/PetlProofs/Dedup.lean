/-
  Helper lemmas for C10: the run detectors compute, from the adjacent key groups, the groups of
  size ≥ 2 (duplicates), of size 1 (unique), the group heads (distinct) and the group sizes.
-/
import Petl.Dedup
import PetlProofs.Group

namespace Petl

def dupFlat (gs : List (Val × List Row)) : List Row := (gs.filter (fun g => decide (2 ≤ g.2.length))).flatMap (·.2)
def uniqFlat (gs : List (Val × List Row)) : List Row := (gs.filter (fun g => decide (g.2.length = 1))).flatMap (·.2)
def heads (gs : List (Val × List Row)) : List Row := gs.filterMap (·.2.head?)

theorem groups_cons (key : Row → Val) (r : Row) (rest : List Row) :
    groups key (r :: rest) =
      match groups key rest with
      | (k, g) :: gs => if Val.eq (key r) k then (key r, r :: g) :: gs else (key r, [r]) :: (k, g) :: gs
      | [] => [(key r, [r])] := by
  cases h : groups key rest with
  | nil => simp [groups, h]
  | cons kg gs => obtain ⟨k, g⟩ := kg; simp [groups, h]

theorem groups_cons_head (key : Row → Val) (r : Row) (rest : List Row) :
    ∃ g gs, groups key (r :: rest) = (key r, r :: g) :: gs := by
  rw [groups_cons]
  cases groups key rest with
  | nil => exact ⟨[], [], rfl⟩
  | cons kg gs =>
    obtain ⟨k, g⟩ := kg
    simp only
    split
    · exact ⟨g, gs, rfl⟩
    · exact ⟨[], (k, g) :: gs, rfl⟩

/-- unfolding `groups` on two leading rows, in terms of the groups of the tail -/
theorem groups_cons_cons (key : Row → Val) (p r : Row) (rest : List Row) (g2 : List Row) (gs2)
    (h : groups key (r :: rest) = (key r, r :: g2) :: gs2) :
    groups key (p :: r :: rest) =
      if Val.eq (key p) (key r) then (key p, p :: r :: g2) :: gs2
      else (key p, [p]) :: (key r, r :: g2) :: gs2 := by
  rw [groups_cons key p (r :: rest), h]

theorem dupAux_groups (key : Row → Val) :
    ∀ (rows : List Row) (prev : Row) (yielded : Bool) (g1 : List Row) (restG),
      groups key (prev :: rows) = (key prev, prev :: g1) :: restG →
      dupAux key prev yielded rows =
        (if yielded then g1 else if 2 ≤ (prev :: g1).length then prev :: g1 else []) ++ dupFlat restG := by
  intro rows
  induction rows with
  | nil =>
    intro prev yielded g1 restG h
    simp [groups] at h
    obtain ⟨rfl, rfl⟩ := h
    cases yielded <;> simp [dupAux, dupFlat]
  | cons row rest ih =>
    intro prev yielded g1 restG h
    obtain ⟨g2, gs2, h2⟩ := groups_cons_head key row rest
    rw [groups_cons_cons key prev row rest g2 gs2 h2] at h
    simp only [dupAux]
    by_cases he : Val.eq (key prev) (key row) = true
    · simp only [he, if_true] at h ⊢
      simp only [List.cons.injEq, Prod.mk.injEq, true_and] at h
      obtain ⟨rfl, rfl⟩ := h
      rw [ih row true g2 gs2 h2]
      cases yielded <;> simp
    · have he' : Val.eq (key prev) (key row) = false := by simpa using he
      simp only [he', Bool.false_eq_true, if_false] at h ⊢
      simp only [List.cons.injEq, Prod.mk.injEq, true_and] at h
      obtain ⟨rfl, rfl⟩ := h
      rw [ih row false g2 gs2 h2]
      cases yielded <;> simp [dupFlat, List.filter_cons] <;> split <;> simp_all

theorem dupRows_groups (key : Row → Val) (rows : List Row) : dupRows key rows = dupFlat (groups key rows) := by
  cases rows with
  | nil => simp [dupRows, dupFlat, groups]
  | cons r rest =>
    obtain ⟨g, gs, h⟩ := groups_cons_head key r rest
    rw [dupRows, dupAux_groups key rest r false g gs h, h]
    simp only [Bool.false_eq_true, if_false, dupFlat, List.filter_cons]
    split <;> simp_all

theorem uniqAux_groups (key : Row → Val) :
    ∀ (rows : List Row) (prev : Row) (prevNe : Bool) (g1 : List Row) (restG),
      groups key (prev :: rows) = (key prev, prev :: g1) :: restG →
      uniqAux key prev prevNe rows =
        (if prevNe && decide (g1 = []) then [prev] else []) ++ uniqFlat restG := by
  intro rows
  induction rows with
  | nil =>
    intro prev prevNe g1 restG h
    simp [groups] at h
    obtain ⟨rfl, rfl⟩ := h
    cases prevNe <;> simp [uniqAux, uniqFlat]
  | cons row rest ih =>
    intro prev prevNe g1 restG h
    obtain ⟨g2, gs2, h2⟩ := groups_cons_head key row rest
    rw [groups_cons_cons key prev row rest g2 gs2 h2] at h
    simp only [uniqAux]
    by_cases he : Val.eq (key prev) (key row) = true
    · have he2 : Val.eq (key row) (key prev) = true := by rw [Val.eq_symm]; exact he
      simp only [he, if_true] at h
      simp only [List.cons.injEq, Prod.mk.injEq, true_and] at h
      obtain ⟨rfl, rfl⟩ := h
      rw [ih row (!Val.eq (key row) (key prev)) g2 gs2 h2]
      simp [he2]
    · have he' : Val.eq (key prev) (key row) = false := by simpa using he
      have he2 : Val.eq (key row) (key prev) = false := by rw [Val.eq_symm]; exact he'
      simp only [he', Bool.false_eq_true, if_false] at h
      simp only [List.cons.injEq, Prod.mk.injEq, true_and] at h
      obtain ⟨rfl, rfl⟩ := h
      rw [ih row (!Val.eq (key row) (key prev)) g2 gs2 h2]
      cases prevNe <;> cases g2 <;> simp [he2, uniqFlat, List.filter_cons]

theorem uniqRows_groups (key : Row → Val) (rows : List Row) : uniqRows key rows = uniqFlat (groups key rows) := by
  cases rows with
  | nil => simp [uniqRows, uniqFlat, groups]
  | cons r rest =>
    obtain ⟨g, gs, h⟩ := groups_cons_head key r rest
    rw [uniqRows, uniqAux_groups key rest r true g gs h, h]
    cases g <;> simp [uniqFlat, List.filter_cons]

theorem distAux_groups (key : Row → Val) :
    ∀ (rows : List Row) (prev : Row) (g1 : List Row) (restG),
      groups key (prev :: rows) = (key prev, prev :: g1) :: restG →
      distAux key (some (key prev)) rows = heads restG := by
  intro rows
  induction rows with
  | nil =>
    intro prev g1 restG h
    simp [groups] at h
    obtain ⟨_, rfl⟩ := h
    simp [distAux, heads]
  | cons row rest ih =>
    intro prev g1 restG h
    obtain ⟨g2, gs2, h2⟩ := groups_cons_head key row rest
    rw [groups_cons_cons key prev row rest g2 gs2 h2] at h
    simp only [distAux]
    rw [ih row g2 gs2 h2]
    by_cases he : Val.eq (key prev) (key row) = true
    · have he2 : Val.eq (key row) (key prev) = true := by rw [Val.eq_symm]; exact he
      simp only [he, if_true] at h
      simp only [List.cons.injEq, Prod.mk.injEq, true_and] at h
      obtain ⟨_, rfl⟩ := h
      simp [he2]
    · have he' : Val.eq (key prev) (key row) = false := by simpa using he
      have he2 : Val.eq (key row) (key prev) = false := by rw [Val.eq_symm]; exact he'
      simp only [he', Bool.false_eq_true, if_false] at h
      simp only [List.cons.injEq, Prod.mk.injEq, true_and] at h
      obtain ⟨_, rfl⟩ := h
      simp [he2, heads]

theorem distinctRows_groups (key : Row → Val) (rows : List Row) : distinctRows key rows = heads (groups key rows) := by
  cases rows with
  | nil => simp [distinctRows, distAux, heads, groups]
  | cons r rest =>
    obtain ⟨g, gs, h⟩ := groups_cons_head key r rest
    simp only [distinctRows, distAux]
    rw [distAux_groups key rest r g gs h, h]
    simp [heads]

/-! ### distinct with count -/

theorem distCountAux_rows (key : Row → Val) :
    ∀ (rows : List Row) (prev last : Row) (n : Nat), Val.eq (key prev) (key last) = true →
      (distCountAux key prev n rows).map List.dropLast = prev :: distAux key (some (key last)) rows := by
  intro rows
  induction rows with
  | nil => intro prev last n _; simp [distCountAux, distAux]
  | cons row rest ih =>
    intro prev last n h
    simp only [distCountAux, distAux]
    have hc : Val.eq (key row) (key last) = Val.eq (key prev) (key row) := by
      rw [Val.eq_symm (key row) (key last)]
      cases h1 : Val.eq (key prev) (key row)
      · cases h2 : Val.eq (key last) (key row)
        · rfl
        · have := Val.eq_trans _ _ _ h h2; simp [this] at h1
      · exact Val.eq_trans _ _ _ (by rw [Val.eq_symm]; exact h) h1
    by_cases he : Val.eq (key prev) (key row) = true
    · simp only [he, if_true]
      rw [ih prev row (n + 1) he]; simp [hc, he]
    · have he' : Val.eq (key prev) (key row) = false := by simpa using he
      simp only [he', Bool.false_eq_true, if_false, List.map_cons]
      rw [ih row row 1 (Val.eq_refl _)]; simp [hc, he']

def lastCount (r : Row) : Int := match r.getLast? with | some v => (asInt? v).getD 0 | none => 0

theorem lastCount_append (r : Row) (n : Nat) : lastCount (r ++ [intVal n]) = n := by
  simp [lastCount, intVal, asInt?]

theorem distCountAux_sum (key : Row → Val) :
    ∀ (rows : List Row) (prev : Row) (n : Nat),
      ((distCountAux key prev n rows).map lastCount).sum = (n + rows.length : Nat) := by
  intro rows
  induction rows with
  | nil => intro prev n; simp [distCountAux, lastCount_append]
  | cons row rest ih =>
    intro prev n
    simp only [distCountAux]
    split
    · rw [ih]; simp; omega
    · simp only [List.map_cons, List.sum_cons, lastCount_append, ih]; simp; omega

/-! ### duplicates and unique partition the rows -/

theorem dup_uniq_perm : ∀ (gs : List (Val × List Row)), (∀ g ∈ gs, g.2 ≠ []) →
    (dupFlat gs ++ uniqFlat gs).Perm (flattenG gs) := by
  intro gs
  induction gs with
  | nil => intro _; simp [dupFlat, uniqFlat, flattenG]
  | cons g gs ih =>
    intro hne
    have ih' := ih (fun g' hg' => hne g' (List.mem_cons_of_mem _ hg'))
    have hg : g.2 ≠ [] := hne g (by simp)
    have hlen : 1 ≤ g.2.length := by cases h : g.2 <;> simp_all
    rw [flattenG_cons]
    by_cases h2 : 2 ≤ g.2.length
    · have h1 : ¬ g.2.length = 1 := by omega
      simp only [dupFlat, uniqFlat, List.filter_cons, h2, h1, decide_true, decide_false, if_true,
        Bool.false_eq_true, if_false, List.flatMap_cons, List.append_assoc] at ih' ⊢
      exact List.Perm.append_left _ ih'
    · have h1 : g.2.length = 1 := by omega
      simp only [dupFlat, uniqFlat, List.filter_cons, h2, h1, decide_true, decide_false, if_true,
        Bool.false_eq_true, if_false, List.flatMap_cons] at ih' ⊢
      exact (List.perm_append_comm_assoc _ _ _).trans (List.Perm.append_left _ ih')

/-! ### conflicts ⊆ duplicates -/

theorem confAux_sublist (key : Row → Val) (sel : Nat → Bool) (missing : Val) :
    ∀ (rows : List Row) (prev : Row) (yc yd : Bool), (yc = true → yd = true) →
      List.Sublist (confAux key sel missing prev yc rows)
        ((if yd && !yc then [prev] else []) ++ dupAux key prev yd rows) := by
  intro rows
  induction rows with
  | nil => intro prev yc yd _; simp [confAux]
  | cons row rest ih =>
    intro prev yc yd hy
    simp only [confAux, dupAux]
    by_cases he : Val.eq (key prev) (key row) = true
    · simp only [he, if_true]
      by_cases hc : conflictOn sel missing prev row = true
      · simp only [hc, if_true]
        have ih' := ih row true true (fun _ => rfl)
        simp only [Bool.not_true, Bool.and_false, Bool.false_eq_true, if_false, List.nil_append] at ih'
        cases yc <;> cases yd <;> simp_all
      · have hc' : conflictOn sel missing prev row = false := by simpa using hc
        simp only [hc', Bool.false_eq_true, if_false]
        have ih' := ih row yc true (fun _ => rfl)
        have h1 : List.Sublist ((if (true && !yc) = true then [row] else []) ++ dupAux key row true rest)
            (row :: dupAux key row true rest) := by
          cases yc
          · exact List.Sublist.refl _
          · exact List.sublist_cons_self _ _
        exact List.Sublist.trans ih' (List.sublist_append_of_sublist_right
          (List.sublist_append_of_sublist_right h1))
    · have he' : Val.eq (key prev) (key row) = false := by simpa using he
      simp only [he', Bool.false_eq_true, if_false]
      have ih' := ih row false false (fun h => by cases h)
      have ih'' : List.Sublist (confAux key sel missing row false rest) (dupAux key row false rest) := by
        simpa using ih'
      exact List.sublist_append_of_sublist_right ih''

/-! ### isunique -/

theorem isUniqueAux_iff : ∀ (vs seen : List Val),
    isUniqueAux seen vs = true ↔
      (vs.Pairwise (fun a b => Val.eq a b = false) ∧ ∀ v ∈ vs, ∀ s ∈ seen, Val.eq s v = false) := by
  intro vs
  induction vs with
  | nil => intro seen; simp [isUniqueAux]
  | cons v vs ih =>
    intro seen
    simp only [isUniqueAux]
    by_cases h : seen.any (fun s => Val.eq s v) = true
    · simp only [h, if_true]
      constructor
      · intro hf; cases hf
      · intro ⟨_, h2⟩
        obtain ⟨s, hs, hsv⟩ := List.any_eq_true.1 h
        have := h2 v (by simp) s hs
        simp [this] at hsv
    · have h' : seen.any (fun s => Val.eq s v) = false := by simpa using h
      simp only [h', Bool.false_eq_true, if_false]
      rw [ih (v :: seen)]
      have hseen : ∀ s ∈ seen, Val.eq s v = false := by
        intro s hs
        cases hsv : Val.eq s v
        · rfl
        · have : seen.any (fun s => Val.eq s v) = true := List.any_eq_true.2 ⟨s, hs, hsv⟩
          simp [this] at h'
      constructor
      · intro ⟨h1, h2⟩
        refine ⟨List.pairwise_cons.2 ⟨fun b hb => h2 b hb v (by simp), h1⟩, ?_⟩
        intro x hx s hs
        rcases List.mem_cons.1 hx with rfl | hx
        · exact hseen s hs
        · exact h2 x hx s (List.mem_cons_of_mem _ hs)
      · intro ⟨h1, h2⟩
        obtain ⟨h1a, h1b⟩ := List.pairwise_cons.1 h1
        refine ⟨h1b, ?_⟩
        intro x hx s hs
        rcases List.mem_cons.1 hs with rfl | hs
        · exact h1a x hx
        · exact h2 x (List.mem_cons_of_mem _ hx) s hs

end Petl
