/-
  Helper lemmas for C08: the two-pointer loops over sorted inputs and the Counter loops
  compute multiset difference / intersection (multiplicities under row equality).
-/
import Petl.SetOps
import PetlProofs.Sort

namespace Petl

/-! ### row order facts (instances of the C04 lemmas on tuples) -/

theorem rowEq_refl (a : Row) : rowEq a a = true := Val.eq_refl _
theorem rowEq_symm (a b : Row) : rowEq a b = rowEq b a := Val.eq_symm _ _
theorem rowEq_trans (a b c : Row) : rowEq a b = true → rowEq b c = true → rowEq a c = true := Val.eq_trans _ _ _
theorem rowLt_congr_left (a b c : Row) (h : rowEq a b = true) : rowLt a c = rowLt b c := Val.lt_congr_left _ _ _ h
theorem rowLt_congr_right (a b c : Row) (h : rowEq b c = true) : rowLt a b = rowLt a c := Val.lt_congr_right _ _ _ h
theorem rowLt_trans (a b c : Row) : rowLt a b = true → rowLt b c = true → rowLt a c = true := Val.lt_trans _ _ _
theorem rowLt_ne (a b : Row) (h : rowLt a b = true) : rowEq a b = false := Val.lt_ne _ _ h
theorem row_tri (a b : Row) : rowLt a b = true ∨ rowEq a b = true ∨ rowLt b a = true := Val.tri _ _

theorem rowEq_congr (x a b : Row) (h : rowEq a b = true) : rowEq x a = rowEq x b := by
  cases h1 : rowEq x b
  · cases h2 : rowEq x a
    · rfl
    · have := rowEq_trans x a b h2 h; simp [this] at h1
  · exact rowEq_trans x b a h1 (by rw [rowEq_symm]; exact h)

theorem rowLt_of_lt_of_not_lt (a b y : Row) (h1 : rowLt a b = true) (h2 : rowLt y b = false) :
    rowLt a y = true := by
  rcases row_tri a y with h | h | h
  · exact h
  · have := rowLt_congr_left a y b h; rw [h1, h2] at this; simp at this
  · have := rowLt_trans y a b h h1; simp [this] at h2

def SortedRows (l : List Row) : Prop := l.Pairwise (fun a b => rowLt b a = false)

theorem lt_all_of_sorted (a b : Row) (bs : List Row) (h : rowLt a b = true) (hs : SortedRows (b :: bs)) :
    ∀ y ∈ b :: bs, rowLt a y = true := by
  intro y hy
  rcases List.mem_cons.1 hy with rfl | hy
  · exact h
  · exact rowLt_of_lt_of_not_lt a b y h ((List.pairwise_cons.1 hs).1 y hy)

/-! ### counting -/

theorem countRow_nil (x : Row) : countRow x [] = 0 := rfl

theorem countRow_cons (x a : Row) (l : List Row) :
    countRow x (a :: l) = (if rowEq x a then 1 else 0) + countRow x l := by
  simp only [countRow, List.filter_cons]
  cases rowEq x a <;> simp <;> omega

theorem countRow_zero_of_lt_all (x : Row) (l : List Row) (h : ∀ y ∈ l, rowLt x y = true) :
    countRow x l = 0 := by
  simp only [countRow, List.length_eq_zero_iff, List.filter_eq_nil_iff]
  intro y hy; simp [rowLt_ne x y (h y hy)]

theorem countRow_zero_of_gt_all (x : Row) (l : List Row) (h : ∀ y ∈ l, rowLt y x = true) :
    countRow x l = 0 := by
  simp only [countRow, List.length_eq_zero_iff, List.filter_eq_nil_iff]
  intro y hy
  have := rowLt_ne y x (h y hy)
  rw [rowEq_symm] at this; simp [this]

/-- `x ≡ a < b ≤ everything in b :: bs` -/
theorem count_zero_above (x a b : Row) (bs : List Row) (hx : rowEq x a = true) (h : rowLt a b = true)
    (hs : SortedRows (b :: bs)) : countRow x (b :: bs) = 0 := by
  apply countRow_zero_of_lt_all
  intro y hy
  rw [rowLt_congr_left x a y hx]
  exact lt_all_of_sorted a b bs h hs y hy

theorem countRow_pos_of_any (x a : Row) (l : List Row) (hx : rowEq x a = true) (h : l.any (rowEq a) = true) :
    1 ≤ countRow x l := by
  obtain ⟨y, hy, hay⟩ := List.any_eq_true.1 h
  have : y ∈ l.filter (rowEq x) := List.mem_filter.2 ⟨hy, rowEq_trans x a y hx hay⟩
  exact List.length_pos_of_mem this

theorem countRow_zero_of_not_any (x a : Row) (l : List Row) (hx : rowEq x a = true) (h : l.any (rowEq a) = false) :
    countRow x l = 0 := by
  simp only [countRow, List.length_eq_zero_iff, List.filter_eq_nil_iff]
  intro y hy hxy
  have : l.any (rowEq a) = true :=
    List.any_eq_true.2 ⟨y, hy, rowEq_trans a x y (by rw [rowEq_symm]; exact hx) hxy⟩
  simp [this] at h

/-! ### sort-based complement -/

theorem not_lt_not_eq_gt (a b : Row) (h1 : ¬ rowLt a b = true) (h2 : ¬ rowEq a b = true) : rowLt b a = true := by
  rcases row_tri a b with h | h | h
  · exact absurd h h1
  · exact absurd h h2
  · exact h

theorem complLoop_count (strict : Bool) (hs : strict = false) :
    ∀ (A B : List Row), SortedRows A → SortedRows B → ∀ x,
      countRow x (complLoop strict A B) = countRow x A - countRow x B := by
  intro A B
  fun_induction complLoop strict A B with
  | case1 B => intro _ _ x; simp [countRow_nil]
  | case2 a as => intro _ _ x; simp [countRow_nil]
  | case3 a as b bs hlt ih =>
    intro hA hB x
    have ih' := ih (List.pairwise_cons.1 hA).2 hB x
    rw [countRow_cons, countRow_cons x a as, ih']
    by_cases hx : rowEq x a = true
    · have := count_zero_above x a b bs hx hlt hB
      simp [hx]; omega
    · simp [hx]
  | case4 a as b bs hlt heq hst ih => simp [hs] at hst
  | case5 a as b bs hlt heq hst ih =>
    intro hA hB x
    have ih' := ih (List.pairwise_cons.1 hA).2 (List.pairwise_cons.1 hB).2 x
    rw [ih', countRow_cons x a as, countRow_cons x b bs, rowEq_congr x a b heq]
    cases rowEq x b <;> simp <;> omega
  | case6 a as b bs hlt heq ih =>
    intro hA hB x
    have ih' := ih hA (List.pairwise_cons.1 hB).2 x
    rw [ih', countRow_cons x b bs]
    have hgt := not_lt_not_eq_gt a b hlt heq
    by_cases hx : rowEq x b = true
    · have : countRow x (a :: as) = 0 := count_zero_above x b a as hx hgt hA
      simp [hx, this]
    · simp [hx]

theorem complLoop_count_strict (strict : Bool) (hs : strict = true) :
    ∀ (A B : List Row), SortedRows A → SortedRows B → ∀ x,
      countRow x (complLoop strict A B) = if countRow x B = 0 then countRow x A else 0 := by
  intro A B
  fun_induction complLoop strict A B with
  | case1 B => intro _ _ x; simp [countRow_nil]
  | case2 a as => intro _ _ x; simp [countRow_nil]
  | case3 a as b bs hlt ih =>
    intro hA hB x
    have ih' := ih (List.pairwise_cons.1 hA).2 hB x
    rw [countRow_cons, countRow_cons x a as, ih']
    by_cases hx : rowEq x a = true
    · have := count_zero_above x a b bs hx hlt hB
      simp [hx, this]
    · simp [hx]
  | case4 a as b bs hlt heq hst ih =>
    intro hA hB x
    have ih' := ih (List.pairwise_cons.1 hA).2 hB x
    rw [ih', countRow_cons x a as]
    by_cases hx : rowEq x a = true
    · have hxb : rowEq x b = true := rowEq_trans x a b hx heq
      have : countRow x (b :: bs) ≠ 0 := by rw [countRow_cons]; simp [hxb]
      simp [this]
    · simp [hx]
  | case5 a as b bs hlt heq hst ih => simp [hs] at hst
  | case6 a as b bs hlt heq ih =>
    intro hA hB x
    have ih' := ih hA (List.pairwise_cons.1 hB).2 x
    rw [ih', countRow_cons x b bs]
    have hgt := not_lt_not_eq_gt a b hlt heq
    by_cases hx : rowEq x b = true
    · have : countRow x (a :: as) = 0 := count_zero_above x b a as hx hgt hA
      simp [hx, this]
    · simp [hx]

theorem interLoop_count :
    ∀ (A B : List Row), SortedRows A → SortedRows B → ∀ x,
      countRow x (interLoop A B) = min (countRow x A) (countRow x B) := by
  intro A B
  fun_induction interLoop A B with
  | case1 B => intro _ _ x; simp [countRow_nil]
  | case2 a as => intro _ _ x; simp [countRow_nil]
  | case3 a as b bs hlt ih =>
    intro hA hB x
    have ih' := ih (List.pairwise_cons.1 hA).2 hB x
    rw [ih', countRow_cons x a as]
    by_cases hx : rowEq x a = true
    · have := count_zero_above x a b bs hx hlt hB
      simp [hx, this]
    · simp [hx]
  | case4 a as b bs hlt heq ih =>
    intro hA hB x
    have ih' := ih (List.pairwise_cons.1 hA).2 (List.pairwise_cons.1 hB).2 x
    rw [countRow_cons, ih', countRow_cons x a as, countRow_cons x b bs, rowEq_congr x a b heq]
    cases rowEq x b <;> simp <;> omega
  | case5 a as b bs hlt heq ih =>
    intro hA hB x
    have ih' := ih hA (List.pairwise_cons.1 hB).2 x
    rw [ih', countRow_cons x b bs]
    have hgt := not_lt_not_eq_gt a b hlt heq
    by_cases hx : rowEq x b = true
    · have : countRow x (a :: as) = 0 := count_zero_above x b a as hx hgt hA
      simp [hx, this]
    · simp [hx]

/-! ### Counter-based variants (no sortedness needed) -/

theorem eraseRow_count (a x : Row) : ∀ (B : List Row), B.any (rowEq a) = true →
    countRow x (eraseRow a B) = countRow x B - (if rowEq x a then 1 else 0) := by
  intro B
  induction B with
  | nil => intro h; simp at h
  | cons b bs ih =>
    intro h
    simp only [eraseRow]
    by_cases hab : rowEq a b = true
    · simp only [hab, if_true]
      rw [countRow_cons, rowEq_congr x a b hab]
      cases rowEq x b <;> simp
    · have hab' : rowEq a b = false := by simpa using hab
      have hbs : bs.any (rowEq a) = true := by simpa [List.any_cons, hab'] using h
      simp only [hab', Bool.false_eq_true, if_false]
      rw [countRow_cons, countRow_cons, ih hbs]
      by_cases hx : rowEq x a = true
      · have := countRow_pos_of_any x a bs hx hbs
        simp [hx]; omega
      · simp [hx]

theorem hashComplLoop_count (strict : Bool) (hs : strict = false) :
    ∀ (A B : List Row) x, countRow x (hashComplLoop strict A B) = countRow x A - countRow x B := by
  subst hs
  intro A
  induction A with
  | nil => intro B x; simp [hashComplLoop, countRow_nil]
  | cons a as ih =>
    intro B x
    simp only [hashComplLoop]
    by_cases hany : B.any (rowEq a) = true
    · simp only [hany, if_true, Bool.false_eq_true, if_false]
      rw [ih, eraseRow_count a x B hany, countRow_cons]
      by_cases hx : rowEq x a = true
      · have := countRow_pos_of_any x a B hx hany
        simp [hx]; omega
      · simp [hx]
    · have hany' : B.any (rowEq a) = false := by simpa using hany
      simp only [hany', Bool.false_eq_true, if_false]
      rw [countRow_cons, ih, countRow_cons]
      by_cases hx : rowEq x a = true
      · have := countRow_zero_of_not_any x a B hx hany'
        simp [hx, this]
      · simp [hx]

theorem hashComplLoop_count_strict (strict : Bool) (hs : strict = true) :
    ∀ (A B : List Row) x,
      countRow x (hashComplLoop strict A B) = if countRow x B = 0 then countRow x A else 0 := by
  subst hs
  intro A
  induction A with
  | nil => intro B x; simp [hashComplLoop, countRow_nil]
  | cons a as ih =>
    intro B x
    simp only [hashComplLoop]
    by_cases hany : B.any (rowEq a) = true
    · simp only [hany, if_true]
      rw [ih, countRow_cons]
      by_cases hx : rowEq x a = true
      · have := countRow_pos_of_any x a B hx hany
        have h0 : countRow x B ≠ 0 := by omega
        simp [h0]
      · simp [hx]
    · have hany' : B.any (rowEq a) = false := by simpa using hany
      simp only [hany', Bool.false_eq_true, if_false]
      rw [countRow_cons, ih, countRow_cons]
      by_cases hx : rowEq x a = true
      · have := countRow_zero_of_not_any x a B hx hany'
        simp [hx, this]
      · simp [hx]

theorem hashInterLoop_count :
    ∀ (A B : List Row) x, countRow x (hashInterLoop A B) = min (countRow x A) (countRow x B) := by
  intro A
  induction A with
  | nil => intro B x; simp [hashInterLoop, countRow_nil]
  | cons a as ih =>
    intro B x
    simp only [hashInterLoop]
    by_cases hany : B.any (rowEq a) = true
    · simp only [hany, if_true]
      rw [countRow_cons, ih, eraseRow_count a x B hany, countRow_cons]
      by_cases hx : rowEq x a = true
      · have := countRow_pos_of_any x a B hx hany
        simp [hx]; omega
      · simp [hx]
    · have hany' : B.any (rowEq a) = false := by simpa using hany
      simp only [hany', Bool.false_eq_true, if_false]
      rw [ih, countRow_cons]
      by_cases hx : rowEq x a = true
      · have := countRow_zero_of_not_any x a B hx hany'
        simp [hx, this]
      · simp [hx]

/-! ### outputs keep the order of `a` -/

theorem hashComplLoop_sublist (strict : Bool) : ∀ (A B : List Row), List.Sublist (hashComplLoop strict A B) A := by
  intro A
  induction A with
  | nil => intro B; simp [hashComplLoop]
  | cons a as ih =>
    intro B
    simp only [hashComplLoop]
    split
    · split
      · exact (ih B).cons a
      · exact (ih _).cons a
    · exact (ih B).cons_cons a

theorem hashInterLoop_sublist : ∀ (A B : List Row), List.Sublist (hashInterLoop A B) A := by
  intro A
  induction A with
  | nil => intro B; simp [hashInterLoop]
  | cons a as ih =>
    intro B
    simp only [hashInterLoop]
    split
    · exact (ih _).cons_cons a
    · exact (ih B).cons a

/-! ### the sort with key=None sorts rectangular rows as tuples -/

def Rect (w : Nat) (rows : List Row) : Prop := ∀ r ∈ rows, r.length = w

theorem map_getCell_range (r : Row) : (List.range r.length).map (getCell r) = r := by
  apply List.ext_getElem
  · simp
  · intro i h1 h2
    simp [getCell, List.getD, List.getElem?_eq_getElem (by simpa using h2)]

theorem getKey_range_lt (w : Nat) (hw : 1 ≤ w) (a b : Row) (ha : a.length = w) (hb : b.length = w) :
    Val.lt (getKey (List.range w) a) (getKey (List.range w) b) = rowLt a b := by
  by_cases h1 : w = 1
  · subst h1
    match a, b, ha, hb with
    | [x], [y], _, _ =>
      simp only [List.range_succ, List.range_zero, List.nil_append, getKey, getCell, List.getD,
        List.getElem?_cons_zero, Option.getD_some, rowLt, Val.lt, Val.ltList]
      cases hxy : Val.eq x y
      · simp
      · have := (Val.incomparable_iff_eq x y).2 hxy
        simp [this.1]
  · have hk : ∀ r : Row, r.length = w → getKey (List.range w) r = .seq false r := by
      intro r hr
      have hne : ∀ i, List.range w ≠ [i] := by
        intro i h
        have := congrArg List.length h
        simp at this; omega
      unfold getKey
      split
      · rename_i i heq; exact absurd heq (hne i)
      · rw [← hr, map_getCell_range]
    rw [hk a ha, hk b hb]; rfl

theorem sortAll_sorted (hdr : Row) (hw : 1 ≤ hdr.length) (bs : Option Nat) (hbs : ∀ b, bs = some b → 1 ≤ b)
    (rows : List Row) (hr : Rect hdr.length rows) :
    SortedRows (sortAll hdr bs rows) ∧ (sortAll hdr bs rows).Perm rows := by
  have hsorted : SortedL (rowLe (List.range hdr.length) false) (sortAll hdr bs rows) ∧
      (sortAll hdr bs rows).Perm rows := by
    unfold sortAll
    cases bs with
    | none =>
      exact ⟨(mergeSort_isStableSort _ (rowLe_totalPre _ false) rows).1, List.mergeSort_perm rows _⟩
    | some b =>
      rw [sortRows_eq_mergeSort _ (rowLe_totalPre _ false) b (hbs b rfl)]
      exact ⟨(mergeSort_isStableSort _ (rowLe_totalPre _ false) rows).1, List.mergeSort_perm rows _⟩
  refine ⟨?_, hsorted.2⟩
  have hrect : Rect hdr.length (sortAll hdr bs rows) := fun r hr' => hr r (hsorted.2.mem_iff.1 hr')
  have h1 := hsorted.1
  simp only [SortedL, rowLe, Bool.false_eq_true, if_false] at h1
  unfold SortedRows
  apply List.Pairwise.imp_of_mem (R := fun a b => (!Val.lt (getKey (List.range hdr.length) b) (getKey (List.range hdr.length) a)) = true) ?_ h1
  intro a b ha hb hab
  rw [getKey_range_lt hdr.length hw b a (hrect b hb) (hrect a ha)] at hab
  simpa using hab

theorem countRow_perm (x : Row) {l l' : List Row} (h : l.Perm l') : countRow x l = countRow x l' :=
  (h.filter _).length_eq

end Petl
