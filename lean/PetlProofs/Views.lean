/-
  Helper lemmas for C01: a generic proof principle for "iterators are mutually independent",
  and its instances for the caching views.
-/
import Petl.Views

namespace Petl

/-- Proof obligations that make every iterator of a machine deliver a prefix of `full`, whatever
    the interleaving: `R s it k` = "iterator state `it` is at position k (has delivered full.take k)". -/
structure IndepCert {σ ι : Type} (m : Machine σ ι) (full : List Row) where
  SInv : σ → Prop
  R : σ → ι → Nat → Prop
  init : SInv m.init
  new : ∀ s, SInv s → SInv (m.newIter s).1 ∧ R (m.newIter s).1 (m.newIter s).2 0 ∧
          ∀ it k, R s it k → R (m.newIter s).1 it k
  step : ∀ s it k, SInv s → R s it k →
          SInv (m.step s it).1 ∧ (m.step s it).2.2 = full[k]? ∧
          R (m.step s it).1 (m.step s it).2.1 (if (m.step s it).2.2.isSome then k + 1 else k) ∧
          ∀ it2 k2, R s it2 k2 → R (m.step s it).1 it2 k2

/-- the run invariant: every live iterator has delivered exactly `full.take k` and is at position k -/
def RunInv {σ ι : Type} {m : Machine σ ι} {full : List Row} (c : IndepCert m full) (st : RunState σ ι) : Prop :=
  c.SInv st.shared ∧ st.outs.length = st.iters.length ∧
  ∀ (i : Nat) (it : ι), st.iters[i]? = some it → ∃ k, st.outs[i]? = some (full.take k) ∧ k ≤ full.length ∧ c.R st.shared it k

theorem runInv_apply {σ ι : Type} {m : Machine σ ι} {full : List Row} (c : IndepCert m full)
    (st : RunState σ ι) (h : RunInv c st) (op : SOp) : RunInv c (m.apply st op) := by
  obtain ⟨hs, hlen, hit⟩ := h
  cases op with
  | new =>
    obtain ⟨h1, h2, h3⟩ := c.new st.shared hs
    simp only [Machine.apply]
    refine ⟨h1, by simp [hlen], ?_⟩
    intro i it hi
    by_cases hlt : i < st.iters.length
    · rw [List.getElem?_append_left hlt] at hi
      obtain ⟨k, hk1, hk2, hk3⟩ := hit i it hi
      refine ⟨k, ?_, hk2, h3 it k hk3⟩
      rw [List.getElem?_append_left (by omega)]; exact hk1
    · have hi' : i = st.iters.length := by
        have := List.getElem?_eq_some_iff.1 hi
        obtain ⟨hb, _⟩ := this
        simp at hb; omega
      subst hi'
      simp at hi; subst hi
      refine ⟨0, ?_, by omega, h2⟩
      rw [← hlen]; simp
  | next i =>
    simp only [Machine.apply]
    cases hi : st.iters[i]? with
    | none => simp only; exact ⟨hs, hlen, hit⟩
    | some it =>
      simp only
      obtain ⟨k, hk1, hk2, hk3⟩ := hit i it hi
      obtain ⟨h1, h2, h3, h4⟩ := c.step st.shared it k hs hk3
      have hib : i < st.iters.length := (List.getElem?_eq_some_iff.1 hi).1
      refine ⟨h1, ?_, ?_⟩
      · cases (m.step st.shared it).2.2 <;> simp [hlen]
      · intro j it2 hj
        by_cases hji : j = i
        · subst hji
          rw [List.getElem?_set_self hib] at hj
          cases hj
          cases hr : (m.step st.shared it).2.2 with
          | none =>
            rw [hr] at h3
            exact ⟨k, by simpa [hr] using hk1, hk2, by simpa using h3⟩
          | some row =>
            rw [hr] at h3 h2
            have hkl : k < full.length := by
              by_cases hkl : k < full.length
              · exact hkl
              · rw [List.getElem?_eq_none (by omega)] at h2; cases h2
            refine ⟨k + 1, ?_, by omega, by simpa using h3⟩
            simp only
            rw [List.getElem?_set_self (by omega)]
            have : st.outs.getD j [] = full.take k := by
              simp [List.getD, hk1]
            rw [this, List.take_succ, ← h2]; simp
        · rw [List.getElem?_set_ne (fun h => hji h.symm)] at hj
          obtain ⟨k2, hk21, hk22, hk23⟩ := hit j it2 hj
          refine ⟨k2, ?_, hk22, h4 it2 k2 hk23⟩
          cases hr : (m.step st.shared it).2.2 with
          | none => simpa using hk21
          | some row => simp only; rw [List.getElem?_set_ne (fun h => hji h.symm)]; exact hk21

theorem runInv_run {σ ι : Type} {m : Machine σ ι} {full : List Row} (c : IndepCert m full) (sched : List SOp) :
    RunInv c (m.run sched) := by
  have : ∀ (ops : List SOp) (st : RunState σ ι), RunInv c st → RunInv c (ops.foldl m.apply st) := by
    intro ops
    induction ops with
    | nil => intro st h; exact h
    | cons op ops ih => intro st h; exact ih _ (runInv_apply c st h op)
  exact this sched m.start ⟨c.init, rfl, by intro i it h; simp [Machine.start] at h⟩

/-- what every iterator has received is a prefix of the one sequence `full`, for every schedule -/
theorem outputs_are_prefixes {σ ι : Type} {m : Machine σ ι} {full : List Row} (c : IndepCert m full)
    (sched : List SOp) (i : Nat) (out : List Row) (h : (m.run sched).outs[i]? = some out) :
    ∃ k, out = full.take k ∧ k ≤ full.length := by
  obtain ⟨_, hlen, hit⟩ := runInv_run c sched
  have hib : i < (m.run sched).iters.length := by
    rw [← hlen]; exact (List.getElem?_eq_some_iff.1 h).1
  obtain ⟨k, hk1, hk2, _⟩ := hit i _ (List.getElem?_eq_getElem hib)
  rw [h] at hk1; cases hk1
  exact ⟨k, rfl, hk2⟩

/-- and a `next` never stops an iterator early: it delivers row k of `full` when the iterator is at k -/
theorem next_delivers {σ ι : Type} {m : Machine σ ι} {full : List Row} (c : IndepCert m full)
    (sched : List SOp) (i : Nat) (it : ι) (hi : (m.run sched).iters[i]? = some it) :
    ∃ k, (m.run sched).outs[i]? = some (full.take k) ∧
      (m.step (m.run sched).shared it).2.2 = full[k]? := by
  obtain ⟨hs, _, hit⟩ := runInv_run c sched
  obtain ⟨k, hk1, _, hk3⟩ := hit i it hi
  exact ⟨k, hk1, (c.step _ it k hs hk3).2.1⟩

end Petl

namespace Petl

/-! ### instances -/

def pureCert (rows : List Row) : IndepCert (pureMachine rows) rows where
  SInv := fun _ => True
  R := fun _ it k => it = rows.drop k
  init := trivial
  new := fun _ _ => ⟨trivial, by simp [pureMachine], fun _ _ h => h⟩
  step := by
    intro s it k _ h
    subst h
    cases hd : rows.drop k with
    | nil =>
      have hk : rows.length ≤ k := by simpa using hd
      simp [pureMachine, hd, List.getElem?_eq_none hk]
    | cons r rest =>
      have hk : k < rows.length := by
        by_cases hk : k < rows.length
        · exact hk
        · rw [List.drop_of_length_le (by omega)] at hd; cases hd
      have hr : rows[k]? = some r := by
        have := List.getElem?_drop (xs := rows) (i := k) (j := 0)
        rw [hd] at this; simpa using this.symm
      have hrest : rows.drop (k + 1) = rest := by
        have : rows.drop (k + 1) = (rows.drop k).drop 1 := by simp [List.drop_drop, Nat.add_comm]
        rw [this, hd]; rfl
      simp [pureMachine, hd, hr, hrest]

def dictsGenCert (rows : List Row) : IndepCert (dictsGenMachine rows) rows where
  SInv := fun s => s.log ++ s.remaining = rows
  R := fun s pos k => pos = k ∧ k ≤ s.log.length
  init := by simp [dictsGenMachine]
  new := fun s h => ⟨h, by simp [dictsGenMachine], fun _ _ h => h⟩
  step := by
    intro s pos k hs ⟨hp, hk⟩
    subst hp
    by_cases hlt : pos < s.log.length
    · have hl : s.log[pos]? = some s.log[pos] := List.getElem?_eq_getElem hlt
      simp only [dictsGenMachine, hl]
      refine ⟨hs, ?_, ⟨by simp, by simp; omega⟩, fun _ _ h => h⟩
      rw [← hs, List.getElem?_append_left hlt]; exact hl.symm
    · have hpe : pos = s.log.length := by omega
      have hl : s.log[pos]? = none := List.getElem?_eq_none (by omega)
      cases hr : s.remaining with
      | nil =>
        simp only [dictsGenMachine, hl, hr]
        refine ⟨by rw [hr] at hs; exact hs, ?_, ⟨by simp, by simpa using hk⟩, fun _ _ h => h⟩
        rw [← hs, hr, List.append_nil, List.getElem?_eq_none (by omega)]
      | cons r rest =>
        simp only [dictsGenMachine, hl, hr]
        refine ⟨by rw [← hs, hr]; simp, ?_, ⟨by simp [hpe], by simp; omega⟩, ?_⟩
        · rw [← hs, hr, hpe]; simp
        · intro it2 k2 ⟨h1, h2⟩; exact ⟨h1, by simp; omega⟩

def sortIterAt (out : List Row) : SortIter → Nat → Prop
  | .pending, k => k = 0
  | .afterHeader, k => k = 1 ∧ out ≠ []
  | .cursor rest, k => rest = out.drop k ∧ k ≤ out.length
  | .done, k => out.length ≤ k

def sortViewCert (cacheOn : Bool) (out : List Row) : IndepCert (sortViewMachine cacheOn out) out where
  SInv := fun s => ∀ rows, s = some rows → rows = out
  R := fun _ it k => sortIterAt out it k
  init := by simp [sortViewMachine]
  new := by
    intro s hs
    refine ⟨?_, ?_, fun _ _ h => h⟩
    · simp only [sortViewMachine]; split <;> exact hs
    · simp only [sortViewMachine]
      split
      · rename_i rows; have := hs rows rfl; subst this; simp [sortIterAt]
      · simp [sortIterAt]
  step := by
    intro s it k hs hR
    cases it with
    | pending =>
      simp only [sortIterAt] at hR; subst hR
      cases out with
      | nil => simp [sortViewMachine, sortIterAt]
      | cons hdr rest => simp [sortViewMachine, sortIterAt]
    | afterHeader =>
      obtain ⟨rfl, hne⟩ := hR
      cases out with
      | nil => exact absurd rfl hne
      | cons hdr rest =>
        cases rest with
        | nil => cases cacheOn <;> simp_all [sortViewMachine, sortIterAt]
        | cons r rest' => cases cacheOn <;> simp_all [sortViewMachine, sortIterAt]
    | cursor rest =>
      obtain ⟨hrest, hk⟩ := hR
      cases rest with
      | nil =>
        have : out.length ≤ k := by
          have := congrArg List.length hrest; simp at this; omega
        simp [sortViewMachine, sortIterAt, hs, List.getElem?_eq_none this, this]
        exact hs
      | cons r rest' =>
        have hlt : k < out.length := by
          by_cases h : k < out.length
          · exact h
          · rw [List.drop_of_length_le (by omega)] at hrest; cases hrest
        have hr : out[k]? = some r := by
          have := List.getElem?_drop (xs := out) (i := k) (j := 0)
          rw [← hrest] at this; simpa using this.symm
        have hrest' : rest' = out.drop (k + 1) := by
          have : out.drop (k + 1) = (out.drop k).drop 1 := by simp [List.drop_drop, Nat.add_comm]
          rw [this, ← hrest]; rfl
        simp [sortViewMachine, sortIterAt, hr, hrest']
        exact ⟨hs, by omega⟩
    | done =>
      simp only [sortIterAt] at hR
      simp [sortViewMachine, sortIterAt, List.getElem?_eq_none hR, hR]
      exact hs

end Petl

namespace Petl

/-! ### CacheView (repaired append guard) -/

def limitHit (n : Option Nat) (s : CacheShared) : Prop := ∃ lim, n = some lim ∧ lim ≤ s.cache.length

def cacheIterAt (inner : List Row) (n : Option Nat) (s : CacheShared) : CacheIter → Nat → Prop
  | .fromCache p, k => p = k ∧ p ≤ s.cache.length
  | .fromInner i, k => i = k ∧ (i ≤ s.cache.length ∨ limitHit n s)
  | .done, k => inner.length ≤ k

def cacheSInv (inner : List Row) (n : Option Nat) (s : CacheShared) : Prop :=
  s.cache = inner.take s.cache.length ∧ (s.complete = true → s.cache.length = inner.length) ∧
  (∀ lim, n = some lim → s.cache.length ≤ lim)

theorem cache_len_le {inner : List Row} {n} {s : CacheShared} (h : cacheSInv inner n s) :
    s.cache.length ≤ inner.length := by
  have := congrArg List.length h.1
  simp [List.length_take] at this; omega

theorem cacheIterAt_mono (inner : List Row) (n : Option Nat) (s s' : CacheShared)
    (hlen : s.cache.length ≤ s'.cache.length) (it : CacheIter) (k : Nat)
    (h : cacheIterAt inner n s it k) : cacheIterAt inner n s' it k := by
  cases it with
  | fromCache p => exact ⟨h.1, by have := h.2; omega⟩
  | fromInner i =>
    refine ⟨h.1, ?_⟩
    rcases h.2 with h2 | ⟨lim, h3, h4⟩
    · left; omega
    · right; exact ⟨lim, h3, by omega⟩
  | done => exact h

theorem cacheRoom_false {n : Option Nat} {s : CacheShared} (h : cacheRoom n s = false) : limitHit n s := by
  cases hn : n with
  | none => simp [cacheRoom, hn] at h
  | some lim => simp [cacheRoom, hn] at h; exact ⟨lim, rfl, h⟩

theorem cacheRoom_true {n : Option Nat} {s : CacheShared} (h : cacheRoom n s = true) : ¬ limitHit n s := by
  intro ⟨lim, h1, h2⟩
  subst h1; simp [cacheRoom] at h; omega

theorem cacheStepInner_ok (inner : List Row) (n : Option Nat) (s : CacheShared) (i : Nat)
    (hs : cacheSInv inner n s) (hi : i ≤ s.cache.length ∨ limitHit n s) :
    cacheSInv inner n (cacheStepInner true inner n s i).1 ∧
    (cacheStepInner true inner n s i).2.2 = inner[i]? ∧
    cacheIterAt inner n (cacheStepInner true inner n s i).1 (cacheStepInner true inner n s i).2.1
      (if (cacheStepInner true inner n s i).2.2.isSome then i + 1 else i) ∧
    s.cache.length ≤ (cacheStepInner true inner n s i).1.cache.length := by
  obtain ⟨h1, h2, h3⟩ := hs
  have hL := cache_len_le ⟨h1, h2, h3⟩
  by_cases hlt : i < inner.length
  · have hrow : inner[i]? = some inner[i] := List.getElem?_eq_getElem hlt
    cases happ : cacheShouldAppend true n s i
    · simp only [cacheStepInner, hrow, happ, Bool.false_eq_true, if_false, Option.isSome_some, if_true]
      refine ⟨⟨h1, h2, h3⟩, (by first | rfl | trivial), ⟨rfl, ?_⟩, Nat.le_refl _⟩
      simp only [cacheShouldAppend, Bool.not_true, Bool.false_or, Bool.and_eq_false_iff, beq_eq_false_iff_ne] at happ
      rcases happ with hr | hne
      · exact Or.inr (cacheRoom_false hr)
      · rcases hi with hi | hi
        · left; omega
        · exact Or.inr hi
    · simp only [cacheStepInner, hrow, happ, if_true, Option.isSome_some]
      simp only [cacheShouldAppend, Bool.not_true, Bool.false_or, Bool.and_eq_true, beq_iff_eq] at happ
      obtain ⟨hroom, hLi⟩ := happ
      refine ⟨⟨?_, ?_, ?_⟩, (by first | rfl | trivial), ⟨rfl, Or.inl (by simp; omega)⟩, by simp⟩
      · simp only [List.length_append, List.length_singleton]
        rw [List.take_add_one, ← h1, hLi, hrow]; simp
      · intro hc; have := h2 hc; omega
      · intro lim hlim
        subst hlim
        simp [cacheRoom] at hroom; simp; omega
  · have hnone : inner[i]? = none := List.getElem?_eq_none (by omega)
    cases hroom : cacheRoom n s
    · simp only [cacheStepInner, hnone, hroom, Bool.false_eq_true, if_false, Option.isSome_none]
      exact ⟨⟨h1, h2, h3⟩, (by first | rfl | trivial), by simp [cacheIterAt]; omega, Nat.le_refl _⟩
    · simp only [cacheStepInner, hnone, hroom, if_true, Option.isSome_none, Bool.false_eq_true, if_false]
      refine ⟨⟨h1, ?_, h3⟩, (by first | rfl | trivial), by simp [cacheIterAt]; omega, Nat.le_refl _⟩
      intro _
      rcases hi with hi | hi
      · simp only; omega
      · exact absurd hi (cacheRoom_true hroom)

def cacheCert (inner : List Row) (n : Option Nat) : IndepCert (cacheMachine true inner n) inner where
  SInv := cacheSInv inner n
  R := cacheIterAt inner n
  init := by simp [cacheMachine, cacheSInv]
  new := fun s h => ⟨h, by simp [cacheMachine, cacheIterAt], fun _ _ h => h⟩
  step := by
    intro s it k hs hR
    cases it with
    | done =>
      simp only [cacheIterAt] at hR
      simp only [cacheMachine, cacheIterAt, List.getElem?_eq_none hR, Option.isSome_none, Bool.false_eq_true, if_false]
      exact ⟨hs, trivial, hR, fun _ _ h => h⟩
    | fromInner i =>
      obtain ⟨rfl, hi⟩ := hR
      obtain ⟨a, b, c, d⟩ := cacheStepInner_ok inner n s i hs hi
      exact ⟨a, b, c, fun it2 k2 h => cacheIterAt_mono inner n s _ d it2 k2 h⟩
    | fromCache p =>
      obtain ⟨rfl, hp⟩ := hR
      by_cases hlt : p < s.cache.length
      · have hrow : s.cache[p]? = some s.cache[p] := List.getElem?_eq_getElem hlt
        have hin : inner[p]? = some s.cache[p] := by
          have h1 := hs.1
          have : (inner.take s.cache.length)[p]? = inner[p]? := by
            rw [List.getElem?_take_of_lt hlt]
          rw [← this, ← h1]; exact hrow
        simp only [cacheMachine, hrow, Option.isSome_some, if_true]
        exact ⟨hs, hin.symm, ⟨rfl, by omega⟩, fun _ _ h => h⟩
      · have hpe : p = s.cache.length := by omega
        have hnone : s.cache[p]? = none := List.getElem?_eq_none (by omega)
        simp only [cacheMachine, hnone]
        by_cases hc : s.complete = true
        · have hlen := hs.2.1 hc
          simp only [hc, if_true, Option.isSome_none, Bool.false_eq_true, if_false]
          refine ⟨hs, ?_, by simp [cacheIterAt]; omega, fun _ _ h => h⟩
          rw [List.getElem?_eq_none (by omega)]
        · have hc' : s.complete = false := by simpa using hc
          simp only [hc', Bool.false_eq_true, if_false]
          obtain ⟨a, b, c, d⟩ := cacheStepInner_ok inner n s s.cache.length hs (Or.inl (Nat.le_refl _))
          rw [hpe]
          exact ⟨a, b, c, fun it2 k2 h => cacheIterAt_mono inner n s _ d it2 k2 h⟩

end Petl
