/-
  Helper lemmas for C09 / C10: key groups of a sorted table are exactly the key classes of the
  input, in input order.
-/
import Petl.Group
import PetlProofs.Join

namespace Petl

/-- in well-formed groups, the rows whose key equals a group's label are exactly that group -/
theorem filter_flattenG_eq_group (key : Row → Val) :
    ∀ (gs : List (Val × List Row)), GroupsWF key gs → ∀ g ∈ gs,
      (flattenG gs).filter (fun r => Val.eq (key r) g.1) = g.2 := by
  intro gs
  induction gs with
  | nil => intro _ g hg; simp at hg
  | cons h t ih =>
    intro hwf g hg
    rw [flattenG_cons, List.filter_append]
    rcases List.mem_cons.1 hg with rfl | hg'
    · have h1 : g.2.filter (fun r => Val.eq (key r) g.1) = g.2 :=
        filter_all _ _ (fun r hr => hwf.head r hr)
      have h2 : (flattenG t).filter (fun r => Val.eq (key r) g.1) = [] :=
        filter_none _ _ (fun r hr => eq_false_of_gt (hwf.later r hr))
      rw [h1, h2]; simp
    · have hlt : Val.lt h.1 g.1 = true := (List.pairwise_cons.1 hwf.asc).1 g hg'
      have h1 : h.2.filter (fun r => Val.eq (key r) g.1) = [] := by
        apply filter_none
        intro r hr
        have e := hwf.head r hr
        have : Val.lt (key r) g.1 = true := by rw [Val.lt_congr_left (key r) h.1 g.1 e]; exact hlt
        exact eq_false_of_lt this
      rw [h1, ih hwf.tail g hg']; simp

/-- the key class of a row, as used by the stability lemma of the sort -/
theorem eqv_rowLe_eq (kidx : List Nat) (a r : Row) :
    eqv (rowLe kidx false) a r = Val.eq (getKey kidx r) (getKey kidx a) := by
  simp only [eqv, rowLe, Bool.false_eq_true, if_false]
  cases h : Val.eq (getKey kidx r) (getKey kidx a)
  · rcases Val.tri (getKey kidx r) (getKey kidx a) with h1 | h1 | h1
    · simp [h1]
    · simp [h1] at h
    · simp [h1]
  · have := (Val.incomparable_iff_eq _ _).2 h
    simp [this.1, this.2]

theorem sortRows_filter_key (kidx : List Nat) (bs : Option Nat) (hbs : ∀ b, bs = some b → 1 ≤ b)
    (rows : List Row) (a : Row) :
    (sortRows (rowLe kidx false) bs rows).filter (fun r => Val.eq (getKey kidx r) (getKey kidx a))
      = rows.filter (fun r => Val.eq (getKey kidx r) (getKey kidx a)) := by
  have hms : sortRows (rowLe kidx false) bs rows = rows.mergeSort (rowLe kidx false) := by
    cases bs with
    | none => rfl
    | some b => exact sortRows_eq_mergeSort _ (rowLe_totalPre kidx false) b (hbs b rfl) rows
  have hf : (fun r => Val.eq (getKey kidx r) (getKey kidx a)) = eqv (rowLe kidx false) a := by
    funext r; rw [eqv_rowLe_eq]
  rw [hms, hf]
  exact mergeSort_filter _ (rowLe_totalPre kidx false) rows a

theorem sortedGroups_spec (kidx : List Nat) (bs : Option Nat) (hbs : ∀ b, bs = some b → 1 ≤ b) (rows : List Row) :
    flattenG (sortedGroups kidx bs rows) = sortRows (rowLe kidx false) bs rows ∧
    GroupsWF (getKey kidx) (sortedGroups kidx bs rows) ∧ (∀ g ∈ sortedGroups kidx bs rows, g.2 ≠ []) := by
  have hs : SortedL (rowLe kidx false) (sortRows (rowLe kidx false) bs rows) := by
    cases bs with
    | none => exact (mergeSort_isStableSort _ (rowLe_totalPre kidx false) rows).1
    | some b =>
      rw [sortRows_eq_mergeSort _ (rowLe_totalPre kidx false) b (hbs b rfl)]
      exact (mergeSort_isStableSort _ (rowLe_totalPre kidx false) rows).1
  apply groups_spec
  simpa [SortedL, rowLe] using hs

theorem sortRows_perm' (kidx : List Nat) (rev : Bool) (bs : Option Nat) (hbs : ∀ b, bs = some b → 1 ≤ b) (rows : List Row) :
    (sortRows (rowLe kidx rev) bs rows).Perm rows := by
  cases bs with
  | none => exact List.mergeSort_perm rows _
  | some b =>
    rw [sortRows_eq_mergeSort _ (rowLe_totalPre kidx rev) b (hbs b rfl)]
    exact List.mergeSort_perm rows _

/-- every key group is exactly the rows of the input with that key, in input order -/
theorem group_eq_input_filter (kidx : List Nat) (bs : Option Nat) (hbs : ∀ b, bs = some b → 1 ≤ b)
    (rows : List Row) (g : Val × List Row) (hg : g ∈ sortedGroups kidx bs rows) :
    g.2 = rows.filter (fun r => Val.eq (getKey kidx r) g.1) := by
  obtain ⟨hflat, hwf, hne⟩ := sortedGroups_spec kidx bs hbs rows
  have h1 := filter_flattenG_eq_group (getKey kidx) _ hwf g hg
  rw [hflat] at h1
  -- pick a row of the group to name the key class
  have hgne := hne g hg
  cases hg2 : g.2 with
  | nil => exact absurd hg2 hgne
  | cons a rest =>
    have ha : Val.eq (getKey kidx a) g.1 = true := hwf.keyed g hg a (by rw [hg2]; simp)
    have hf : (fun r => Val.eq (getKey kidx r) g.1) = (fun r => Val.eq (getKey kidx r) (getKey kidx a)) := by
      funext r
      have h := Val.eq_symm (getKey kidx a) g.1
      cases hr : Val.eq (getKey kidx r) g.1
      · cases hr2 : Val.eq (getKey kidx r) (getKey kidx a)
        · rfl
        · have := Val.eq_trans _ _ _ hr2 ha; simp [this] at hr
      · exact (Val.eq_trans _ _ _ hr (by rw [Val.eq_symm]; exact ha)).symm
    rw [← hg2, ← h1, hf, sortRows_filter_key kidx bs hbs rows a]

theorem sum_map_length_flattenG (gs : List (Val × List Row)) :
    (gs.map (fun g => g.2.length)).sum = (flattenG gs).length := by
  induction gs with
  | nil => rfl
  | cons g gs ih => simp [flattenG_cons, ih]

theorem sum_map_sum_flattenG (val : Row → Int) (gs : List (Val × List Row)) :
    (gs.map (fun g => (g.2.map val).sum)).sum = ((flattenG gs).map val).sum := by
  induction gs with
  | nil => rfl
  | cons g gs ih => simp [flattenG_cons, ih, List.sum_append]

theorem sum_map_perm (val : Row → Int) {l l' : List Row} (h : l.Perm l') : (l.map val).sum = (l'.map val).sum := by
  induction h with
  | nil => rfl
  | cons x _ ih => simp [ih]
  | swap x y l => simp; omega
  | trans _ _ ih1 ih2 => exact ih1.trans ih2

theorem head?_filter_eq_find? (p : Row → Bool) (l : List Row) : (l.filter p).head? = l.find? p := by
  induction l with
  | nil => rfl
  | cons a l ih =>
    simp only [List.filter_cons, List.find?_cons]
    cases p a <;> simp [ih]

end Petl
