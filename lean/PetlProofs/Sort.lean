/-
  Helper lemmas for C05: the first-minimal k-way merge of sorted runs and the chunked external
  sort are *the* stable sort, for any number of runs of any lengths.
-/
import Petl.Sort
import PetlProofs.Order

namespace Petl
variable {α : Type}

structure TotalPre (le : α → α → Bool) : Prop where
  total : ∀ a b, le a b = true ∨ le b a = true
  trans : ∀ a b c, le a b = true → le b c = true → le a c = true

theorem TotalPre.refl {le : α → α → Bool} (hp : TotalPre le) (a : α) : le a a = true := by
  rcases hp.total a a with h | h <;> exact h

theorem TotalPre.total' {le : α → α → Bool} (hp : TotalPre le) : ∀ a b, (le a b || le b a) = true := by
  intro a b; rcases hp.total a b with h | h <;> simp [h]

/-- key equivalence -/
def eqv (le : α → α → Bool) (a b : α) : Bool := le a b && le b a

def SortedL (le : α → α → Bool) (l : List α) : Prop := l.Pairwise (fun a b => le a b = true)

/-- `out` is the stable sort of `inp`: ordered, and every key class appears in input order -/
def IsStableSortOf (le : α → α → Bool) (out inp : List α) : Prop :=
  SortedL le out ∧ ∀ a, out.filter (eqv le a) = inp.filter (eqv le a)

def RunsSorted (le : α → α → Bool) (runs : List (Run α)) : Prop :=
  ∀ r ∈ runs, SortedL le r.toList

/-- What pickMin returns: m is below every head; heads of earlier runs are strictly above m. -/
theorem pickMin_spec (le : α → α → Bool) (hp : TotalPre le) :
    ∀ (runs : List (Run α)) i m, pickMin le runs = some (i, m) →
      (∃ r, runs[i]? = some r ∧ r.1 = m) ∧
      (∀ r ∈ runs, le m r.1 = true) ∧
      (∀ j r, j < i → runs[j]? = some r → le r.1 m = false) := by
  intro runs
  induction runs with
  | nil => intro i m h; simp [pickMin] at h
  | cons r rest ih =>
    intro i m h
    obtain ⟨hd, tl⟩ := r
    simp only [pickMin] at h
    cases hq : pickMin le rest with
    | none =>
      simp [hq] at h
      obtain ⟨rfl, rfl⟩ := h
      have hrest : rest = [] := by
        cases rest with
        | nil => rfl
        | cons x xs =>
          obtain ⟨a, b⟩ := x
          simp only [pickMin] at hq
          cases h2 : pickMin le xs <;> simp [h2] at hq
          split at hq <;> simp at hq
      subst hrest
      refine ⟨⟨_, rfl, rfl⟩, ?_, ?_⟩
      · intro r hr; simp at hr; subst hr
        exact hp.refl _
      · intro j r hj; omega
    | some jm =>
      obtain ⟨j, m'⟩ := jm
      obtain ⟨⟨r', hr', hm'⟩, hall, hbefore⟩ := ih j m' hq
      simp [hq] at h
      by_cases hle : le hd m' = true
      · simp [hle] at h
        obtain ⟨rfl, rfl⟩ := h
        refine ⟨⟨_, rfl, rfl⟩, ?_, ?_⟩
        · intro r hr
          simp at hr
          rcases hr with rfl | hr
          · exact hp.refl _
          · exact hp.trans _ _ _ hle (hall r hr)
        · intro j r hj; omega
      · simp [hle] at h
        obtain ⟨rfl, rfl⟩ := h
        have hle' : le hd m' = false := by simpa using hle
        refine ⟨⟨r', by simpa using hr', hm'⟩, ?_, ?_⟩
        · intro r hr
          simp at hr
          rcases hr with rfl | hr
          · rcases hp.total m' hd with h | h
            · exact h
            · simp [h] at hle'
          · exact hall r hr
        · intro k r hk hr
          cases k with
          | zero => simp at hr; subst hr; exact hle'
          | succ k => exact hbefore k r (by omega) (by simpa using hr)

theorem pickMin_none (le : α → α → Bool) (runs : List (Run α)) (h : pickMin le runs = none) : runs = [] := by
  cases runs with
  | nil => rfl
  | cons x xs =>
    obtain ⟨p, q⟩ := x
    simp only [pickMin] at h
    cases h2 : pickMin le xs <;> simp [h2] at h
    split at h <;> simp at h

theorem flat_cons (r : Run α) (rest : List (Run α)) : flat (r :: rest) = r.1 :: r.2 ++ flat rest := by
  simp [flat, Run.toList]

theorem adv_decomp (le : α → α → Bool) (hp : TotalPre le) :
    ∀ (runs : List (Run α)) i m,
      (∃ r, runs[i]? = some r ∧ r.1 = m) →
      (∀ j r, j < i → runs[j]? = some r → le r.1 m = false) →
      RunsSorted le runs →
      ∃ before after, flat runs = before ++ m :: after ∧ flat (advance runs i) = before ++ after ∧
        (∀ x ∈ before, le x m = false) ∧ RunsSorted le (advance runs i) := by
  intro runs
  induction runs with
  | nil => intro i m ⟨r, hr, _⟩; simp at hr
  | cons r rest ih =>
    intro i m ⟨r0, hr0, hm⟩ hb hs
    obtain ⟨hd, tl⟩ := r
    cases i with
    | zero =>
      simp at hr0; subst hr0; simp at hm; subst hm
      refine ⟨[], tl ++ flat rest, by simp [flat_cons], ?_, by simp, ?_⟩
      · cases tl <;> simp [advance, flat_cons]
      · cases tl with
        | nil => intro r hr; exact hs r (by simp [advance] at hr; simp [hr])
        | cons t ts =>
          intro r hr
          simp [advance] at hr
          rcases hr with rfl | hr
          · have := hs (hd, t :: ts) (by simp)
            simp [SortedL, Run.toList] at this ⊢
            exact this.2
          · exact hs r (by simp [hr])
    | succ i =>
      have hs' : RunsSorted le rest := fun r hr => hs r (by simp [hr])
      obtain ⟨before, after, h1, h2, h3, h4⟩ :=
        ih i m ⟨r0, by simpa using hr0, hm⟩
          (fun j r hj hr => hb (j+1) r (by omega) (by simpa using hr)) hs'
      have hhd : le hd m = false := hb 0 (hd, tl) (by omega) (by simp)
      have hsr := hs (hd, tl) (by simp)
      refine ⟨hd :: tl ++ before, after, ?_, ?_, ?_, ?_⟩
      · simp [flat_cons, h1]
      · simp [advance, flat_cons, h2]
      · intro x hx
        simp at hx
        rcases hx with rfl | hx | hx
        · exact hhd
        · have hle : le hd x = true := by
            simp [SortedL, Run.toList] at hsr
            exact hsr.1 x hx
          cases h : le x m
          · rfl
          · have := hp.trans _ _ _ hle h; simp [this] at hhd
        · exact h3 x hx
      · intro r hr
        simp [advance] at hr
        rcases hr with rfl | hr
        · exact hsr
        · exact h4 r hr

/-- the k-way merge keeps every key class in the order of the concatenated runs (stability) -/
theorem kmerge_filter (le : α → α → Bool) (hp : TotalPre le) (a : α) :
    ∀ (n : Nat) (runs : List (Run α)), total runs = n → RunsSorted le runs →
      (kmerge le runs).filter (eqv le a) = (flat runs).filter (eqv le a) := by
  intro n
  induction n using Nat.strongRecOn with
  | _ n ih =>
    intro runs hn hs
    unfold kmerge
    split
    next hnone =>
      have := pickMin_none le runs hnone
      subst this; simp [flat]
    next i m hsome =>
      obtain ⟨hi, hall, hb⟩ := pickMin_spec le hp runs i m hsome
      obtain ⟨before, after, h1, h2, h3, h4⟩ := adv_decomp le hp runs i m hi hb hs
      have hlt := total_advance_lt le runs i m hsome
      have ih' := ih (total (advance runs i)) (by omega) (advance runs i) rfl h4
      rw [h1, List.filter_cons, ih', h2]
      by_cases hav : eqv le a m = true
      · have hbf : before.filter (eqv le a) = [] := by
          apply List.filter_eq_nil_iff.2
          intro x hx hxa
          have := h3 x hx
          simp [eqv] at hav hxa
          have := hp.trans _ _ _ hxa.2 hav.1
          simp_all
        simp [hav, List.filter_append, hbf]
      · simp [hav, List.filter_append]

theorem mem_of_mem_kmerge (le : α → α → Bool) (hp : TotalPre le) (runs : List (Run α))
    (hs : RunsSorted le runs) (x : α) (hx : x ∈ kmerge le runs) : x ∈ flat runs := by
  have h := kmerge_filter le hp x (total runs) runs rfl hs
  have hx' : x ∈ (kmerge le runs).filter (eqv le x) := by
    simp [List.mem_filter, hx, eqv, hp.refl]
  rw [h] at hx'
  exact (List.mem_filter.1 hx').1

theorem le_of_mem_flat (le : α → α → Bool) (hp : TotalPre le) (runs : List (Run α)) (m : α)
    (hall : ∀ r ∈ runs, le m r.1 = true) (hs : RunsSorted le runs) (x : α) (hx : x ∈ flat runs) :
    le m x = true := by
  simp only [flat, List.mem_flatten, List.mem_map] at hx
  obtain ⟨l, ⟨r, hr, rfl⟩, hxl⟩ := hx
  have h1 := hall r hr
  have h2 := hs r hr
  simp only [Run.toList, List.mem_cons] at hxl
  rcases hxl with rfl | hxl
  · exact h1
  · simp only [SortedL, Run.toList, List.pairwise_cons] at h2
    exact hp.trans _ _ _ h1 (h2.1 x hxl)

/-- the k-way merge of sorted runs is sorted -/
theorem kmerge_sorted (le : α → α → Bool) (hp : TotalPre le) :
    ∀ (n : Nat) (runs : List (Run α)), total runs = n → RunsSorted le runs → SortedL le (kmerge le runs) := by
  intro n
  induction n using Nat.strongRecOn with
  | _ n ih =>
    intro runs hn hs
    unfold kmerge
    split
    next hnone => simp [SortedL]
    next i m hsome =>
      obtain ⟨hi, hall, hb⟩ := pickMin_spec le hp runs i m hsome
      obtain ⟨before, after, h1, h2, h3, h4⟩ := adv_decomp le hp runs i m hi hb hs
      have hlt := total_advance_lt le runs i m hsome
      have ih' := ih (total (advance runs i)) (by omega) (advance runs i) rfl h4
      simp only [SortedL, List.pairwise_cons]
      refine ⟨?_, ih'⟩
      intro x hx
      have hx1 := mem_of_mem_kmerge le hp _ h4 x hx
      have hx2 : x ∈ flat runs := by
        rw [h2] at hx1; rw [h1]
        simp only [List.mem_append, List.mem_cons] at hx1 ⊢
        rcases hx1 with h | h
        · exact Or.inl h
        · exact Or.inr (Or.inr h)
      exact le_of_mem_flat le hp runs m hall hs x hx2

theorem kmerge_isStableSort (le : α → α → Bool) (hp : TotalPre le) (runs : List (Run α))
    (hs : RunsSorted le runs) : IsStableSortOf le (kmerge le runs) (flat runs) :=
  ⟨kmerge_sorted le hp _ runs rfl hs, fun a => kmerge_filter le hp a _ runs rfl hs⟩

/-! ### the stable sort of a list is unique -/

theorem eqv_symm (le : α → α → Bool) (a b : α) : eqv le a b = eqv le b a := by
  simp [eqv, Bool.and_comm]

theorem stableSort_unique (le : α → α → Bool) (hp : TotalPre le) :
    ∀ (o1 o2 : List α), SortedL le o1 → SortedL le o2 →
      (∀ a, o1.filter (eqv le a) = o2.filter (eqv le a)) → o1 = o2 := by
  intro o1
  induction o1 with
  | nil =>
    intro o2 _ _ h
    cases o2 with
    | nil => rfl
    | cons y t =>
      have := h y
      simp [eqv, hp.refl] at this
  | cons x t1 ih =>
    intro o2 h1 h2 h
    cases o2 with
    | nil =>
      have := h x
      simp [eqv, hp.refl] at this
    | cons y t2 =>
      simp only [SortedL, List.pairwise_cons] at h1 h2
      -- x ≤ y and y ≤ x
      have hy1 : y ∈ x :: t1 := by
        have hy : y ∈ (y :: t2).filter (eqv le y) := by simp [eqv, hp.refl]
        rw [← h y] at hy
        exact (List.mem_filter.1 hy).1
      have hx2 : x ∈ y :: t2 := by
        have hx : x ∈ (x :: t1).filter (eqv le x) := by simp [eqv, hp.refl]
        rw [h x] at hx
        exact (List.mem_filter.1 hx).1
      have hxy : le x y = true := by
        rcases List.mem_cons.1 hy1 with rfl | hm
        · exact hp.refl _
        · exact h1.1 y hm
      have hyx : le y x = true := by
        rcases List.mem_cons.1 hx2 with rfl | hm
        · exact hp.refl _
        · exact h2.1 x hm
      have hxe : eqv le x y = true := by simp [eqv, hxy, hyx]
      have hhead := h x
      simp only [List.filter_cons, eqv, hp.refl, Bool.and_self, if_true] at hhead
      have hxe' : (le x y && le y x) = true := by simp [hxy, hyx]
      simp only [hxe', if_true] at hhead
      obtain ⟨rfl, -⟩ := List.cons.inj hhead
      congr 1
      apply ih t2 h1.2 h2.2
      intro a
      have := h a
      simp only [List.filter_cons] at this
      split at this
      · exact (List.cons.inj this).2
      · exact this

/-! ### `List.mergeSort` is the stable sort -/

theorem mergeSort_filter (le : α → α → Bool) (hp : TotalPre le) (l : List α) (a : α) :
    (l.mergeSort le).filter (eqv le a) = l.filter (eqv le a) := by
  have hsub : List.Sublist (l.filter (eqv le a)) (l.mergeSort le) := by
    apply List.sublist_mergeSort (le := le) (fun a b c => hp.trans a b c) hp.total'
    · -- the class of `a` is pairwise ≤
      have : ∀ x ∈ l.filter (eqv le a), ∀ y ∈ l.filter (eqv le a), le x y = true := by
        intro x hx y hy
        have hx' := (List.mem_filter.1 hx).2
        have hy' := (List.mem_filter.1 hy).2
        simp only [eqv, Bool.and_eq_true] at hx' hy'
        exact hp.trans _ _ _ hx'.2 hy'.1
      exact List.Pairwise.imp_of_mem (R := fun _ _ => True) (fun hx hy _ => this _ hx _ hy)
        (List.pairwise_of_forall (fun _ _ => trivial))
    · exact List.filter_sublist
  have hsub2 : List.Sublist (l.filter (eqv le a)) ((l.mergeSort le).filter (eqv le a)) := by
    have := hsub.filter (eqv le a)
    simpa [List.filter_filter] using this
  have hlen : ((l.mergeSort le).filter (eqv le a)).length = (l.filter (eqv le a)).length :=
    ((List.mergeSort_perm l le).filter (eqv le a)).length_eq
  exact (hsub2.eq_of_length hlen.symm).symm

theorem mergeSort_isStableSort (le : α → α → Bool) (hp : TotalPre le) (l : List α) :
    IsStableSortOf le (l.mergeSort le) l :=
  ⟨List.pairwise_mergeSort (fun a b c => hp.trans a b c) hp.total' l, mergeSort_filter le hp l⟩

/-! ### chunking -/

theorem chunksAux_flatten (b : Nat) (hb : 1 ≤ b) :
    ∀ (fuel : Nat) (l : List α), l.length ≤ fuel → (chunksAux b fuel l).flatten = l := by
  intro fuel
  induction fuel with
  | zero => intro l hl; cases l <;> simp_all [chunksAux]
  | succ fuel ih =>
    intro l hl
    simp only [chunksAux]
    split
    · rename_i h; simp at h; simp [h]
    · rename_i h
      have hne : l ≠ [] := by simpa using h
      have hdrop : (l.drop b).length ≤ fuel := by
        have : 0 < l.length := List.length_pos_iff.2 hne
        simp [List.length_drop]; omega
      simp [ih (l.drop b) hdrop]

theorem chunks_flatten (b : Nat) (hb : 1 ≤ b) (l : List α) : (chunks b l).flatten = l :=
  chunksAux_flatten b hb l.length l (Nat.le_refl _)

theorem flat_toRuns : ∀ (ls : List (List α)), flat (toRuns ls) = ls.flatten
  | [] => by simp [toRuns, flat]
  | [] :: rest => by simp [toRuns, flat_toRuns rest]
  | (x :: xs) :: rest => by simp [toRuns, flat_cons, flat_toRuns rest]

theorem runsSorted_toRuns (le : α → α → Bool) :
    ∀ (ls : List (List α)), (∀ l ∈ ls, SortedL le l) → RunsSorted le (toRuns ls)
  | [], _ => by simp [toRuns, RunsSorted]
  | [] :: rest, h => by
    simp only [toRuns]
    exact runsSorted_toRuns le rest (fun l hl => h l (by simp [hl]))
  | (x :: xs) :: rest, h => by
    simp only [toRuns]
    intro r hr
    simp at hr
    rcases hr with rfl | hr
    · exact h (x :: xs) (by simp)
    · exact runsSorted_toRuns le rest (fun l hl => h l (by simp [hl])) r hr

theorem filter_flatten_map_mergeSort (le : α → α → Bool) (hp : TotalPre le) (a : α) :
    ∀ (cs : List (List α)),
      ((cs.map (fun c => c.mergeSort le)).flatten).filter (eqv le a) = (cs.flatten).filter (eqv le a)
  | [] => by simp
  | c :: cs => by
    simp only [List.map_cons, List.flatten_cons, List.filter_append]
    rw [mergeSort_filter le hp c a, filter_flatten_map_mergeSort le hp a cs]

/-- merging the separately sorted pieces of a list gives the stable sort of the whole list -/
theorem kmerge_sorted_pieces (le : α → α → Bool) (hp : TotalPre le) (cs : List (List α)) :
    kmerge le (toRuns (cs.map (fun c => c.mergeSort le))) = (cs.flatten).mergeSort le := by
  have hs : RunsSorted le (toRuns (cs.map (fun c => c.mergeSort le))) := by
    apply runsSorted_toRuns
    intro l hl
    obtain ⟨c, _, rfl⟩ := List.mem_map.1 hl
    exact (mergeSort_isStableSort le hp c).1
  have h1 := kmerge_isStableSort le hp _ hs
  have h2 := mergeSort_isStableSort le hp cs.flatten
  apply stableSort_unique le hp _ _ h1.1 h2.1
  intro a
  rw [h1.2 a, h2.2 a, flat_toRuns, filter_flatten_map_mergeSort le hp a cs]

/-- the external chunk sort equals the in-memory sort, for every buffer size ≥ 1 -/
theorem sortRows_eq_mergeSort (le : α → α → Bool) (hp : TotalPre le) (b : Nat) (hb : 1 ≤ b)
    (rows : List α) : sortRows le (some b) rows = rows.mergeSort le := by
  simp only [sortRows]
  split
  · rename_i h
    have : rows.take b = rows := by
      apply List.take_of_length_le
      simp [List.length_take] at h; omega
    rw [this]
  · rw [kmerge_sorted_pieces le hp, chunks_flatten b hb]

/-! ### the row relations used by sort are total preorders (from C04) -/

theorem rowLe_totalPre (idx : List Nat) (reverse : Bool) : TotalPre (rowLe idx reverse) := by
  constructor
  · intro a b
    simp only [rowLe]
    cases reverse <;> simp
    · rcases Val.tri (getKey idx a) (getKey idx b) with h | h | h
      · exact Or.inl (Val.lt_asymm _ _ h)
      · exact Or.inl ((Val.incomparable_iff_eq _ _).2 h).2
      · exact Or.inr (Val.lt_asymm _ _ h)
    · rcases Val.tri (getKey idx a) (getKey idx b) with h | h | h
      · exact Or.inr (Val.lt_asymm _ _ h)
      · exact Or.inl ((Val.incomparable_iff_eq _ _).2 h).1
      · exact Or.inl (Val.lt_asymm _ _ h)
  · intro a b c
    simp only [rowLe]
    have nt : ∀ x y z : Val, Val.lt y x = false → Val.lt z y = false → Val.lt z x = false := by
      intro x y z h1 h2
      cases h : Val.lt z x
      · rfl
      · rcases Val.tri y x with h3 | h3 | h3
        · simp [h3] at h1
        · have := Val.lt_congr_right z y x h3; rw [h2, h] at this; simp at this
        · have := Val.lt_trans z x y h h3; simp [this] at h2
    cases reverse <;> simp
    · exact fun h1 h2 => nt _ _ _ h1 h2
    · exact fun h1 h2 => nt _ _ _ h2 h1

end Petl
