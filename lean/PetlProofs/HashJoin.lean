/-
  Helper lemmas for C07: dictionaries built by insertion are `filter`/`find?` by key; the hash
  joins are the nested-loop joins in the order of the streamed side.
-/
import Petl.HashJoin
import PetlProofs.Join

namespace Petl
variable {β : Type}

def classOf (key : Row → Val) (rows : List Row) (k : Val) : List Row :=
  rows.filter (fun r => Val.eq (key r) k)

def optClass (key : Row → Val) (value : Row → β) (rows : List Row) (k : Val) : Option (List β) :=
  if (classOf key rows k).isEmpty then none else some ((classOf key rows k).map value)

theorem lookupInsert_get (d : Dict (List β)) (k0 : Val) (v : β) (k : Val) :
    Dict.get (lookupInsert d k0 v) k =
      if Val.eq k0 k then some ((Dict.get d k).getD [] ++ [v]) else Dict.get d k := by
  induction d with
  | nil => simp [lookupInsert, Dict.get, List.find?]
  | cons e rest ih =>
    obtain ⟨k', vs⟩ := e
    simp only [lookupInsert]
    by_cases h1 : Val.eq k' k0 = true
    · simp only [h1, if_true]
      by_cases h2 : Val.eq k' k = true
      · have h3 : Val.eq k0 k = true := Val.eq_trans _ _ _ (by rw [Val.eq_symm]; exact h1) h2
        simp [Dict.get, List.find?, h2, h3]
      · have h2' : Val.eq k' k = false := by simpa using h2
        have h3 : Val.eq k0 k = false := by
          cases h : Val.eq k0 k
          · rfl
          · have := Val.eq_trans _ _ _ h1 h; simp [this] at h2'
        simp [Dict.get, List.find?, h2', h3]
    · have h1' : Val.eq k' k0 = false := by simpa using h1
      simp only [h1', Bool.false_eq_true, if_false]
      by_cases h2 : Val.eq k' k = true
      · have h3 : Val.eq k0 k = false := by
          cases h : Val.eq k0 k
          · rfl
          · have := Val.eq_trans _ _ _ h2 (by rw [Val.eq_symm]; exact h); simp [this] at h1'
        simp [Dict.get, List.find?, h2, h3]
      · have h2' : Val.eq k' k = false := by simpa using h2
        have : Dict.get ((k', vs) :: lookupInsert rest k0 v) k = Dict.get (lookupInsert rest k0 v) k := by
          simp [Dict.get, List.find?, h2']
        rw [this, ih]
        simp [Dict.get, List.find?, h2']

theorem buildLookup_get_aux (key : Row → Val) (value : Row → β) :
    ∀ (rows pre : List Row) (d0 : Dict (List β)),
      (∀ k, Dict.get d0 k = optClass key value pre k) →
      ∀ k, Dict.get (rows.foldl (fun d r => lookupInsert d (key r) (value r)) d0) k
        = optClass key value (pre ++ rows) k := by
  intro rows
  induction rows with
  | nil => intro pre d0 h k; simpa using h k
  | cons r rows ih =>
    intro pre d0 h k
    simp only [List.foldl_cons]
    have := ih (pre ++ [r]) (lookupInsert d0 (key r) (value r)) ?_ k
    · simpa using this
    · intro k'
      rw [lookupInsert_get, h k']
      simp only [optClass, classOf, List.filter_append, List.filter_cons, List.filter_nil]
      by_cases hk : Val.eq (key r) k' = true
      · simp only [hk, if_true]
        by_cases he : (pre.filter (fun r => Val.eq (key r) k')).isEmpty = true
        · simp [he, List.isEmpty_iff.1 he]
        · simp [he]
      · have hk' : Val.eq (key r) k' = false := by simpa using hk
        simp [hk']

/-- `lookup`: each key is mapped to the values of exactly its rows, in table order -/
theorem buildLookup_get (key : Row → Val) (value : Row → β) (rows : List Row) (k : Val) :
    Dict.get (buildLookup key value rows) k = optClass key value rows k := by
  have := buildLookup_get_aux key value rows [] [] (by intro k; simp [Dict.get, optClass, classOf]) k
  simpa [buildLookup] using this

/-! ### lookupone -/

theorem Dict.contains_eq_isSome (d : Dict β) (k : Val) : Dict.contains d k = (Dict.get d k).isSome := by
  induction d with
  | nil => rfl
  | cons e rest ih =>
    simp only [Dict.contains, Dict.get, List.any_cons, List.find?_cons] at ih ⊢
    cases h : Val.eq e.1 k <;> simp [ih]

theorem Dict.get_append_single (d : Dict β) (k0 : Val) (v : β) (k : Val) :
    Dict.get (d ++ [(k0, v)]) k =
      match Dict.get d k with
      | some x => some x
      | none => if Val.eq k0 k then some v else none := by
  induction d with
  | nil => simp [Dict.get, List.find?]
  | cons e rest ih =>
    simp only [Dict.get, List.cons_append, List.find?_cons] at ih ⊢
    cases h : Val.eq e.1 k
    · simpa using ih
    · simp

def firstOf (key : Row → Val) (value : Row → β) (rows : List Row) (k : Val) : Option β :=
  (rows.find? (fun r => Val.eq (key r) k)).map value

theorem buildLookupOne_get (key : Row → Val) (value : Row → β) :
    ∀ (rows pre : List Row) (d0 d : Dict β),
      (∀ k, Dict.get d0 k = firstOf key value pre k) →
      buildLookupOne key value false rows d0 = .ok d →
      ∀ k, Dict.get d k = firstOf key value (pre ++ rows) k := by
  intro rows
  induction rows with
  | nil =>
    intro pre d0 d h hb k
    simp [buildLookupOne] at hb; subst hb; simpa using h k
  | cons r rows ih =>
    intro pre d0 d h hb k
    simp only [buildLookupOne] at hb
    have happ : pre ++ r :: rows = (pre ++ [r]) ++ rows := by simp
    rw [happ]
    by_cases hc : Dict.contains d0 (key r) = true
    · simp only [hc, if_true, Bool.false_eq_true, if_false] at hb
      apply ih (pre ++ [r]) d0 d ?_ hb k
      intro k'
      rw [h k']
      simp only [firstOf, List.find?_append]
      cases hf : pre.find? (fun r => Val.eq (key r) k') with
      | some x => simp
      | none =>
        -- key r is present in pre, k' is not: so key r ≠ k'
        have hk : Val.eq (key r) k' = false := by
          cases hk : Val.eq (key r) k'
          · rfl
          · rw [Dict.contains_eq_isSome, h (key r)] at hc
            simp only [firstOf, Option.isSome_map, List.find?_isSome] at hc
            obtain ⟨x, hx, hxe⟩ := hc
            have := List.find?_eq_none.1 hf x hx
            have h2 := Val.eq_trans _ _ _ hxe hk
            simp [h2] at this
        simp [List.find?, hk]
    · have hc' : Dict.contains d0 (key r) = false := by simpa using hc
      simp only [hc', Bool.false_eq_true, if_false] at hb
      apply ih (pre ++ [r]) (d0 ++ [(key r, value r)]) d ?_ hb k
      intro k'
      rw [Dict.get_append_single, h k']
      simp only [firstOf, List.find?_append]
      cases hf : pre.find? (fun r => Val.eq (key r) k') with
      | some x => simp
      | none => simp [List.find?]; cases Val.eq (key r) k' <;> simp

/-- non-strict `lookupone` never fails -/
theorem buildLookupOne_ok (key : Row → Val) (value : Row → β) :
    ∀ (rows : List Row) (d0 : Dict β), ∃ d, buildLookupOne key value false rows d0 = .ok d := by
  intro rows
  induction rows with
  | nil => intro d0; exact ⟨d0, rfl⟩
  | cons r rows ih =>
    intro d0
    simp only [buildLookupOne]
    split
    · simpa using ih d0
    · exact ih _

/-- strict `lookupone` fails exactly when some key repeats -/
theorem buildLookupOne_strict (key : Row → Val) (value : Row → β) :
    ∀ (rows pre : List Row) (d0 : Dict β),
      (∀ k, Dict.contains d0 k = pre.any (fun r => Val.eq (key r) k)) →
      ((∃ d, buildLookupOne key value true rows d0 = .ok d) ↔
        (rows.Pairwise (fun a b => Val.eq (key a) (key b) = false) ∧
         ∀ r ∈ rows, ∀ p ∈ pre, Val.eq (key p) (key r) = false)) := by
  intro rows
  induction rows with
  | nil => intro pre d0 _; simp [buildLookupOne]
  | cons r rows ih =>
    intro pre d0 h
    simp only [buildLookupOne]
    by_cases hc : Dict.contains d0 (key r) = true
    · simp only [hc, if_true]
      constructor
      · intro ⟨d, hd⟩; cases hd
      · intro ⟨_, h2⟩
        rw [h (key r)] at hc
        obtain ⟨p, hp, hpe⟩ := List.any_eq_true.1 hc
        have := h2 r (by simp) p hp
        simp [this] at hpe
    · have hc' : Dict.contains d0 (key r) = false := by simpa using hc
      simp only [hc', Bool.false_eq_true, if_false]
      rw [ih (pre ++ [r]) (d0 ++ [(key r, value r)]) ?_]
      · rw [h (key r)] at hc'
        have hpre : ∀ p ∈ pre, Val.eq (key p) (key r) = false := by
          intro p hp
          cases hpe : Val.eq (key p) (key r)
          · rfl
          · have : pre.any (fun r_1 => Val.eq (key r_1) (key r)) = true := List.any_eq_true.2 ⟨p, hp, hpe⟩
            simp [this] at hc'
        constructor
        · intro ⟨h1, h2⟩
          refine ⟨List.pairwise_cons.2 ⟨?_, h1⟩, ?_⟩
          · intro b hb; exact h2 b hb r (by simp)
          · intro x hx p hp
            rcases List.mem_cons.1 hx with rfl | hx
            · exact hpre p hp
            · exact h2 x hx p (by simp [hp])
        · intro ⟨h1, h2⟩
          obtain ⟨h1a, h1b⟩ := List.pairwise_cons.1 h1
          refine ⟨h1b, ?_⟩
          intro x hx p hp
          rcases List.mem_append.1 hp with hp | hp
          · exact h2 x (List.mem_cons_of_mem _ hx) p hp
          · simp at hp; subst hp; exact h1a x hx
      · intro k
        simp only [Dict.contains, List.any_append, List.any_cons, List.any_nil, Bool.or_false] at h ⊢
        rw [h k]

/-! ### hash joins -/

theorem optClass_id_match (kr : Row → Val) (R : List Row) (k : Val) (f : List Row → List Row)
    (dflt : List Row) (h : f [] = dflt) :
    (match optClass kr id R k with | some rs => f rs | none => dflt) = f (classOf kr R k) := by
  simp only [optClass]
  by_cases he : (classOf kr R k).isEmpty = true
  · simp [he, List.isEmpty_iff.1 he, h]
  · simp [he]

theorem classOf_symm (kr : Row → Val) (R : List Row) (k : Val) :
    classOf kr R k = R.filter (fun r => Val.eq k (kr r)) := by
  simp only [classOf]; congr 1; funext r; rw [Val.eq_symm]

theorem hashInner_eq (ops : JoinOps) (kl kr) (L R : List Row) :
    hashInner ops kl kr L R = nlInner ops kl kr L R := by
  simp only [hashInner, nlInner]
  apply flatMap_congr'
  intro l _
  rw [buildLookup_get]
  have := optClass_id_match kr R (kl l) (fun rs => rs.map (fun r => ops.pair l r)) [] rfl
  exact this.trans (by rw [classOf_symm])

theorem hashLeft_eq (ops : JoinOps) (kl kr) (L R : List Row) :
    hashLeft ops kl kr L R = nlLeft ops kl kr L R := by
  simp only [hashLeft, nlLeft]
  apply flatMap_congr'
  intro l _
  rw [buildLookup_get]
  simp only [optClass, classOf_symm]
  by_cases he : (R.filter (fun r => Val.eq (kl l) (kr r))).isEmpty = true
  · simp [he]
  · simp [he]

theorem hashAnti_eq (kl kr) (L R : List Row) : hashAnti kl kr L R = unmatchedL kl kr L R := by
  simp only [hashAnti, unmatchedL, List.any_map]
  congr 1; funext l; congr 2; funext r; simp [Val.eq_symm]

theorem hashLookup_eq (ops : JoinOps) (kl kr) (L R : List Row) :
    hashLookup ops kl kr L R = nlLookup ops kl kr L R := by
  obtain ⟨d, hd⟩ := buildLookupOne_ok kr id R []
  have hg := buildLookupOne_get kr id R [] [] d (by intro k; simp [Dict.get, firstOf]) hd
  simp only [hashLookup, hd, nlLookup]
  apply List.map_congr_left
  intro l _
  rw [hg (kl l)]
  simp only [firstOf, List.nil_append, Option.map_id']
  have : (fun r => Val.eq (kr r) (kl l)) = (fun r => Val.eq (kl l) (kr r)) := by
    funext r; rw [Val.eq_symm]
  rw [this]
  cases R.find? (fun r => Val.eq (kl l) (kr r)) <;> rfl

/-! ### per-left-row joins do not depend on the order of the inputs (as multisets) -/

theorem perLeft_perm (f : Row → List Row → List Row) (kl kr)
    (hf : ∀ l (ms ms' : List Row), ms.Perm ms' → (f l ms).Perm (f l ms'))
    {L L' R R' : List Row} (hL : L.Perm L') (hR : R.Perm R') :
    (perLeft f kl kr L R).Perm (perLeft f kl kr L' R') := by
  refine (List.Perm.flatMap_right _ hL).trans ?_
  apply flatMap_perm_pointwise
  intro l _
  exact hf l _ _ (hR.filter _)

theorem fLeft_perm (ops : JoinOps) (l : Row) (ms ms' : List Row) (h : ms.Perm ms') :
    (fLeft ops l ms).Perm (fLeft ops l ms') := by
  simp only [fLeft]
  have : ms.isEmpty = ms'.isEmpty := by
    cases ms <;> cases ms' <;> simp_all
  rw [this]
  cases ms'.isEmpty
  · exact h.map _
  · exact List.Perm.refl _


/-! ### right join: per right row, then as a multiset the inner join plus the padded unmatched right rows -/

/-- right outer join in nested-loop form: each right row with its partners (in left-table order), or padded -/
def nlRight (ops : JoinOps) (kl kr : Row → Val) (L R : List Row) : List Row :=
  R.flatMap (fun r =>
    let ms := L.filter (fun l => Val.eq (kl l) (kr r))
    if ms.isEmpty then [ops.padR r] else ms.map (fun l => ops.pair l r))

theorem hashRight_eq (ops : JoinOps) (kl kr) (L R : List Row) :
    hashRight ops kl kr L R = nlRight ops kl kr L R := by
  simp only [hashRight, nlRight]
  apply flatMap_congr'
  intro r _
  rw [buildLookup_get]
  simp only [optClass, classOf]
  by_cases he : (L.filter (fun l => Val.eq (kl l) (kr r))).isEmpty = true
  · simp [he]
  · simp [he]

theorem flatMap_split {α β : Type} (l : List α) (f g : α → List β) :
    (l.flatMap (fun a => f a ++ g a)).Perm (l.flatMap f ++ l.flatMap g) := by
  induction l with
  | nil => simp
  | cons a l ih =>
    simp only [List.flatMap_cons]
    refine ((List.Perm.refl (f a ++ g a)).append ih).trans ?_
    simp only [List.append_assoc]
    refine List.Perm.append_left _ ?_
    rw [← List.append_assoc, ← List.append_assoc]
    exact List.Perm.append_right _ List.perm_append_comm

theorem flatMap_ite_singleton {α β : Type} (l : List α) (p : α → Bool) (g : α → β) :
    l.flatMap (fun a => if p a then [g a] else []) = (l.filter p).map g := by
  induction l with
  | nil => rfl
  | cons a l ih =>
    simp only [List.flatMap_cons, List.filter_cons, ih]
    cases p a <;> simp

/-- the double loop can be run in either order -/
theorem flatMap_swap {α β γ : Type} (p : α → β → Bool) (g : α → β → γ) : ∀ (L : List α) (R : List β),
    (R.flatMap (fun r => (L.filter (fun l => p l r)).map (fun l => g l r))).Perm
      (L.flatMap (fun l => (R.filter (fun r => p l r)).map (fun r => g l r))) := by
  intro L
  induction L with
  | nil => intro R; simp
  | cons l L ih =>
    intro R
    have h1 : (fun r => (List.filter (fun l' => p l' r) (l :: L)).map (fun l' => g l' r)) =
        (fun r => (if p l r then [g l r] else []) ++ (L.filter (fun l' => p l' r)).map (fun l' => g l' r)) := by
      funext r
      simp only [List.filter_cons]
      cases p l r <;> simp
    rw [h1]
    refine (flatMap_split R _ _).trans ?_
    rw [flatMap_ite_singleton R (fun r => p l r) (fun r => g l r), List.flatMap_cons]
    exact List.Perm.append_left _ (ih R)

theorem nlRight_perm (ops : JoinOps) (kl kr) (L R : List Row) :
    (nlRight ops kl kr L R).Perm
      (nlInner ops kl kr L R ++ (unmatchedL kr kl R L).map ops.padR) := by
  have h1 : nlRight ops kl kr L R =
      R.flatMap (fun r => (L.filter (fun l => Val.eq (kl l) (kr r))).map (fun l => ops.pair l r)
        ++ (if !(L.any (fun l => Val.eq (kr r) (kl l))) then [ops.padR r] else [])) := by
    simp only [nlRight]
    apply flatMap_congr'
    intro r _
    have hany : L.any (fun l => Val.eq (kr r) (kl l)) = !(L.filter (fun l => Val.eq (kl l) (kr r))).isEmpty := by
      have : (fun l => Val.eq (kr r) (kl l)) = (fun l => Val.eq (kl l) (kr r)) := by funext l; rw [Val.eq_symm]
      rw [this]
      induction L with
      | nil => rfl
      | cons a L ih => simp only [List.any_cons, List.filter_cons]; cases Val.eq (kl a) (kr r) <;> simp [ih]
    rw [hany]
    by_cases he : (L.filter (fun l => Val.eq (kl l) (kr r))).isEmpty = true
    · simp [he, List.isEmpty_iff.1 he]
    · simp [he]
  rw [h1]
  refine (flatMap_split R _ _).trans ?_
  apply List.Perm.append
  · exact flatMap_swap (fun l r => Val.eq (kl l) (kr r)) (fun l r => ops.pair l r) L R
  · rw [flatMap_ite_singleton R (fun r => !(L.any (fun l => Val.eq (kr r) (kl l)))) ops.padR]
    rfl

end Petl
