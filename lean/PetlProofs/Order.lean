/-
  Helper lemmas: `Val.lt`/`Val.eq` form a strict weak order whose equivalence is `Val.eq`,
  for every value of the (unboundedly nested) domain.
-/
import Petl.Val

namespace Petl

/-! ### numbers -/
namespace Num

theorem eq_refl (a : Num) : Num.eq a a = true := by cases a <;> simp [Num.eq]

theorem eq_symm (a b : Num) : Num.eq a b = Num.eq b a := by
  cases a <;> cases b <;> simp [Num.eq, eq_comm]

theorem eq_iff (a b : Num) : Num.eq a b = true ↔ a = b := by
  cases a <;> cases b <;> simp [Num.eq]

theorem lt_irrefl (a : Num) : Num.lt a a = false := by
  cases a <;> simp [Num.lt, Rat.lt_irrefl]

theorem lt_trans (a b c : Num) : Num.lt a b = true → Num.lt b c = true → Num.lt a c = true := by
  cases a <;> cases b <;> cases c <;> simp [Num.lt]
  intro h1 h2
  rw [Rat.lt_iff_le_and_not_ge] at *
  refine ⟨Rat.le_trans h1.1 h2.1, fun h => h2.2 (Rat.le_trans h h1.1)⟩

theorem lt_asymm (a b : Num) : Num.lt a b = true → Num.lt b a = false := by
  cases a <;> cases b <;> simp [Num.lt]
  intro h
  exact Rat.not_lt.2 (Rat.le_of_lt h)

theorem tri (a b : Num) : Num.lt a b = true ∨ a = b ∨ Num.lt b a = true := by
  cases a <;> cases b <;> simp [Num.lt]
  rename_i p q
  rcases Rat.le_total (a := p) (b := q) with h | h
  · rcases (Rat.le_iff_lt_or_eq).1 h with h | h
    · exact Or.inl h
    · exact Or.inr (Or.inl h)
  · rcases (Rat.le_iff_lt_or_eq).1 h with h | h
    · exact Or.inr (Or.inr h)
    · exact Or.inr (Or.inl h.symm)

end Num

/-! ### code-point lists -/

theorem natListLt_irrefl : ∀ a, natListLt a a = false
  | [] => by simp [natListLt]
  | x :: xs => by simp [natListLt, natListLt_irrefl xs]

theorem natListLt_trans : ∀ a b c, natListLt a b = true → natListLt b c = true → natListLt a c = true
  | [], [], _ => by simp [natListLt]
  | [], _ :: _, [] => by simp [natListLt]
  | [], _ :: _, _ :: _ => by simp [natListLt]
  | _ :: _, [], _ => by simp [natListLt]
  | _ :: _, _ :: _, [] => by simp [natListLt]
  | x :: xs, y :: ys, z :: zs => by
    simp only [natListLt]
    have ih := natListLt_trans xs ys zs
    by_cases h1 : x = y <;> by_cases h2 : y = z <;> by_cases h3 : x = z <;>
      simp_all <;> omega

theorem natListLt_asymm : ∀ a b, natListLt a b = true → natListLt b a = false
  | [], [] => by simp [natListLt]
  | [], _ :: _ => by simp [natListLt]
  | _ :: _, [] => by simp [natListLt]
  | x :: xs, y :: ys => by
    simp only [natListLt]
    have ih := natListLt_asymm xs ys
    by_cases h1 : x = y
    · subst h1; simpa using ih
    · have h2 : ¬ y = x := fun h => h1 h.symm
      simp [h1, h2]; omega

theorem natListLt_tri : ∀ a b, natListLt a b = true ∨ a = b ∨ natListLt b a = true
  | [], [] => by simp
  | [], _ :: _ => by simp [natListLt]
  | _ :: _, [] => by simp [natListLt]
  | x :: xs, y :: ys => by
    simp only [natListLt]
    have ih := natListLt_tri xs ys
    by_cases h1 : x = y
    · subst h1; simpa using ih
    · have h2 : ¬ y = x := fun h => h1 h.symm
      simp [h1, h2]; omega

/-! ### values -/

mutual
theorem Val.eq_refl : ∀ a : Val, Val.eq a a = true
  | .none => by simp [Val.eq]
  | .num _ n => by simp [Val.eq, Num.eq_refl]
  | .bytes _ => by simp [Val.eq]
  | .str _ => by simp [Val.eq]
  | .date _ => by simp [Val.eq]
  | .datetime _ => by simp [Val.eq]
  | .time _ => by simp [Val.eq]
  | .seq _ xs => by simp only [Val.eq]; exact Val.eqList_refl xs
theorem Val.eqList_refl : ∀ l : List Val, Val.eqList l l = true
  | [] => by simp [Val.eqList]
  | a :: as => by simp [Val.eqList, Val.eq_refl a, Val.eqList_refl as]
end

mutual
theorem Val.eq_symm : ∀ a b : Val, Val.eq a b = Val.eq b a
  | .none, b => by cases b <;> simp [Val.eq]
  | .num _ n, b => by cases b <;> simp [Val.eq, Num.eq_symm]
  | .bytes _, b => by cases b <;> simp [Val.eq, eq_comm]
  | .str _, b => by cases b <;> simp [Val.eq, eq_comm]
  | .date _, b => by cases b <;> simp [Val.eq, eq_comm]
  | .datetime _, b => by cases b <;> simp [Val.eq, eq_comm]
  | .time _, b => by cases b <;> simp [Val.eq, eq_comm]
  | .seq _ xs, b => by
    cases b <;> simp [Val.eq]
    exact Val.eqList_symm xs _
theorem Val.eqList_symm : ∀ l m : List Val, Val.eqList l m = Val.eqList m l
  | [], [] => rfl
  | [], _ :: _ => by simp [Val.eqList]
  | _ :: _, [] => by simp [Val.eqList]
  | a :: as, b :: bs => by simp [Val.eqList, Val.eq_symm a b, Val.eqList_symm as bs]
end

mutual
theorem Val.eq_trans : ∀ a b c : Val, Val.eq a b = true → Val.eq b c = true → Val.eq a c = true
  | .none, b, c => by cases b <;> cases c <;> simp [Val.eq]
  | .num _ n, b, c => by
    cases b <;> cases c <;> simp [Val.eq, Num.eq_iff]
    intro h1 h2; exact h1.trans h2
  | .bytes _, b, c => by
    cases b <;> cases c <;> simp [Val.eq]
    intro h1 h2; exact h1.trans h2
  | .str _, b, c => by
    cases b <;> cases c <;> simp [Val.eq]
    intro h1 h2; exact h1.trans h2
  | .date _, b, c => by
    cases b <;> cases c <;> simp [Val.eq]
    intro h1 h2; exact h1.trans h2
  | .datetime _, b, c => by
    cases b <;> cases c <;> simp [Val.eq]
    intro h1 h2; exact h1.trans h2
  | .time _, b, c => by
    cases b <;> cases c <;> simp [Val.eq]
    intro h1 h2; exact h1.trans h2
  | .seq _ xs, b, c => by
    cases b <;> cases c <;> simp [Val.eq]
    exact Val.eqList_trans xs _ _
theorem Val.eqList_trans : ∀ l m n : List Val,
    Val.eqList l m = true → Val.eqList m n = true → Val.eqList l n = true
  | [], m, n => by cases m <;> cases n <;> simp [Val.eqList]
  | a :: as, m, n => by
    cases m <;> cases n <;> simp [Val.eqList]
    intro h1 h2 h3 h4
    exact ⟨Val.eq_trans a _ _ h1 h3, Val.eqList_trans as _ _ h2 h4⟩
end

mutual
theorem Val.lt_irrefl : ∀ a : Val, Val.lt a a = false
  | .none => by simp [Val.lt]
  | .num _ n => by simp [Val.lt, Num.lt_irrefl]
  | .bytes _ => by simp [Val.lt, natListLt_irrefl]
  | .str _ => by simp [Val.lt, natListLt_irrefl]
  | .date _ => by simp [Val.lt]
  | .datetime _ => by simp [Val.lt]
  | .time _ => by simp [Val.lt]
  | .seq _ xs => by simp only [Val.lt]; exact Val.ltList_irrefl xs
theorem Val.ltList_irrefl : ∀ l : List Val, Val.ltList l l = false
  | [] => by simp [Val.ltList]
  | a :: as => by simp [Val.ltList, Val.eq_refl a, Val.ltList_irrefl as]
end

/-- an equal pair has the same kind -/
theorem Val.rank_of_eq (a b : Val) : Val.eq a b = true → a.rank = b.rank := by
  cases a <;> cases b <;> simp [Val.eq, Val.rank]

mutual
/-- `<` respects `==` on the left -/
theorem Val.lt_congr_left : ∀ a b c : Val, Val.eq a b = true → Val.lt a c = Val.lt b c
  | .none, b, c => by cases b <;> cases c <;> simp [Val.eq, Val.lt]
  | .num _ n, b, c => by
    cases b <;> cases c <;> simp [Val.eq, Val.lt, Num.eq_iff]
    intro h; rw [h]
  | .bytes _, b, c => by
    cases b <;> cases c <;> simp [Val.eq, Val.lt, Val.rank]
    intro h; rw [h]
  | .str _, b, c => by
    cases b <;> cases c <;> simp [Val.eq, Val.lt, Val.rank]
    intro h; rw [h]
  | .date _, b, c => by
    cases b <;> cases c <;> simp [Val.eq, Val.lt, Val.rank]
    intro h; rw [h]
  | .datetime _, b, c => by
    cases b <;> cases c <;> simp [Val.eq, Val.lt, Val.rank]
    intro h; rw [h]
  | .time _, b, c => by
    cases b <;> cases c <;> simp [Val.eq, Val.lt, Val.rank]
    intro h; rw [h]
  | .seq _ xs, b, c => by
    cases b <;> cases c <;> simp [Val.eq, Val.lt, Val.rank]
    exact Val.ltList_congr_left xs _ _
theorem Val.ltList_congr_left : ∀ l m n : List Val,
    Val.eqList l m = true → Val.ltList l n = Val.ltList m n
  | [], m, n => by cases m <;> cases n <;> simp [Val.eqList, Val.ltList]
  | a :: as, m, n => by
    cases m with
    | nil => simp [Val.eqList]
    | cons b bs =>
      cases n with
      | nil => simp [Val.ltList]
      | cons c cs =>
        simp only [Val.eqList, Val.ltList, Bool.and_eq_true]
        intro ⟨h1, h2⟩
        have e1 : Val.eq a c = Val.eq b c := by
          cases hbc : Val.eq b c
          · cases hac : Val.eq a c
            · rfl
            · have := Val.eq_trans b a c (by rw [Val.eq_symm]; exact h1) hac
              simp [this] at hbc
          · exact Val.eq_trans a b c h1 hbc
        rw [e1, Val.lt_congr_left a b c h1, Val.ltList_congr_left as bs cs h2]
end

mutual
/-- `<` respects `==` on the right -/
theorem Val.lt_congr_right : ∀ a b c : Val, Val.eq b c = true → Val.lt a b = Val.lt a c
  | .none, b, c => by cases b <;> cases c <;> simp [Val.eq, Val.lt]
  | .num _ n, b, c => by
    cases b <;> cases c <;> simp [Val.eq, Val.lt, Num.eq_iff]
    intro h; rw [h]
  | .bytes _, b, c => by
    cases b <;> cases c <;> simp [Val.eq, Val.lt, Val.rank]
    intro h; rw [h]
  | .str _, b, c => by
    cases b <;> cases c <;> simp [Val.eq, Val.lt, Val.rank]
    intro h; rw [h]
  | .date _, b, c => by
    cases b <;> cases c <;> simp [Val.eq, Val.lt, Val.rank]
    intro h; rw [h]
  | .datetime _, b, c => by
    cases b <;> cases c <;> simp [Val.eq, Val.lt, Val.rank]
    intro h; rw [h]
  | .time _, b, c => by
    cases b <;> cases c <;> simp [Val.eq, Val.lt, Val.rank]
    intro h; rw [h]
  | .seq _ xs, b, c => by
    cases b <;> cases c <;> simp [Val.eq, Val.lt, Val.rank]
    exact Val.ltList_congr_right xs _ _
theorem Val.ltList_congr_right : ∀ l m n : List Val,
    Val.eqList m n = true → Val.ltList l m = Val.ltList l n
  | [], m, n => by cases m <;> cases n <;> simp [Val.eqList, Val.ltList]
  | a :: as, m, n => by
    cases m with
    | nil => cases n <;> simp [Val.eqList, Val.ltList]
    | cons b bs =>
      cases n with
      | nil => simp [Val.eqList]
      | cons c cs =>
        simp only [Val.eqList, Val.ltList, Bool.and_eq_true]
        intro ⟨h1, h2⟩
        have e1 : Val.eq a b = Val.eq a c := by
          cases hac : Val.eq a c
          · cases hab : Val.eq a b
            · rfl
            · have := Val.eq_trans a b c hab h1
              simp [this] at hac
          · exact Val.eq_trans a c b hac (by rw [Val.eq_symm]; exact h1)
        rw [e1, Val.lt_congr_right a b c h1, Val.ltList_congr_right as bs cs h2]
end

mutual
/-- totality: any two values are ordered or equal -/
theorem Val.tri : ∀ a b : Val, Val.lt a b = true ∨ Val.eq a b = true ∨ Val.lt b a = true
  | .none, b => by cases b <;> simp [Val.eq, Val.lt]
  | .num _ n, b => by
    cases b <;> simp [Val.eq, Val.lt, Num.eq_iff]
    exact Num.tri _ _
  | .bytes x, b => by
    cases b <;> simp [Val.eq, Val.lt, Val.rank]
    exact natListLt_tri _ _
  | .str x, b => by
    cases b <;> simp [Val.eq, Val.lt, Val.rank]
    exact natListLt_tri _ _
  | .date x, b => by
    cases b <;> simp [Val.eq, Val.lt, Val.rank]
    omega
  | .datetime x, b => by
    cases b <;> simp [Val.eq, Val.lt, Val.rank]
    omega
  | .time x, b => by
    cases b <;> simp [Val.eq, Val.lt, Val.rank]
    omega
  | .seq _ xs, b => by
    cases b <;> simp [Val.eq, Val.lt, Val.rank]
    exact Val.triList xs _
theorem Val.triList : ∀ l m : List Val,
    Val.ltList l m = true ∨ Val.eqList l m = true ∨ Val.ltList m l = true
  | [], m => by cases m <;> simp [Val.eqList, Val.ltList]
  | a :: as, m => by
    cases m with
    | nil => simp [Val.ltList]
    | cons b bs =>
      simp only [Val.eqList, Val.ltList]
      have ih := Val.triList as bs
      have ht := Val.tri a b
      rw [Val.eq_symm b a]
      cases hab : Val.eq a b
      · simp [hab] at ht ⊢; exact ht
      · simpa using ih
end

mutual
theorem Val.lt_asymm : ∀ a b : Val, Val.lt a b = true → Val.lt b a = false
  | .none, b => by cases b <;> simp [Val.lt]
  | .num _ n, b => by
    cases b <;> simp [Val.lt]
    exact Num.lt_asymm _ _
  | .bytes x, b => by
    cases b <;> simp [Val.lt, Val.rank]
    exact natListLt_asymm _ _
  | .str x, b => by
    cases b <;> simp [Val.lt, Val.rank]
    exact natListLt_asymm _ _
  | .date x, b => by
    cases b <;> simp [Val.lt, Val.rank]
    omega
  | .datetime x, b => by
    cases b <;> simp [Val.lt, Val.rank]
    omega
  | .time x, b => by
    cases b <;> simp [Val.lt, Val.rank]
    omega
  | .seq _ xs, b => by
    cases b <;> simp [Val.lt, Val.rank]
    exact Val.ltList_asymm xs _
theorem Val.ltList_asymm : ∀ l m : List Val, Val.ltList l m = true → Val.ltList m l = false
  | [], m => by cases m <;> simp [Val.ltList]
  | a :: as, m => by
    cases m with
    | nil => simp [Val.ltList]
    | cons b bs =>
      simp only [Val.ltList]
      rw [Val.eq_symm b a]
      cases hab : Val.eq a b
      · simpa using Val.lt_asymm a b
      · simpa using Val.ltList_asymm as bs
end

/-- `a < b` excludes `a == b` -/
theorem Val.lt_ne (a b : Val) (h : Val.lt a b = true) : Val.eq a b = false := by
  cases hab : Val.eq a b
  · rfl
  · have := Val.lt_congr_left a b b hab
    rw [Val.lt_irrefl] at this
    simp [this] at h

mutual
theorem Val.lt_trans : ∀ a b c : Val, Val.lt a b = true → Val.lt b c = true → Val.lt a c = true
  | .none, b, c => by cases b <;> cases c <;> simp [Val.lt]
  | .num _ n, b, c => by
    cases b <;> cases c <;> simp [Val.lt, Val.rank]
    exact Num.lt_trans _ _ _
  | .bytes x, b, c => by
    cases b <;> cases c <;> simp [Val.lt, Val.rank]
    exact natListLt_trans _ _ _
  | .str x, b, c => by
    cases b <;> cases c <;> simp [Val.lt, Val.rank]
    exact natListLt_trans _ _ _
  | .date x, b, c => by
    cases b <;> cases c <;> simp [Val.lt, Val.rank]
    omega
  | .datetime x, b, c => by
    cases b <;> cases c <;> simp [Val.lt, Val.rank]
    omega
  | .time x, b, c => by
    cases b <;> cases c <;> simp [Val.lt, Val.rank]
    omega
  | .seq _ xs, b, c => by
    cases b <;> cases c <;> simp [Val.lt, Val.rank]
    exact Val.ltList_trans xs _ _
theorem Val.ltList_trans : ∀ l m n : List Val,
    Val.ltList l m = true → Val.ltList m n = true → Val.ltList l n = true
  | [], m, n => by cases m <;> cases n <;> simp [Val.ltList]
  | a :: as, m, n => by
    cases m with
    | nil => simp [Val.ltList]
    | cons b bs =>
      cases n with
      | nil => simp [Val.ltList]
      | cons c cs =>
        simp only [Val.ltList]
        cases hab : Val.eq a b <;> cases hbc : Val.eq b c
        · -- a<b, b<c
          simp only [Bool.false_eq_true, if_false]
          intro h1 h2
          have hlt := Val.lt_trans a b c h1 h2
          rw [Val.lt_ne a c hlt]; simpa using hlt
        · -- a<b, b==c
          simp only [Bool.false_eq_true, if_false, if_true]
          intro h1 _
          have hlt : Val.lt a c = true := by rw [← Val.lt_congr_right a b c hbc]; exact h1
          rw [Val.lt_ne a c hlt]; simpa using hlt
        · -- a==b, b<c
          simp only [Bool.false_eq_true, if_false, if_true]
          intro _ h2
          have hlt : Val.lt a c = true := by rw [Val.lt_congr_left a b c hab]; exact h2
          rw [Val.lt_ne a c hlt]; simpa using hlt
        · -- a==b, b==c
          simp only [if_true]
          rw [Val.eq_trans a b c hab hbc]
          simpa using Val.ltList_trans as bs cs
end

/-- incomparable under `<` exactly when `==` -/
theorem Val.incomparable_iff_eq (a b : Val) :
    (Val.lt a b = false ∧ Val.lt b a = false) ↔ Val.eq a b = true := by
  constructor
  · intro ⟨h1, h2⟩
    rcases Val.tri a b with h | h | h
    · simp [h] at h1
    · exact h
    · simp [h] at h2
  · intro h
    have h1 := Val.lt_congr_left a b b h
    have h2 := Val.lt_congr_right b a b h
    rw [Val.lt_irrefl] at h2
    exact ⟨h1.trans (Val.lt_irrefl b), h2⟩

end Petl
