/-
  C16 — pass-through views are transparent; a consumed tee writes what to* writes.
-/
import Petl.Codec
import PetlProofs.Props.C01

namespace Petl.C16
open Petl

/-- a tee view yields exactly the rows of the table it wraps, in order (also when abandoned after
    k rows: it has delivered the first k) -/
theorem tee_rows_id (render : Row → Bytes) (wh : Bool) (pro epi : Bytes) (t : Table) (k : Nat) :
    (teeRun render wh pro epi t).1 = t ∧ (teeAfter render wh pro t k).1 = t.take k := by
  refine ⟨?_, rfl⟩
  cases t with
  | nil => rfl
  | cons h r => simp [teeRun, teeAfter]

/-- once iterated to the end, the sink holds byte-for-byte what the corresponding to* function
    writes for the same table and arguments — for every row renderer (csv/tsv dialect, pickle
    protocol, text template, html), header flag, prologue and epilogue -/
theorem tee_bytes_eq_to (render : Row → Bytes) (wh : Bool) (pro epi : Bytes) (t : Table) (hne : t ≠ []) :
    (teeRun render wh pro epi t).2 = toBytes render wh pro epi t := by
  cases t with
  | nil => exact absurd rfl hne
  | cons h r => simp [teeRun, teeAfter, toBytes]

/-- while it is being consumed the sink never holds anything but a prefix of that output -/
theorem tee_partial_is_prefix (render : Row → Bytes) (wh : Bool) (pro : Bytes) (t : Table) (k : Nat) :
    ∃ rest, toBytes render wh pro [] t = (teeAfter render wh pro t k).2 ++ rest := by
  refine ⟨((if wh then t.drop k else (t.drop 1).drop (k - 1)).flatMap render), ?_⟩
  simp only [toBytes, teeAfter, List.append_nil, List.append_assoc]
  congr 1
  cases wh
  · simp only [Bool.false_eq_true, if_false]
    rw [← List.flatMap_append]
    congr 1
    cases k with
    | zero => simp
    | succ k =>
      cases t with
      | nil => simp
      | cons h r => simp
  · simp only [if_true]
    rw [← List.flatMap_append, List.take_append_drop]

/-- progress / log_progress / clock / wrap hand every row through unchanged: they are views without
    shared state over the same rows (C01's pure machine), so every pass yields the wrapped table -/
theorem passthrough_id (rows : List Row) : C01.Independent (pureMachine rows) rows :=
  C01.pureView_independent rows

/-- cache(n): every iterator, under every schedule and every limit n, receives a prefix of the
    wrapped table and is never stopped early — a completed pass yields exactly its rows -/
theorem cacheView_rows_id (inner : List Row) (n : Option Nat) :
    C01.Independent (cacheMachine true inner n) inner := C01.cacheView_independent inner n

/-! non-vacuity -/
example : (teeRun (fun r => [r.length]) false [7] [9] [[.none], [.none, .none], []]).2 = [7, 2, 0, 9] := by decide

end Petl.C16
