/-
  C03 — transformations never modify their inputs or rows already delivered.

  `safe_sound`: a function body accepted by the ownership analysis writes, in every execution
  (every choice of foreign objects, every branch, any number of loop iterations), only to objects
  it allocated itself and has not yet yielded, returned or stored away.  The per-function
  obligations are discharged over the table regenerated from petl's source on every run
  (`Petl.Gen.heapProgs`, translators/heap_ir.py).
-/
import PetlProofs.Heap
import PetlProofs.Gen.HeapSafe
import PetlProofs.Gen.HeapSelfTest

namespace Petl.C03
open Petl Petl.Heap

/-- one step of the induction: everything the theorem needs about a sub-execution -/
def Good (s t : HState) (b : Abs) : Prop :=
  WF t ∧ Models t b ∧ ∃ evs, t.log = s.log ++ evs ∧ okLog s.owned evs = true ∧ t.owned = ownedAfter s.owned evs

theorem good_trans {s t u : HState} {b c : Abs} (h1 : Good s t b) (h2 : Good t u c) : Good s u c := by
  obtain ⟨_, _, e1, hl1, ho1, hw1⟩ := h1
  obtain ⟨w2, m2, e2, hl2, ho2, hw2⟩ := h2
  refine ⟨w2, m2, e1 ++ e2, ?_, ?_, ?_⟩
  · rw [hl2, hl1, List.append_assoc]
  · rw [okLog_append, ho1, ← hw1, ho2]; rfl
  · rw [ownedAfter_append, ← hw1, hw2]

/-- rebinding `x` does not disturb what is known about other variables -/
theorem fact_upd_ne {s : HState} {x y : Nat} {o : Nat} {v : AVal} (h : y ≠ x) (hf : Fact s y v) :
    Fact { s with env := upd s.env x o } y v := by
  cases v <;> simp only [Fact, upd, h, if_false] at hf ⊢ <;> exact hf

/-- an allocation does not disturb what is known about existing variables -/
theorem fact_alloc {s : HState} {x y : Nat} {n : Nat} {v : AVal} (wf : WF s) (h : y ≠ x) (hf : Fact s y v) :
    Fact { env := upd s.env x s.next, tag := fun o => if o = s.next then n else s.tag o,
           owned := s.next :: s.owned, next := s.next + 1, log := s.log ++ [.alloc s.next] } y v := by
  cases v with
  | own k =>
    simp only [Fact, upd, h, if_false] at hf ⊢
    have hlt := wf _ hf.1
    refine ⟨List.mem_cons_of_mem _ hf.1, ?_⟩
    rw [if_neg (by omega)]; exact hf.2
  | ext =>
    simp only [Fact, upd, h, if_false] at hf ⊢
    refine ⟨?_, by omega⟩
    simp only [List.mem_cons, not_or]
    exact ⟨by omega, hf.1⟩
  | maybe k =>
    simp only [Fact, upd, h, if_false] at hf ⊢
    refine ⟨?_, by omega⟩
    intro hc
    simp only [List.mem_cons] at hc
    rcases hc with hc | hc
    · omega
    · rw [if_neg (by omega)]; exact hf.1 hc

/-- releasing an object keeps every fact that is not an ownership claim about that object -/
theorem fact_release {s : HState} {x y : Nat} {v : AVal} (hf : Fact s y v)
    (hv : ∀ k, v = .own k → s.env y ≠ s.env x) :
    Fact { s with owned := s.owned.filter (· ≠ s.env x), log := s.log ++ [.release (s.env x)] } y v := by
  cases v with
  | own k =>
    simp only [Fact] at hf ⊢
    refine ⟨List.mem_filter.mpr ⟨hf.1, ?_⟩, hf.2⟩
    simp only [ne_eq, decide_eq_true_eq]
    exact hv k rfl
  | ext =>
    simp only [Fact] at hf ⊢
    exact ⟨fun hc => hf.1 (List.mem_filter.mp hc).1, hf.2⟩
  | maybe k =>
    simp only [Fact] at hf ⊢
    exact ⟨fun hc => hf.1 (List.mem_filter.mp hc).1, hf.2⟩

theorem sound_step {p : Prog} {s t : HState} (h : Exec p s t) :
    ∀ a b, analyze p a = some b → WF s → Models s a → Good s t b := by
  induction h with
  | skip s =>
    intro a b ha wf m
    simp [analyze] at ha; subst ha
    exact ⟨wf, m, [], by simp, rfl, rfl⟩
  | bindExt s x o ho hn =>
    intro a b ha wf m
    simp [analyze] at ha; subst ha
    refine ⟨wf, ?_, [], by simp, rfl, rfl⟩
    intro y v hm
    simp only [Abs.set, List.mem_cons] at hm
    rcases hm with hm | hm
    · cases hm; simp [Fact, upd]; exact ⟨hn, ho⟩
    · have ⟨h1, h2⟩ := mem_drop hm
      exact fact_upd_ne h2 (m y v h1)
  | bindFresh s x n =>
    intro a b ha wf m
    simp [analyze] at ha; subst ha
    refine ⟨?_, ?_, [.alloc s.next], rfl, rfl, rfl⟩
    · intro o ho
      simp only [List.mem_cons] at ho
      rcases ho with ho | ho
      · simp [ho]
      · have := wf o ho; simp; omega
    · intro y v hm
      simp only [Abs.set, List.mem_cons] at hm
      rcases hm with hm | hm
      · cases hm; simp [Fact, upd]
      · have ⟨h1, h2⟩ := mem_drop hm
        exact fact_alloc wf h2 (m y v h1)
  | bindVar s x y =>
    intro a b ha wf m
    simp only [analyze] at ha
    cases hg : a.get y with
    | none =>
      simp [hg] at ha; subst ha
      refine ⟨wf, ?_, [], by simp, rfl, rfl⟩
      intro z v hm
      have ⟨h1, h2⟩ := mem_drop hm
      exact fact_upd_ne h2 (m z v h1)
    | some w =>
      simp [hg] at ha; subst ha
      refine ⟨wf, ?_, [], by simp, rfl, rfl⟩
      intro z v hm
      simp only [Abs.set, List.mem_cons] at hm
      rcases hm with hm | hm
      · cases hm
        have := m y w (get_mem hg)
        cases w <;> simp only [Fact, upd, if_true] at this ⊢ <;> exact this
      · have ⟨h1, h2⟩ := mem_drop hm
        exact fact_upd_ne h2 (m z v h1)
  | bindUnknown s x o ho =>
    intro a b ha wf m
    simp [analyze] at ha; subst ha
    refine ⟨wf, ?_, [], by simp, rfl, rfl⟩
    intro z v hm
    have ⟨h1, h2⟩ := mem_drop hm
    exact fact_upd_ne h2 (m z v h1)
  | mutate s x =>
    intro a b ha wf m
    simp only [analyze] at ha
    cases hg : a.get x with
    | none => simp [hg] at ha
    | some w =>
      cases w with
      | ext => simp [hg] at ha
      | maybe n => simp [hg] at ha
      | own n =>
        simp [hg] at ha; subst ha
        have := m x (.own n) (get_mem hg)
        simp only [Fact] at this
        refine ⟨wf, m, [.write (s.env x)], rfl, ?_, rfl⟩
        simp [okLog, this.1]
  | release s x =>
    intro a b ha wf m
    have hwf : WF { s with owned := s.owned.filter (· ≠ s.env x), log := s.log ++ [.release (s.env x)] } := by
      intro o ho
      exact wf o (List.mem_filter.mp ho).1
    -- weakening the ownership claims of one site is enough when the released object is known to come from it (or to be foreign)
    have dropSite_ok : ∀ n, (s.env x ∈ s.owned → s.tag (s.env x) = n) →
        Models { s with owned := s.owned.filter (· ≠ s.env x), log := s.log ++ [.release (s.env x)] } (a.dropSite n) := by
      intro n hx z v hm
      obtain ⟨f, hf, hfe⟩ := List.mem_map.mp hm
      have hfz := m f.1 f.2 hf
      by_cases hown : f.2 = .own n
      · simp only [hown, if_true] at hfe
        cases hfe
        rw [hown] at hfz
        simp only [Fact] at hfz ⊢
        exact ⟨fun _ => hfz.2, wf _ hfz.1⟩
      · simp only [hown, if_false] at hfe
        subst hfe
        refine fact_release hfz ?_
        intro k hk hc
        rw [hk] at hfz hown
        simp only [Fact] at hfz
        rw [hc] at hfz
        exact hown (by rw [← hfz.2, hx hfz.1])
    simp only [analyze] at ha
    cases hg : a.get x with
    | none =>
      simp [hg] at ha; subst ha
      refine ⟨hwf, ?_, [.release (s.env x)], rfl, rfl, rfl⟩
      intro z v hm
      obtain ⟨f, hf, hfe⟩ := List.mem_map.mp hm
      have hfz := m f.1 f.2 hf
      cases hv : f.2 with
      | own k =>
        simp only [hv] at hfe
        cases hfe
        rw [hv] at hfz
        simp only [Fact] at hfz ⊢
        exact ⟨fun _ => hfz.2, wf _ hfz.1⟩
      | ext =>
        simp only [hv] at hfe
        subst hfe
        refine fact_release hfz ?_
        intro k hk; simp only at hv; rw [hv] at hk; cases hk
      | maybe k' =>
        simp only [hv] at hfe
        subst hfe
        refine fact_release hfz ?_
        intro k hk; simp only at hv; rw [hv] at hk; cases hk
    | some w =>
      cases w with
      | ext =>
        simp [hg] at ha; subst ha
        have hx := m x .ext (get_mem hg)
        simp only [Fact] at hx
        refine ⟨hwf, ?_, [.release (s.env x)], rfl, rfl, rfl⟩
        intro z v hm
        refine fact_release (m z v hm) ?_
        intro k hk hc
        subst hk
        have hz := m z (.own k) hm
        simp only [Fact] at hz
        rw [hc] at hz
        exact hx.1 hz.1
      | own n =>
        simp [hg] at ha; subst ha
        have hx := m x (.own n) (get_mem hg)
        simp only [Fact] at hx
        exact ⟨hwf, dropSite_ok n (fun _ => hx.2), [.release (s.env x)], rfl, rfl, rfl⟩
      | maybe n =>
        simp [hg] at ha; subst ha
        have hx := m x (.maybe n) (get_mem hg)
        simp only [Fact] at hx
        exact ⟨hwf, dropSite_ok n hx.1, [.release (s.env x)], rfl, rfl, rfl⟩
  | seq p q s t u _ _ ih1 ih2 =>
    intro a b ha wf m
    simp only [analyze] at ha
    cases hp : analyze p a with
    | none => simp [hp] at ha
    | some c =>
      simp [hp] at ha
      have g1 := ih1 a c hp wf m
      exact good_trans g1 (ih2 c b ha g1.1 g1.2.1)
  | branchL p q s t _ ih =>
    intro a b ha wf m
    simp only [analyze] at ha
    cases hp : analyze p a with
    | none => simp [hp] at ha
    | some c =>
      cases hq : analyze q a with
      | none => simp [hp, hq] at ha
      | some d =>
        simp [hp, hq] at ha; subst ha
        have ⟨w, mm, r⟩ := ih a c hp wf m
        exact ⟨w, models_meet_left w mm, r⟩
  | branchR p q s t _ ih =>
    intro a b ha wf m
    simp only [analyze] at ha
    cases hp : analyze p a with
    | none => simp [hp] at ha
    | some c =>
      cases hq : analyze q a with
      | none => simp [hp, hq] at ha
      | some d =>
        simp [hp, hq] at ha; subst ha
        have ⟨w, mm, r⟩ := ih a d hq wf m
        exact ⟨w, models_meet_right w mm, r⟩
  | loopDone p s =>
    intro a b ha wf m
    simp only [analyze] at ha
    have ⟨h1, _⟩ := loopInv_spec _ _ _ _ ha
    exact ⟨wf, h1 s wf m, [], by simp, rfl, rfl⟩
  | loopStep p s t u _ _ ih1 ih2 =>
    intro a b ha wf m
    simp only [analyze] at ha
    have ⟨h1, out, hf, hs⟩ := loopInv_spec _ _ _ _ ha
    have mb := h1 s wf m
    have g1 := ih1 b out hf wf mb
    have hb : analyze (.loop p) b = some b := by
      simp only [analyze, loopInv, hf, hs, if_true]
    have g2 := ih2 b b hb g1.1 (models_sub g1.1 hs g1.2.1)
    exact good_trans g1 g2

/-- **C03, soundness of the analysis.**  Started with nothing owned (every parameter, every object
    reachable from the inputs and everything delivered earlier is foreign), a safe body performs in
    every execution only writes to objects it allocated itself and has not yet released. -/
theorem safe_sound (p : Prog) (hs : safe p = true) (s t : HState) (h0 : s.owned = []) (hl : s.log = [])
    (h : Exec p s t) : okLog [] t.log = true := by
  unfold safe at hs
  cases ha : analyze p [] with
  | none => simp [ha] at hs
  | some b =>
    have wf : WF s := by intro o ho; simp [h0] at ho
    have m : Models s [] := by intro x v hm; simp at hm
    obtain ⟨_, _, evs, hlog, hok, _⟩ := sound_step h [] b ha wf m
    rw [hlog, hl, List.nil_append, ← h0]; exact hok

/-- the trace property really forbids what the property forbids: a write to a foreign object, and a
    write to an object after it has been delivered, are both rejected -/
theorem okLog_rejects_foreign_write (o : Nat) (es : List Ev) : okLog [] (.write o :: es) = false := by
  simp [okLog]

theorem okLog_rejects_write_after_release (o : Nat) (es : List Ev) :
    okLog [] (.alloc o :: .release o :: .write o :: es) = false := by
  simp [okLog]

/-- ... and the analysis rejects the corresponding programs: in-place edit of a source row, and reuse
    of a delivered row buffer across iterations -/
example : safe (.seq (.bindExt 0) (.mutate 0)) = false := by decide
example : safe (.seq (.bindFresh 0 1) (.loop (.seq (.mutate 0) (.release 0)))) = false := by decide
/-- copy-then-edit-then-yield inside a loop is accepted -/
example : safe (.seq (.bindExt 0) (.loop (.seq (.bindExt 1) (.seq (.bindFresh 2 1)
    (.seq (.mutate 2) (.release 2)))))) = true := by decide

/-! ### per-function obligations over the table regenerated from the source -/

/-- every function body of the modelled modules, as translated from the current source, is accepted by the
    analysis or is on the hand-reviewed list with exactly the body that was reviewed (`Petl.Heap.isReviewed`,
    PetlProofs/HeapReviewed.lean and HeapReviewedBodies.lean) -/
theorem all_bodies_safe :
    ∀ f ∈ Gen.heapProgs, Heap.isReviewed f = true ∨ safe f.2 = true := Gen.heapProgs_safe

/-- the translator and the analysis give the expected verdict on every reference snippet
    (translators/heap_selftest_cases.py: in-place edits of source rows, reused row buffers, edits after yield are
    rejected; copy-then-edit shapes are accepted) -/
theorem translator_selftest : ∀ t ∈ Gen.selfTests, safe t.2.1 = t.2.2 := Gen.selfTests_verdicts

end Petl.C03

