/-
  C05 — the heap entry comparison of heapq.merge over `_Keyed` items selects what the model's `pickMin` selects.
-/
import PetlProofs.Sort
namespace Petl.C05
open Petl

variable {α : Type}

/-! ### `heapq.merge` over `_Keyed` items: why the first run with a minimal head is the one taken

  `heapq.merge` keeps one entry `[item, order, next]` per iterable (`order` = position of the iterable) and always pops
  the entry that is `<` all others.  Python compares lists by the first position where the items *differ* (`==`), then
  `<` there.  `_Keyed.__eq__` and `_Keyed.__lt__` look at the key only. -/

/-- `_Keyed.__eq__` derived from the key order: neither key is below the other -/
def keyedEq (klt : α → α → Bool) (a b : α) : Bool := !klt a b && !klt b a

/-- the sort relation of the model: `a` may come before `b` -/
def leOf (klt : α → α → Bool) (a b : α) : Bool := !klt b a

/-- Python's `[a, i] < [b, j]` for heap entries, given the items' `==` and `<` -/
def entryLt (eq lt : α → α → Bool) (a : α × Nat) (b : α × Nat) : Bool :=
  if eq a.1 b.1 then decide (a.2 < b.2) else lt a.1 b.1

/-- the entry the model's `pickMin` takes is below every other heap entry: the heap pops the same one -/
theorem pickMin_is_heap_minimum (klt : α → α → Bool) (hp : TotalPre (leOf klt)) (runs : List (Run α)) (i : Nat) (m : α)
    (h : pickMin (leOf klt) runs = some (i, m)) :
    (∃ r, runs[i]? = some r ∧ r.1 = m) ∧
    ∀ j r, runs[j]? = some r → j ≠ i → entryLt (keyedEq klt) klt (m, i) (r.1, j) = true := by
  obtain ⟨hi, hall, hbefore⟩ := pickMin_spec (leOf klt) hp runs i m h
  refine ⟨hi, ?_⟩
  intro j r hj hne
  have hmem : r ∈ runs := List.mem_of_getElem? hj
  have h1 : klt r.1 m = false := by simpa [leOf] using hall r hmem
  cases h2 : klt m r.1
  · -- equal keys: the order index decides, and no earlier run has an equal head
    have hij : i < j := by
      rcases Nat.lt_or_gt_of_ne hne with hlt | hgt
      · have := hbefore j r hlt hj
        simp [leOf, h2] at this
      · exact hgt
    simp [entryLt, keyedEq, h1, h2, hij]
  · simp [entryLt, keyedEq, h1, h2]

/-- at most one entry can be below all others, so "the entry below every other" determines the pop -/
theorem heap_minimum_unique (klt : α → α → Bool) (hasym : ∀ a b, klt a b = true → klt b a = false)
    (a b : α × Nat) (hab : entryLt (keyedEq klt) klt a b = true) : entryLt (keyedEq klt) klt b a = false := by
  unfold entryLt keyedEq at *
  by_cases h1 : klt a.1 b.1 = true
  · have h2 := hasym _ _ h1
    simp [h1, h2]
  · have h1' : klt a.1 b.1 = false := by simpa using h1
    by_cases h2 : klt b.1 a.1 = true
    · simp [h1', h2] at hab
    · have h2' : klt b.1 a.1 = false := by simpa using h2
      simp [h1', h2'] at hab ⊢
      omega

/-- with an `==` that also looks at the row (what a plain namedtuple does), two entries of equal key and different rows
    are ordered neither way: the run order is never consulted and the merge is no longer stable -/
example :
    let klt : Nat × Nat → Nat × Nat → Bool := fun a b => decide (a.1 < b.1)        -- key = first component
    let rowEq : Nat × Nat → Nat × Nat → Bool := fun a b => decide (a = b)
    entryLt rowEq klt ((1, 7), 0) ((1, 8), 1) = false ∧ entryLt rowEq klt ((1, 8), 1) ((1, 7), 0) = false ∧
    entryLt (keyedEq klt) klt ((1, 7), 0) ((1, 8), 1) = true := by decide

end Petl.C05
