/-
  C19, tie by translation: the if-chains of the four `except Exception as e:` handlers (regenerated from the
  source on every run as `Petl.Gen.policyLadders`) are the expected ones, and the expected chains take, under
  each of the three policies, exactly the action the model takes.
-/
import Petl.Gen.PolicyLadder

namespace Petl.C19
open Petl Petl.Gen

def cellLadder : List (PCond × PAct) := [(.isInline, .deliverExc), (.truthy, .reraise), (.otherwise, .errorvalue)]
def rowLadder : List (PCond × PAct) := [(.isInline, .deliverExc), (.truthy, .reraise), (.otherwise, .drop)]

/-- the handlers of the current source are the expected ones (re-checked on every run) -/
theorem ladders_as_expected :
    policyLadders = [("convert", cellLadder), ("fieldmap", cellLadder), ("rowmap", rowLadder), ("rowmapmany", rowLadder)] := by
  decide

/-- … and every view constructor falls back to `petl.config.failonerror` -/
theorem defaults_from_config : ∀ d ∈ policyDefaultFromConfig, d.2 = true := by decide

/-- cell operators (convert, fieldmap): inline delivers the exception object, True re-raises, False delivers errorvalue -/
theorem cellLadder_sem (p : Policy) :
    ladderAct cellLadder p = (match p with | .inline => .deliverExc | .raise => .reraise | .suppress => .errorvalue) := by
  cases p <;> rfl

/-- … which is what the model's `transformValue` does with a failing converter -/
theorem transformValue_follows_ladder (p : Policy) (ev : Val) (c : Conv) (v : Val) (e : Err) (h : c v = .error e) :
    transformValue p ev (some c) v =
      (match ladderAct cellLadder p with
        | .deliverExc => .ok (excVal e) | .reraise => .error e | .errorvalue => .ok ev | .drop => .ok ev) := by
  cases p <;> simp [transformValue, h, ladderAct, cellLadder, PCond.holds]

/-- row operators (rowmap, rowmapmany): inline delivers a one-cell row with the exception, True re-raises, False drops the row -/
theorem rowLadder_sem (p : Policy) :
    ladderAct rowLadder p = (match p with | .inline => .deliverExc | .raise => .reraise | .suppress => .drop) := by
  cases p <;> rfl

/-- … which is what the model's `rowmapRows` does with a failing mapper -/
theorem rowmapRows_follows_ladder (p : Policy) (f : Row → Except Err Row) (r : Row) (rs : List Row) (e : Err)
    (h : f r = .error e) :
    rowmapRows p f (r :: rs) =
      (match ladderAct rowLadder p with
        | .reraise => ([], some e)
        | .deliverExc => ([excVal e] :: (rowmapRows p f rs).1, (rowmapRows p f rs).2)
        | _ => rowmapRows p f rs) := by
  cases p <;> simp [rowmapRows, h, ladderAct, rowLadder, PCond.holds]

end Petl.C19
