/-
  Shared obligation of C07, C09, C10 and C12 (tie by translation): a field selection, key, value spec, index, count
  or `missing` value may be 0, '' or an empty tuple, so none of the functions of petl/transform and
  petl/util/{base,lookups,materialise,counting} tests such a parameter by truthiness — except at the sites below,
  each read by hand: the tested parameter is a callable-or-None (`where`), a collection-or-None whose empty value means
  the same as None (`fillfields`, `keys`, `newfields`, `include`, `exclude`), a plain flag (`prefix`), or the cache limit `self.n` of CacheView, for which 0 and None both mean no limit.
  The list of sites is regenerated from the source on every run (translators/argforms.py).
-/
import Petl.Gen.ArgForms

namespace Petl.ArgForms
open Petl.Gen

def reviewedTruthiness : List (String × String × String) := [
  ("transform.conversions.iterfieldconvert", "where", "pass_row or where"),
  ("transform.dedup.DistinctView.__iter__", "self.count", "self.count"),
  ("transform.dedup.iterconflicts", "exclude", "exclude and (not isinstance(exclude, (list, tuple)))"),
  ("transform.dedup.iterconflicts", "exclude", "exclude and f not in exclude or (include and f in include) or (not exclude and (not include))"),
  ("transform.dedup.iterconflicts", "exclude", "include and exclude"),
  ("transform.dedup.iterconflicts", "include", "exclude and f not in exclude or (include and f in include) or (not exclude and (not include))"),
  ("transform.dedup.iterconflicts", "include", "include and (not isinstance(include, (list, tuple)))"),
  ("transform.dedup.iterconflicts", "include", "include and exclude"),
  ("transform.fills.iterfilldown", "fillfields", "not fillfields"),
  ("transform.joins.itercrossjoin", "prefix", "prefix"),
  ("transform.regex.itercapture", "newfields", "newfields"),
  ("transform.regex.itersplit", "newfields", "newfields"),
  ("transform.unpacks.iterunpackdict", "keys", "not keys"),
  ("util.materialise.CacheView.__iter__", "self.n", "(not self.n or len(self.cache) < self.n) and len(self.cache) == i"),
  ("util.materialise.CacheView.__iter__", "self.n", "not self.n or len(self.cache) < self.n")
]

theorem selection_arguments_not_tested_by_truthiness :
    ∀ s ∈ truthinessSites, reviewedTruthiness.contains s = true := by decide +kernel

/-- comparisons of such a parameter by identity (`is` / `is not`) with anything but None: only the chained
    `key is lkey is rkey is None` idiom of keys_from_args (all three omitted).  A cell is never the same object as an
    argument, so `x is missing` is not `x == missing`. -/
def reviewedIdentity : List (String × String × String) := [
  ("transform.joins.keys_from_args", "key", "key is lkey is rkey is None"),
  ("transform.joins.keys_from_args", "lkey", "key is lkey is rkey is None"),
  ("transform.joins.keys_from_args", "lkey", "lkey is rkey is None"),
  ("transform.joins.keys_from_args", "rkey", "key is lkey is rkey is None"),
  ("transform.joins.keys_from_args", "rkey", "lkey is rkey is None")
]

theorem selection_arguments_not_compared_by_identity :
    ∀ s ∈ identitySites, reviewedIdentity.contains s = true := by decide +kernel

end Petl.ArgForms
