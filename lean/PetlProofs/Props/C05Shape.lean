/-
  C05 (also used by C09, C10, C11), tie by translation: the syntactic facts about petl/transform/sorts.py on which the
  reading "chunks of `buffersize` rows, each stably sorted, merged with ties broken by chunk order; buffersize from
  petl.config when omitted" rests (see translators/merge_shape.py for why each matters), regenerated from the source on
  every run and compared with what was read when the model (Petl/Sort.lean) was written.
-/
import Petl.Gen.MergeShape

namespace Petl.C05
open Petl.Gen

def expectedMergeShape : List (String × String) := [
  ("_Keyed.__eq__", "return self.key == other.key"),
  ("_Keyed.__lt__", "return self.key < other.key"),
  ("_Keyed.__le__", "return self.key <= other.key"),
  ("_Keyed.__ne__", "return self.key != other.key"),
  ("_Keyed.__gt__", "return self.key > other.key"),
  ("_Keyed.__ge__", "return self.key >= other.key"),
  ("_mergesorted.signature", "key=None, reverse=False, *iterables"),
  ("_mergesorted.body", "if reverse: return _shortlistmergesorted(key, True, *iterables) else: return _heapqmergesorted(key, *iterables)"),
  ("_heapqmergesorted.body", "if key is None: keyed_iterables = iterables for element in heapq.merge(*keyed_iterables): yield element else: keyed_iterables = [(_Keyed(key(obj), obj) for obj in iterable) for iterable in iterables] for element in heapq.merge(*keyed_iterables): yield element.obj"),
  ("SortView._iterfromfilecache.calls._mergesorted", "_mergesorted(getkey, self.reverse, *chunkiters)"),
  ("SortView._iternocache.calls._mergesorted", "_mergesorted(getkey, reverse, *chunkiters)"),
  ("SortView.__init__.buffersize", "if buffersize is None: self.buffersize = config.sort_buffersize else: self.buffersize = buffersize"),
  ("SortView._iternocache.buffersize-use", "itertools.islice(it, 0, self.buffersize)"),
  ("SortView._iternocache.buffersize-use", "len(rows) < self.buffersize"),
  ("SortView._iternocache.buffersize-use", "self.buffersize is None")
]

theorem merge_machinery_as_modelled : mergeShape = expectedMergeShape := by decide +kernel

end Petl.C05
