/-
  C02, static part 3: the pull shape of every generator function.

  `Gen.pullShapes` is regenerated from /repo on every run by translators/pullshape.py.  For each function Lean computes
  `summary` = (the look-ahead bound `k` of `Petl.PullShape.bound`, if one is derived; whether a source is handed to code
  the analysis does not follow).  `pull_shapes_as_expected` pins that table: an edit that makes a streaming function
  read ahead (buffering, an extra `next`, a loop over the source that does not yield), or that hands its source to
  something else, changes its entry.  `bounded_functions_never_scan_ahead` is what an entry `some k` means, for every
  execution of the IR program and every point of it: pulls ≤ yields + k.

  Entries with `none`: filters (`select*`, `search`, `duplicates`/`unique`/`conflicts`/`distinct`, inner and anti joins
  on the streamed side — how many rows are read per row delivered depends on the data, `Petl.C02.filter_pulls`),
  operators that may deliver no row for a source row (`melt` without value fields, `flatten` of empty rows, `rowmap`
  with failonerror=False), the build side of the hash operators and the blocking operators (the allowed list of
  `iterators_materialise_only_where_allowed`).  The table is a reviewed snapshot: retake it (tools/pullshape_snapshot.py)
  only after reading the diff.
-/
import Petl.Gen.PullShapes
import Petl.Gen.PullShapeSelfTest
import PetlProofs.PullShape
namespace Petl.C02
open Petl.PullShape

/-- (function[@operand], look-ahead bound if derived, hands a source to unanalysed code) -/
def expectedShapes : List (String × Option Int × Bool) := [
  ("transform.basics.itercut", some 1, false),
  ("transform.basics.itercutout", some 1, false),
  ("transform.basics.itercat", some 1, false),
  ("transform.basics.iterstack", some 1, false),
  ("transform.basics.iteraddfield", some 1, false),
  ("transform.basics.iteraddfields", some 1, false),
  ("transform.basics.iterrowslice", none, false),
  ("transform.basics.itertail", none, false),
  ("transform.basics.MoveFieldView.__iter__", some 1, false),
  ("transform.basics.iterannex", some 1, false),
  ("transform.basics.iteraddrownumbers", some 1, false),
  ("transform.basics.iteraddcolumn", some 1, false),
  ("transform.basics.iteraddfieldusingcontext", some 2, false),
  ("transform.conversions.iterfieldconvert", some 2, false),
  ("transform.dedup.iterduplicates", none, false),
  ("transform.dedup.iterunique", none, false),
  ("transform.dedup.iterconflicts", none, false),
  ("transform.dedup.DistinctView.__iter__", none, false),
  ("transform.fills.iterfilldown", some 1, false),
  ("transform.fills.iterfillright", some 1, false),
  ("transform.fills.iterfillleft", some 1, false),
  ("transform.hashjoins.iterhashjoin@left", none, false),
  ("transform.hashjoins.iterhashjoin@right", some 1, false),
  ("transform.hashjoins.iterhashleftjoin@left", none, false),
  ("transform.hashjoins.iterhashleftjoin@right", some 1, false),
  ("transform.hashjoins.iterhashrightjoin@left", some 1, false),
  ("transform.hashjoins.iterhashrightjoin@right", none, false),
  ("transform.hashjoins.iterhashantijoin@left", none, false),
  ("transform.hashjoins.iterhashantijoin@right", none, false),
  ("transform.hashjoins.iterhashlookupjoin@left", some 1, false),
  ("transform.hashjoins.iterhashlookupjoin@right", none, true),
  ("transform.headers.iterrename", some 1, false),
  ("transform.headers.itersetheader", some 1, false),
  ("transform.headers.iterextendheader", some 1, false),
  ("transform.headers.iterpushheader", some 0, false),
  ("transform.headers.PrefixHeaderView.__iter__", some 1, false),
  ("transform.headers.SuffixHeaderView.__iter__", some 1, false),
  ("transform.headers.SortHeaderView.__iter__", some 1, false),
  ("transform.joins.iterjoin@left", none, false),
  ("transform.joins.iterjoin@right", none, false),
  ("transform.joins.itercrossjoin", none, true),
  ("transform.joins.iterantijoin@left", none, false),
  ("transform.joins.iterantijoin@right", none, false),
  ("transform.joins.iterlookupjoin@left", none, false),
  ("transform.joins.iterlookupjoin@right", none, false),
  ("transform.joins.ConvertToIncrementingCounterView.__iter__", none, false),
  ("transform.joins.EnumerateDistinctView.__iter__", some 0, false),
  ("transform.maps.iterfieldmap", some 1, false),
  ("transform.maps.iterrowmap", none, false),
  ("transform.maps.iterrowmapmany", none, false),
  ("transform.maps.iterrowgroupmap", none, false),
  ("transform.reductions.iterrowreduce", some 0, false),
  ("transform.reductions.itersimpleaggregate", none, true),
  ("transform.reductions.itermultiaggregate", some 1, false),
  ("transform.reductions.itermergeduplicates", some 0, false),
  ("transform.reductions.iterfold", some 0, false),
  ("transform.regex.itercapture", some 1, false),
  ("transform.regex.itersplit", some 1, false),
  ("transform.regex.itersearch", none, false),
  ("transform.regex.itersplitdown", none, false),
  ("transform.reshape.itermelt", none, false),
  ("transform.reshape.iterrecast", none, true),
  ("transform.reshape.itertranspose", none, true),
  ("transform.reshape.iterpivot", none, true),
  ("transform.reshape.FlattenView.__iter__", some 0, false),
  ("transform.reshape.UnflattenView.__iter__", none, false),
  ("transform.selects.iterfieldselect", none, false),
  ("transform.selects.iterrowselect", none, false),
  ("transform.selects.iterselectusingcontext", none, false),
  ("transform.setops.itercomplement", some 0, false),
  ("transform.setops.iterintersection@a", none, true),
  ("transform.setops.iterintersection@b", none, true),
  ("transform.setops.iterhashcomplement@a", none, false),
  ("transform.setops.iterhashcomplement@b", none, true),
  ("transform.setops.iterhashintersection@a", none, false),
  ("transform.setops.iterhashintersection@b", none, true),
  ("transform.sorts._iterchunk", some 0, false),
  ("transform.sorts._heapqmergesorted", some 0, false),
  ("transform.sorts._shortlistmergesorted", some 0, false),
  ("transform.sorts.SortView._iterfrommemcache", some 0, false),
  ("transform.sorts.SortView._iterfromfilecache", some 0, false),
  ("transform.sorts.SortView._iternocache", none, true),
  ("transform.sorts._standardisedata", some 1, false),
  ("transform.sorts._MergeSortInput.__iter__", none, true),
  ("transform.sorts.itermergesort", none, true),
  ("transform.unpacks.iterunpack", some 1, false),
  ("transform.unpacks.iterunpackdict", none, true),
  ("transform.validation.iterproblems", none, false),
  ("util.base.itervalues", some 2, false),
  ("util.base.iterdicts", none, false),
  ("util.base.iternamedtuples", none, false),
  ("util.base.iterrecords", none, false),
  ("util.base.EmptyTable.__iter__", some 0, false),
  ("util.materialise.CacheView.__iter__", none, false),
  ("util.timing.ProgressViewBase.__iter__", some 0, false),
  ("util.timing.ClockView.__iter__", some 1, false),
  ("io.base.itercolumns", some 0, false),
  ("io.csv_py3.CSVView.__iter__", some 0, false),
  ("io.csv_py3.TeeCSVView.__iter__", some 1, false),
  ("io.html.TeeHTMLView.__iter__", some 2, false),
  ("io.json.JsonView.__iter__", some 0, false),
  ("io.json.DictsGeneratorView.__iter__", some 0, false),
  ("io.json.iterjlines", some 0, false),
  ("io.json.iterdicts", none, true),
  ("io.pickle.PickleView.__iter__", some 0, false),
  ("io.pickle.TeePickleView.__iter__", some 1, false),
  ("io.text.TextView.__iter__", some 0, false),
  ("io.text._iterteetext", some 1, false)
]

set_option maxRecDepth 100000 in
theorem pull_shapes_as_expected :
    Gen.pullShapes.map (fun f => (f.1, summary f.2)) = expectedShapes := by decide +kernel

/-- what a derived bound means: at every point of every execution, rows taken ≤ rows delivered + k -/
theorem bounded_never_scans_ahead (p : PS) (n k : Int) (hb : bound p = some (n, k))
    (tr : List Ev) (hr : Run p tr) (pre : List Ev) (hp : pre <+: tr) :
    (pulls pre : Int) ≤ (ylds pre : Int) + k := by
  have h1 := bound_sound hr n k hb
  have h2 := prefix_le_peak hp
  have h3 := net_eq_pulls_sub_ylds pre
  omega

theorem bounded_functions_never_scan_ahead :
    ∀ f ∈ Gen.pullShapes, ∀ n k, bound f.2 = some (n, k) →
      ∀ tr, Run f.2 tr → ∀ pre, pre <+: tr → (pulls pre : Int) ≤ (ylds pre : Int) + k :=
  fun f _ n k hb tr hr pre hp => bounded_never_scans_ahead f.2 n k hb tr hr pre hp

/-- the translator on its own reference snippets (one-to-one, guarded header, filter, buffering, reading ahead, draining,
    materialising, slices with a step, several sources in turn, expanding, delegating, early return, no source):
    each translation has the look-ahead bound and the opacity written next to the snippet -/
theorem pullshape_selftest :
    ∀ c ∈ Gen.pullShapeSelfTest, summary c.2.1 = (c.2.2.1, c.2.2.2) := by decide +kernel

/-- the one-to-one streaming loop `hdr = next(it); yield hdr'; for row in it: yield f(row)` has look-ahead 1 … -/
example : bound (.seq .pull (.seq .yld (.forSrc .yld))) = some (0, 1) := by decide
/-- … a loop that buffers two rows per row delivered has none … -/
example : bound (.seq .pull (.seq .yld (.forSrc (.seq .pull .yld)))) = none := by decide
/-- … nor has a filter, nor a loop that first drains the source -/
example : bound (.forSrc (.branch .yld .skip)) = none := by decide
example : bound (.seq (.forSrc .skip) (.loop .yld)) = none := by decide
/-- the hypotheses of `bounded_never_scans_ahead` are satisfiable, and the bound is tight -/
example : Run (.seq .pull (.seq .yld (.forSrc .yld))) [.pull, .yld, .pull, .yld] := by
  have h : Run (.forSrc .yld) [.pull, .yld] := Run.forCons (t1 := [.yld]) (t2 := []) Run.yld Run.forNil
  exact Run.seq Run.pull (Run.seq Run.yld h)
example : pulls [Ev.pull, .yld, .pull] = ylds [Ev.pull, .yld, .pull] + 1 := by decide

end Petl.C02
