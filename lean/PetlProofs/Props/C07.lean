/-
  C07 — hash joins and lookups agree with the sort-merge joins.
  Property theorems only; helpers in PetlProofs/HashJoin.lean.
-/
import PetlProofs.HashJoin
import PetlProofs.Props.C06

namespace Petl.C07
open Petl

variable {β : Type}

/-- lookup / dictlookup / recordlookup: each key ↦ the values of exactly its rows, in table order;
    a key that does not occur is absent -/
theorem lookup_spec (key : Row → Val) (value : Row → β) (rows : List Row) (k : Val) :
    Dict.get (buildLookup key value rows) k =
      (if (rows.filter (fun r => Val.eq (key r) k)).isEmpty then none
       else some ((rows.filter (fun r => Val.eq (key r) k)).map value)) :=
  buildLookup_get key value rows k

/-- the *one variants (non-strict): each key ↦ the value of its first row; never an error -/
theorem lookupone_spec (key : Row → Val) (value : Row → β) (rows : List Row) :
    ∃ d, buildLookupOne key value false rows [] = .ok d ∧
      ∀ k, Dict.get d k = (rows.find? (fun r => Val.eq (key r) k)).map value := by
  obtain ⟨d, hd⟩ := buildLookupOne_ok key value rows []
  refine ⟨d, hd, ?_⟩
  intro k
  have := buildLookupOne_get key value rows [] [] d (by intro k; simp [Dict.get, firstOf]) hd k
  simpa [firstOf] using this

/-- strict=True raises DuplicateKeyError exactly when a key repeats -/
theorem strict_raises_iff_dup (key : Row → Val) (value : Row → β) (rows : List Row) :
    (buildLookupOne key value true rows [] = .error .duplicateKey) ↔
      ¬ rows.Pairwise (fun a b => Val.eq (key a) (key b) = false) := by
  have h := buildLookupOne_strict key value rows [] [] (by intro k; simp [Dict.contains])
  have herr : ∀ (rows : List Row) (d0 : Dict β),
      (∃ d, buildLookupOne key value true rows d0 = .ok d) ∨
        buildLookupOne key value true rows d0 = .error .duplicateKey := by
    intro rows
    induction rows with
    | nil => intro d0; exact Or.inl ⟨d0, rfl⟩
    | cons r rows ih =>
      intro d0
      simp only [buildLookupOne]
      split
      · exact Or.inr rfl
      · exact ih _
  constructor
  · intro he hp
    have := h.2 ⟨hp, by simp⟩
    obtain ⟨d, hd⟩ := this
    rw [he] at hd; cases hd
  · intro hnp
    rcases herr rows [] with ⟨d, hd⟩ | he
    · exact absurd (h.1 ⟨d, hd⟩).1 hnp
    · exact he

/-- hashjoin emits, for each left row in the order of the left table, its partners in the order
    of the right table: exactly the nested-loop join -/
theorem hashjoin_eq_nested_loop (ops : JoinOps) (kl kr) (L R : List Row) :
    hashInner ops kl kr L R = nlInner ops kl kr L R := hashInner_eq ops kl kr L R

theorem hashleftjoin_eq_nested_loop (ops : JoinOps) (kl kr) (L R : List Row) :
    hashLeft ops kl kr L R = nlLeft ops kl kr L R := hashLeft_eq ops kl kr L R

theorem hashantijoin_eq_filter (kl kr) (L R : List Row) :
    hashAnti kl kr L R = L.filter (fun l => !(R.any (fun r => Val.eq (kl l) (kr r)))) :=
  hashAnti_eq kl kr L R

theorem hashlookupjoin_eq_first (ops : JoinOps) (kl kr) (L R : List Row) :
    hashLookup ops kl kr L R = nlLookup ops kl kr L R := hashLookup_eq ops kl kr L R

/-! same multiset of rows as the sort-merge joins (any buffer size of the merge join's sorts) -/

theorem hashjoin_perm_join (ops : JoinOps) (lidx ridx : List Nat) (bs : Option Nat)
    (hbs : ∀ b, bs = some b → 1 ≤ b) (L R : List Row) :
    (hashInner ops (getKey lidx) (getKey ridx) L R).Perm
      (mergeGroups ops false false (C06.sideGroups lidx bs L) (C06.sideGroups ridx bs R)) := by
  rw [hashInner_eq]
  exact (C06.join_relational ops lidx ridx bs hbs L R).symm

theorem hashleftjoin_perm_leftjoin (ops : JoinOps) (lidx ridx : List Nat) (bs : Option Nat)
    (hbs : ∀ b, bs = some b → 1 ≤ b) (L R : List Row) :
    (hashLeft ops (getKey lidx) (getKey ridx) L R).Perm
      (mergeGroups ops true false (C06.sideGroups lidx bs L) (C06.sideGroups ridx bs R)) := by
  rw [hashLeft_eq, C06.leftjoin_eq_nested_loop ops lidx ridx bs hbs L R]
  exact (perLeft_perm (fLeft ops) _ _ (fLeft_perm ops)
    (C06.sorted_perm lidx bs hbs L) (C06.sorted_perm ridx bs hbs R)).symm

theorem hashantijoin_perm_antijoin (lidx ridx : List Nat) (bs : Option Nat)
    (hbs : ∀ b, bs = some b → 1 ≤ b) (L R : List Row) :
    (hashAnti (getKey lidx) (getKey ridx) L R).Perm
      (antiGroups (C06.sideGroups lidx bs L) (C06.sideGroups ridx bs R)) := by
  rw [hashAnti_eq, C06.antijoin_eq_filter lidx ridx bs hbs L R]
  exact (unmatchedL_perm _ _ (C06.sorted_perm lidx bs hbs L) (C06.sorted_perm ridx bs hbs R)).symm

/-! non-vacuity: a key class with two rows whose keys are equal across number types -/
example : ([[Val.num .int (.fin 1), .str [97]], [.num .float (.fin 1), .str [98]]].filter
    (fun r => Val.eq (getKey [0] r) (.num .bool (.fin 1)))).length = 2 := by decide
example : ¬ [[Val.num .int (.fin 1)], [.num .float (.fin 1)]].Pairwise
    (fun a b => Val.eq (getKey [0] a) (getKey [0] b) = false) := by decide

end Petl.C07
