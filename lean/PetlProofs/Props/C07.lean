/-
  C07 — hash joins and lookups agree with the sort-merge joins.
  Property theorems only; helpers in PetlProofs/HashJoin.lean.
-/
import PetlProofs.HashJoin
import PetlProofs.Props.C06
import PetlProofs.Props.C05

namespace Petl.C07
open Petl

variable {β : Type}

/-- lookup / dictlookup / recordlookup: each key ↦ the values of exactly its rows, in table order;
    a key that does not occur is absent -/
theorem lookup_spec (key : Row → Val) (value : Row → β) (rows : List Row) (k : Val) :
    Dict.get (buildLookup key value rows) k =
      (if (rows.filter (fun r => Val.eq (key r) k)).isEmpty then none
       else some ((rows.filter (fun r => Val.eq (key r) k)).map value)) :=
  buildLookup_get key value rows k

/-- the *one variants (non-strict): each key ↦ the value of its first row; never an error -/
theorem lookupone_spec (key : Row → Val) (value : Row → β) (rows : List Row) :
    ∃ d, buildLookupOne key value false rows [] = .ok d ∧
      ∀ k, Dict.get d k = (rows.find? (fun r => Val.eq (key r) k)).map value := by
  obtain ⟨d, hd⟩ := buildLookupOne_ok key value rows []
  refine ⟨d, hd, ?_⟩
  intro k
  have := buildLookupOne_get key value rows [] [] d (by intro k; simp [Dict.get, firstOf]) hd k
  simpa [firstOf] using this

/-- strict=True raises DuplicateKeyError exactly when a key repeats -/
theorem strict_raises_iff_dup (key : Row → Val) (value : Row → β) (rows : List Row) :
    (buildLookupOne key value true rows [] = .error .duplicateKey) ↔
      ¬ rows.Pairwise (fun a b => Val.eq (key a) (key b) = false) := by
  have h := buildLookupOne_strict key value rows [] [] (by intro k; simp [Dict.contains])
  have herr : ∀ (rows : List Row) (d0 : Dict β),
      (∃ d, buildLookupOne key value true rows d0 = .ok d) ∨
        buildLookupOne key value true rows d0 = .error .duplicateKey := by
    intro rows
    induction rows with
    | nil => intro d0; exact Or.inl ⟨d0, rfl⟩
    | cons r rows ih =>
      intro d0
      simp only [buildLookupOne]
      split
      · exact Or.inr rfl
      · exact ih _
  constructor
  · intro he hp
    have := h.2 ⟨hp, by simp⟩
    obtain ⟨d, hd⟩ := this
    rw [he] at hd; cases hd
  · intro hnp
    rcases herr rows [] with ⟨d, hd⟩ | he
    · exact absurd (h.1 ⟨d, hd⟩).1 hnp
    · exact he

/-- hashjoin emits, for each left row in the order of the left table, its partners in the order
    of the right table: exactly the nested-loop join -/
theorem hashjoin_eq_nested_loop (ops : JoinOps) (kl kr) (L R : List Row) :
    hashInner ops kl kr L R = nlInner ops kl kr L R := hashInner_eq ops kl kr L R

theorem hashleftjoin_eq_nested_loop (ops : JoinOps) (kl kr) (L R : List Row) :
    hashLeft ops kl kr L R = nlLeft ops kl kr L R := hashLeft_eq ops kl kr L R

theorem hashantijoin_eq_filter (kl kr) (L R : List Row) :
    hashAnti kl kr L R = L.filter (fun l => !(R.any (fun r => Val.eq (kl l) (kr r)))) :=
  hashAnti_eq kl kr L R

theorem hashlookupjoin_eq_first (ops : JoinOps) (kl kr) (L R : List Row) :
    hashLookup ops kl kr L R = nlLookup ops kl kr L R := hashLookup_eq ops kl kr L R

/-! same multiset of rows as the sort-merge joins (any buffer size of the merge join's sorts) -/

theorem hashjoin_perm_join (ops : JoinOps) (lidx ridx : List Nat) (bs : Option Nat)
    (hbs : ∀ b, bs = some b → 1 ≤ b) (L R : List Row) :
    (hashInner ops (getKey lidx) (getKey ridx) L R).Perm
      (mergeGroups ops false false (C06.sideGroups lidx bs L) (C06.sideGroups ridx bs R)) := by
  rw [hashInner_eq]
  exact (C06.join_relational ops lidx ridx bs hbs L R).symm

theorem hashleftjoin_perm_leftjoin (ops : JoinOps) (lidx ridx : List Nat) (bs : Option Nat)
    (hbs : ∀ b, bs = some b → 1 ≤ b) (L R : List Row) :
    (hashLeft ops (getKey lidx) (getKey ridx) L R).Perm
      (mergeGroups ops true false (C06.sideGroups lidx bs L) (C06.sideGroups ridx bs R)) := by
  rw [hashLeft_eq, C06.leftjoin_eq_nested_loop ops lidx ridx bs hbs L R]
  exact (perLeft_perm (fLeft ops) _ _ (fLeft_perm ops)
    (C06.sorted_perm lidx bs hbs L) (C06.sorted_perm ridx bs hbs R)).symm

theorem hashantijoin_perm_antijoin (lidx ridx : List Nat) (bs : Option Nat)
    (hbs : ∀ b, bs = some b → 1 ≤ b) (L R : List Row) :
    (hashAnti (getKey lidx) (getKey ridx) L R).Perm
      (antiGroups (C06.sideGroups lidx bs L) (C06.sideGroups ridx bs R)) := by
  rw [hashAnti_eq, C06.antijoin_eq_filter lidx ridx bs hbs L R]
  exact (unmatchedL_perm _ _ (C06.sorted_perm lidx bs hbs L) (C06.sorted_perm ridx bs hbs R)).symm


/-- hashrightjoin: each right row (in right-table order) with its partners in left-table order, or padded -/
theorem hashrightjoin_eq_nested_loop (ops : JoinOps) (kl kr) (L R : List Row) :
    hashRight ops kl kr L R = nlRight ops kl kr L R := hashRight_eq ops kl kr L R

/-- … the same multiset of rows as the sort-merge rightjoin -/
theorem hashrightjoin_perm_rightjoin (ops : JoinOps) (lidx ridx : List Nat) (bs : Option Nat)
    (hbs : ∀ b, bs = some b → 1 ≤ b) (L R : List Row) :
    (hashRight ops (getKey lidx) (getKey ridx) L R).Perm
      (mergeGroups ops false true (C06.sideGroups lidx bs L) (C06.sideGroups ridx bs R)) := by
  rw [hashRight_eq]
  refine (nlRight_perm ops _ _ L R).trans ?_
  have := C06.outerjoin_perm ops lidx ridx bs hbs false true L R
  simpa using this.symm

/-- key-equivalence under the sort order is `==` on keys -/
theorem eqv_rowLe_iff (idx : List Nat) (a b : Row) :
    eqv (rowLe idx false) a b = Val.eq (getKey idx a) (getKey idx b) := by
  have h := Val.incomparable_iff_eq (getKey idx a) (getKey idx b)
  cases he : Val.eq (getKey idx a) (getKey idx b)
  · cases h1 : Val.lt (getKey idx a) (getKey idx b) <;> cases h2 : Val.lt (getKey idx b) (getKey idx a) <;>
      simp [eqv, rowLe, h1, h2]
    exact absurd (h.1 ⟨h1, h2⟩) (by simp [he])
  · have := h.2 he
    simp [eqv, rowLe, this.1, this.2]

/-- the first partner of a key in a table does not change when the table is stably sorted by that key -/
theorem find_first_partner_sorted (ridx : List Nat) (bs : Option Nat) (hbs : ∀ b, bs = some b → 1 ≤ b)
    (R : List Row) (k : Val) :
    (sortRows (rowLe ridx false) bs R).find? (fun r => Val.eq k (getKey ridx r))
      = R.find? (fun r => Val.eq k (getKey ridx r)) := by
  have hst := (C05.sortRows_stable_sort ridx false bs hbs R).2
  have hperm := C05.sortRows_perm ridx false bs hbs R
  by_cases hex : ∃ a ∈ R, Val.eq k (getKey ridx a) = true
  · obtain ⟨a, _, hka⟩ := hex
    have hp : (fun r => Val.eq k (getKey ridx r)) = eqv (rowLe ridx false) a := by
      funext r
      rw [eqv_rowLe_iff]
      cases h1 : Val.eq (getKey ridx a) (getKey ridx r)
      · cases h2 : Val.eq k (getKey ridx r)
        · rfl
        · have := Val.eq_trans _ _ _ (by rw [Val.eq_symm]; exact hka) h2
          rw [this] at h1; cases h1
      · exact Val.eq_trans _ _ _ hka h1
    rw [hp, ← List.head?_filter, ← List.head?_filter, hst a]
  · have hnone : ∀ (X : List Row), (∀ x ∈ X, x ∈ R) → X.find? (fun r => Val.eq k (getKey ridx r)) = none := by
      intro X hX
      rw [List.find?_eq_none]
      intro x hx hk
      exact hex ⟨x, hX x hx, hk⟩
    rw [hnone _ (fun x hx => hperm.mem_iff.1 hx), hnone R (fun _ h => h)]

/-- hashlookupjoin pairs every left row with the same partner as the sort-merge lookupjoin, hence the
    same multiset of rows -/
theorem hashlookupjoin_perm_lookupjoin (ops : JoinOps) (lidx ridx : List Nat) (bs : Option Nat)
    (hbs : ∀ b, bs = some b → 1 ≤ b) (L R : List Row) :
    (hashLookup ops (getKey lidx) (getKey ridx) L R).Perm
      (lookupGroups ops (C06.sideGroups lidx bs L) (C06.sideGroups ridx bs R)) := by
  rw [hashLookup_eq, C06.lookupjoin_eq_first_partner ops lidx ridx bs hbs L R]
  have h1 : nlLookup ops (getKey lidx) (getKey ridx) (sortRows (rowLe lidx false) bs L) (sortRows (rowLe ridx false) bs R)
      = nlLookup ops (getKey lidx) (getKey ridx) (sortRows (rowLe lidx false) bs L) R := by
    unfold nlLookup
    apply List.map_congr_left
    intro l _
    rw [find_first_partner_sorted ridx bs hbs R (getKey lidx l)]
  rw [h1]
  unfold nlLookup
  exact ((C05.sortRows_perm lidx false bs hbs L).map _).symm

/-! non-vacuity: a key class with two rows whose keys are equal across number types -/
example : ([[Val.num .int (.fin 1), .str [97]], [.num .float (.fin 1), .str [98]]].filter
    (fun r => Val.eq (getKey [0] r) (.num .bool (.fin 1)))).length = 2 := by decide
example : ¬ [[Val.num .int (.fin 1)], [.num .float (.fin 1)]].Pairwise
    (fun a b => Val.eq (getKey [0] a) (getKey [0] b) = false) := by decide

end Petl.C07
