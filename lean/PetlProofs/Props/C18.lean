/-
  C18 — temporary files live exactly as long as something can still read them.

  Model: Petl/TempFiles.lean (reference-counted chunk files of an external sort: holders are the
  view's file cache and the frames of running / cache-reading generators).  Histories are arbitrary
  sequences of `new`, `next i`, `drop i` (abandon an iterator at any point), `dropView`; the source
  may fail at any row (`failAt`), caching may be on or off.
-/
import PetlProofs.TempFiles

namespace Petl.C18
open Petl

/-- after every history: every file that some holder can still reach exists, and every existing
    file is reachable from some holder -/
theorem files_are_exactly_held (p : TFParams) (ops : List TFOp) :
    (∀ c ∈ (tfRun p ops).1.holders, c ∈ (tfRun p ops).1.files) ∧
    (∀ f ∈ (tfRun p ops).1.files, f ∈ (tfRun p ops).1.holders) :=
  tfRun_inv p ops

/-- no leak: once the view and all iterators have been released (finished, failed or abandoned at
    any row), every temporary file is gone — whatever happened before -/
theorem no_leak (p : TFParams) (ops : List TFOp)
    (hv : (tfRun p ops).1.userHoldsView = false)
    (hi : ∀ it ∈ (tfRun p ops).1.iters, it.alive = false) :
    (tfRun p ops).1.files = [] := by
  have hinv := tfRun_inv p ops
  have hh : (tfRun p ops).1.holders = [] := by
    apply List.eq_nil_iff_forall_not_mem.2
    intro c hc
    rcases (mem_holders _ c).1 hc with ⟨hr, _⟩ | ⟨it, hit, hch⟩
    · simp only [TFState.viewReachable, hv, Bool.false_or, List.any_eq_true] at hr
      obtain ⟨it, hit, ha⟩ := hr
      rw [hi it hit] at ha; cases ha
    · have := hi it hit
      cases it <;> simp_all [TFIter.alive, TFIter.held]
  apply List.eq_nil_iff_forall_not_mem.2
  intro f hf
  have := hinv.2 f hf
  rw [hh] at this; cases this

/-- an iterator served from the file cache — also one that outlives its view or other iterators
    that cleared the cache — finds all its chunk files and yields the complete sequence -/
theorem live_reader_complete (p : TFParams) (ops : List TFOp) (i : Nat) (cs : List Nat) (pos : Nat)
    (h : (tfRun p ops).1.iters[i]? = some (.fromFile cs pos)) :
    (tfStep p (tfRun p ops).1 (.next i)).2 =
      (if pos = 0 then .row 0 else if pos ≤ p.nrows then .row pos else .stop) := by
  have hinv := tfRun_inv p ops
  have hall : cs.all (fun c => (tfRun p ops).1.files.contains c) = true := by
    rw [List.all_eq_true]
    intro c hc
    have : c ∈ (tfRun p ops).1.holders :=
      mem_holders_of_iter _ c ⟨_, List.mem_of_getElem? h, by simpa [TFIter.held] using hc⟩
    simpa using hinv.1 c this
  simp only [tfStep, h, hall, if_true]
  split
  · rfl
  · split <;> rfl

/-- hence no history ever makes a cache-reading iterator fail for a missing file -/
theorem never_crashes (p : TFParams) (ops : List TFOp) (op : TFOp) :
    (tfStep p (tfRun p ops).1 op).2 ≠ .crash := by
  have hinv := tfRun_inv p ops
  cases op with
  | new => simp only [tfStep]; split <;> simp
  | drop i => simp [tfStep]
  | dropView => simp [tfStep]
  | next i =>
    cases hi : (tfRun p ops).1.iters[i]? with
    | none => simp [tfStep, hi]
    | some it =>
      cases it with
      | fromFile cs pos =>
        rw [live_reader_complete p ops i cs pos hi]
        split
        · simp
        · split <;> simp
      | dead => simp [tfStep, hi]
      | pending => simp [tfStep, hi]
      | afterHeader =>
        simp only [tfStep, hi]
        split
        · split
          · simp
          · split <;> simp
        · split
          · simp
          · split <;> simp
      | running cs pos => simp only [tfStep, hi]; split <;> simp
      | fromMem pos => simp only [tfStep, hi]; split <;> simp

/-- a source failure while the chunks are being written leaves no file behind once the failed
    iterator and the view are released (instance of `no_leak`; stated for the record) -/
theorem failure_leaves_nothing (p : TFParams) (ops : List TFOp)
    (hv : (tfRun p ops).1.userHoldsView = false) (hi : ∀ it ∈ (tfRun p ops).1.iters, it.alive = false) :
    (tfRun p ops).1.files.length = 0 := by
  rw [no_leak p ops hv hi]; rfl

/-! non-vacuity: a cached external sort whose first reader is abandoned, a second reader from the
    file cache outlives the view -/
example :
    let p : TFParams := { nrows := 3, buffersize := 2, cache := true, failAt := none }
    let r := tfRun p [.new, .next 0, .next 0, .new, .drop 0, .dropView, .next 1, .next 1]
    r.1.files.length = 2 ∧ r.2.getLast? = some (.row 1) := by decide

example :
    let p : TFParams := { nrows := 3, buffersize := 2, cache := true, failAt := none }
    (tfRun p [.new, .next 0, .next 0, .new, .drop 0, .dropView, .next 1, .drop 1]).1.files = [] := by decide

end Petl.C18
