/-
  C08 — recordcomplement / recorddiff: the multiset difference after aligning b's fields to a's by name.
-/
import PetlProofs.Props.C08
import Petl.Basics
namespace Petl.C08
open Petl

/-- `cut(b, *header(a))`: b's rows with their cells in a's field order (`idx[i]` = position in b of a's field `i`) -/
def alignRows (idx : List Nat) (B : List Row) : List Row := pickRows idx .none B

theorem alignRows_rect (idx : List Nat) (B : List Row) : Rect idx.length (alignRows idx B) := by
  intro r hr
  simp only [alignRows, pickRows, List.mem_map] at hr
  obtain ⟨r0, _, rfl⟩ := hr
  simp

/-- cell `i` of an aligned row is the cell of b's row under a's field `i` -/
theorem alignRows_cells (idx : List Nat) (B : List Row) (k : Nat) (r : Row) (h : B[k]? = some r) :
    (alignRows idx B)[k]? = some (idx.map (fun i => r.getD i .none)) := by
  simp [alignRows, pickRows, h, padGet]

/-- recordcomplement(a, b) = complement(a, cut(b, *header(a))): the multiset difference after aligning b's fields
    to a's by name; recorddiff returns this and the same with the roles swapped -/
theorem recordcomplement_count (ahdr : Row) (bs : Option Nat) (A B : List Row) (idx : List Nat)
    (hw : 1 ≤ ahdr.length) (hidx : idx.length = ahdr.length)
    (hbs : ∀ b, bs = some b → 1 ≤ b) (hA : Rect ahdr.length A) (x : Row) :
    countRow x (complLoop false (sortAll ahdr bs A) (sortAll ahdr bs (alignRows idx B)))
      = countRow x A - countRow x (alignRows idx B) ∧
    countRow x (complLoop true (sortAll ahdr bs A) (sortAll ahdr bs (alignRows idx B)))
      = (if countRow x (alignRows idx B) = 0 then countRow x A else 0) := by
  have hB : Rect ahdr.length (alignRows idx B) := by rw [← hidx]; exact alignRows_rect idx B
  exact ⟨complement_count ahdr ahdr bs A _ hw rfl hbs hA hB x,
         complement_strict_count ahdr ahdr bs A _ hw rfl hbs hA hB x⟩

example : alignRows [1, 0] [[Val.none, .str [97]], [.str [98]]] = [[.str [97], .none], [.none, .str [98]]] := by
  simp [alignRows, pickRows, padGet]
end Petl.C08
