/-
  C01 — table views are re-iterable and their iterators are mutually independent.

  For each kind of view a state machine (Petl/Views.lean) and the theorem that, for EVERY schedule
  of `new` / `next i` operations on any number of iterators (partial consumption and abandonment
  included — an abandoned iterator is one the schedule stops advancing), every iterator has received
  a prefix of the one sequence `full`, and a `next` on an iterator at position k delivers row k
  (so it never stops early and a fresh pass started at any point yields `full` again).
-/
import PetlProofs.Views

namespace Petl.C01
open Petl

/-- the conclusion shared by all view kinds -/
def Independent {σ ι : Type} (m : Machine σ ι) (full : List Row) : Prop :=
  ∀ sched : List SOp,
    (∀ (i : Nat) (out : List Row), (m.run sched).outs[i]? = some out → ∃ k, out = full.take k ∧ k ≤ full.length) ∧
    (∀ (i : Nat) (it : ι), (m.run sched).iters[i]? = some it →
      ∃ k, (m.run sched).outs[i]? = some (full.take k) ∧ (m.step (m.run sched).shared it).2.2 = full[k]?)

theorem independent_of_cert {σ ι : Type} {m : Machine σ ι} {full : List Row} (c : IndepCert m full) :
    Independent m full :=
  fun sched => ⟨fun i out h => outputs_are_prefixes c sched i out h, fun i it h => next_delivers c sched i it h⟩

/-- views without shared state (all plain transforms): private cursors -/
theorem pureView_independent (rows : List Row) : Independent (pureMachine rows) rows :=
  independent_of_cert (pureCert rows)

/-- cache(table, n): with the append guard, for every cache limit n and every schedule
    (also: the cache never holds anything but a prefix of the inner table) -/
theorem cacheView_independent (inner : List Row) (n : Option Nat) :
    Independent (cacheMachine true inner n) inner :=
  independent_of_cert (cacheCert inner n)

theorem cacheView_cache_is_prefix (inner : List Row) (n : Option Nat) (sched : List SOp) :
    ((cacheMachine true inner n).run sched).shared.cache =
      inner.take ((cacheMachine true inner n).run sched).shared.cache.length :=
  (runInv_run (cacheCert inner n) sched).1.1

/-- fromdicts on a generator: one-shot source + shared spill log + private positions -/
theorem dictsGen_independent (rows : List Row) : Independent (dictsGenMachine rows) rows :=
  independent_of_cert (dictsGenCert rows)

/-- sort (memory or file cache, cache on or off): cached data bound at iterator creation -/
theorem sortView_independent (cacheOn : Bool) (out : List Row) :
    Independent (sortViewMachine cacheOn out) out :=
  independent_of_cert (sortViewCert cacheOn out)

/-! ### the unrepaired protocols fail the property (concrete schedules, replayed on the code) -/

/-- cache() without the append guard: two iterators filling at the same time append the same rows;
    the cache ends up longer than the table -/
theorem cacheView_unguarded_duplicates :
    let inner : List Row := [[.str [104]], [.num .int (.fin 1)], [.num .int (.fin 2)]]
    let sched := [SOp.new, .new, .next 0, .next 1, .next 1, .next 0, .next 0, .next 1, .next 0, .next 1]
    ((cacheMachine false inner none).run sched).shared.cache.length = 5 ∧ inner.length = 3 := by
  decide

/-- sort with lazily-read caches: an iterator obtained after the cache was filled, advanced after an
    earlier-created iterator started (and cleared the cache), crashes -/
theorem sortView_lazy_cache_crashes :
    let out : List Row := [[.str [104]], [.num .int (.fin 1)]]
    let sched := [SOp.new, .new, .next 0, .next 0, .next 0, .new, .next 1, .next 2]
    (match ((sortViewMachineOld out).run sched).iters[2]? with | some .crashed => true | _ => false) = true := by
  decide

/-! non-vacuity: a schedule with three iterators, one abandoned after the header -/
example : ((cacheMachine true [[.str [104]], [.num .int (.fin 1)]] (some 1)).run
    [.new, .new, .next 0, .next 1, .next 1, .new, .next 2, .next 2, .next 2]).outs.map List.length = [1, 2, 2] := by
  decide

end Petl.C01
