/-
  C08 — set operations obey multiset algebra; hash variants agree.
  Property theorems only; helpers in PetlProofs/SetOps.lean.
  `countRow x l` = multiplicity of row `x` in `l` under row equality (Python `==` on tuples).
  Domain guard: rows have the header's length `w ≥ 1` (`Rect`), as the property states.
-/
import PetlProofs.SetOps

namespace Petl.C08
open Petl

variable (ahdr bhdr : Row) (bs : Option Nat) (A B : List Row)
  (hw : 1 ≤ ahdr.length) (hwb : bhdr.length = ahdr.length)
  (hbs : ∀ b, bs = some b → 1 ≤ b) (hA : Rect ahdr.length A) (hB : Rect ahdr.length B)
include hw hwb hbs hA hB

/-- complement(a, b) is the multiset difference a − b, for every buffer size -/
theorem complement_count (x : Row) :
    countRow x (complLoop false (sortAll ahdr bs A) (sortAll bhdr bs B)) = countRow x A - countRow x B := by
  obtain ⟨sa, pa⟩ := sortAll_sorted ahdr hw bs hbs A hA
  obtain ⟨sb, pb⟩ := sortAll_sorted bhdr (by omega) bs hbs B (by rw [hwb]; exact hB)
  rw [complLoop_count false rfl _ _ sa sb x, countRow_perm x pa, countRow_perm x pb]

/-- strict=True: every row of a that does not occur in b at all -/
theorem complement_strict_count (x : Row) :
    countRow x (complLoop true (sortAll ahdr bs A) (sortAll bhdr bs B))
      = if countRow x B = 0 then countRow x A else 0 := by
  obtain ⟨sa, pa⟩ := sortAll_sorted ahdr hw bs hbs A hA
  obtain ⟨sb, pb⟩ := sortAll_sorted bhdr (by omega) bs hbs B (by rw [hwb]; exact hB)
  rw [complLoop_count_strict true rfl _ _ sa sb x, countRow_perm x pa, countRow_perm x pb]

/-- intersection(a, b) is the multiset intersection -/
theorem intersection_count (x : Row) :
    countRow x (interLoop (sortAll ahdr bs A) (sortAll bhdr bs B)) = min (countRow x A) (countRow x B) := by
  obtain ⟨sa, pa⟩ := sortAll_sorted ahdr hw bs hbs A hA
  obtain ⟨sb, pb⟩ := sortAll_sorted bhdr (by omega) bs hbs B (by rw [hwb]; exact hB)
  rw [interLoop_count _ _ sa sb x, countRow_perm x pa, countRow_perm x pb]

/-- complement(a, b) together with intersection(a, b) reassemble a -/
theorem complement_append_intersection (x : Row) :
    countRow x (complLoop false (sortAll ahdr bs A) (sortAll bhdr bs B)
                ++ interLoop (sortAll ahdr bs A) (sortAll bhdr bs B)) = countRow x A := by
  have h1 := complement_count ahdr bhdr bs A B hw hwb hbs hA hB x
  have h2 := intersection_count ahdr bhdr bs A B hw hwb hbs hA hB x
  simp only [countRow, List.filter_append, List.length_append] at h1 h2 ⊢
  omega

/-- the hash variants return the same multisets as the sort-based ones … -/
theorem hash_variants_same_counts (x : Row) :
    countRow x (hashComplLoop false A B) = countRow x (complLoop false (sortAll ahdr bs A) (sortAll bhdr bs B)) ∧
    countRow x (hashComplLoop true A B) = countRow x (complLoop true (sortAll ahdr bs A) (sortAll bhdr bs B)) ∧
    countRow x (hashInterLoop A B) = countRow x (interLoop (sortAll ahdr bs A) (sortAll bhdr bs B)) := by
  rw [complement_count ahdr bhdr bs A B hw hwb hbs hA hB x,
      complement_strict_count ahdr bhdr bs A B hw hwb hbs hA hB x,
      intersection_count ahdr bhdr bs A B hw hwb hbs hA hB x]
  exact ⟨hashComplLoop_count false rfl A B x, hashComplLoop_count_strict true rfl A B x, hashInterLoop_count A B x⟩

omit hw hwb hbs hA hB in
/-- … and keep the order of `a` (no guard needed) -/
theorem hash_variants_in_order_of_a (strict : Bool) :
    List.Sublist (hashComplLoop strict A B) A ∧ List.Sublist (hashInterLoop A B) A :=
  ⟨hashComplLoop_sublist strict A B, hashInterLoop_sublist A B⟩

omit hw hwb hbs hA hB in
/-- the Counter loops compute difference/intersection for arbitrary (also ragged) rows -/
theorem hash_counts (x : Row) :
    countRow x (hashComplLoop false A B) = countRow x A - countRow x B ∧
    countRow x (hashInterLoop A B) = min (countRow x A) (countRow x B) :=
  ⟨hashComplLoop_count false rfl A B x, hashInterLoop_count A B x⟩

/-! non-vacuity: a rectangular table with a duplicated row and cross-type equal cells -/
omit hw hwb hbs hA hB in
example : Rect 2 [[Val.num .int (.fin 1), .none], [.num .float (.fin 1), .none]] ∧
    countRow [Val.num .bool (.fin 1), .none] [[Val.num .int (.fin 1), .none], [.num .float (.fin 1), .none]] = 2 := by
  constructor
  · intro r hr; simp at hr; rcases hr with rfl | rfl <;> rfl
  · decide

end Petl.C08
