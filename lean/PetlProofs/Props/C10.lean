/-
  C10 — duplicates/unique/distinct/conflicts partition rows by key multiplicity.
  Property theorems only; helpers in PetlProofs/Dedup.lean and PetlProofs/Group.lean.

  `key` is the key extraction; `rows` the data rows of a rectangular table.  The operators run
  their detectors over `sortRows … rows` (C05, any buffer size).
-/
import PetlProofs.Dedup

namespace Petl.C10
open Petl

/-- multiplicity of a row's key in the table -/
def keyMult (kidx : List Nat) (rows : List Row) (r : Row) : Nat :=
  (rows.filter (fun x => Val.eq (getKey kidx x) (getKey kidx r))).length

/-- the run detector of `duplicates` returns exactly the adjacent key groups of size ≥ 2 … -/
theorem duplicates_eq_groups (key : Row → Val) (rows : List Row) :
    dupRows key rows = ((groups key rows).filter (fun g => decide (2 ≤ g.2.length))).flatMap (·.2) :=
  dupRows_groups key rows

/-- … and that of `unique` exactly the groups of size 1 (any arrangement of run lengths) -/
theorem unique_eq_groups (key : Row → Val) (rows : List Row) :
    uniqRows key rows = ((groups key rows).filter (fun g => decide (g.2.length = 1))).flatMap (·.2) :=
  uniqRows_groups key rows

variable (kidx : List Nat) (bs : Option Nat) (hbs : ∀ b, bs = some b → 1 ≤ b) (rows : List Row)
include hbs

/-- duplicates(t) and unique(t) partition the rows of t -/
theorem duplicates_unique_partition :
    (dupRows (getKey kidx) (sortRows (rowLe kidx false) bs rows)
      ++ uniqRows (getKey kidx) (sortRows (rowLe kidx false) bs rows)).Perm rows := by
  obtain ⟨hflat, _, hne⟩ := sortedGroups_spec kidx bs hbs rows
  rw [dupRows_groups, uniqRows_groups]
  have := dup_uniq_perm (sortedGroups kidx bs rows) hne
  rw [hflat] at this
  exact this.trans (sortRows_perm' kidx false bs hbs rows)

theorem group_len_eq_mult (g : Val × List Row) (hg : g ∈ sortedGroups kidx bs rows) (r : Row) (hr : r ∈ g.2) :
    g.2.length = keyMult kidx rows r := by
  obtain ⟨_, hwf, _⟩ := sortedGroups_spec kidx bs hbs rows
  have hk : Val.eq (getKey kidx r) g.1 = true := hwf.keyed g hg r hr
  have hfil := group_eq_input_filter kidx bs hbs rows g hg
  have : (fun x => Val.eq (getKey kidx x) g.1) = (fun x => Val.eq (getKey kidx x) (getKey kidx r)) := by
    funext x
    cases h1 : Val.eq (getKey kidx x) g.1
    · cases h2 : Val.eq (getKey kidx x) (getKey kidx r)
      · rfl
      · have := Val.eq_trans _ _ _ h2 hk; simp [this] at h1
    · exact (Val.eq_trans _ _ _ h1 (by rw [Val.eq_symm]; exact hk)).symm
  unfold keyMult
  rw [← this, ← hfil]

/-- a row is in duplicates exactly when its key occurs more than once in the table -/
theorem mem_duplicates_iff (r : Row) :
    r ∈ dupRows (getKey kidx) (sortRows (rowLe kidx false) bs rows) ↔ (r ∈ rows ∧ 2 ≤ keyMult kidx rows r) := by
  obtain ⟨hflat, _, _⟩ := sortedGroups_spec kidx bs hbs rows
  have hperm := sortRows_perm' kidx false bs hbs rows
  rw [dupRows_groups]
  show r ∈ dupFlat (sortedGroups kidx bs rows) ↔ _
  simp only [dupFlat, List.mem_flatMap, List.mem_filter, decide_eq_true_eq]
  constructor
  · intro ⟨g, ⟨hg, hlen⟩, hr⟩
    have hmem : r ∈ flattenG (sortedGroups kidx bs rows) := by
      simp only [flattenG, List.mem_flatMap]; exact ⟨g, hg, hr⟩
    rw [hflat] at hmem
    exact ⟨hperm.mem_iff.1 hmem, by rw [← group_len_eq_mult kidx bs hbs rows g hg r hr]; exact hlen⟩
  · intro ⟨hr, hm⟩
    have hmem : r ∈ flattenG (sortedGroups kidx bs rows) := by rw [hflat]; exact hperm.mem_iff.2 hr
    simp only [flattenG, List.mem_flatMap] at hmem
    obtain ⟨g, hg, hrg⟩ := hmem
    exact ⟨g, ⟨hg, by rw [group_len_eq_mult kidx bs hbs rows g hg r hrg]; exact hm⟩, hrg⟩

/-- a row is in unique exactly when its key occurs once -/
theorem mem_unique_iff (r : Row) :
    r ∈ uniqRows (getKey kidx) (sortRows (rowLe kidx false) bs rows) ↔ (r ∈ rows ∧ keyMult kidx rows r = 1) := by
  obtain ⟨hflat, _, _⟩ := sortedGroups_spec kidx bs hbs rows
  have hperm := sortRows_perm' kidx false bs hbs rows
  rw [uniqRows_groups]
  show r ∈ uniqFlat (sortedGroups kidx bs rows) ↔ _
  simp only [uniqFlat, List.mem_flatMap, List.mem_filter, decide_eq_true_eq]
  constructor
  · intro ⟨g, ⟨hg, hlen⟩, hr⟩
    have hmem : r ∈ flattenG (sortedGroups kidx bs rows) := by
      simp only [flattenG, List.mem_flatMap]; exact ⟨g, hg, hr⟩
    rw [hflat] at hmem
    exact ⟨hperm.mem_iff.1 hmem, by rw [← group_len_eq_mult kidx bs hbs rows g hg r hr]; exact hlen⟩
  · intro ⟨hr, hm⟩
    have hmem : r ∈ flattenG (sortedGroups kidx bs rows) := by rw [hflat]; exact hperm.mem_iff.2 hr
    simp only [flattenG, List.mem_flatMap] at hmem
    obtain ⟨g, hg, hrg⟩ := hmem
    exact ⟨g, ⟨hg, by rw [group_len_eq_mult kidx bs hbs rows g hg r hrg]; exact hm⟩, hrg⟩

/-- distinct keeps exactly one row per distinct key: the head of each key group, i.e. the first
    row of the input with that key; keys strictly ascending -/
theorem distinct_first_of_each_group :
    distinctRows (getKey kidx) (sortRows (rowLe kidx false) bs rows)
      = (sortedGroups kidx bs rows).filterMap (fun g => rows.find? (fun r => Val.eq (getKey kidx r) g.1)) := by
  rw [distinctRows_groups]
  show heads (sortedGroups kidx bs rows) = _
  unfold heads
  have : ∀ (gs : List (Val × List Row)), (∀ g ∈ gs, g ∈ sortedGroups kidx bs rows) →
      gs.filterMap (fun g => g.2.head?) =
      gs.filterMap (fun g => rows.find? (fun r => Val.eq (getKey kidx r) g.1)) := by
    intro gs
    induction gs with
    | nil => intro _; rfl
    | cons g gs ih =>
      intro h
      simp only [List.filterMap_cons]
      rw [group_eq_input_filter kidx bs hbs rows g (h g (by simp)), head?_filter_eq_find?,
          ih (fun g' hg' => h g' (List.mem_cons_of_mem _ hg'))]
  exact this _ (fun g hg => hg)

/-- distinct(count=…): the rows are those of distinct, and the count column adds up to nrows -/
theorem distinct_count_sum_nrows :
    (distinctCountRows (getKey kidx) (sortRows (rowLe kidx false) bs rows)).map List.dropLast
      = distinctRows (getKey kidx) (sortRows (rowLe kidx false) bs rows) ∧
    ((distinctCountRows (getKey kidx) (sortRows (rowLe kidx false) bs rows)).map lastCount).sum = rows.length := by
  have hlen : (sortRows (rowLe kidx false) bs rows).length = rows.length :=
    (sortRows_perm' kidx false bs hbs rows).length_eq
  cases hs : sortRows (rowLe kidx false) bs rows with
  | nil => rw [hs] at hlen; simp [distinctCountRows, distinctRows, distAux, ← hlen]
  | cons r rest =>
    rw [hs] at hlen
    refine ⟨?_, ?_⟩
    · simp only [distinctCountRows, distinctRows, distAux]
      rw [distCountAux_rows (getKey kidx) rest r r 1 (Val.eq_refl _)]; simp
    · simp only [distinctCountRows]
      rw [distCountAux_sum]; simp at hlen ⊢; omega

omit hbs in
/-- conflicts returns only rows of duplicate groups, in their order -/
theorem conflicts_sublist_duplicates (key : Row → Val) (sel : Nat → Bool) (missing : Val) (rs : List Row) :
    List.Sublist (confRows key sel missing rs) (dupRows key rs) := by
  cases rs with
  | nil => simp [confRows, dupRows]
  | cons r rest =>
    have := confAux_sublist key sel missing rest r false false (fun h => by cases h)
    simpa [confRows, dupRows] using this

omit hbs in
/-- isunique is true exactly when no two rows have equal key values -/
theorem isunique_iff (vs : List Val) :
    isUniqueVals vs = true ↔ vs.Pairwise (fun a b => Val.eq a b = false) := by
  rw [isUniqueVals, isUniqueAux_iff]; simp

/-! non-vacuity: a table in which one key occurs twice (across number types) and one once -/
omit hbs in
example : keyMult [0] [[.num .int (.fin 1)], [.str [97]], [.num .float (.fin 1)]] [.num .bool (.fin 1)] = 2 ∧
    keyMult [0] [[.num .int (.fin 1)], [.str [97]], [.num .float (.fin 1)]] [.str [97]] = 1 := by decide

end Petl.C10
