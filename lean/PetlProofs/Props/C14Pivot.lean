/-
  C14 — pivot: cell (r, c) is the aggregate of exactly the rows carrying that pair of values.
  Property theorems only; helpers in PetlProofs/Pivot.lean.
-/
import PetlProofs.Pivot
namespace Petl.C14
open Petl Petl.Pivot

/-- `pivot`: the rows of the table are first split by the value of `f1` (one output row each, ascending), each
    block then by the value of `f2`; the block for the pair (g1, g2) is exactly the input rows carrying that pair
    of values, in input order — whatever the buffer size of the sort. -/
theorem pivot_blocks (f1 f2 : Nat) (bs : Option Nat) (hbs : ∀ b, bs = some b → 1 ≤ b) (rows : List Row) :
    let sorted := sortRows (rowLe [f1, f2] false) bs rows
    let outer := groups (fun r => getCell r f1) sorted
    flattenG outer = sorted ∧ GroupsWF (fun r => getCell r f1) outer ∧
    ∀ g1 ∈ outer,
      g1.2 = sorted.filter (fun r => Val.eq (getCell r f1) g1.1) ∧
      GroupsWF (fun r => getCell r f2) (groups (fun r => getCell r f2) g1.2) ∧
      flattenG (groups (fun r => getCell r f2) g1.2) = g1.2 ∧
      ∀ g2 ∈ groups (fun r => getCell r f2) g1.2,
        g2.2 ≠ [] ∧
        g2.2 = rows.filter (fun r => Val.eq (getCell r f1) g1.1 && Val.eq (getCell r f2) g2.1) := by
  intro sorted outer
  have hs : sorted.Pairwise (fun a b => Val.lt (getKey [f1, f2] b) (getKey [f1, f2] a) = false) := by
    have := (Petl.sortedGroups_spec [f1, f2] bs hbs rows)
    have hs : SortedL (rowLe [f1, f2] false) (sortRows (rowLe [f1, f2] false) bs rows) := by
      cases bs with
      | none => exact (mergeSort_isStableSort _ (rowLe_totalPre [f1, f2] false) rows).1
      | some b =>
        rw [sortRows_eq_mergeSort _ (rowLe_totalPre [f1, f2] false) b (hbs b rfl)]
        exact (mergeSort_isStableSort _ (rowLe_totalPre [f1, f2] false) rows).1
    simpa [SortedL, rowLe] using hs
  have hs1 : sorted.Pairwise (fun a b => Val.lt (getCell b f1) (getCell a f1) = false) :=
    hs.imp (fun {a b} h => lex_first f1 f2 a b h)
  obtain ⟨hflat, hwf, _⟩ := groups_spec (fun r => getCell r f1) sorted hs1
  refine ⟨hflat, hwf, ?_⟩
  intro g1 hg1
  have hg1f : g1.2 = sorted.filter (fun r => Val.eq (getCell r f1) g1.1) := by
    have := filter_flattenG_eq_group (fun r => getCell r f1) _ hwf g1 hg1
    rw [hflat] at this; exact this.symm
  have hk1 : ∀ r ∈ g1.2, Val.eq (getCell r f1) g1.1 = true := hwf.keyed g1 hg1
  have hs2 : g1.2.Pairwise (fun a b => Val.lt (getCell b f2) (getCell a f2) = false) := by
    have hsub : List.Sublist g1.2 sorted := by rw [hg1f]; exact List.filter_sublist
    have hp := hs.sublist hsub
    refine List.Pairwise.imp_of_mem ?_ hp
    intro a b ha hb h
    apply lex_second f1 f2 a b h
    exact Val.eq_trans _ _ _ (hk1 b hb) (by rw [Val.eq_symm]; exact hk1 a ha)
  obtain ⟨hflat2, hwf2, hne2⟩ := groups_spec (fun r => getCell r f2) g1.2 hs2
  refine ⟨hg1f, hwf2, hflat2, ?_⟩
  intro g2 hg2
  refine ⟨hne2 g2 hg2, ?_⟩
  have h2 := filter_flattenG_eq_group (fun r => getCell r f2) _ hwf2 g2 hg2
  rw [hflat2, hg1f, List.filter_filter] at h2
  -- name the class by a representative row
  cases hg : g2.2 with
  | nil => exact absurd hg (hne2 g2 hg2)
  | cons a rest =>
    have ha2 : a ∈ g2.2 := by rw [hg]; simp
    have ha1 : a ∈ g1.2 := by
      rw [← hflat2]; simp only [flattenG, List.mem_flatMap]; exact ⟨g2, hg2, ha2⟩
    have e1 : Val.eq (getCell a f1) g1.1 = true := hk1 a ha1
    have e2 : Val.eq (getCell a f2) g2.1 = true := hwf2.keyed g2 hg2 a ha2
    have hf : (fun r => Val.eq (getCell r f2) g2.1 && Val.eq (getCell r f1) g1.1)
        = (fun r => Val.eq (getKey [f1, f2] r) (getKey [f1, f2] a)) := by
      funext r
      rw [eq_pairKey, eq_congr_right _ _ _ e1, eq_congr_right _ _ _ e2, Bool.and_comm]
    have hf' : (fun r => Val.eq (getCell r f1) g1.1 && Val.eq (getCell r f2) g2.1)
        = (fun r => Val.eq (getKey [f1, f2] r) (getKey [f1, f2] a)) := by
      funext r
      rw [eq_pairKey, eq_congr_right _ _ _ e1, eq_congr_right _ _ _ e2]
    rw [← hg, ← h2, hf, hf']
    exact sortRows_filter_key [f1, f2] bs hbs rows a

/-- `pivot`'s cell for the output row of `g1` and the column value `v2`: `missing` when no row of the block carries a
    value equal to `v2`, otherwise the aggregate of exactly the input rows carrying the pair, in input order -/
theorem pivot_cell (f1 f2 f3 : Nat) (agg : AggFn) (missing : Val) (bs : Option Nat)
    (hbs : ∀ b, bs = some b → 1 ≤ b) (rows : List Row) (g1 : Val × List Row)
    (hg1 : g1 ∈ groups (fun r => getCell r f1) (sortRows (rowLe [f1, f2] false) bs rows)) (v2 : Val) :
    (match (groups (fun r => getCell r f2) g1.2).find? (fun g2 => Val.pyEq g2.1 v2) with
      | none => Except.ok missing
      | some g2 => agg.apply (g2.2.map (fun r => getCell r f3)))
    = (match (groups (fun r => getCell r f2) g1.2).find? (fun g2 => Val.pyEq g2.1 v2) with
      | none => Except.ok missing
      | some g2 => agg.apply ((rows.filter (fun r => Val.eq (getCell r f1) g1.1 && Val.eq (getCell r f2) g2.1)).map
          (fun r => getCell r f3))) := by
  obtain ⟨_, _, h⟩ := pivot_blocks f1 f2 bs hbs rows
  obtain ⟨_, _, _, hcell⟩ := h g1 hg1
  cases hf : (groups (fun r => getCell r f2) g1.2).find? (fun g2 => Val.pyEq g2.1 v2) with
  | none => rfl
  | some g2 =>
    have hmem := List.mem_of_find?_eq_some hf
    simp only
    rw [← (hcell g2 hmem).2]

theorem mapGroups_congr (f f' : Val × List Row → Except Err Row) :
    ∀ gs : List (Val × List Row), (∀ g ∈ gs, f g = f' g) → mapGroups f gs = mapGroups f' gs
  | [], _ => rfl
  | g :: gs, h => by
    have h1 := h g (by simp)
    have h2 := mapGroups_congr f f' gs (fun g' hg' => h g' (by simp [hg']))
    simp only [mapGroups, h1, h2]

/-- the whole of `pivot`'s data rows: one row per value of `f1` (ascending), whose cell under the column value `v2` is
    `missing` or the aggregate of exactly the input rows carrying the pair, in input order -/
theorem pivotRows_spec (f1 f2 f3 : Nat) (f2vals : List Val) (agg : AggFn) (missing : Val) (bs : Option Nat)
    (hbs : ∀ b, bs = some b → 1 ≤ b) (rows : List Row) :
    pivotRows f1 f2 f3 f2vals agg missing bs rows =
      mapGroups (fun g1 => do
        let cells ← f2vals.mapM (fun v2 =>
          match (groups (fun r => getCell r f2) g1.2).find? (fun g2 => Val.pyEq g2.1 v2) with
          | none => Except.ok missing
          | some g2 => agg.apply ((rows.filter (fun r => Val.eq (getCell r f1) g1.1 && Val.eq (getCell r f2) g2.1)).map
              (fun r => getCell r f3)))
        pure (g1.1 :: cells))
      (groups (fun r => getCell r f1) (sortRows (rowLe [f1, f2] false) bs rows)) := by
  unfold pivotRows
  apply mapGroups_congr
  intro g1 hg1
  dsimp only
  obtain ⟨_, _, hb⟩ := pivot_blocks f1 f2 bs hbs rows
  obtain ⟨_, _, _, hcell⟩ := hb g1 hg1
  congr 1
  congr 1
  funext v2
  cases hf : List.find? (fun g2 => Val.pyEq g2.1 v2) (groups (fun r => getCell r f2) g1.2) with
  | none => rfl
  | some g2 =>
    dsimp only
    rw [← (hcell g2 (List.mem_of_find?_eq_some hf)).2]

example : (pivotRows 0 1 2 [.str [112], .str [113]] .sum .none (some 1)
    [[.str [122], .str [113], intVal 2], [.str [120], .str [112], intVal 1], [.str [122], .str [113], intVal 5]]).1.length
    = 2 := by decide +kernel
end Petl.C14
