/-
  C13 — selections return exactly the satisfying rows; complement is the exact rest.
-/
import Petl.Select
import PetlProofs.Props.C04
import PetlProofs.RecastMelt

namespace Petl.C13
open Petl

/-- select returns, in input order, exactly the rows that satisfy the predicate
    (missing cells read as `missing`) -/
theorem select_is_filter (idx : List Nat) (missing : Val) (p : Val → Bool) (rows : List Row) :
    fieldSelect idx missing p false rows = rows.filter (fun r => p (fieldValue idx missing r)) ∧
    fieldSelect idx missing p true rows = rows.filter (fun r => !p (fieldValue idx missing r)) := by
  constructor <;> (unfold fieldSelect; congr 1; funext r; cases p (fieldValue idx missing r) <;> rfl)

/-- the selection and its complement partition the input: each is a sublist (order preserved),
    together they are a permutation of the input, and no row satisfies both -/
theorem select_complement_partition (idx : List Nat) (missing : Val) (p : Val → Bool) (rows : List Row) :
    List.Sublist (fieldSelect idx missing p false rows) rows ∧
    List.Sublist (fieldSelect idx missing p true rows) rows ∧
    (fieldSelect idx missing p false rows ++ fieldSelect idx missing p true rows).Perm rows ∧
    (fieldSelect idx missing p false rows).length + (fieldSelect idx missing p true rows).length = rows.length := by
  obtain ⟨h1, h2⟩ := select_is_filter idx missing p rows
  rw [h1, h2]
  refine ⟨List.filter_sublist, List.filter_sublist, ?_, ?_⟩
  · exact List.filter_append_perm _ rows
  · have := (List.filter_append_perm (fun r => p (fieldValue idx missing r)) rows).length_eq
    simpa using this

theorem rowselect_partition (p : Row → Bool) (rows : List Row) :
    (rowSelect p false rows ++ rowSelect p true rows).Perm rows ∧
    List.Sublist (rowSelect p false rows) rows ∧ List.Sublist (rowSelect p true rows) rows := by
  have h1 : rowSelect p false rows = rows.filter p := by
    unfold rowSelect; congr 1; funext r; cases p r <;> rfl
  have h2 : rowSelect p true rows = rows.filter (fun r => !p r) := by
    unfold rowSelect; congr 1; funext r; cases p r <;> rfl
  rw [h1, h2]
  exact ⟨List.filter_append_perm _ rows, List.filter_sublist, List.filter_sublist⟩

/-- the comparison selectors select by the ordering of C04 (for every cell value `v`, also None
    and values of another type than the reference value) -/
theorem comparison_selectors_use_C04_order (r v : Val) :
    (Pred.lt r).eval v = Val.lt v r ∧
    (Pred.le r).eval v = (Val.lt v r || Val.eq v r) ∧
    (Pred.gt r).eval v = Val.lt r v ∧
    (Pred.ge r).eval v = (Val.lt r v || Val.eq v r) := by
  refine ⟨?_, ?_, rfl, ?_⟩
  · simp only [Pred.eval]; exact C04.gt_iff_lt_swap r v
  · simp only [Pred.eval]; rw [C04.ge_iff_le_swap]; simp [Val.le]
  · simp only [Pred.eval, Val.le]; rw [Val.eq_symm]

theorem selectlt_ge_complement (r v : Val) : (Pred.lt r).eval v = !(Pred.ge r).eval v := by
  obtain ⟨h1, _, _, h4⟩ := comparison_selectors_use_C04_order r v
  rw [h1, h4]
  rcases C04.exactly_one v r with ⟨a, b, c⟩ | ⟨a, b, c⟩ | ⟨a, b, c⟩ <;>
    rw [C04.gt_iff_lt_swap] at c <;> simp [a, b, c]

theorem selectle_gt_complement (r v : Val) : (Pred.le r).eval v = !(Pred.gt r).eval v := by
  obtain ⟨_, h2, h3, _⟩ := comparison_selectors_use_C04_order r v
  rw [h2, h3]
  rcases C04.exactly_one v r with ⟨a, b, c⟩ | ⟨a, b, c⟩ | ⟨a, b, c⟩ <;>
    rw [C04.gt_iff_lt_swap] at c <;> simp [a, b, c]

/-- the range selectors are the documented conjunctions -/
theorem range_selectors (a b v : Val) :
    (Pred.rangeOpenLeft a b).eval v = ((Pred.ge a).eval v && (Pred.lt b).eval v) ∧
    (Pred.rangeOpenRight a b).eval v = ((Pred.gt a).eval v && (Pred.le b).eval v) ∧
    (Pred.rangeOpen a b).eval v = ((Pred.ge a).eval v && (Pred.le b).eval v) ∧
    (Pred.rangeClosed a b).eval v = ((Pred.gt a).eval v && (Pred.lt b).eval v) := by
  refine ⟨rfl, rfl, rfl, ?_⟩
  simp only [Pred.eval]; rw [C04.gt_iff_lt_swap]

/-- the negated selectors are exact complements -/
theorem negated_selectors (r : Val) (vs : List Val) (v : Val) :
    (Pred.ne r).eval v = !(Pred.eq r).eval v ∧
    (Pred.notIn vs).eval v = !(Pred.isIn vs).eval v ∧
    Pred.notNone.eval v = !Pred.isNone.eval v ∧
    Pred.isFalse.eval v = !Pred.isTrue.eval v := ⟨rfl, rfl, rfl, rfl⟩

/-- hence e.g. selectnotnone(t) = selectnone(t, complement=True), for every table -/
theorem negated_selector_is_complement (idx : List Nat) (missing : Val) (p q : Pred)
    (h : ∀ v, q.eval v = !p.eval v) (rows : List Row) :
    fieldSelect idx missing q.eval false rows = fieldSelect idx missing p.eval true rows := by
  unfold fieldSelect; congr 1; funext r; rw [h]; cases p.eval (fieldValue idx missing r) <;> rfl

/-! ### positional selection -/

theorem everyNth_getElem? {α : Type} (step : Nat) (hs : 1 ≤ step) :
    ∀ (k : Nat) (l : List α), (everyNth step l)[k]? = l[k * step]? := by
  intro k
  induction k with
  | zero => intro l; cases l <;> simp [everyNth]
  | succ k ih =>
    intro l
    cases l with
    | nil => simp [everyNth]
    | cons x xs =>
      rw [everyNth]
      simp only [List.getElem?_cons_succ]
      rw [ih (xs.drop (step - 1)), List.getElem?_drop]
      have : (k + 1) * step = (step - 1 + k * step) + 1 := by
        rw [Nat.succ_mul]; omega
      rw [this, List.getElem?_cons_succ]

/-- rowslice/head select rows by position exactly as itertools.islice: the k-th selected row is
    row `start + k*step`, as long as that index is below `stop` -/
theorem rowslice_eq_islice {α : Type} (start : Nat) (stop : Option Nat) (step : Nat) (hs : 1 ≤ step)
    (l : List α) (k : Nat) :
    (islice start stop step l)[k]? =
      if (match stop with | some s => decide (start + k * step < s) | none => true) then l[start + k * step]? else none := by
  unfold islice
  rw [everyNth_getElem? step hs, List.getElem?_drop]
  cases stop with
  | none => simp
  | some s =>
    simp only [List.getElem?_take]
    by_cases h : start + k * step < s <;> simp [h]

theorem head_is_take {α : Type} (n : Nat) (l : List α) : islice 0 (some n) 1 l = l.take n := by
  apply List.ext_getElem?
  intro k
  rw [rowslice_eq_islice 0 (some n) 1 (by omega) l k]
  simp only [Nat.zero_add, Nat.mul_one, List.getElem?_take]
  by_cases h : k < n <;> simp [h]

/-- tail(n) keeps the last n rows in order -/
theorem tail_is_suffix {α : Type} (n : Nat) (l : List α) :
    tailRows n l = l.drop (l.length - n) ∧ (tailRows n l).length = min n l.length := by
  refine ⟨rfl, ?_⟩
  simp [tailRows, List.length_drop]; omega

/-! non-vacuity: a reference value of another type, a None cell and a missing cell -/
/-- a compound field is read cell by cell: an absent cell as `missing`, a present one as it is
    (not the whole key as `missing`, which is what petl did before commit 28eb368) -/
theorem compound_field_cells (i j : Nat) (missing : Val) (r : Row) :
    fieldValue [i, j] missing r = .seq false [cellOr missing r i, cellOr missing r j] := rfl

theorem cellOr_absent (missing : Val) (r : Row) (i : Nat) (h : r.length ≤ i) : cellOr missing r i = missing := by
  simp [cellOr, h]

theorem cellOr_present (missing : Val) (r : Row) (i : Nat) (h : i < r.length) : cellOr missing r i = getCell r i := by
  have : ¬ r.length ≤ i := by omega
  simp [cellOr, this]

/-- the tables of `facet` cover the input: every row, ragged or not, is in the selection for its own key … -/
theorem facet_covers (idx : List Nat) (missing : Val) (rows : List Row) (r : Row) (h : r ∈ rows) :
    r ∈ fieldSelect idx missing (fun v => Val.pyEq v (fieldValue idx missing r)) false rows := by
  unfold fieldSelect
  simp only [List.mem_filter]
  refine ⟨h, ?_⟩
  simp [Petl.RecastMelt.pyEq_refl]

/-- … and only in selections for keys equal to its own -/
theorem facet_only_own_key (idx : List Nat) (missing k : Val) (rows : List Row) (r : Row)
    (h : r ∈ fieldSelect idx missing (fun v => Val.pyEq v k) false rows) :
    r ∈ rows ∧ Val.pyEq (fieldValue idx missing r) k = true := by
  unfold fieldSelect at h
  simp only [List.mem_filter] at h
  obtain ⟨h1, h2⟩ := h
  refine ⟨h1, ?_⟩
  cases hk : Val.pyEq (fieldValue idx missing r) k <;> simp [hk] at h2 ⊢

/-- the ragged row of the repaired defect: key fields 0 and 1, the row `(1,)`: its key is `(1, missing)` -/
example : fieldValue [0, 1] .none [.num .int (.fin 1)] = .seq false [.num .int (.fin 1), .none] := by
  simp [fieldValue, cellOr, getCell]

/-- `search` and `searchcomplement` partition the rows, whatever the pattern matches and however ragged the table is:
    each is a sublist (order kept), together they are a permutation of the input -/
theorem search_partition (idx : Option (List Nat)) (rows : List (Row × List Bool)) :
    (searchRows idx false rows ++ searchRows idx true rows).Perm (rows.map (·.1)) ∧
    List.Sublist (searchRows idx false rows) (rows.map (·.1)) ∧
    List.Sublist (searchRows idx true rows) (rows.map (·.1)) := by
  unfold searchRows
  have h1 : rows.filter (fun rm => searchMatch idx rm.1 rm.2 != false) = rows.filter (fun rm => searchMatch idx rm.1 rm.2) := by
    congr 1; funext rm; cases searchMatch idx rm.1 rm.2 <;> rfl
  have h2 : rows.filter (fun rm => searchMatch idx rm.1 rm.2 != true) = rows.filter (fun rm => !searchMatch idx rm.1 rm.2) := by
    congr 1; funext rm; cases searchMatch idx rm.1 rm.2 <;> rfl
  rw [h1, h2]
  refine ⟨?_, (List.filter_sublist).map _, (List.filter_sublist).map _⟩
  rw [← List.map_append]
  exact (List.filter_append_perm _ rows).map _

/-- a row too short to have the field searched never matches: it belongs to the complement -/
theorem search_short_row_in_complement (i : Nat) (r : Row) (m : List Bool) (h : r.length ≤ i) :
    searchMatch (some [i]) r m = false := by
  have : ¬ i < r.length := by omega
  simp [searchMatch, this]

example : (Pred.lt (.str [97])).eval (.num .int (.fin 5)) = true ∧ (Pred.lt (.num .int (.fin 5))).eval .none = true ∧
    Val.pyEq (fieldValue [1] (.str [63]) [.none]) (.str [63]) = true := by decide

end Petl.C13
