/-
  C19 — the failonerror policy decides exactly what a failing conversion becomes.
  Converters / mappers are arbitrary partial functions; any set of failing rows and fields.
-/
import Petl.ErrPolicy

namespace Petl.C19
open Petl

/-- what a cell becomes when nothing is raised: `onErr` replaces a failing conversion -/
def cellOut (onErr : Err → Val) (conv : Option Conv) (v : Val) : Val :=
  match conv with
  | none => v
  | some c => match c v with | .ok w => w | .error e => onErr e

def rowOut (onErr : Err → Val) (convs : Nat → Option Conv) : Nat → Row → Row
  | _, [] => []
  | i, v :: vs => cellOut onErr (convs i) v :: rowOut onErr convs (i + 1) vs

def cellFails (conv : Option Conv) (v : Val) : Bool :=
  match conv with
  | none => false
  | some c => match c v with | .ok _ => false | .error _ => true

def rowFails (convs : Nat → Option Conv) : Nat → Row → Bool
  | _, [] => false
  | i, v :: vs => cellFails (convs i) v || rowFails convs (i + 1) vs

theorem transformCells_total (pol : Policy) (hp : pol ≠ .raise) (ev : Val) (convs : Nat → Option Conv) :
    ∀ (r : Row) (i : Nat), transformCells pol ev convs i r =
      .ok (rowOut (fun e => if pol = .inline then excVal e else ev) convs i r) := by
  intro r
  induction r with
  | nil => intro i; rfl
  | cons v vs ih =>
    intro i
    simp only [transformCells, rowOut, ih (i + 1)]
    cases hc : convs i with
    | none => simp [transformValue, cellOut, Except.map]
    | some c =>
      cases hcv : c v with
      | ok w => simp [transformValue, cellOut, hcv, Except.map]
      | error e => cases pol <;> simp_all [transformValue, cellOut, Except.map]

/-- failonerror=False: nothing is raised, every row is kept (same number, same order), a failing
    cell becomes errorvalue and every other cell is its conversion -/
theorem policy_false_total (ev : Val) (convs : Nat → Option Conv) (rows : List Row) :
    convertRows .suppress ev convs rows = (rows.map (rowOut (fun _ => ev) convs 0), none) := by
  induction rows with
  | nil => rfl
  | cons r rs ih =>
    simp only [convertRows, transformCells_total .suppress (by decide) ev convs r 0, ih]
    simp

/-- failonerror='inline': as above with the exception object in the failing cell -/
theorem policy_inline_cell (ev : Val) (convs : Nat → Option Conv) (rows : List Row) :
    convertRows .inline ev convs rows = (rows.map (rowOut excVal convs 0), none) := by
  induction rows with
  | nil => rfl
  | cons r rs ih =>
    simp only [convertRows, transformCells_total .inline (by decide) ev convs r 0, ih]
    simp

theorem transformCells_raise (ev : Val) (convs : Nat → Option Conv) :
    ∀ (r : Row) (i : Nat),
      (rowFails convs i r = false → ∀ onErr, transformCells .raise ev convs i r = .ok (rowOut onErr convs i r)) ∧
      (rowFails convs i r = true → ∃ e, transformCells .raise ev convs i r = .error e) := by
  intro r
  induction r with
  | nil => intro i; simp [rowFails, transformCells, rowOut]
  | cons v vs ih =>
    intro i
    obtain ⟨ih1, ih2⟩ := ih (i + 1)
    simp only [rowFails, transformCells, rowOut, Bool.or_eq_false_iff, Bool.or_eq_true]
    cases hc : convs i with
    | none =>
      simp only [cellFails, transformValue, cellOut]
      refine ⟨fun h onErr => by simp [ih1 h.2 onErr, Except.map], fun h => ?_⟩
      rcases h with h | h
      · cases h
      · obtain ⟨e, he⟩ := ih2 h; exact ⟨e, by simp [he, Except.map]⟩
    | some c =>
      cases hcv : c v with
      | ok w =>
        simp only [cellFails, transformValue, cellOut, hcv]
        refine ⟨fun h onErr => by simp [ih1 h.2 onErr, Except.map], fun h => ?_⟩
        rcases h with h | h
        · cases h
        · obtain ⟨e, he⟩ := ih2 h; exact ⟨e, by simp [he, Except.map]⟩
      | error e =>
        simp only [cellFails, transformValue, cellOut, hcv]
        exact ⟨fun h => by simp at h, fun _ => ⟨e, rfl⟩⟩

/-- failonerror=True: exactly the rows before the first failing row are delivered (converted),
    then the exception surfaces; with no failing row the whole table is delivered -/
theorem policy_true_prefix (ev : Val) (convs : Nat → Option Conv) (rows : List Row) (onErr : Err → Val) :
    (convertRows .raise ev convs rows).1 =
      (rows.takeWhile (fun r => !rowFails convs 0 r)).map (rowOut onErr convs 0) ∧
    ((convertRows .raise ev convs rows).2 = none ↔ rows.all (fun r => !rowFails convs 0 r) = true) := by
  induction rows with
  | nil => simp [convertRows]
  | cons r rs ih =>
    obtain ⟨h1, h2⟩ := transformCells_raise ev convs r 0
    cases hf : rowFails convs 0 r
    · rw [convertRows, h1 hf onErr]
      simp only [List.takeWhile_cons, hf, Bool.not_false, if_true, List.map_cons, List.all_cons, Bool.true_and]
      exact ⟨by rw [← ih.1], ih.2⟩
    · obtain ⟨e, he⟩ := h2 hf
      rw [convertRows, he]
      simp [List.takeWhile_cons, hf]

/-- rows without a failing cell are converted identically under all three policies -/
theorem nonfailing_identical_across_policies (pol : Policy) (ev : Val) (convs : Nat → Option Conv) (r : Row)
    (h : rowFails convs 0 r = false) :
    transformCells pol ev convs 0 r = transformCells .raise ev convs 0 r := by
  have hr := (transformCells_raise ev convs r 0).1 h
  cases pol with
  | raise => rfl
  | suppress => rw [transformCells_total .suppress (by decide), hr]
  | inline => rw [transformCells_total .inline (by decide), hr]

/-- … and a non-failing cell of a failing row is the same under the two non-raising policies -/
theorem nonfailing_cell_same (ev : Val) (conv : Option Conv) (v : Val) (h : cellFails conv v = false) :
    cellOut (fun _ => ev) conv v = cellOut excVal conv v := by
  cases conv with
  | none => rfl
  | some c =>
    simp only [cellFails] at h
    simp only [cellOut]
    cases hc : c v <;> simp_all

/-- rowmap: False drops exactly the failing rows; True delivers the prefix then raises;
    'inline' delivers the exception as a one-cell row -/
theorem rowmap_policies (f : Row → Except Err Row) (rows : List Row) :
    rowmapRows .suppress f rows = (rows.filterMap (fun r => (f r).toOption), none) ∧
    (rowmapRows .inline f rows = (rows.map (fun r => match f r with | .ok r' => r' | .error e => [excVal e]), none)) ∧
    (rowmapRows .raise f rows).1 = (rows.takeWhile (fun r => (f r).toOption.isSome)).filterMap (fun r => (f r).toOption) := by
  refine ⟨?_, ?_, ?_⟩
  · induction rows with
    | nil => rfl
    | cons r rs ih =>
      simp only [rowmapRows, List.filterMap_cons]
      cases hf : f r <;> simp [ih, Except.toOption]
  · induction rows with
    | nil => rfl
    | cons r rs ih =>
      simp only [rowmapRows, List.map_cons]
      cases hf : f r <;> simp [ih]
  · induction rows with
    | nil => rfl
    | cons r rs ih =>
      simp only [rowmapRows, List.takeWhile_cons]
      cases hf : f r with
      | error e => simp [Except.toOption]
      | ok r' => simp [ih, Except.toOption, List.filterMap_cons, hf]

/-- rowmapmany with failonerror=False keeps the rows a generator produced before failing -/
theorem rowmapmany_keeps_produced (f : Row → List Row × Option Err) (rows : List Row) :
    rowmapmanyRows .suppress f rows = (rows.flatMap (fun r => (f r).1), none) := by
  induction rows with
  | nil => rfl
  | cons r rs ih =>
    simp only [rowmapmanyRows, List.flatMap_cons]
    rcases hf : f r with ⟨produced, e⟩
    cases e <;> simp [ih]

/-- the global default is consulted when the view is built, never when it is iterated -/
theorem default_from_config_at_construction (arg : Option Policy) (cfg0 cfg1 : Policy) :
    (PolicyView.make arg cfg0).policyAtIteration cfg1 = arg.getD cfg0 := rfl

/-! non-vacuity: a converter that fails on some values and not on others -/
example : cellFails (some (failOn [.num .int (.fin 1)] .value)) (.num .float (.fin 1)) = true ∧
    cellFails (some (failOn [.num .int (.fin 1)] .value)) (.str [97]) = false := by decide

end Petl.C19
