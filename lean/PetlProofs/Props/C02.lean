/-
  C02 — pipelines are lazy: nothing is read until rows are requested, and then only O(k).

  `runLazy t k s src` models a consumer taking k rows from a streaming operator under generator
  semantics.  Partial by nature: CPython's generator protocol is the execution model assumed; the
  tie to the code is the pull-count correspondence and the constructor-purity table.
-/
import Petl.Lazy
import Petl.Gen.CtorReads
import Petl.Gen.Materialise

namespace Petl.C02
open Petl

variable {σ : Type}

/-- requesting no rows pulls no rows: building (and holding) a view costs nothing -/
theorem construct_pulls_zero (t : Transducer σ) (s : σ) (src : List Row) : runLazy t 0 s src = ([], 0) := by
  cases src <;> rfl

/-- laziness never changes what is delivered: the first k rows of the full output -/
theorem runLazy_outputs (t : Transducer σ) : ∀ (src : List Row) (k : Nat) (s : σ),
    (runLazy t k s src).1 = (runAll t s src).take k := by
  intro src
  induction src with
  | nil => intro k s; cases k <;> simp [runLazy, runAll]
  | cons r rest ih =>
    intro k s
    cases k with
    | zero => simp [runLazy]
    | succ k =>
      simp only [runLazy, runAll]
      by_cases h : k + 1 ≤ (t.step s r).2.length
      · simp only [h, if_true]
        rw [List.take_append_of_le_length h]
      · simp only [h, if_false]
        rw [ih, List.take_append, List.take_of_length_le (l := (t.step s r).2) (i := k + 1) (by omega)]

/-- never more source rows than there are -/
theorem pulls_le_length (t : Transducer σ) : ∀ (src : List Row) (k : Nat) (s : σ),
    (runLazy t k s src).2 ≤ src.length := by
  intro src
  induction src with
  | nil => intro k s; cases k <;> simp [runLazy]
  | cons r rest ih =>
    intro k s
    cases k with
    | zero => simp [runLazy]
    | succ k =>
      simp only [runLazy]
      by_cases h : k + 1 ≤ (t.step s r).2.length
      · simp [h]
      · simp only [h, if_false, List.length_cons]
        have := ih (k + 1 - (t.step s r).2.length) (t.step s r).1
        omega

/-- minimal prefix: the rows pulled are the least prefix of the source whose image contains k
    output rows — one row fewer would not have been enough -/
theorem minimal_prefix (t : Transducer σ) : ∀ (src : List Row) (k : Nat) (s : σ),
    (runLazy t k s src).2 = 0 ∨ (runBody t s (src.take ((runLazy t k s src).2 - 1))).length < k := by
  intro src
  induction src with
  | nil => intro k s; cases k <;> simp [runLazy]
  | cons r rest ih =>
    intro k s
    cases k with
    | zero => simp [runLazy]
    | succ k =>
      right
      simp only [runLazy]
      by_cases h : k + 1 ≤ (t.step s r).2.length
      · simp [h, runBody]
      · simp only [h, if_false, Nat.add_sub_cancel]
        rcases ih (k + 1 - (t.step s r).2.length) (t.step s r).1 with h0 | h1
        · rw [h0]; simp [runBody]
        · cases hn : (runLazy t (k + 1 - (t.step s r).2.length) (t.step s r).1 rest).2 with
          | zero => simp [runBody]
          | succ n =>
            rw [hn] at h1
            simp only [List.take_succ_cons, runBody, List.length_append]
            simp only [Nat.add_sub_cancel] at h1
            omega

/-- the cost does not depend on the length of the source: if the k rows are produced while the
    source is consumed, nothing after them is ever looked at — same rows and same number of pulls
    for a 100-row and a 10 000-row source sharing that prefix -/
theorem length_independent (t : Transducer σ) : ∀ (src more : List Row) (k : Nat) (s : σ),
    k ≤ (runBody t s src).length → runLazy t k s (src ++ more) = runLazy t k s src := by
  intro src
  induction src with
  | nil =>
    intro more k s h
    simp [runBody] at h; subst h
    cases more <;> rfl
  | cons r rest ih =>
    intro more k s h
    cases k with
    | zero => rfl
    | succ k =>
      simp only [List.cons_append, runLazy]
      by_cases hk : k + 1 ≤ (t.step s r).2.length
      · simp [hk]
      · simp only [hk, if_false]
        simp only [runBody, List.length_append] at h
        rw [ih more (k + 1 - (t.step s r).2.length) (t.step s r).1 (by omega)]

/-- one-to-one operators: k output rows cost exactly k source rows (fewer only if the source is shorter) -/
theorem oneToOne_pulls (f : Row → Row) : ∀ (src : List Row) (k : Nat),
    (runLazy (mapT f) k () src).2 = min k src.length := by
  intro src
  induction src with
  | nil => intro k; cases k <;> simp [runLazy, mapT]
  | cons r rest ih =>
    intro k
    cases k with
    | zero => simp [runLazy]
    | succ k =>
      simp only [runLazy, mapT, List.length_singleton]
      by_cases h : k + 1 ≤ 1
      · have : k = 0 := by omega
        subst this; simp
      · simp only [h, if_false]
        have := ih k
        simp only [mapT] at this
        rw [show k + 1 - 1 = k by omega, this]
        simp

/-- filters: the source is consumed up to and including the k-th satisfying row, no further -/
theorem filter_pulls (p : Row → Bool) (src : List Row) (k : Nat) :
    (runLazy (filterT p) k () src).1 = (src.filter p).take k ∧
    ((runLazy (filterT p) k () src).2 = 0 ∨
      ((src.take ((runLazy (filterT p) k () src).2 - 1)).filter p).length < k) := by
  have hb : ∀ (l : List Row), runBody (filterT p) () l = l.filter p := by
    intro l
    induction l with
    | nil => rfl
    | cons a l ih => simp only [runBody, filterT, List.filter_cons] at ih ⊢; rw [ih]; cases p a <;> simp
  have ha : ∀ (l : List Row), runAll (filterT p) () l = l.filter p := by
    intro l
    induction l with
    | nil => rfl
    | cons a l ih => simp only [runAll, filterT, List.filter_cons] at ih ⊢; rw [ih]; cases p a <;> simp
  refine ⟨by rw [runLazy_outputs, ha], ?_⟩
  have := minimal_prefix (filterT p) src k ()
  rw [hb] at this
  exact this


/-- one row of lookahead (addfieldusingcontext, selectusingcontext, rowslice windows): k output rows
    (header included) cost at most k + 1 source rows — a constant, whatever the source length -/
theorem lookahead_pulls (f : Option Row → Row → Option Row → Row) (src : List Row) (k : Nat) :
    (runLazy (lookaheadT f) k (0, none, none) src).2 ≤ k + 1 := by
  have hsome : ∀ (l : List Row) (n : Nat) (prev : Option Row) (cur : Row),
      (runBody (lookaheadT f) (n + 1, prev, some cur) l).length = l.length := by
    intro l
    induction l with
    | nil => intros; rfl
    | cons a l ih =>
      intro n prev cur
      have e : (lookaheadT f).step (n + 1, prev, some cur) a = ((n + 1 + 1, some cur, some a), [f prev cur (some a)]) := rfl
      simp only [runBody, e, List.length_append, List.length_cons, List.length_nil]
      rw [ih]; omega
  have hnone : ∀ (l : List Row) (n : Nat) (prev : Option Row),
      (runBody (lookaheadT f) (n + 1, prev, none) l).length = l.length - 1 := by
    intro l n prev
    cases l with
    | nil => rfl
    | cons a l =>
      have e : (lookaheadT f).step (n + 1, prev, none) a = ((n + 1 + 1, prev, some a), []) := rfl
      simp only [runBody, e, List.length_append, List.length_cons, List.length_nil]
      rw [hsome]; omega
  have hzero : ∀ (l : List Row), l.length - 1 ≤ (runBody (lookaheadT f) (0, none, none) l).length := by
    intro l
    cases l with
    | nil => simp [runBody]
    | cons a l =>
      have e : (lookaheadT f).step (0, none, none) a = ((0 + 1, none, none), [a]) := rfl
      simp only [runBody, e, List.length_append, List.length_cons, List.length_nil]
      rw [hnone]; omega
  rcases minimal_prefix (lookaheadT f) src k (0, none, none) with h | h
  · omega
  · have h1 := hzero (src.take ((runLazy (lookaheadT f) k (0, none, none) src).2 - 1))
    have h2 := pulls_le_length (lookaheadT f) src k (0, none, none)
    rw [List.length_take] at h1
    omega

/-! ### constructors: regenerated from the source on every run -/

/-- the call sites that read a table while a view is being *constructed* (not iterated) are all on
    this list: header-only reads documented by petl, and functions whose result is not a table view -/
def allowedCtorReads : List (String × String) := [
  ("transform.conversions.convertall", "header"),
  ("transform.joins.natural_key", "header"),
  ("transform.setops.recordcomplement", "header"),
  ("util.base.fieldnames", "header"),
  ("transform.selects.facet", "rows"),
  ("util.counting.nrows", "rows"), ("util.counting.parsecounter", "rows"), ("util.counting.rowlengths", "rows"),
  ("util.counting.stringpatterncounter", "rows"), ("util.counting.typecounter", "rows"),
  ("util.counting.valuecount", "rows"), ("util.counting.valuecounter", "rows"),
  ("util.materialise.listoflists", "rows"), ("util.materialise.listoftuples", "rows"),
  ("util.materialise.tupleoflists", "rows"), ("util.materialise.tupleoftuples", "rows"),
  ("util.misc.typeset", "rows"), ("util.statistics.limits", "rows"), ("util.statistics.stats", "rows")]

theorem constructors_read_only_where_allowed :
    ∀ r ∈ Gen.ctorReads, allowedCtorReads.contains (r.site, r.kind) = true := by
  decide +kernel

/-! ### iteration: wholesale consumption of a source, regenerated from the source on every run -/

/-- The generator functions that consume a source wholesale (or a bounded sample of it) while iterating, each a
    documented necessity: `tail` needs the end of the table; the hash joins and hash set operations read their build
    side (right table / second table) completely before streaming the other; `crossjoin` materialises its inputs
    (itertools.product); `aggregate(key=None, len)` counts the rows; the external sort reads one buffer at a time;
    `recast` and `unpackdict` sample `samplesize` rows to discover the output fields, `fromdicts` samples `sample` dicts
    to discover the header (since petl dd7a99f with an explicit `list(islice(...))`; before, hidden in `iterpeek`).  Every other generator function
    of petl/transform, util/{base,materialise,timing,vis,lookups} and the text-format readers contains no such site. -/
def allowedMaterialise : List (String × String × String) := [
  ("transform.basics.itertail", "full", "loop-without-yield"),
  ("transform.hashjoins.iterhashantijoin", "full", "loop-without-yield"),
  ("transform.hashjoins.iterhashlookupjoin", "full", "lookupone"),
  ("transform.joins.itercrossjoin", "full", "comprehension"),
  ("transform.reductions.itersimpleaggregate", "full", "nrows"),
  ("transform.setops.iterhashcomplement", "full", "Counter(genexp)"),
  ("transform.setops.iterhashintersection", "full", "Counter(genexp)"),
  ("transform.reshape.iterrecast", "bounded", "loop-without-yield(islice)"),
  ("transform.sorts.SortView._iternocache", "bounded", "list(islice)"),
  ("transform.unpacks.iterunpackdict", "bounded", "list(islice)"),
  ("io.json.iterdicts", "bounded", "list(islice)")]

theorem iterators_materialise_only_where_allowed :
    ∀ m ∈ Gen.materialisations, allowedMaterialise.contains (m.fn, m.kind, m.callee) = true := by
  decide +kernel

/-! non-vacuity -/
example : (runLazy (filterT (fun r => r.length == 1)) 2 () [[], [.none], [], [.none], [.none], []]).2 = 4 := by decide

end Petl.C02
