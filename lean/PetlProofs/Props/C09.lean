/-
  C09 — grouping and aggregation conserve rows: each row in exactly one group.
  Property theorems only; helpers in PetlProofs/Group.lean, PetlProofs/Join.lean (`groups_spec`).

  `sortedGroups kidx bs rows` is what every grouping operator iterates over: the key groups that
  rowgroupby (itertools.groupby) forms on the table sorted by the key (C05, any buffer size).
-/
import PetlProofs.Group
import Petl.Ops

namespace Petl.C09
open Petl

variable (kidx : List Nat) (bs : Option Nat) (hbs : ∀ b, bs = some b → 1 ≤ b) (rows : List Row)
include hbs

/-- the groups, concatenated, are the sorted table: no row lost, none duplicated -/
theorem groups_flatten :
    flattenG (sortedGroups kidx bs rows) = sortRows (rowLe kidx false) bs rows ∧
    (flattenG (sortedGroups kidx bs rows)).Perm rows := by
  have h := (sortedGroups_spec kidx bs hbs rows).1
  exact ⟨h, h ▸ sortRows_perm' kidx false bs hbs rows⟩

/-- one group per distinct key value, in ascending key order; no empty group -/
theorem groups_keys_strictly_ascending :
    (sortedGroups kidx bs rows).Pairwise (fun g h => Val.lt g.1 h.1 = true) ∧
    (∀ g ∈ sortedGroups kidx bs rows, g.2 ≠ []) :=
  ⟨(sortedGroups_spec kidx bs hbs rows).2.1.asc, (sortedGroups_spec kidx bs hbs rows).2.2⟩

/-- each group contains exactly the rows with that key, in input order -/
theorem group_is_filter (g : Val × List Row) (hg : g ∈ sortedGroups kidx bs rows) :
    g.2 = rows.filter (fun r => Val.eq (getKey kidx r) g.1) :=
  group_eq_input_filter kidx bs hbs rows g hg

/-- group counts add up to nrows -/
theorem group_counts_sum_nrows :
    ((sortedGroups kidx bs rows).map (fun g => g.2.length)).sum = rows.length := by
  rw [sum_map_length_flattenG, (groups_flatten kidx bs hbs rows).2.length_eq]

/-- group sums add up to the overall sum (any integer-valued column function) -/
theorem group_sums_sum_total (val : Row → Int) :
    ((sortedGroups kidx bs rows).map (fun g => (g.2.map val).sum)).sum = (rows.map val).sum := by
  rw [sum_map_sum_flattenG]
  exact sum_map_perm val (groups_flatten kidx bs hbs rows).2

/-- groupselectfirst returns, for each key, the first row of the input with that key
    (and groupselectlast the last): members of their group -/
theorem selectfirst_is_first_of_key (g : Val × List Row) (hg : g ∈ sortedGroups kidx bs rows) :
    g.2.head? = rows.find? (fun r => Val.eq (getKey kidx r) g.1) ∧
    g.2.getLast? = (rows.filter (fun r => Val.eq (getKey kidx r) g.1)).getLast? := by
  rw [group_is_filter kidx bs hbs rows g hg, head?_filter_eq_find?]
  exact ⟨rfl, rfl⟩

/-- groupselectmin (sort by the value field, then first of each key group): the selected row is a
    row of the input with that key whose value is minimal within its group (max: symmetric) -/
theorem selectmin_is_min_of_group (vidx : List Nat) (max : Bool) (g : Val × List Row)
    (hg : g ∈ sortedGroups kidx bs (sortRows (rowLe vidx max) none rows)) (r : Row) (hr : g.2.head? = some r) :
    r ∈ rows ∧ Val.eq (getKey kidx r) g.1 = true ∧
    ∀ r' ∈ rows, Val.eq (getKey kidx r') g.1 = true → rowLe vidx max r r' = true := by
  have hfil := group_is_filter kidx bs hbs _ g hg
  have hperm : (sortRows (rowLe vidx max) none rows).Perm rows := List.mergeSort_perm rows _
  have hsorted : SortedL (rowLe vidx max) (sortRows (rowLe vidx max) none rows) :=
    (mergeSort_isStableSort _ (rowLe_totalPre vidx max) rows).1
  have hgs : SortedL (rowLe vidx max) g.2 := by
    rw [hfil]; exact List.Pairwise.filter _ hsorted
  cases hg2 : g.2 with
  | nil => rw [hg2] at hr; cases hr
  | cons a rest =>
    rw [hg2] at hr hgs; simp at hr; subst hr
    have hmem : a ∈ g.2 := by rw [hg2]; simp
    rw [hfil] at hmem
    obtain ⟨ha1, ha2⟩ := List.mem_filter.1 hmem
    refine ⟨hperm.mem_iff.1 ha1, ha2, ?_⟩
    intro r' hr' hk
    have : r' ∈ g.2 := by
      rw [hfil]; exact List.mem_filter.2 ⟨hperm.mem_iff.2 hr', hk⟩
    rw [hg2] at this
    rcases List.mem_cons.1 this with rfl | h
    · exact (rowLe_totalPre vidx max).refl _
    · exact (List.pairwise_cons.1 hgs).1 r' h

/-- every output value of aggregate is the aggregation function applied to exactly the rows with
    that key, in input order (stated for the simple form; `f` arbitrary, `vidx` any value selection) -/
theorem aggregate_applies_to_group (keyHdr : Row) (field : Val) (vidx : Option (List Nat)) (f : AggFn) :
    simpleAggregate keyHdr field kidx vidx f bs rows =
      mkOut (keyHdr ++ [field]) (mapGroups (fun g => do
        let vs ← groupValues vidx (rows.filter (fun r => Val.eq (getKey kidx r) g.1))
        let a ← f.apply vs
        pure (keyCells kidx g.1 ++ [a])) (sortedGroups kidx bs rows)) := by
  unfold simpleAggregate
  congr 1
  have : ∀ (gs : List (Val × List Row)), (∀ g ∈ gs, g ∈ sortedGroups kidx bs rows) →
      mapGroups (fun g => do
        let vs ← groupValues vidx g.2
        let a ← f.apply vs
        pure (keyCells kidx g.1 ++ [a])) gs =
      mapGroups (fun g => do
        let vs ← groupValues vidx (rows.filter (fun r => Val.eq (getKey kidx r) g.1))
        let a ← f.apply vs
        pure (keyCells kidx g.1 ++ [a])) gs := by
    intro gs
    induction gs with
    | nil => intro _; rfl
    | cons g gs ih =>
      intro h
      simp only [mapGroups]
      rw [← group_is_filter kidx bs hbs rows g (h g (by simp)), ih (fun g' hg' => h g' (List.mem_cons_of_mem _ hg'))]
  exact this _ (fun g hg => hg)

/-! non-vacuity -/
omit hbs in
example : (sortedGroups [0] (some 1) [[.num .int (.fin 2)], [.num .int (.fin 1), .str [97]], [.num .float (.fin 1)]]).length = 2 := by
  decide +kernel

/-- `groupcountdistinctvalues` (as implemented after petl d4bbfd2: cut, distinct, count per key): the counts add up to the
    number of distinct (key…, value) rows, one output row per key of those, keys strictly ascending, every count ≥ 1 -/
theorem groupcountdistinct_counts (vidx : Nat) :
    ((groupCountDistinct kidx vidx bs rows).map (·.2)).sum = (gcdvDistinct kidx vidx bs rows).length ∧
    (groupCountDistinct kidx vidx bs rows).Pairwise (fun g h => Val.lt g.1 h.1 = true) ∧
    (∀ g ∈ groupCountDistinct kidx vidx bs rows, 1 ≤ g.2) := by
  unfold groupCountDistinct
  refine ⟨?_, ?_, ?_⟩
  · rw [List.map_map]
    exact group_counts_sum_nrows (List.range kidx.length) bs hbs (gcdvDistinct kidx vidx bs rows)
  · rw [List.pairwise_map]
    exact (groups_keys_strictly_ascending (List.range kidx.length) bs hbs (gcdvDistinct kidx vidx bs rows)).1
  · intro g hg
    obtain ⟨g', hg', rfl⟩ := List.mem_map.mp hg
    have := (groups_keys_strictly_ascending (List.range kidx.length) bs hbs (gcdvDistinct kidx vidx bs rows)).2 g' hg'
    cases h : g'.2 with
    | nil => exact absurd h this
    | cons a as => simp

/-- the key-less aggregate is the aggregation function applied to all the rows: one value per data row goes in
    (so `len` gives nrows), whole rows when no value field is named -/
theorem keyless_aggregate_sees_every_row (vidx : Option (List Nat)) :
    (keylessValues vidx rows).length = rows.length ∧
    (vidx = none → keylessValues vidx rows = rows.map (fun r => Val.seq false r)) := by
  constructor
  · unfold keylessValues
    split <;> simp
  · intro h; subst h; rfl

end Petl.C09
