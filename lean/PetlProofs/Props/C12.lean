/-
  C12 — row- and field-level transforms touch only what they are asked to.

  The models in Petl/Basics.lean are cell-exact executable specifications (tied to the code by
  exact correspondence); the theorems below are the frame conditions that follow from them:
  one output row per input row, untouched cells carried over in order, padding/trimming.
-/
import Petl.Basics
import PetlProofs.Props.C19

namespace Petl.C12
open Petl

/-! ### Python list.insert -/

theorem pyInsert_spec (n : Nat) (i : Int) :
    pyInsertPos n i ≤ n ∧
    (0 ≤ i → i ≤ n → pyInsertPos n i = i.toNat) ∧ ((n : Int) < i → pyInsertPos n i = n) ∧
    (i < 0 → -(n : Int) ≤ i → (pyInsertPos n i : Int) = n + i) ∧ (i < -(n : Int) → pyInsertPos n i = 0) := by
  unfold pyInsertPos
  refine ⟨?_, ?_, ?_, ?_, ?_⟩
  · split
    · split <;> omega
    · exact Nat.min_le_right _ _
  · intro h1 h2; simp [show ¬ i < 0 by omega]; omega
  · intro h; simp [show ¬ i < 0 by omega]; omega
  · intro h1 h2; simp [h1, show ¬ ((n : Int) + i < 0) by omega]; omega
  · intro h; have : i < 0 := by omega
    simp [this, show (n : Int) + i < 0 by omega]

def insertPos {α : Type} (l : List α) (i : Option Int) : Nat :=
  match i with | none => l.length | some i => pyInsertPos l.length i

/-- inserting a cell keeps every old cell, in order: removing the new cell gives the old row back,
    for any index — negative or out of range included -/
theorem pyInsert_frame {α : Type} (l : List α) (i : Option Int) (x : α) :
    (pyInsert l i x).length = l.length + 1 ∧
    (pyInsert l i x)[insertPos l i]? = some x ∧
    (pyInsert l i x).eraseIdx (insertPos l i) = l ∧ insertPos l i ≤ l.length := by
  have hle : insertPos l i ≤ l.length := by
    cases i with
    | none => exact Nat.le_refl _
    | some i => exact (pyInsert_spec l.length i).1
  have hdef : pyInsert l i x = l.take (insertPos l i) ++ x :: l.drop (insertPos l i) := by
    cases i <;> rfl
  rw [hdef]
  refine ⟨?_, ?_, ?_, hle⟩
  · simp [List.length_take, List.length_drop]; omega
  · rw [List.getElem?_append_right (by simp [List.length_take]; omega)]
    simp [List.length_take, Nat.min_eq_left hle]
  · have hlen : (l.take (insertPos l i)).length = insertPos l i := by simp [List.length_take, Nat.min_eq_left hle]
    rw [List.eraseIdx_append_of_length_le (by omega)]
    simp [hlen]

/-- addfield / addfields / addcolumn: the row is squared up to the header's width, then the new cell
    is inserted; all other cells are the (padded/trimmed) old ones in order -/
theorem addfield_frame (w : Nat) (missing : Val) (value : FieldVal) (index : Option Int) (r : Row) :
    let r' := squareRow w missing r
    let out := pyInsert r' index (value.eval r')
    out.length = r'.length + 1 ∧ out.eraseIdx (insertPos r' index) = r' ∧
    out[insertPos r' index]? = some (value.eval r') := by
  intro r' out
  obtain ⟨h1, h2, h3, _⟩ := pyInsert_frame r' index (value.eval r')
  exact ⟨h1, h3, h2⟩

theorem addcolumn_frame (index : Option Int) (r : Row) (v : Val) :
    (pyInsert r index v).eraseIdx (insertPos r index) = r :=
  (pyInsert_frame r index v).2.2.1

/-! ### squaring up, stack, annex -/

theorem squareRow_spec (w : Nat) (missing : Val) (r : Row) :
    (squareRow w missing r).length = w ∧
    ∀ j, j < w → (squareRow w missing r)[j]? = some (r.getD j missing) := by
  unfold squareRow
  refine ⟨by simp [List.length_take], ?_⟩
  intro j hj
  rw [List.getElem?_take_of_lt hj]
  by_cases h : j < r.length
  · rw [List.getElem?_append_left h]; simp [List.getD, List.getElem?_eq_getElem h]
  · rw [List.getElem?_append_right (by omega), List.getElem?_replicate_of_lt (by omega)]
    simp [List.getD, List.getElem?_eq_none (by omega : r.length ≤ j)]

/-- stack (default trim and pad): short rows are padded with `missing`, long rows trimmed,
    never dropped -/
theorem stack_pads_trims (w : Nat) (missing : Val) (r : Row) :
    stackRow w missing true true r = squareRow w missing r ∧
    (stackRow w missing false false r = r) ∧ (stackRow w missing true false r = r.take w) := by
  refine ⟨?_, by simp [stackRow], by simp [stackRow]⟩
  unfold stackRow squareRow
  simp only [Bool.true_and, if_true]
  by_cases h : w ≤ r.length
  · have hl : (r.take w).length = w := by simp [List.length_take]; omega
    have : ¬ (r.take w).length < w := by omega
    simp only [this, decide_false, Bool.false_eq_true, if_false]
    rw [List.take_append_of_le_length h]
  · have htake : r.take w = r := List.take_of_length_le (by omega)
    have hlt : r.length < w := by omega
    simp only [htake, hlt, decide_true, if_true]
    rw [List.take_append, List.take_of_length_le (by omega : r.length ≤ w), List.take_replicate]
    congr 2; omega

theorem stackView_rows (missing : Val) (t : Table) :
    (stackView missing true true [t]).rows.drop 1 = (t.drop 1).map (squareRow (t.headD []).length missing) := by
  simp only [stackView, Out.ok, List.map_cons, List.map_nil, List.flatten_cons, List.flatten_nil,
    List.append_nil, List.drop_succ_cons, List.drop_zero]
  apply List.map_congr_left
  intro r _
  exact (stack_pads_trims _ missing r).1

/-- annex of one table squares its rows up (each table of an annex is padded/trimmed to its own header) -/
theorem annex_pads (missing : Val) (w : Nat) (rows : List Row) :
    annexRows missing rows.length [(w, rows)] = rows.map (squareRow w missing) := by
  induction rows with
  | nil => rfl
  | cons r rs ih => simp [annexRows, ih]

/-! ### cut / cutout -/

/-- cut: one output row per input row; output cell j is input cell idx[j], `missing` if the row is short -/
theorem cut_cells (idx : List Nat) (missing : Val) (rows : List Row) :
    (pickRows idx missing rows).length = rows.length ∧
    ∀ (k : Nat) (r : Row), rows[k]? = some r → (pickRows idx missing rows)[k]? = some (idx.map (fun i => r.getD i missing)) := by
  refine ⟨by simp [pickRows], ?_⟩
  intro k r h
  simp [pickRows, h, padGet]

/-- cut(spec) and cutout(spec) together cover every field exactly once -/
theorem cut_cutout_cover (w : Nat) (out : List Nat) (i : Nat) (hi : i < w) :
    let keep := (List.range w).filter (fun i => !out.contains i)
    (i ∈ out ∧ i ∉ keep) ∨ (i ∉ out ∧ i ∈ keep) := by
  intro keep
  by_cases h : i ∈ out
  · left; exact ⟨h, by simp [keep, h]⟩
  · right; exact ⟨h, by simp [keep, h, hi]⟩

/-! ### every transform emits exactly one output row per input row, in input order -/

/-- `movefield` rearranges the columns and nothing else: the output positions are a permutation of the input positions
    (no field lost, none duplicated — also when several fields carry the same name), and every output cell is the input
    cell at its position, padded like `cut` -/
theorem movefield_is_a_permutation (n fidx : Nat) (i : Int) (h : fidx < n) :
    (moveFieldIdx n fidx i).Perm (List.range n) := by
  unfold moveFieldIdx pyInsert
  simp only []
  have hmem : fidx ∈ List.range n := List.mem_range.mpr h
  have hnd : (List.range n).Nodup := List.nodup_range
  have herase : (List.range n).filter (fun j => j != fidx) = (List.range n).erase fidx := (List.Nodup.erase_eq_filter hnd fidx).symm
  rw [herase]
  generalize pyInsertPos ((List.range n).erase fidx).length i = j
  have h1 : (List.take j ((List.range n).erase fidx) ++ fidx :: List.drop j ((List.range n).erase fidx)).Perm
      (fidx :: (List.take j ((List.range n).erase fidx) ++ List.drop j ((List.range n).erase fidx))) := List.perm_middle
  rw [List.take_append_drop] at h1
  exact h1.trans (List.perm_cons_erase hmem).symm

theorem movefield_cells (n fidx : Nat) (i : Int) (missing : Val) (rows : List Row) :
    pickRows (moveFieldIdx n fidx i) missing rows = rows.map (fun r => (moveFieldIdx n fidx i).map (padGet missing r)) := rfl

example : moveFieldIdx 3 0 1 = [1, 0, 2] ∧ moveFieldIdx 3 2 0 = [2, 0, 1] ∧ moveFieldIdx 3 0 (-1) = [1, 0, 2] := by decide

theorem addrownumbersRows_length (a b : Int) : ∀ (rows : List Row) (k : Nat),
    (addrownumbersRows a b k rows).length = rows.length := by
  intro rows
  induction rows with
  | nil => intro k; rfl
  | cons r rs ih => intro k; simp [addrownumbersRows, ih]

theorem filldownRows_length (idx : List Nat) (m : Val) : ∀ (rows : List Row) (fill : Row),
    (filldownRows idx m fill rows).length = rows.length := by
  intro rows
  induction rows with
  | nil => intro _; rfl
  | cons r rs ih => intro fill; simp [filldownRows, ih]

theorem transforms_one_row_per_row (idx : List Nat) (m : Val) (w : Nat) (rows : List Row) (a b : Int)
    (fv : FieldVal) (index : Option Int) (fill : Row) (outhdr hdr : Row) :
    (pickRows idx m rows).length = rows.length ∧
    (catRows outhdr m (hdr :: rows)).length = rows.length ∧
    (rows.map (stackRow w m true true)).length = rows.length ∧
    (rows.map (fun r => pyInsert (squareRow w m r) index (fv.eval (squareRow w m r)))).length = rows.length ∧
    (addrownumbersRows a b 0 rows).length = rows.length ∧
    (filldownRows idx m fill rows).length = rows.length ∧
    (rows.map (fillrightRow m none)).length = rows.length ∧ (rows.map (fillleftRow m)).length = rows.length ∧
    (recordsOf w m rows).length = rows.length ∧ (valuesOf idx m rows).length = rows.length := by
  refine ⟨by simp [pickRows], by simp [catRows], by simp, by simp, addrownumbersRows_length a b rows 0,
    filldownRows_length idx m rows fill, by simp, by simp, by simp [recordsOf], by simp [valuesOf]⟩

theorem addrownumbers_frame (a b : Int) : ∀ (rows : List Row) (k : Nat) (j : Nat) (r : Row),
    rows[j]? = some r → (addrownumbersRows a b k rows)[j]? = some (intVal (a + b * ((k + j : Nat) : Int)) :: r) := by
  intro rows
  induction rows with
  | nil => intro k j r h; simp at h
  | cons r0 rs ih =>
    intro k j r h
    cases j with
    | zero => simp at h; subst h; simp [addrownumbersRows]
    | succ j =>
      simp at h
      have := ih (k + 1) j r h
      simp only [addrownumbersRows, List.getElem?_cons_succ]
      rw [this]
      have e : k + 1 + j = k + (j + 1) := by omega
      rw [e]

/-! ### convert: only the addressed cells change -/

theorem rowOut_frame (onErr : Err → Val) (convs : Nat → Option Conv) : ∀ (r : Row) (i : Nat),
    (C19.rowOut onErr convs i r).length = r.length ∧
    ∀ j v, r[j]? = some v → (C19.rowOut onErr convs i r)[j]? = some (C19.cellOut onErr (convs (i + j)) v) := by
  intro r
  induction r with
  | nil => intro i; simp [C19.rowOut]
  | cons c cs ih =>
    intro i
    obtain ⟨h1, h2⟩ := ih (i + 1)
    refine ⟨by simp [C19.rowOut, h1], ?_⟩
    intro j v hv
    cases j with
    | zero => simp at hv; subst hv; simp [C19.rowOut]
    | succ j =>
      simp at hv
      have := h2 j v hv
      simp only [C19.rowOut, List.getElem?_cons_succ]
      rw [this]; congr 3; omega

/-- convert keeps the row length and every cell of a field without a converter unchanged -/
theorem convert_frame (onErr : Err → Val) (convs : Nat → Option Conv) (r : Row) (j : Nat) (v : Val)
    (hv : r[j]? = some v) (hc : convs j = none) :
    (C19.rowOut onErr convs 0 r).length = r.length ∧ (C19.rowOut onErr convs 0 r)[j]? = some v := by
  obtain ⟨h1, h2⟩ := rowOut_frame onErr convs r 0
  refine ⟨h1, ?_⟩
  rw [h2 j v hv]; simp [hc, C19.cellOut]

/-! ### header functions never touch the data rows -/

theorem header_functions_keep_data (h : Row) (p : List Nat) (spec : List (FSpec × Val)) (t : Table) :
    (setheaderView h t).rows.drop 1 = t.drop 1 ∧
    (extendheaderView h t).rows.drop 1 = t.drop 1 ∧
    (pushheaderView h t).rows.drop 1 = t ∧
    (prefixheaderView p t).rows.drop 1 = t.drop 1 ∧ (suffixheaderView p t).rows.drop 1 = t.drop 1 ∧
    ((renameView spec false t).rows.drop 1 = t.drop 1) := by
  refine ⟨rfl, rfl, rfl, ?_, ?_, ?_⟩
  · cases t <;> rfl
  · cases t <;> rfl
  · simp [renameView, Out.ok]

/-- `rename` is simultaneous: output field `i` is a function of `i`, the input field at `i` and the spec alone
    (never of what another entry of the spec produced); the header keeps its length -/
theorem rename_pointwise (spec : List (FSpec × Val)) (t : Table) :
    ((renameView spec false t).rows.headD []).length = (t.headD []).length ∧
    ∀ (i : Nat) (c : Val), (t.headD [])[i]? = some c →
      ((renameView spec false t).rows.headD [])[i]? = some
        (match spec.find? (fun s => s.1 == .idx i) with
         | some s => s.2
         | none => match spec.find? (fun s => match s.1, c with | .name n, .str m => n == m | _, _ => false) with
           | some s => s.2
           | none => c) := by
  constructor
  · simp [renameView, Out.ok]
  · intro i c h
    simp [renameView, Out.ok, List.getElem?_map, List.getElem?_zipIdx]
    exact ⟨c, by simpa using h, rfl⟩

/-! ### fills -/

theorem fillrightRow_length (m : Val) : ∀ (r : Row) (p : Option Val), (fillrightRow m p r).length = r.length := by
  intro r
  induction r with
  | nil => intro p; cases p <;> rfl
  | cons c cs ih => intro p; cases p <;> simp [fillrightRow, ih]

/-- fillright keeps the row length and never changes a non-missing cell -/
theorem fillright_frame (m : Val) : ∀ (r : Row) (p : Option Val) (j : Nat) (v : Val),
    r[j]? = some v → Val.pyEq v m = false → (fillrightRow m p r)[j]? = some v := by
  intro r
  induction r with
  | nil => intro p j v h; simp at h
  | cons c cs ih =>
    intro p j v h hv
    cases j with
    | zero =>
      simp at h; subst h
      cases p <;> simp [fillrightRow, hv]
    | succ j =>
      simp at h
      cases p <;> simp only [fillrightRow, List.getElem?_cons_succ] <;> exact ih _ j v h hv

/-- filldown changes only cells of the selected fields that equal `missing` -/
theorem filldown_frame (idx : List Nat) (m : Val) (fill r : Row) (rs : List Row) (j : Nat) (v : Val)
    (hv : r[j]? = some v) (h : idx.contains j = false ∨ Val.pyEq v m = false) :
    ∃ out rest, filldownRows idx m fill (r :: rs) = out :: rest ∧ out.length = r.length ∧ out[j]? = some v := by
  refine ⟨_, _, rfl, by simp, ?_⟩
  simp only [List.getElem?_map, List.getElem?_zipIdx, hv, Option.map_some, Nat.zero_add]
  rcases h with h | h
  · have hn : j ∉ idx := by simpa using h
    simp [hn]
  · simp [h]

/-! ### accessors -/

theorem accessors_pad (w : Nat) (m : Val) (i : Nat) (rows : List Row) :
    (∀ r ∈ recordsOf w m rows, r.length = w) ∧
    valuesOf [i] m rows = rows.map (fun r => r.getD i m) ∧
    (columnsOf w m rows).length = w := by
  refine ⟨?_, by simp [valuesOf, padGet], by simp [columnsOf]⟩
  intro r hr
  simp only [recordsOf, List.mem_map] at hr
  obtain ⟨r0, _, rfl⟩ := hr
  exact (squareRow_spec w m r0).1

/-! ### field selection -/

/-- an integer below the header's length is taken as an index (priority over names) -/
theorem asindices_index_priority (hdr : Row) (i : Nat) (h : i < hdr.length) :
    asindices hdr [.idx i] = .ok [i] := by
  simp [asindices, asindicesAux, h, Except.map]

/-- a name selects the first field of that name; repeating it selects the next one -/
theorem asindices_names_left_to_right (s t : List Nat) (ht : t ≠ s) :
    asindices [.str s, .str t, .str s] [.name s, .name s] = .ok [0, 2] ∧
    asindices [.str t, .str s] [.name s] = .ok [1] ∧
    asindices [.str t, .str s] [.name s, .name s] = .error .fieldSelection := by
  have h1 : ¬ (some t = some s) := by simpa using ht
  refine ⟨?_, ?_, ?_⟩ <;> simp [asindices, asindicesAux, findName, fldName, h1, Except.map]

/-- cat aligns by field name: over its own (distinct) header a table's rows are just squared up -/
theorem cat_aligns_by_name (hdr : Row) (m : Val) (rows : List Row)
    (hd : ∀ i, i < hdr.length → hdrIndex hdr (hdr.getD i .none) = some i) :
    catRows hdr m (hdr :: rows) = rows.map (fun r => (List.range hdr.length).map (fun i => r.getD i m)) := by
  simp only [catRows, List.headD_cons, List.drop_succ_cons, List.drop_zero]
  apply List.map_congr_left
  intro r _
  apply List.ext_getElem?
  intro k
  simp only [List.getElem?_map, List.getElem?_range]
  by_cases hk : k < hdr.length
  · have := hd k hk
    simp [List.getElem?_eq_getElem hk, List.getD, List.getElem?_eq_getElem hk] at this ⊢
    simp [this, padGet, hk, List.getD]
  · simp [List.getElem?_eq_none (by omega : hdr.length ≤ k), hk]

/-! non-vacuity -/
example : pyInsert [1, 2, 3] (some (-1)) 9 = [1, 2, 9, 3] ∧ pyInsert [1, 2, 3] (some 7) 9 = [1, 2, 3, 9] ∧
    pyInsert [1, 2, 3] (some (-9)) 9 = [9, 1, 2, 3] ∧ pyInsert [1, 2, 3] none 9 = [1, 2, 3, 9] := by decide

end Petl.C12
