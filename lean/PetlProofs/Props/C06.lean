/-
  C06 — sort-merge joins implement the relational join operators exactly.
  Property theorems only; helpers in PetlProofs/Join.lean.

  `L R` are the data rows of the two tables (squared up by `stackRows`), `idx` the key indices.
  The pipeline of `joinView` is: sort both sides by key (C05, any buffer size), form key groups
  (`groups` = itertools.groupby), run the merge loop (`mergeGroups`/`antiGroups`/`lookupGroups`).
-/
import PetlProofs.Join

namespace Petl.C06
open Petl

/-- key groups of a sorted side -/
def sideGroups (idx : List Nat) (bs : Option Nat) (rows : List Row) : List (Val × List Row) :=
  groups (getKey idx) (sortRows (rowLe idx false) bs rows)

theorem sideGroups_spec (idx : List Nat) (bs : Option Nat) (hbs : ∀ b, bs = some b → 1 ≤ b) (rows : List Row) :
    flattenG (sideGroups idx bs rows) = sortRows (rowLe idx false) bs rows ∧
    GroupsWF (getKey idx) (sideGroups idx bs rows) ∧ (∀ g ∈ sideGroups idx bs rows, g.2 ≠ []) := by
  have hs : SortedL (rowLe idx false) (sortRows (rowLe idx false) bs rows) := by
    cases bs with
    | none => exact (mergeSort_isStableSort _ (rowLe_totalPre idx false) rows).1
    | some b =>
      rw [sortRows_eq_mergeSort _ (rowLe_totalPre idx false) b (hbs b rfl)]
      exact (mergeSort_isStableSort _ (rowLe_totalPre idx false) rows).1
  apply groups_spec
  simpa [SortedL, rowLe] using hs

theorem sorted_perm (idx : List Nat) (bs : Option Nat) (hbs : ∀ b, bs = some b → 1 ≤ b) (rows : List Row) :
    (sortRows (rowLe idx false) bs rows).Perm rows := by
  cases bs with
  | none => exact List.mergeSort_perm rows _
  | some b =>
    rw [sortRows_eq_mergeSort _ (rowLe_totalPre idx false) b (hbs b rfl)]
    exact List.mergeSort_perm rows _

variable (ops : JoinOps) (lidx ridx : List Nat) (bs : Option Nat) (hbs : ∀ b, bs = some b → 1 ≤ b)
include hbs

/-- join: exactly the nested-loop join of the two key-sorted inputs — one output row for every
    pair of a left and a right row with equal keys, left-major, groups in ascending key order -/
theorem join_eq_nested_loop (L R : List Row) :
    mergeGroups ops false false (sideGroups lidx bs L) (sideGroups ridx bs R)
      = nlInner ops (getKey lidx) (getKey ridx)
          (sortRows (rowLe lidx false) bs L) (sortRows (rowLe ridx false) bs R) := by
  obtain ⟨hfl, hwl, _⟩ := sideGroups_spec lidx bs hbs L
  obtain ⟨hfr, hwr, _⟩ := sideGroups_spec ridx bs hbs R
  rw [mergeGroups_inner ops _ _ _ _ hwl hwr, hfl, hfr]

/-- leftjoin: each left row (in key order) followed by its partners, or padded once if it has none -/
theorem leftjoin_eq_nested_loop (L R : List Row) :
    mergeGroups ops true false (sideGroups lidx bs L) (sideGroups ridx bs R)
      = nlLeft ops (getKey lidx) (getKey ridx)
          (sortRows (rowLe lidx false) bs L) (sortRows (rowLe ridx false) bs R) := by
  obtain ⟨hfl, hwl, _⟩ := sideGroups_spec lidx bs hbs L
  obtain ⟨hfr, hwr, hner⟩ := sideGroups_spec ridx bs hbs R
  rw [mergeGroups_left_eq ops true false rfl rfl _ _ hner,
      mergeLeft_eq_perLeft _ (getKey lidx) (getKey ridx) _ _ hwl hwr, hfl, hfr, perLeft_fLeft]

/-- antijoin: exactly the left rows (in key order) that have no partner -/
theorem antijoin_eq_filter (L R : List Row) :
    antiGroups (sideGroups lidx bs L) (sideGroups ridx bs R)
      = unmatchedL (getKey lidx) (getKey ridx)
          (sortRows (rowLe lidx false) bs L) (sortRows (rowLe ridx false) bs R) := by
  obtain ⟨hfl, hwl, _⟩ := sideGroups_spec lidx bs hbs L
  obtain ⟨hfr, hwr, hner⟩ := sideGroups_spec ridx bs hbs R
  rw [antiGroups_eq _ _ hner, mergeLeft_eq_perLeft _ (getKey lidx) (getKey ridx) _ _ hwl hwr,
      hfl, hfr, perLeft_fAnti]

/-- lookupjoin: each left row paired with its first partner only (or padded) -/
theorem lookupjoin_eq_first_partner (L R : List Row) :
    lookupGroups ops (sideGroups lidx bs L) (sideGroups ridx bs R)
      = nlLookup ops (getKey lidx) (getKey ridx)
          (sortRows (rowLe lidx false) bs L) (sortRows (rowLe ridx false) bs R) := by
  obtain ⟨hfl, hwl, _⟩ := sideGroups_spec lidx bs hbs L
  obtain ⟨hfr, hwr, _⟩ := sideGroups_spec ridx bs hbs R
  rw [lookupGroups_eq, mergeLeft_eq_perLeft _ (getKey lidx) (getKey ridx) _ _ hwl hwr,
      hfl, hfr, perLeft_fLookup]

/-- all four outer flags: the output is, as a multiset, the inner join plus (leftouter) every
    unmatched left row padded plus (rightouter) every unmatched right row padded — each row with
    exactly the right multiplicity -/
theorem outerjoin_perm (lo ro : Bool) (L R : List Row) :
    (mergeGroups ops lo ro (sideGroups lidx bs L) (sideGroups ridx bs R)).Perm
      (nlInner ops (getKey lidx) (getKey ridx) L R
        ++ (if lo then (unmatchedL (getKey lidx) (getKey ridx) L R).map ops.padL else [])
        ++ (if ro then (unmatchedL (getKey ridx) (getKey lidx) R L).map ops.padR else [])) := by
  obtain ⟨hfl, hwl, hnel⟩ := sideGroups_spec lidx bs hbs L
  obtain ⟨hfr, hwr, hner⟩ := sideGroups_spec ridx bs hbs R
  have hpl := sorted_perm lidx bs hbs L
  have hpr := sorted_perm ridx bs hbs R
  refine (mergeGroups_decomp ops lo ro _ _).trans ?_
  rw [mergeGroups_inner ops _ _ _ _ hwl hwr,
      antiGroups_eq _ _ hner, mergeLeft_eq_perLeft _ (getKey lidx) (getKey ridx) _ _ hwl hwr,
      antiGroups_eq _ _ hnel, mergeLeft_eq_perLeft _ (getKey ridx) (getKey lidx) _ _ hwr hwl,
      hfl, hfr, perLeft_fAnti, perLeft_fAnti]
  apply List.Perm.append
  · apply List.Perm.append
    · exact nlInner_perm ops _ _ hpl hpr
    · cases lo
      · exact List.Perm.refl _
      · exact (unmatchedL_perm _ _ hpl hpr).map _
  · cases ro
    · exact List.Perm.refl _
    · exact (unmatchedL_perm _ _ hpr hpl).map _

/-- join in relational terms, independent of any sorting: a permutation of the nested-loop join of
    the *original* inputs (equal keys ⇒ one row per pair, None equal to None via `Val.eq`) -/
theorem join_relational (L R : List Row) :
    (mergeGroups ops false false (sideGroups lidx bs L) (sideGroups ridx bs R)).Perm
      (nlInner ops (getKey lidx) (getKey ridx) L R) := by
  have := outerjoin_perm ops lidx ridx bs hbs false false L R
  simpa using this

omit hbs in
/-- None keys match None keys (and nothing else) -/
theorem none_key_matches_none : Val.eq .none .none = true ∧ ∀ v, Val.eq .none v = true → v = .none := by
  refine ⟨by simp [Val.eq], ?_⟩
  intro v; cases v <;> simp [Val.eq]

/-! ### crossjoin: the cartesian product of the squared-up tables, left-major -/

omit hbs in
/-- the view: concatenated headers, then the cross product of the data rows squared up to their own header -/
theorem crossjoin_view (missing : Val) (ts : List Table) :
    crossJoinView missing ts = .ok ((ts.map (fun t => t.headD [])).flatten ::
      crossProduct (ts.map (fun t => stackRows (t.headD []).length missing (t.drop 1)))) := rfl

omit hbs in
/-- crossjoin of two tables: every left row paired with every right row, left-major -/
theorem crossjoin_two (a b : List Row) :
    crossProduct [a, b] = a.flatMap (fun r => b.map (fun s => r ++ s)) := by
  simp [crossProduct]

omit hbs in
/-- the number of output rows is the product of the tables' row counts -/
theorem crossjoin_count : ∀ ts : List (List Row),
    (crossProduct ts).length = (ts.map List.length).foldr (· * ·) 1
  | [] => rfl
  | t :: ts => by
    have ih := crossjoin_count ts
    simp only [crossProduct, List.map_cons, List.foldr_cons]
    rw [← ih]
    induction t with
    | nil => simp
    | cons r t iht =>
      simp only [List.flatMap_cons, List.length_append, List.length_map, iht, List.length_cons]
      rw [Nat.succ_mul]; omega

omit hbs in
/-- more than two tables: the first table crossed with the cross product of the others -/
theorem crossjoin_assoc (t : List Row) (ts : List (List Row)) :
    crossProduct (t :: ts) = crossProduct [t, crossProduct ts] := by
  simp [crossProduct]

omit hbs in
/-- position by position (hence order and multiplicity): output row `i * |b| + j` is row `i` of `a`
    followed by row `j` of `b` -/
theorem crossjoin_two_getElem : ∀ (a b : List Row) (i j : Nat) (hi : i < a.length) (hj : j < b.length),
    (crossProduct [a, b])[i * b.length + j]? = some (a[i] ++ b[j])
  | [], _, _, _, hi, _ => by simp at hi
  | r :: a, b, i, j, hi, hj => by
    rw [crossjoin_two, List.flatMap_cons]
    cases i with
    | zero =>
      rw [List.getElem?_append_left (by simpa using hj)]
      simp [hj]
    | succ i =>
      rw [List.getElem?_append_right (by simp [Nat.succ_mul]; omega)]
      have h := crossjoin_two_getElem a b i j (by simpa using hi) hj
      rw [crossjoin_two] at h
      have e : (i + 1) * b.length + j - (List.map (fun s => r ++ s) b).length = i * b.length + j := by
        simp [Nat.succ_mul]; omega
      rw [e, h]; simp

omit hbs in
/-- an output row is exactly a concatenation of one row of each table, in table order -/
theorem mem_crossjoin_iff : ∀ (ts : List (List Row)) (x : Row),
    x ∈ crossProduct ts ↔ ∃ choice : List Row, choice.length = ts.length ∧
      (∀ i (h : i < choice.length) (h' : i < ts.length), choice[i] ∈ ts[i]) ∧ x = choice.flatten
  | [], x => by
    simp only [crossProduct, List.mem_singleton, List.length_nil]
    constructor
    · intro h; exact ⟨[], rfl, by intro i h; simp at h, by simp [h]⟩
    · rintro ⟨c, hc, _, hx⟩
      have : c = [] := List.length_eq_zero_iff.1 hc
      simp [hx, this]
  | t :: ts, x => by
    simp only [crossProduct, List.mem_flatMap, List.mem_map]
    constructor
    · rintro ⟨r, hr, rest, hrest, rfl⟩
      obtain ⟨c, hc, hmem, rfl⟩ := (mem_crossjoin_iff ts rest).1 hrest
      refine ⟨r :: c, by simp [hc], ?_, by simp⟩
      intro i h h'
      cases i with
      | zero => simpa using hr
      | succ i => simpa using hmem i (by simpa using h) (by simpa using h')
    · rintro ⟨c, hc, hmem, rfl⟩
      cases c with
      | nil => simp at hc
      | cons r c =>
        refine ⟨r, by have := hmem 0 (by simp) (by simp); simpa using this, c.flatten, ?_, by simp⟩
        apply (mem_crossjoin_iff ts _).2
        refine ⟨c, by simpa using hc, ?_, rfl⟩
        intro i h h'
        have := hmem (i + 1) (by simpa using h) (by simpa using h'); simpa using this

/-! non-vacuity: the hypotheses are satisfiable and the merge loop is exercised on a real case -/
example : (∀ b, (some 2 : Option Nat) = some b → 1 ≤ b) := by intro b h; cases h; omega
example : Val.eq (getKey [0] [.none, .str [97]]) (getKey [1] [.str [98], .none]) = true := by decide
example : (crossProduct [[[Val.none], [Val.none, Val.none]], [[Val.none, Val.none]], [[], [Val.none]]]).length = 4 := by decide

end Petl.C06
