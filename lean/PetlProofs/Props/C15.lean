/-
  C15 — writing a table and reading it back returns the same table.

  petl's own part is framing: which rows are rendered, header flags, append = concatenation, frame
  reading until EOF, header rediscovery for JSON records.  The codecs are hypotheses here, each
  named; `Petl/Csv.lean` + `PetlProofs/Csv.lean` discharge the csv hypothesis for the dialect family
  the property quantifies over.
-/
import Petl.Codec
import Petl.Basics

namespace Petl.C15
open Petl

/-- hypothesis on a row codec: parsing the rendering of any list of rows gives their text form -/
def RowCodecOK (render : Row → Bytes) (parse : Bytes → List Row) (text : Row → Row) : Prop :=
  ∀ rows : List Row, parse (rows.flatMap render) = rows.map text

/-- tocsv/totsv then fromcsv/fromtsv: the same header and rows, every cell as text -/
theorem csv_roundtrip (render : Row → Bytes) (parse : Bytes → List Row) (text : Row → Row)
    (h : RowCodecOK render parse text) (t : Table) :
    fromBytes parse none (toBytes render true [] [] t) = t.map text := by
  simp [fromBytes, toBytes, h t]

/-- write_header=False drops exactly the header row; header=… on reading adds exactly one -/
theorem write_header_flag (render : Row → Bytes) (parse : Bytes → List Row) (text : Row → Row)
    (h : RowCodecOK render parse text) (t : Table) (hdr : Row) :
    toBytes render false [] [] t = toBytes render true [] [] (t.drop 1) ∧
    fromBytes parse (some hdr) (toBytes render false [] [] t) = hdr :: (t.drop 1).map text := by
  constructor
  · simp [toBytes]
  · have := h (t.drop 1)
    simp only [fromBytes, toBytes, Bool.false_eq_true, if_false, List.nil_append, List.append_nil]
    rw [this]

/-- append* after to* equals writing the concatenation (append* skip the header by default) -/
theorem append_is_concat (render : Row → Bytes) (t1 t2 : Table) :
    appendBytes render false (toBytes render true [] [] t1) t2 = toBytes render true [] [] (t1 ++ t2.drop 1) := by
  simp [appendBytes, toBytes, List.flatMap_append]

theorem append_twice (render : Row → Bytes) (t1 t2 t3 : Table) :
    appendBytes render false (appendBytes render false (toBytes render true [] [] t1) t2) t3
      = toBytes render true [] [] (t1 ++ t2.drop 1 ++ t3.drop 1) := by
  simp [appendBytes, toBytes, List.flatMap_append]

/-- pickle (and JSON lines): frames are self-delimiting, so reading until EOF returns exactly the
    objects dumped — also across an append boundary -/
theorem frames_roundtrip {α : Type} (dump : α → Bytes) (load : Bytes → Option (α × Bytes))
    (hload : ∀ x rest, load (dump x ++ rest) = some (x, rest)) (hne : ∀ x, dump x ≠ [])
    (xs : List α) (fuel : Nat) (hf : xs.length ≤ fuel) :
    readFrames load fuel (xs.flatMap dump) = xs := by
  induction xs generalizing fuel with
  | nil => cases fuel <;> simp [readFrames]
  | cons x xs ih =>
    cases fuel with
    | zero => simp at hf
    | succ fuel =>
      have hne' : (dump x ++ xs.flatMap dump).isEmpty = false := by
        cases hd : dump x with
        | nil => exact absurd hd (hne x)
        | cons a b => rfl
      simp only [List.flatMap_cons, readFrames, hne', Bool.false_eq_true, if_false, hload]
      rw [ih fuel (by simp at hf; omega)]

theorem pickle_append (dump : Row → Bytes) (load : Bytes → Option (Row × Bytes))
    (hload : ∀ x rest, load (dump x ++ rest) = some (x, rest)) (hne : ∀ x, dump x ≠ []) (t1 t2 : Table) :
    readFrames load (t1.length + t2.length) (appendBytes dump false (toBytes dump true [] [] t1) t2)
      = t1 ++ t2.drop 1 := by
  rw [append_is_concat]
  simp only [toBytes, if_true, List.nil_append, List.append_nil]
  apply frames_roundtrip dump load hload hne
  simp

/-- compressed and in-memory sources: a lossless byte transport does not change what is read back -/
theorem transport_roundtrip (parse : Bytes → List Row) (compress decompress : Bytes → Bytes)
    (h : ∀ b, decompress (compress b) = b) (b : Bytes) (hdr : Option Row) :
    fromBytes parse hdr (decompress (compress b)) = fromBytes parse hdr b := by rw [h]

/-! ### JSON records: field names travel in the records; the header is rediscovered on reading -/

def recLookup (k : Val) : List (Val × Val) → Option Val
  | [] => none
  | (k', v) :: rest => if Val.pyEq k' k then some v else recLookup k rest

/-- `dicts(table)`: one record per data row -/
def toRecords (hdr : Row) (rows : List Row) : List (List (Val × Val)) := rows.map (fun r => hdr.zip r)

/-- `fromdicts` / `fromjson`: header from the keys of the first record, cells by key -/
def fromRecords (recs : List (List (Val × Val))) : Table :=
  let hdr := (recs.headD []).map (·.1)
  hdr :: recs.map (fun rec => hdr.map (fun k => (recLookup k rec).getD .none))

theorem recLookup_zip (hdr r : Row) (hlen : r.length = hdr.length)
    (hd : hdr.Pairwise (fun a b => Val.pyEq a b = false)) (hrefl : ∀ k ∈ hdr, Val.pyEq k k = true) :
    hdr.map (fun k => (recLookup k (hdr.zip r)).getD .none) = r := by
  induction hdr generalizing r with
  | nil => cases r <;> simp_all
  | cons k ks ih =>
    cases r with
    | nil => simp at hlen
    | cons v vs =>
      obtain ⟨hk, hks⟩ := List.pairwise_cons.1 hd
      simp only [List.zip_cons_cons, List.map_cons, recLookup, hrefl k (by simp), if_true, Option.getD_some]
      congr 1
      have : ks.map (fun k_1 => (if Val.pyEq k k_1 = true then some v else recLookup k_1 (ks.zip vs)).getD .none)
          = ks.map (fun k' => (recLookup k' (ks.zip vs)).getD .none) := by
        apply List.map_congr_left
        intro k' hk'
        simp [hk k' hk']
      rw [this]
      exact ih vs (by simpa using hlen) hks (fun x hx => hrefl x (List.mem_cons_of_mem _ hx))

/-- tojson then fromjson (and fromdicts(dicts(t))): a table with distinct field names and at least
    one data row comes back with the same header and rows -/
theorem json_roundtrip (hdr : Row) (rows : List Row) (hne : rows ≠ [])
    (hrect : ∀ r ∈ rows, r.length = hdr.length)
    (hd : hdr.Pairwise (fun a b => Val.pyEq a b = false)) (hrefl : ∀ k ∈ hdr, Val.pyEq k k = true) :
    fromRecords (toRecords hdr rows) = hdr :: rows := by
  cases rows with
  | nil => exact absurd rfl hne
  | cons r0 rs =>
    have hh : ((toRecords hdr (r0 :: rs)).headD []).map (·.1) = hdr := by
      simp only [toRecords, List.map_cons, List.headD_cons]
      have := hrect r0 (by simp)
      rw [List.map_fst_zip]; omega
    simp only [fromRecords, hh]
    congr 1
    simp only [toRecords, List.map_map]
    conv => rhs; rw [← List.map_id (r0 :: rs)]
    apply List.map_congr_left
    intro r hr
    exact recLookup_zip hdr r (hrect r hr) hd hrefl

/-! non-vacuity -/
example : fromRecords (toRecords [.str [97], .str [98]] [[.num .int (.fin 1), .none]]) =
    [[.str [97], .str [98]], [.num .int (.fin 1), .none]] := by
  apply json_roundtrip
  · simp
  · intro r hr; simp at hr; subst hr; rfl
  · decide
  · intro k hk; simp at hk; rcases hk with rfl | rfl <;> decide

end Petl.C15
