/-
  C17 — database loads round-trip and are all-or-nothing when the source fails.
-/
import Petl.Db

namespace Petl.C17
open Petl

theorem run_inserts (d : Db) (rows : List Row) :
    (d.run (rows.map DbOp.insert)) =
      (if rows = [] then d else { d with pending := some (d.pending.getD d.committed ++ rows) }) := by
  induction rows generalizing d with
  | nil => rfl
  | cons r rs ih =>
    simp only [List.map_cons, Db.run, List.foldl_cons] at ih ⊢
    rw [ih]
    cases rs <;> simp [Db.apply]

theorem run_append (d : Db) (a b : List DbOp) : d.run (a ++ b) = (d.run a).run b := by
  simp [Db.run, List.foldl_append]

/-- inserts never touch what a fresh connection sees -/
theorem committed_run_inserts (d : Db) (rows : List Row) : (d.run (rows.map DbOp.insert)).committed = d.committed := by
  rw [run_inserts]; split <;> rfl

/-- todb followed by fromdb returns exactly the rows written (todb replaces the previous contents) -/
theorem todb_roundtrip (prior rows : List Row) (closes : Bool) :
    (({ committed := prior, pending := none } : Db).run (loadOps true true closes rows none)).committed = rows := by
  simp only [loadOps, if_true]
  rw [run_append, run_append, run_append]
  simp only [Db.run, List.foldl_cons, List.foldl_nil, Db.apply]
  have := run_inserts { committed := prior, pending := some [] } rows
  simp only [Db.run] at this
  rw [this]
  cases rows <;> cases closes <;> simp [Db.apply]

/-- appenddb extends the previous contents -/
theorem appenddb_extends (prior rows : List Row) (closes : Bool) :
    (({ committed := prior, pending := none } : Db).run (loadOps false true closes rows none)).committed = prior ++ rows := by
  simp only [loadOps, if_true, Bool.false_eq_true, if_false, List.nil_append]
  rw [run_append, run_append]
  have := run_inserts { committed := prior, pending := none } rows
  rw [this]
  cases rows <;> cases closes <;> simp [Db.run, Db.apply]

/-- all-or-nothing: if the source fails at the header, at any data row or at exhaustion, a fresh
    connection still sees the previous contents — for todb and appenddb, every kind of handle and
    either value of the commit flag -/
theorem load_all_or_nothing (prior rows : List Row) (truncate commit closes : Bool) (j : Nat) :
    (({ committed := prior, pending := none } : Db).run (loadOps truncate commit closes rows (some j))).committed = prior := by
  cases j with
  | zero => cases closes <;> simp [loadOps, Db.run, Db.apply]
  | succ k =>
    simp only [loadOps]
    rw [run_append, run_append]
    have h1 : ∀ d : Db, (d.run (if closes then [DbOp.close] else [])).committed = d.committed := by
      intro d; cases closes <;> simp [Db.run, Db.apply]
    rw [h1, committed_run_inserts]
    cases truncate <;> simp [Db.run, Db.apply]

/-- with commit=False nothing becomes visible either -/
theorem no_commit_nothing_visible (prior rows : List Row) (truncate closes : Bool) :
    (({ committed := prior, pending := none } : Db).run (loadOps truncate false closes rows none)).committed = prior := by
  simp only [loadOps, Bool.false_eq_true, if_false, List.append_nil]
  rw [run_append, run_append]
  have h1 : ∀ d : Db, (d.run (if closes then [DbOp.close] else [])).committed = d.committed := by
    intro d; cases closes <;> simp [Db.run, Db.apply]
  rw [h1, committed_run_inserts]
  cases truncate <;> simp [Db.run, Db.apply]

/-- when petl opened the connection itself (file name), no transaction survives the call -/
theorem filename_handle_closed (prior rows : List Row) (truncate commit : Bool) (failAt : Option Nat) :
    (({ committed := prior, pending := none } : Db).run (loadOps truncate commit true rows failAt)).pending = none := by
  have hclose : ∀ (d : Db) (ops : List DbOp), (d.run (ops ++ [DbOp.close])).pending = none := by
    intro d ops; rw [run_append]; simp [Db.run, Db.apply]
  cases failAt with
  | none =>
    simp only [loadOps, if_true]
    exact hclose _ _
  | some j =>
    cases j with
    | zero => simp [loadOps, Db.run, Db.apply]
    | succ k => simp only [loadOps, if_true]; exact hclose _ _

/-! non-vacuity: a load that fails after two rows into a table that had one row -/
example : (({ committed := [[.num .int (.fin 9)]], pending := none } : Db).run
    (loadOps true true false [[.num .int (.fin 1)], [.num .int (.fin 2)], [.num .int (.fin 3)]] (some 3))).committed.length = 1 ∧
  (({ committed := [[.num .int (.fin 9)]], pending := none } : Db).run
    (loadOps true true false [[.num .int (.fin 1)], [.num .int (.fin 2)], [.num .int (.fin 3)]] (some 3))).pending.map List.length = some 2 := by
  decide

end Petl.C17
