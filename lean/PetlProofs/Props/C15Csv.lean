/-
  C15, csv: the row-codec hypothesis of the framing theorems is discharged by the model of CPython's
  csv writer and reader (Petl/Csv.lean, PetlProofs/Csv.lean), for QUOTE_MINIMAL and QUOTE_ALL and every
  delimiter / quote character that differ and are not CR or LF.  `strOf` is Python's `str()` of a cell
  (what `csv.writer` applies to non-text cells); it stays a parameter.
-/
import PetlProofs.Props.C15
import PetlProofs.Csv

namespace Petl.C15
open Petl

/-- `writer.writerow(row)` and `list(reader(text))` as a row codec on petl rows -/
def csvRender (qa : Bool) (d q : Nat) (strOf : Val → List Nat) (r : Row) : Bytes :=
  Csv.writeRow qa d q (r.map strOf)

def csvParse (d q : Nat) (b : Bytes) : List Row := (Csv.readAll d q b).map (fun rec => rec.map Val.str)

def csvText (strOf : Val → List Nat) (r : Row) : Row := r.map (fun v => Val.str (strOf v))

theorem csv_codec_ok (qa : Bool) (d q : Nat) (D : Csv.Dialect d q) (strOf : Val → List Nat) :
    RowCodecOK (csvRender qa d q strOf) (csvParse d q) (csvText strOf) := by
  intro rows
  have h : rows.flatMap (csvRender qa d q strOf) = Csv.writeAll qa d q (rows.map (fun r => r.map strOf)) := by
    simp only [Csv.writeAll, List.flatMap_map]
    rfl
  rw [h]
  unfold csvParse
  rw [Csv.read_write D]
  simp [csvText, List.map_map, Function.comp_def]

/-- tocsv then fromcsv, with nothing assumed about csv: the same header and rows, every cell as text -/
theorem csv_roundtrip_concrete (qa : Bool) (d q : Nat) (D : Csv.Dialect d q) (strOf : Val → List Nat) (t : Table) :
    fromBytes (csvParse d q) none (toBytes (csvRender qa d q strOf) true [] [] t) = t.map (csvText strOf) :=
  csv_roundtrip _ _ _ (csv_codec_ok qa d q D strOf) t

/-- appendcsv after tocsv reads back as the concatenated table -/
theorem csv_append_roundtrip (qa : Bool) (d q : Nat) (D : Csv.Dialect d q) (strOf : Val → List Nat) (t1 t2 : Table) :
    fromBytes (csvParse d q) none
        (appendBytes (csvRender qa d q strOf) false (toBytes (csvRender qa d q strOf) true [] [] t1) t2)
      = (t1 ++ t2.drop 1).map (csvText strOf) := by
  rw [append_is_concat]
  exact csv_roundtrip_concrete qa d q D strOf (t1 ++ t2.drop 1)

end Petl.C15
