/-
  C11 — execution-strategy arguments never change results.

  (a) every sort-backed operator's model takes its buffer size only through `sortRows`, which is
      independent of it (C05) — stated per operator family;
  (b) presorted=True on input already sorted by the key: the skipped sort would have been the identity;
  (c) the cache clause over histories of (edit source, iterate);
  (d) the wiring table regenerated from the source on every run: every strategy argument of every
      sort-backed operator is forwarded to every sort it creates.
-/
import Petl.SortCache
import Petl.Gen.SortWiring
import PetlProofs.Dedup
import PetlProofs.Props.C06
import Petl.SetOps
import Petl.Reshape

namespace Petl.C11
open Petl

/-- the buffer size is irrelevant to the sort every operator is built on -/
theorem sortRows_bs_irrelevant (idx : List Nat) (rev : Bool) (b : Nat) (hb : 1 ≤ b) (rows : List Row) :
    sortRows (rowLe idx rev) (some b) rows = sortRows (rowLe idx rev) none rows :=
  sortRows_eq_mergeSort _ (rowLe_totalPre idx rev) b hb rows

theorem sortedGroups_bs_irrelevant (kidx : List Nat) (b : Nat) (hb : 1 ≤ b) (rows : List Row) :
    sortedGroups kidx (some b) rows = sortedGroups kidx none rows := by
  simp only [sortedGroups, sortRows_bs_irrelevant kidx false b hb]

/-- joins (join, leftjoin, rightjoin, outerjoin, antijoin, lookupjoin) -/
theorem join_strategy_irrelevant (kind : JoinKind) (m : Val) (lp rp : Option (List Nat)) (lk rk : List FSpec)
    (b : Nat) (hb : 1 ≤ b) (L R : Table) :
    joinView kind m lp rp lk rk (some b) L R = joinView kind m lp rp lk rk none L R := by
  unfold joinView
  cases L with
  | nil => rfl
  | cons lh lrows =>
    cases R with
    | nil => rfl
    | cons rh rrows =>
      simp only
      split <;> try rfl
      simp only [sortRows_bs_irrelevant _ false b hb]

/-- set operations -/
theorem setop_strategy_irrelevant (op : SetOp) (strict : Bool) (b : Nat) (hb : 1 ≤ b) (A B : Table) :
    setOpView op strict (some b) A B = setOpView op strict none A B := by
  unfold setOpView
  cases A with
  | nil => rfl
  | cons ah ar =>
    cases B with
    | nil => rfl
    | cons bh br =>
      cases op <;> simp only [sortAll, sortRows_bs_irrelevant _ false b hb]

/-- dedup family -/
theorem dedup_strategy_irrelevant (op : DedupOp) (key : Option (List FSpec)) (b : Nat) (hb : 1 ≤ b) (t : Table) :
    dedupView op key (some b) t = dedupView op key none t := by
  unfold dedupView
  cases t with
  | nil => rfl
  | cons hdr rows =>
    simp only
    split
    · rfl
    · simp only [sortRows_bs_irrelevant _ false b hb]

/-- grouping / aggregation family and the reshape operators that sort -/
theorem grouping_strategy_irrelevant (kidx : List Nat) (b : Nat) (hb : 1 ≤ b) (rows : List Row)
    (keyHdr : Row) (field : Val) (vidx : Option (List Nat)) (f : AggFn) (hdr : Row) (last : Bool)
    (outHdr : Row) (vf : List Nat) (missing : Val) (vi wi : Nat) (vars : List Val) :
    simpleAggregate keyHdr field kidx vidx f (some b) rows = simpleAggregate keyHdr field kidx vidx f none rows ∧
    groupSelect last hdr kidx (some b) rows = groupSelect last hdr kidx none rows ∧
    foldAdd kidx vf (some b) rows = foldAdd kidx vf none rows ∧
    mergeDuplicates outHdr kidx vf missing (some b) rows = mergeDuplicates outHdr kidx vf missing none rows ∧
    recastRows kidx vi wi vars missing (some b) rows = recastRows kidx vi wi vars missing none rows := by
  have h := sortedGroups_bs_irrelevant kidx b hb rows
  refine ⟨?_, ?_, ?_, ?_, ?_⟩ <;>
    simp only [simpleAggregate, groupSelect, foldAdd, mergeDuplicates, recastRows, h]

/-- presorted=True: if the input is already sorted by the key, the sort that is skipped would have
    returned the input unchanged — so every operator sees the same rows either way -/
theorem presorted_on_sorted (idx : List Nat) (rev : Bool) (bs : Option Nat) (hbs : ∀ b, bs = some b → 1 ≤ b)
    (rows : List Row) (hs : SortedL (rowLe idx rev) rows) : sortRows (rowLe idx rev) bs rows = rows := by
  cases bs with
  | none => exact List.mergeSort_of_pairwise hs
  | some b =>
    rw [sortRows_eq_mergeSort _ (rowLe_totalPre idx rev) b (hbs b rfl)]
    exact List.mergeSort_of_pairwise hs

/-! ### the cache clause -/

/-- cache=False: every pass re-reads the source and reflects its current contents -/
theorem cache_false_fresh (sortOf : List Row → List Row) (s : SCState) :
    (scStep false sortOf s .pass).2.1 = some (sortOf s.src) ∧ (scStep false sortOf s .pass).2.2 = s.src.length := by
  simp [scStep]

/-- cache=True: a pass after a completed one yields that pass's rows again and reads nothing —
    whatever edits happened in between -/
theorem cache_true_replay (sortOf : List Row → List Row) (s : SCState) (edits : List (List Row)) :
    let s1 := (scStep true sortOf s .pass).1
    let out1 := (scStep true sortOf s .pass).2.1
    let s2 := (edits.map SCOp.edit).foldl (fun st op => (scStep true sortOf st op).1) s1
    (scStep true sortOf s2 .pass).2.1 = out1 ∧ (scStep true sortOf s2 .pass).2.2 = 0 := by
  intro s1 out1 s2
  have hc : ∀ (es : List (List Row)) (st : SCState),
      ((es.map SCOp.edit).foldl (fun st op => (scStep true sortOf st op).1) st).cache = st.cache := by
    intro es
    induction es with
    | nil => intro st; rfl
    | cons e es ih => intro st; simp only [List.map_cons, List.foldl_cons]; rw [ih]; rfl
  have h1 : s1.cache = out1 := by
    simp only [s1, out1, scStep]
    cases hcache : s.cache <;> simp [hcache]
  have h2 : s2.cache = out1 := by rw [← h1]; exact hc edits s1
  have hsome : ∃ o, out1 = some o := by
    simp only [out1, scStep]; cases s.cache <;> simp
  obtain ⟨o, ho⟩ := hsome
  simp only [scStep, h2, ho]
  constructor <;> first | rfl | trivial

/-- the first pass (and, with cache=False, every pass) is the sort of the current source -/
theorem first_pass_is_sort (cacheOn : Bool) (sortOf : List Row → List Row) (src : List Row) :
    (scStep cacheOn sortOf { src := src, cache := none } .pass).2.1 = some (sortOf src) := by
  cases cacheOn <;> simp [scStep]

/-! ### wiring: regenerated from petl/transform/*.py on every run -/

/-- every strategy argument accepted by a sort-backed operator is forwarded to every sort-backed
    callee it creates (checked over the whole generated table) -/
theorem all_strategy_arguments_forwarded : ∀ w ∈ Gen.sortWiring, w.forwarded = true := by
  decide +kernel

/-! non-vacuity -/
example : Gen.sortWiring ≠ [] := by decide +kernel

end Petl.C11
