/-
  C14 — reshape operators are mutually inverse and cell-exact.
-/
import Petl.Reshape
import PetlProofs.SetOps

namespace Petl.C14
open Petl

/-! ### transpose -/

theorem getCell_map_range (r : Row) : (List.range r.length).map (getCell r) = r := map_getCell_range r

/-- transpose is an involution on rectangular tables (every row, header included, of width w > 0) -/
theorem transpose_involutive (t : Table) (w : Nat) (hw : 0 < w) (hne : t ≠ [])
    (hrect : ∀ r ∈ t, r.length = w) : transposeT (transposeT t) = t := by
  obtain ⟨hdr, rows, rfl⟩ : ∃ h rs, t = h :: rs := by
    cases t with
    | nil => exact absurd rfl hne
    | cons h rs => exact ⟨h, rs, rfl⟩
  have hh : hdr.length = w := hrect hdr (by simp)
  have h1 : transposeT (hdr :: rows) = (List.range w).map (fun i => (hdr :: rows).map (fun r => getCell r i)) := by
    simp [transposeT, hh]
  have hhead : ((transposeT (hdr :: rows)).headD []).length = (hdr :: rows).length := by
    rw [h1]
    obtain ⟨w', rfl⟩ : ∃ w', w = w' + 1 := ⟨w - 1, by omega⟩
    simp [List.range_succ_eq_map]
  unfold transposeT at hhead ⊢
  rw [hhead]
  apply List.ext_getElem
  · simp
  · intro j h1' h2'
    simp only [List.getElem_map, List.getElem_range, List.map_map]
    have hj : j < (hdr :: rows).length := by simpa using h1'
    have hrow : ((hdr :: rows)[j]).length = w := hrect _ (List.getElem_mem hj)
    rw [← getCell_map_range ((hdr :: rows)[j]), hrow]
    simp only [List.headD_cons, hh]
    apply List.map_congr_left
    intro i _
    have hm : ∀ (l : List Row), (l.map (fun r => getCell r i))[j]?.getD Val.none
        = ((l[j]?).map (fun r => getCell r i)).getD Val.none := by
      intro l; rw [List.getElem?_map]
    simp only [Function.comp, getCell, List.getD] at hm ⊢
    rw [hm (hdr :: rows), List.getElem?_eq_getElem hj]
    simp

/-! ### flatten / unflatten -/

theorem unflattenLoop_fill (n : Nat) (m : Val) : ∀ (suf pre X : List Val),
    pre.length + suf.length ≤ n → unflattenLoop n m pre (suf ++ X) = unflattenLoop n m (pre ++ suf) X := by
  intro suf
  induction suf with
  | nil => intro pre X _; simp
  | cons v suf ih =>
    intro pre X h
    simp only [List.length_cons] at h
    have hlt : pre.length < n := by omega
    simp only [List.cons_append, unflattenLoop, hlt, if_true]
    rw [ih (pre ++ [v]) X (by simp; omega)]
    simp

/-- unflatten(flatten(t), n) reproduces the data rows of an n-field table -/
theorem unflatten_flatten (n : Nat) (hn : 0 < n) (m : Val) (rows : List Row) (hrect : ∀ r ∈ rows, r.length = n) :
    unflattenRows n m (flattenVals rows) = rows := by
  have key : ∀ (rows : List Row), (∀ r ∈ rows, r.length = n) →
      ∀ (cur : Row), (cur = [] ∨ cur.length = n) →
        unflattenLoop n m cur rows.flatten = (if cur = [] then [] else [cur]) ++ rows := by
    intro rows
    induction rows with
    | nil =>
      intro _ cur hc
      rcases hc with rfl | hc
      · simp [unflattenLoop]
      · have : cur ≠ [] := by intro h; subst h; simp at hc; omega
        have hie : cur.isEmpty = false := by cases cur <;> simp_all
        simp [unflattenLoop, this, hc, hie]
    | cons r rs ih =>
      intro hr cur hc
      have hrn : r.length = n := hr r (by simp)
      have hrs := ih (fun x hx => hr x (List.mem_cons_of_mem _ hx))
      obtain ⟨v, r', rfl⟩ : ∃ v r', r = v :: r' := by
        cases r with
        | nil => simp at hrn; omega
        | cons v r' => exact ⟨v, r', rfl⟩
      simp only [List.flatten_cons, List.cons_append]
      have hfill : unflattenLoop n m [v] (r' ++ rs.flatten) = unflattenLoop n m (v :: r') rs.flatten := by
        have := unflattenLoop_fill n m r' [v] rs.flatten (by simp at hrn ⊢; omega)
        simpa using this
      have hne : (v :: r') ≠ [] := by simp
      rcases hc with rfl | hc
      · simp only [unflattenLoop, List.length_nil, hn, if_true, List.nil_append]
        rw [hfill, hrs (v :: r') (Or.inr hrn)]
        simp
      · have : cur ≠ [] := by intro h; subst h; simp at hc; omega
        have hnl : ¬ cur.length < n := by omega
        simp only [unflattenLoop, hnl, if_false, this]
        rw [hfill, hrs (v :: r') (Or.inr hrn)]
        simp
  have := key rows hrect [] (Or.inl rfl)
  simpa [unflattenRows, flattenVals] using this

/-! ### melt -/

/-- on rows that have all the selected cells, melt emits exactly one row per (row, variable) cell:
    the key cells, the variable's name, the cell -/
theorem melt_cells (kidx : List Nat) (vars : List (Nat × Val)) (rows : List Row)
    (hk : ∀ r ∈ rows, ∀ i ∈ kidx, i < r.length) (hv : ∀ r ∈ rows, ∀ p ∈ vars, p.1 < r.length) :
    meltRows kidx vars rows =
      (rows.flatMap (fun r => vars.map (fun p => kidx.map (getCell r) ++ [p.2, getCell r p.1])), none) := by
  induction rows with
  | nil => rfl
  | cons r rs ih =>
    have ih' := ih (fun x hx => hk x (List.mem_cons_of_mem _ hx)) (fun x hx => hv x (List.mem_cons_of_mem _ hx))
    have h1 : kidx.any (fun i => decide (r.length ≤ i)) = false := by
      rw [List.any_eq_false]; intro i hi; have := hk r (by simp) i hi; simp; omega
    have h2 : vars.filterMap (fun (p : Nat × Val) =>
        if p.1 < r.length then some (kidx.map (getCell r) ++ [p.2, getCell r p.1]) else none)
        = vars.map (fun p => kidx.map (getCell r) ++ [p.2, getCell r p.1]) := by
      have : ∀ (vs : List (Nat × Val)), (∀ p ∈ vs, p.1 < r.length) →
          vs.filterMap (fun (p : Nat × Val) =>
            if p.1 < r.length then some (kidx.map (getCell r) ++ [p.2, getCell r p.1]) else none)
          = vs.map (fun p => kidx.map (getCell r) ++ [p.2, getCell r p.1]) := by
        intro vs
        induction vs with
        | nil => intro _; rfl
        | cons p ps ihp =>
          intro h
          simp [List.filterMap_cons, h p (by simp), ihp (fun q hq => h q (List.mem_cons_of_mem _ hq))]
      exact this vars (hv r (by simp))
    simp only [meltRows, meltRow, h1, Bool.false_eq_true, if_false, ih', List.flatMap_cons]
    congr 2

theorem melt_row_count (kidx : List Nat) (vars : List (Nat × Val)) (rows : List Row)
    (hk : ∀ r ∈ rows, ∀ i ∈ kidx, i < r.length) (hv : ∀ r ∈ rows, ∀ p ∈ vars, p.1 < r.length) :
    (meltRows kidx vars rows).1.length = rows.length * vars.length ∧ (meltRows kidx vars rows).2 = none := by
  rw [melt_cells kidx vars rows hk hv]
  refine ⟨?_, rfl⟩
  have : ∀ (rs : List Row), (rs.flatMap (fun r => vars.map (fun p => kidx.map (getCell r) ++ [p.2, getCell r p.1]))).length
      = rs.length * vars.length := by
    intro rs
    induction rs with
    | nil => simp
    | cons r rs ih => rw [List.flatMap_cons, List.length_append, ih, List.length_map, List.length_cons, Nat.succ_mul]; omega
  exact this rows

/-! ### recast -/

/-- each output row of recast is the key of one key group followed, per variable (in sorted order),
    by the value(s) of exactly the rows of that group carrying that variable -/
theorem recast_cell (kidx : List Nat) (vari vali : Nat) (variables : List Val) (missing : Val)
    (bs : Option Nat) (rows : List Row) :
    (recastRows kidx vari vali variables missing bs rows).length = (sortedGroups kidx bs rows).length ∧
    ∀ out ∈ recastRows kidx vari vali variables missing bs rows, ∃ g ∈ sortedGroups kidx bs rows,
      out = (match g.2 with | r :: _ => kidx.map (getCell r) | [] => []) ++
        variables.map (fun v =>
          match (g.2.filter (fun r => Val.pyEq (getCell r vari) v)).map (fun r => getCell r vali) with
          | [] => missing | [x] => x | xs => .seq true xs) := by
  refine ⟨by simp [recastRows], ?_⟩
  intro out hout
  simp only [recastRows, List.mem_map] at hout
  obtain ⟨g, hg, rfl⟩ := hout
  exact ⟨g, hg, rfl⟩

/-! ### unpack, capture/split, splitdown leave the other fields unchanged -/

theorem unpack_frame (fi n : Nat) (m : Val) (r : Row) (l : Bool) (xs : List Val)
    (hfi : fi < r.length) (hc : getCell r fi = .seq l xs) :
    unpackRow fi n true m r = .ok (r ++ (if n = 0 then [] else xs.take n ++ List.replicate (n - xs.length) m)) ∧
    unpackRow fi n false m r =
      .ok (r.eraseIdx fi ++ (if n = 0 then [] else xs.take n ++ List.replicate (n - xs.length) m)) := by
  have : ¬ r.length ≤ fi := by omega
  constructor <;> (simp only [unpackRow, this, if_false, hc]; split <;> simp_all)

theorem expand_frame (fi : Nat) (r : Row) (parts : List Val) :
    expandRow fi true r parts = r ++ parts ∧ expandRow fi false r parts = r.eraseIdx fi ++ parts := ⟨rfl, rfl⟩

theorem splitdown_frame (w fi : Nat) (r : Row) (parts : List Val) :
    (splitdownRow w fi r parts).length = parts.length ∧
    ∀ (k : Nat) (p : Val), parts[k]? = some p → ∃ out : Row, (splitdownRow w fi r parts)[k]? = some out ∧ out.length = w ∧
      ∀ i, i < w → out[i]? = some (if i = fi then p else getCell r i) := by
  refine ⟨by simp [splitdownRow], ?_⟩
  intro k p hp
  refine ⟨(List.range w).map (fun i => if i = fi then p else getCell r i), by simp [splitdownRow, hp], by simp, ?_⟩
  intro i hi
  simp [hi]

/-! ### fromcolumns ∘ columns -/

theorem foldl_max_const (k : Nat) : ∀ (l : List Nat) (a : Nat), (∀ x ∈ l, x = k) → a ≤ k → l ≠ [] →
    l.foldl max a = k := by
  intro l
  induction l with
  | nil => intro a _ _ h; exact absurd rfl h
  | cons x xs ih =>
    intro a hx ha _
    have hxk : x = k := hx x (by simp)
    simp only [List.foldl_cons]
    cases xs with
    | nil => simp [hxk]; omega
    | cons y ys =>
      exact ih (max a x) (fun z hz => hx z (List.mem_cons_of_mem _ hz)) (by rw [hxk]; omega) (by simp)

/-- fromcolumns(columns(t)) reproduces the data rows of a rectangular table (w > 0 fields) -/
theorem fromcolumns_columns (w : Nat) (hw : 0 < w) (m : Val) (rows : List Row) (hrect : ∀ r ∈ rows, r.length = w) :
    fromColumnsRows m (columnsOf w m rows) = rows := by
  unfold fromColumnsRows columnsOf
  have hn : (((List.range w).map (fun j => rows.map (fun r => padGet m r j))).map List.length).foldl max 0 = rows.length := by
    apply foldl_max_const
    · intro x hx; simp at hx; obtain ⟨_, _, rfl⟩ := hx; rfl
    · omega
    · obtain ⟨w', rfl⟩ : ∃ w', w = w' + 1 := ⟨w - 1, by omega⟩
      simp [List.range_succ_eq_map]
  simp only [hn]
  apply List.ext_getElem
  · simp
  · intro i h1 h2
    simp only [List.getElem_map, List.getElem_range, List.map_map]
    have hi : i < rows.length := by simpa using h2
    have hrow : (rows[i]).length = w := hrect _ (List.getElem_mem hi)
    rw [← getCell_map_range rows[i], hrow]
    apply List.map_congr_left
    intro j hj
    have hjw : j < (rows[i]).length := by rw [hrow]; simpa using hj
    have hm : ∀ (l : List Row), (l.map (fun r => padGet m r j)).getD i m
        = ((l[i]?).map (fun r => padGet m r j)).getD m := by
      intro l; simp [List.getD, List.getElem?_map]
    simp only [Function.comp]
    rw [hm rows, List.getElem?_eq_getElem hi]
    simp [padGet, getCell, List.getD, List.getElem?_eq_getElem hjw]

/-! non-vacuity -/
example : transposeT [[.str [97], .str [98]], [.num .int (.fin 1), .none]]
    = [[.str [97], .num .int (.fin 1)], [.str [98], .none]] := by
  simp [transposeT, getCell, List.range_succ, List.range_zero]

end Petl.C14
