/-
  C20 — tables with a header and no data rows are handled by every operator.
  Corollaries of the operator models: with no data rows every modelled operator returns what its
  definition gives for zero rows and never an error.
-/
import Petl.Reshape
import Petl.HashJoin
import Petl.SetOps
import Petl.Dedup
import PetlProofs.Props.C06
import Petl.Gen.BareNext

namespace Petl.C20
open Petl

theorem sortRows_nil {α : Type} (le : α → α → Bool) (bs : Option Nat) : sortRows le bs ([] : List α) = [] := by
  cases bs with
  | none => simp [sortRows]
  | some b =>
    simp only [sortRows, List.take_nil, List.length_nil]
    split
    · simp
    · rename_i h
      have : b = 0 := by omega
      subst this; simp [chunks, chunksAux, toRuns, kmerge, pickMin]

/-- sort / mergesort: the header and no rows, for every key that exists, direction and buffer size -/
theorem sort_header_only (hdr : Row) (rev : Bool) (bs : Option Nat) :
    (∀ k idx, asindices hdr k = .ok idx → sortView [hdr] (some k) rev bs = .ok [hdr]) ∧
    (hdr ≠ [] → sortView [hdr] none rev bs = .ok [hdr]) := by
  constructor
  · intro k idx h; simp [sortView, h, sortRows_nil]
  · intro h
    have : hdr.isEmpty = false := by cases hdr <;> simp_all
    simp [sortView, this, sortRows_nil]

theorem groups_nil (key : Row → Val) : groups key [] = [] := rfl

/-- join family: with a header-only side the output is the header plus, for the outer variants, the
    other side's rows padded; antijoin keeps the left rows; never an error -/
theorem joins_header_only (ops : JoinOps) (lo ro : Bool) (gs : List (Val × List Row)) :
    mergeGroups ops lo ro [] [] = [] ∧
    mergeGroups ops false false gs [] = [] ∧ mergeGroups ops false false [] gs = [] ∧
    mergeGroups ops true ro gs [] = gs.flatMap (fun g => g.2.map ops.padL) ∧
    mergeGroups ops lo true [] gs = gs.flatMap (fun g => g.2.map ops.padR) ∧
    antiGroups gs [] = gs.flatMap (fun g => g.2) ∧ antiGroups [] gs = [] ∧
    lookupGroups ops gs [] = gs.flatMap (fun g => g.2.map ops.padL) ∧ lookupGroups ops [] gs = [] := by
  refine ⟨by cases ro <;> simp [mergeGroups], ?_, by simp [mergeGroups], ?_, by simp [mergeGroups],
    ?_, by simp [antiGroups], ?_, by simp [lookupGroups]⟩
  · cases gs <;> simp [mergeGroups]
  · cases gs <;> simp [mergeGroups]
  · cases gs <;> simp [antiGroups]
  · cases gs <;> simp [lookupGroups]

theorem hashjoins_header_only (ops : JoinOps) (kl kr : Row → Val) (L R : List Row) :
    hashInner ops kl kr [] R = [] ∧ hashInner ops kl kr L [] = [] ∧
    hashLeft ops kl kr L [] = L.map ops.padL ∧ hashLeft ops kl kr [] R = [] ∧
    hashRight ops kl kr [] R = R.map ops.padR ∧ hashRight ops kl kr L [] = [] ∧
    hashAnti kl kr L [] = L ∧ hashAnti kl kr [] R = [] ∧
    hashLookup ops kl kr L [] = L.map ops.padL := by
  refine ⟨rfl, ?_, ?_, rfl, ?_, rfl, ?_, rfl, ?_⟩
  · simp [hashInner, buildLookup, Dict.get]
  · simp only [hashLeft, buildLookup, List.foldl_nil, Dict.get, List.find?_nil, Option.map_none]
    induction L with
    | nil => rfl
    | cons l L ih => simp [List.flatMap_cons, ih]
  · simp only [hashRight, buildLookup, List.foldl_nil, Dict.get, List.find?_nil, Option.map_none]
    induction R with
    | nil => rfl
    | cons l L ih => simp [List.flatMap_cons, ih]
  · simp [hashAnti]
  · simp [hashLookup, buildLookupOne, Dict.get]

theorem setops_header_only (strict : Bool) (A B : List Row) :
    complLoop strict [] B = [] ∧ complLoop strict A [] = A ∧
    interLoop [] B = [] ∧ interLoop A [] = [] ∧
    hashComplLoop strict [] B = [] ∧ hashComplLoop strict A [] = A ∧
    hashInterLoop [] B = [] ∧ hashInterLoop A [] = [] := by
  refine ⟨by simp [complLoop], by cases A <;> simp [complLoop], by simp [interLoop],
    by cases A <;> simp [interLoop], rfl, ?_, rfl, ?_⟩
  · induction A with
    | nil => rfl
    | cons a A ih => simp [hashComplLoop, ih]
  · induction A with
    | nil => rfl
    | cons a A ih => simp [hashInterLoop, ih]

/-- grouping / aggregation: no groups, hence the header and no rows -/
theorem grouping_header_only (kidx : List Nat) (bs : Option Nat) (keyHdr : Row) (field : Val)
    (vidx : Option (List Nat)) (f : AggFn) (hdr : Row) (last : Bool) :
    sortedGroups kidx bs [] = [] ∧
    simpleAggregate keyHdr field kidx vidx f bs [] = { rows := [keyHdr ++ [field]], err := none } ∧
    groupSelect last hdr kidx bs [] = { rows := [hdr], err := none } ∧
    foldAdd kidx kidx bs [] = { rows := [[.str [107, 101, 121], .str [118, 97, 108, 117, 101]]], err := none } := by
  have h : sortedGroups kidx bs [] = [] := by simp [sortedGroups, sortRows_nil, groups]
  refine ⟨h, ?_, ?_, ?_⟩ <;> simp [simpleAggregate, groupSelect, foldAdd, h, mapGroups, mkOut]

theorem dedup_header_only (key : Row → Val) (sel : Nat → Bool) (m : Val) :
    dupRows key [] = [] ∧ uniqRows key [] = [] ∧ distinctRows key [] = [] ∧ distinctCountRows key [] = [] ∧
    confRows key sel m [] = [] ∧ isUniqueVals [] = true :=
  ⟨rfl, rfl, rfl, rfl, rfl, rfl⟩

theorem select_header_only (idx : List Nat) (m : Val) (p : Val → Bool) (c : Bool) (a : Nat) (b : Option Nat) (s n : Nat) :
    fieldSelect idx m p c [] = [] ∧ rowSelect (fun _ => true) c [] = [] ∧
    islice a b s ([] : List Row) = [] ∧ tailRows n ([] : List Row) = [] := by
  refine ⟨rfl, rfl, ?_, by simp [tailRows]⟩
  cases b <;> simp [islice, everyNth]

theorem transforms_header_only (hdr : Row) (idx : List Nat) (m : Val) (w : Nat) (a b : Int) (fill : Row)
    (f : Val) (fv : FieldVal) (i : Option Int) :
    pickRows idx m [] = [] ∧ catRows hdr m [hdr] = [] ∧
    (addfieldView f fv i m [hdr]).rows = [pyInsert hdr i f] ∧
    addrownumbersRows a b 0 [] = [] ∧ addcolumnRows w i m [] [] = [] ∧
    filldownRows idx m fill [] = [] ∧ recordsOf w m [] = [] ∧ valuesOf idx m [] = [] ∧
    (convertRows .raise m (fun _ => none) []) = ([], none) := by
  refine ⟨rfl, rfl, rfl, rfl, by simp [addcolumnRows], rfl, rfl, rfl, rfl⟩

theorem reshape_header_only (kidx : List Nat) (vars : List (Nat × Val)) (hdr : Row) (n : Nat) (m : Val)
    (vari vali : Nat) (vs : List Val) (bs : Option Nat) :
    meltRows kidx vars [] = ([], none) ∧
    transposeT [hdr] = hdr.zipIdx.map (fun (c, _) => [c]) ∧
    flattenVals [] = [] ∧ unflattenRows n m [] = [] ∧
    recastRows kidx vari vali vs m bs [] = [] := by
  refine ⟨rfl, ?_, rfl, rfl, ?_⟩
  · simp only [transposeT, List.headD_cons, List.map_cons, List.map_nil]
    apply List.ext_getElem
    · simp
    · intro i h1 h2
      simp at h2
      simp [getCell, List.getD, List.getElem?_eq_getElem h2]
  · simp [recastRows, sortedGroups, sortRows_nil, groups]

/-! non-vacuity: the statements are about arbitrary headers; e.g. a 2-field header with a duplicate name -/
example : sortView [[.str [97], .str [97]]] (some [.name [97]]) false (some 1) = .ok [[.str [97], .str [97]]] := by
  apply (sort_header_only _ _ _).1 _ [0]
  simp [asindices, asindicesAux, findName, fldName, Except.map]

/-- tie by translation: in no generator function of petl/transform, the modelled util modules and the text-format
    readers is a data row fetched with next() outside a try that catches StopIteration (inside a generator the escaping
    StopIteration would become a RuntimeError on a table without data rows).  The list of such sites is regenerated from
    the source on every run (translators/bare_next.py) and must be empty. -/
theorem no_unguarded_data_next : Gen.bareNextSites = [] := by decide

end Petl.C20
