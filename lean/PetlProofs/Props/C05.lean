/-
  C05 — sort/mergesort: stable ordered permutation, same under every buffering strategy.
  Property theorems only; helpers in PetlProofs/Sort.lean.
-/
import PetlProofs.Sort

import Petl.Ops

namespace Petl.C05
open Petl

/-- Every buffer size ≥ 1 gives exactly the in-memory result (hence all buffer sizes agree,
    including buffersize = nrows, nrows ± 1): whole view, header and error behaviour included. -/
theorem sort_buffersize_irrelevant (t : Table) (key : Option (List FSpec)) (reverse : Bool)
    (b : Nat) (hb : 1 ≤ b) : sortView t key reverse (some b) = sortView t key reverse none := by
  unfold sortView
  cases t with
  | nil =>
    cases key with
    | none => rfl
    | some k =>
      simp only
      split
      · rfl
      · rw [sortRows_eq_mergeSort _ (rowLe_totalPre _ _) b hb]; rfl
  | cons hdr rows =>
    simp only
    split
    · rfl
    · rw [sortRows_eq_mergeSort _ (rowLe_totalPre _ _) b hb]; rfl

theorem sort_any_two_buffersizes (t : Table) (key : Option (List FSpec)) (reverse : Bool)
    (b b' : Nat) (hb : 1 ≤ b) (hb' : 1 ≤ b') :
    sortView t key reverse (some b) = sortView t key reverse (some b') := by
  rw [sort_buffersize_irrelevant t key reverse b hb, sort_buffersize_irrelevant t key reverse b' hb']

/-- The data rows delivered are the stable sort of the input data rows under the C04 ordering of the
    key: ordered (non-decreasing, or non-increasing with reverse), and each class of equal keys in
    input order. Chunked or not. -/
theorem sortRows_stable_sort (idx : List Nat) (reverse : Bool) (bs : Option Nat)
    (hbs : ∀ b, bs = some b → 1 ≤ b) (rows : List Row) :
    IsStableSortOf (rowLe idx reverse) (sortRows (rowLe idx reverse) bs rows) rows := by
  cases bs with
  | none => exact mergeSort_isStableSort _ (rowLe_totalPre idx reverse) rows
  | some b =>
    rw [sortRows_eq_mergeSort _ (rowLe_totalPre idx reverse) b (hbs b rfl)]
    exact mergeSort_isStableSort _ (rowLe_totalPre idx reverse) rows

/-- … and a permutation of them (same multiset of rows). -/
theorem sortRows_perm (idx : List Nat) (reverse : Bool) (bs : Option Nat)
    (hbs : ∀ b, bs = some b → 1 ≤ b) (rows : List Row) :
    (sortRows (rowLe idx reverse) bs rows).Perm rows := by
  cases bs with
  | none => exact List.mergeSort_perm rows _
  | some b =>
    rw [sortRows_eq_mergeSort _ (rowLe_totalPre idx reverse) b (hbs b rfl)]
    exact List.mergeSort_perm rows _

/-- ascending order in terms of `<` on keys: no later row has a strictly smaller key -/
theorem sort_ascending (idx : List Nat) (bs : Option Nat) (hbs : ∀ b, bs = some b → 1 ≤ b) (rows : List Row) :
    (sortRows (rowLe idx false) bs rows).Pairwise (fun a b => Val.lt (getKey idx b) (getKey idx a) = false) := by
  have := (sortRows_stable_sort idx false bs hbs rows).1
  simpa [SortedL, rowLe] using this

theorem sort_descending (idx : List Nat) (bs : Option Nat) (hbs : ∀ b, bs = some b → 1 ≤ b) (rows : List Row) :
    (sortRows (rowLe idx true) bs rows).Pairwise (fun a b => Val.lt (getKey idx a) (getKey idx b) = false) := by
  have := (sortRows_stable_sort idx true bs hbs rows).1
  simpa [SortedL, rowLe] using this

/-- the output is determined by the specification alone -/
theorem stable_sort_unique (idx : List Nat) (reverse : Bool) (o1 o2 inp : List Row)
    (h1 : IsStableSortOf (rowLe idx reverse) o1 inp) (h2 : IsStableSortOf (rowLe idx reverse) o2 inp) : o1 = o2 :=
  stableSort_unique _ (rowLe_totalPre idx reverse) o1 o2 h1.1 h2.1 (fun a => (h1.2 a).trans (h2.2 a).symm)

/-- mergesort of several tables (each sorted separately, any buffer size, then merged) equals the sort
    of their concatenation — for any number of tables of any lengths (tables over one header). -/
theorem mergesort_eq_sort_cat (idx : List Nat) (reverse : Bool) (tables : List (List Row)) :
    mergeSorted (rowLe idx reverse) (tables.map (fun t => t.mergeSort (rowLe idx reverse)))
      = (tables.flatten).mergeSort (rowLe idx reverse) :=
  kmerge_sorted_pieces _ (rowLe_totalPre idx reverse) tables

/-- the same for tables with different fields (the behaviour repaired in /repo 2f346d7, `Petl.mergesortH`): each table
    is rearranged to the output header before it is sorted, so the merge is the sort of what `cat` delivers —
    whatever the key (positional, none, a field some table lacks), `missing` and the buffer size -/
theorem mergesort_differing_fields_eq_sort_cat (idx : List Nat) (reverse : Bool) (bs : Option Nat)
    (hbs : ∀ b, bs = some b → 1 ≤ b) (outhdr : Row) (missing : Val) (ts : List Table) :
    mergesortH idx reverse bs outhdr missing ts
      = ((ts.map (catRows outhdr missing)).flatten).mergeSort (rowLe idx reverse) := by
  unfold mergesortH
  have h := mergesort_eq_sort_cat idx reverse (ts.map (catRows outhdr missing))
  rw [List.map_map] at h
  rw [← h]
  congr 1
  apply List.map_congr_left
  intro t _
  simp only [Function.comp]
  cases bs with
  | none => simp [sortRows]
  | some b => exact sortRows_eq_mergeSort _ (rowLe_totalPre idx reverse) b (hbs b rfl) _

/-- … and `cat` delivers exactly that concatenation -/
theorem cat_rows (missing : Val) (ts : List Table) :
    catView missing none ts
      = .ok (catHeader (ts.map (fun t => t.headD [])) ::
              (ts.map (catRows (catHeader (ts.map (fun t => t.headD []))) missing)).flatten) := rfl

/-- with presorted inputs the merge alone already gives the sort of the concatenation -/
theorem mergesort_presorted (idx : List Nat) (reverse : Bool) (tables : List (List Row))
    (hs : ∀ t ∈ tables, SortedL (rowLe idx reverse) t) :
    mergeSorted (rowLe idx reverse) tables = (tables.flatten).mergeSort (rowLe idx reverse) := by
  have h := mergesort_eq_sort_cat idx reverse tables
  have hm : tables.map (fun t => t.mergeSort (rowLe idx reverse)) = tables := by
    conv => rhs; rw [← List.map_id tables]
    apply List.map_congr_left
    intro t ht
    exact List.mergeSort_of_pairwise (hs t ht)
  rw [hm] at h
  exact h

/-- sorting an already sorted list changes nothing (used for `presorted=True`, C11) -/
theorem sort_of_sorted (idx : List Nat) (reverse : Bool) (rows : List Row)
    (hs : SortedL (rowLe idx reverse) rows) : rows.mergeSort (rowLe idx reverse) = rows :=
  List.mergeSort_of_pairwise hs

/-! non-vacuity: the hypotheses hold for every key and direction, and distinct rows with equal
    keys exist (so stability says something), also when a key cell is missing -/
example : TotalPre (rowLe [0, 2] true) ∧ (1 : Nat) ≤ 2 := ⟨rowLe_totalPre _ _, by omega⟩
example :
    rowLe [0] false [.num .int (.fin 1), .str [98]] [.num .float (.fin 1), .str [99]] = true ∧
    rowLe [0] false [.num .float (.fin 1), .str [99]] [.num .int (.fin 1), .str [98]] = true ∧
    rowLe [0] false [] [.num .int (.fin 1)] = true ∧ rowLe [0] false [.num .int (.fin 1)] [] = false := by
  decide

end Petl.C05
