/-
  C04 — mixed-type ordering is one consistent total preorder: None < numbers < rest.

  Property theorems only (helpers are in PetlProofs/Order.lean).  `Val.lt`, `Val.eq`, `Val.le`,
  `Val.gt`, `Val.ge` model `Comparable.__lt__/__eq__/__le__/__gt__/__ge__`; the section "bridge"
  ties them to the ladder regenerated from petl/comparison.py on every run (Petl/Gen/Ladder.lean).
-/
import PetlProofs.Order
import Petl.Gen.Ladder

namespace Petl.C04
open Petl

/-! #### the ordering is a strict weak order whose equivalence is `==` — for all values, any nesting -/

theorem lt_irrefl (a : Val) : Val.lt a a = false := Val.lt_irrefl a

theorem lt_asymm (a b : Val) : Val.lt a b = true → Val.lt b a = false := Val.lt_asymm a b

theorem lt_trans (a b c : Val) : Val.lt a b = true → Val.lt b c = true → Val.lt a c = true :=
  Val.lt_trans a b c

theorem incomparable_iff_eq (a b : Val) :
    (Val.lt a b = false ∧ Val.lt b a = false) ↔ Val.eq a b = true := Val.incomparable_iff_eq a b

theorem total (a b : Val) : Val.lt a b = true ∨ Val.eq a b = true ∨ Val.lt b a = true := Val.tri a b

theorem eq_equivalence :
    (∀ a, Val.eq a a = true) ∧ (∀ a b, Val.eq a b = Val.eq b a) ∧
    (∀ a b c, Val.eq a b = true → Val.eq b c = true → Val.eq a c = true) :=
  ⟨Val.eq_refl, Val.eq_symm, Val.eq_trans⟩

theorem lt_congr_eq (a a' b b' : Val) (ha : Val.eq a a' = true) (hb : Val.eq b b' = true) :
    Val.lt a b = Val.lt a' b' := by
  rw [Val.lt_congr_left a a' b ha, Val.lt_congr_right a' b b' hb]

/-- negative transitivity: the form in which sort, merge and the selectors use the order -/
theorem le_trans (a b c : Val) : Val.lt b a = false → Val.lt c b = false → Val.lt c a = false := by
  intro h1 h2
  cases h : Val.lt c a
  · rfl
  · rcases Val.tri b a with h3 | h3 | h3
    · simp [h3] at h1
    · have := Val.lt_congr_right c b a h3; rw [h2, h] at this; simp at this
    · have := Val.lt_trans c a b h h3; simp [this] at h2

/-! #### the documented shape of the order -/

theorem none_first (b : Val) : Val.lt b .none = false ∧ (Val.lt .none b = true ↔ Val.eq .none b = false) := by
  cases b <;> simp [Val.lt, Val.eq]

theorem numbers_before_rest (ty : NumTy) (n : Num) (b : Val) :
    (∀ ty' n', b ≠ .num ty' n') → b ≠ .none → Val.lt (.num ty n) b = true ∧ Val.lt b (.num ty n) = false := by
  cases b <;> simp [Val.lt]

theorem numbers_by_value (t1 t2 : NumTy) (p q : Rat) :
    Val.lt (.num t1 (.fin p)) (.num t2 (.fin q)) = decide (p < q) ∧
    Val.eq (.num t1 (.fin p)) (.num t2 (.fin q)) = decide (p = q) := by
  simp [Val.lt, Val.eq, Num.lt, Num.eq]

theorem bytes_before_text (x y : List Nat) :
    Val.lt (.bytes x) (.str y) = true ∧ Val.lt (.str y) (.bytes x) = false := by
  simp [Val.lt, Val.rank]

theorem seq_elementwise (l1 l2 : Bool) (a b : Val) (as bs : List Val) :
    Val.lt (.seq l1 (a :: as)) (.seq l2 (b :: bs)) =
      (if Val.eq a b then Val.lt (.seq l1 as) (.seq l2 bs) else Val.lt a b) ∧
    Val.lt (.seq l1 []) (.seq l2 (b :: bs)) = true ∧
    Val.lt (.seq l1 (a :: as)) (.seq l2 []) = false ∧
    Val.lt (.seq l1 []) (.seq l2 []) = false := by
  simp [Val.lt, Val.ltList]

theorem list_tuple_identified (xs : List Val) : Val.eq (.seq true xs) (.seq false xs) = true := by
  simp [Val.eq, Val.eqList_refl]

/-! #### the derived operators are consistent with `<` and `==` -/

theorem gt_iff_lt_swap (a b : Val) : Val.gt a b = Val.lt b a := by
  unfold Val.gt
  rcases Val.tri a b with h | h | h
  · simp [h, Val.lt_asymm a b h]
  · have := (Val.incomparable_iff_eq a b).2 h; simp [h, this.2]
  · have h1 := Val.lt_asymm b a h
    have h2 : Val.eq a b = false := by rw [Val.eq_symm]; exact Val.lt_ne b a h
    simp [h, h1, h2]

theorem ge_iff_le_swap (a b : Val) : Val.ge a b = Val.le b a := by
  unfold Val.ge Val.le
  rcases Val.tri a b with h | h | h
  · have h2 : Val.eq b a = false := by rw [Val.eq_symm]; exact Val.lt_ne a b h
    simp [h, Val.lt_asymm a b h, h2]
  · have := (Val.incomparable_iff_eq a b).2 h
    have h2 : Val.eq b a = true := by rw [Val.eq_symm]; exact h
    simp [this.1, h2]
  · simp [h, Val.lt_asymm b a h]

theorem le_total (a b : Val) : Val.le a b = true ∨ Val.le b a = true := by
  unfold Val.le
  rcases Val.tri a b with h | h | h <;> simp [h]

theorem exactly_one (a b : Val) :
    (Val.lt a b = true ∧ Val.eq a b = false ∧ Val.gt a b = false) ∨
    (Val.lt a b = false ∧ Val.eq a b = true ∧ Val.gt a b = false) ∨
    (Val.lt a b = false ∧ Val.eq a b = false ∧ Val.gt a b = true) := by
  rw [gt_iff_lt_swap]
  rcases Val.tri a b with h | h | h
  · exact Or.inl ⟨h, Val.lt_ne a b h, Val.lt_asymm a b h⟩
  · have := (Val.incomparable_iff_eq a b).2 h
    exact Or.inr (Or.inl ⟨this.1, h, this.2⟩)
  · have h2 : Val.eq a b = false := by rw [Val.eq_symm]; exact Val.lt_ne b a h
    exact Or.inr (Or.inr ⟨Val.lt_asymm b a h, h2, h⟩)

/-- missing key cells read as None and therefore sort first -/
theorem getKey_missing_none (row : Row) (i : Nat) (h : row.length ≤ i) : getKey [i] row = .none := by
  simp [getKey, getCell, List.getD, List.getElem?_eq_none h]

/-! #### bridge: `Val.lt` etc. are what petl/comparison.py says now (generated ladder) -/

theorem bridge_lt (a b : Val) : Gen.ltStep (Gen.nativeOf Val.ltList) a b = Val.lt a b := by
  cases a <;> cases b <;>
    simp [Gen.ltStep, Gen.nativeOf, Gen.isNone, Gen.isNumeric, Gen.isText, Gen.isBinary, Gen.typestr,
      Gen.pyTypeName, Gen.numericTypes, Gen.textType, Gen.binaryType, Val.lt, Val.rank] <;>
    (try (rename_i t _ ; cases t <;> simp [Gen.pyTypeName])) <;>
    (try (rename_i t _ _ ; cases t <;> simp [Gen.pyTypeName])) <;>
    (try (rename_i t _ _ _ ; cases t <;> simp [Gen.pyTypeName])) <;>
    (try decide)

theorem bridge_le (a b : Val) : Gen.le Val.lt Val.eq a b = Val.le a b := by simp [Gen.le, Val.le]
theorem bridge_gt (a b : Val) : Gen.gt Val.lt Val.eq a b = Val.gt a b := by simp [Gen.gt, Val.gt]
theorem bridge_ge (a b : Val) : Gen.ge Val.lt Val.eq a b = Val.ge a b := by simp [Gen.ge, Val.ge]

/-! #### non-vacuity: the theorems speak about non-trivial values -/

example : Val.lt (.seq false [.num .int (.fin 1), .none]) (.seq true [.num .bool (.fin 1), .str [97]]) = true := by
  decide
example : Val.eq (.num .int (.fin 1)) (.num .float (.fin 1)) = true ∧
    Val.lt (.date 5) (.datetime 0) = true ∧ Val.lt (.str []) (.seq false []) = false := by decide

end Petl.C04
