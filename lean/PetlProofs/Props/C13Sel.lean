/-
  C13, tie by translation: the lambda that each `select*` function of petl/transform/selects.py passes to
  `select` (regenerated from the source on every run as `Petl.Gen.selectors`) is the expected expression, and
  each expected expression evaluates — under Python's rules for comparing raw values with `Comparable`
  operands — to the predicate the model uses for that selector.
-/
import Petl.Gen.Selectors
import Petl.Select

namespace Petl.C13
open Petl Petl.Gen

/-- what the selectors are expected to look like (hand-written) -/
def expectedSelectors : List (String × Nat × SExpr) := [
  ("selecteq", 1, .cmp (.cell false) .eq (.ref 0 false)),
  ("selectne", 1, .cmp (.cell false) .ne (.ref 0 false)),
  ("selectlt", 1, .cmp (.cell false) .lt (.ref 0 true)),
  ("selectle", 1, .cmp (.cell false) .le (.ref 0 true)),
  ("selectgt", 1, .cmp (.cell false) .gt (.ref 0 true)),
  ("selectge", 1, .cmp (.cell false) .ge (.ref 0 true)),
  ("selectcontains", 1, .unsupported "contains"),
  ("selectin", 1, .isIn 0),
  ("selectnotin", 1, .notIn 0),
  ("selectis", 1, .unsupported "is_"),
  ("selectisnot", 1, .unsupported "is_not"),
  ("selectisinstance", 1, .unsupported "isinstance"),
  ("selectrangeopenleft", 2, .chain (.ref 0 true) .le (.cell false) .lt (.ref 1 true)),
  ("selectrangeopenright", 2, .chain (.ref 0 true) .lt (.cell false) .le (.ref 1 true)),
  ("selectrangeopen", 2, .chain (.ref 0 true) .le (.cell false) .le (.ref 1 true)),
  ("selectrangeclosed", 2, .chain (.ref 0 true) .lt (.cell true) .lt (.ref 1 true)),
  ("selecttrue", 0, .truthy),
  ("selectfalse", 0, .notTruthy),
  ("selectnone", 0, .isNone),
  ("selectnotnone", 0, .isNotNone)]

/-- the selectors of the current source are the expected ones (re-checked on every run) -/
theorem selectors_as_expected : selectors = expectedSelectors := by decide

/-! each expected expression is the model's predicate, for all reference values and all cells -/

theorem selecteq_sem (r v : Val) : (SExpr.cmp (.cell false) .eq (.ref 0 false)).eval [r] v = some ((Pred.eq r).eval v) := by
  simp [SExpr.eval, evalCmp, Operand.value, Operand.isWrapped, Pred.eval]
theorem selectne_sem (r v : Val) : (SExpr.cmp (.cell false) .ne (.ref 0 false)).eval [r] v = some ((Pred.ne r).eval v) := by
  simp [SExpr.eval, evalCmp, Operand.value, Operand.isWrapped, Pred.eval]
theorem selectlt_sem (r v : Val) : (SExpr.cmp (.cell false) .lt (.ref 0 true)).eval [r] v = some ((Pred.lt r).eval v) := by
  simp [SExpr.eval, evalCmp, Operand.value, Operand.isWrapped, Pred.eval]
theorem selectle_sem (r v : Val) : (SExpr.cmp (.cell false) .le (.ref 0 true)).eval [r] v = some ((Pred.le r).eval v) := by
  simp [SExpr.eval, evalCmp, Operand.value, Operand.isWrapped, Pred.eval]
theorem selectgt_sem (r v : Val) : (SExpr.cmp (.cell false) .gt (.ref 0 true)).eval [r] v = some ((Pred.gt r).eval v) := by
  simp [SExpr.eval, evalCmp, Operand.value, Operand.isWrapped, Pred.eval]
theorem selectge_sem (r v : Val) : (SExpr.cmp (.cell false) .ge (.ref 0 true)).eval [r] v = some ((Pred.ge r).eval v) := by
  simp [SExpr.eval, evalCmp, Operand.value, Operand.isWrapped, Pred.eval]
theorem selectin_sem (l : Bool) (xs : List Val) (v : Val) : (SExpr.isIn 0).eval [.seq l xs] v = some ((Pred.isIn xs).eval v) := by
  simp [SExpr.eval, Pred.eval]
theorem selectnotin_sem (l : Bool) (xs : List Val) (v : Val) : (SExpr.notIn 0).eval [.seq l xs] v = some ((Pred.notIn xs).eval v) := by
  simp [SExpr.eval, Pred.eval]
theorem selectrangeopenleft_sem (a b v : Val) :
    (SExpr.chain (.ref 0 true) .le (.cell false) .lt (.ref 1 true)).eval [a, b] v = some ((Pred.rangeOpenLeft a b).eval v) := by
  simp [SExpr.eval, evalCmp, Operand.value, Operand.isWrapped, Pred.eval]
theorem selectrangeopenright_sem (a b v : Val) :
    (SExpr.chain (.ref 0 true) .lt (.cell false) .le (.ref 1 true)).eval [a, b] v = some ((Pred.rangeOpenRight a b).eval v) := by
  simp [SExpr.eval, evalCmp, Operand.value, Operand.isWrapped, Pred.eval]
theorem selectrangeopen_sem (a b v : Val) :
    (SExpr.chain (.ref 0 true) .le (.cell false) .le (.ref 1 true)).eval [a, b] v = some ((Pred.rangeOpen a b).eval v) := by
  simp [SExpr.eval, evalCmp, Operand.value, Operand.isWrapped, Pred.eval]
theorem selectrangeclosed_sem (a b v : Val) :
    (SExpr.chain (.ref 0 true) .lt (.cell true) .lt (.ref 1 true)).eval [a, b] v = some ((Pred.rangeClosed a b).eval v) := by
  simp [SExpr.eval, evalCmp, Operand.value, Operand.isWrapped, Pred.eval]
theorem selecttrue_sem (v : Val) : SExpr.truthy.eval [] v = some (Pred.isTrue.eval v) := by simp [SExpr.eval, Pred.eval]
theorem selectfalse_sem (v : Val) : SExpr.notTruthy.eval [] v = some (Pred.isFalse.eval v) := by simp [SExpr.eval, Pred.eval]
theorem selectnone_sem (v : Val) : SExpr.isNone.eval [] v = some (Pred.isNone.eval v) := by simp [SExpr.eval, Pred.eval]
theorem selectnotnone_sem (v : Val) : SExpr.isNotNone.eval [] v = some (Pred.notNone.eval v) := by simp [SExpr.eval, Pred.eval]

/-- the reflected-operand rule really matters: with a raw reference value `v < ref` is not defined by the model -/
example : evalCmp (.num .int (.fin 1)) false .lt (.str [97]) false = none := by decide

end Petl.C13
