/-
  melt followed by recast reproduces the table (first clause of property C14), end to end:
  for data rows with pairwise distinct keys, recast(melt(rows)) is the rows sorted by key, each rebuilt
  as key cells followed by the variable cells.
-/
import PetlProofs.Group
import Petl.Reshape

namespace Petl.RecastMelt
open Petl

mutual
theorem pyEq_refl : ∀ a : Val, Val.pyEq a a = true
  | .none => by simp [Val.pyEq]
  | .num _ n => by simp [Val.pyEq, Num.eq_refl]
  | .bytes _ => by simp [Val.pyEq]
  | .str _ => by simp [Val.pyEq]
  | .date _ => by simp [Val.pyEq]
  | .datetime _ => by simp [Val.pyEq]
  | .time _ => by simp [Val.pyEq]
  | .seq _ xs => by simp only [Val.pyEq, beq_self_eq_true, Bool.true_and]; exact pyEqList_refl xs
theorem pyEqList_refl : ∀ l : List Val, Val.pyEqList l l = true
  | [] => by simp [Val.pyEqList]
  | a :: as => by simp [Val.pyEqList, pyEq_refl a, pyEqList_refl as]
end

/-- the key is determined by the key cells -/
theorem getKey_of_map (a b : List Nat) (x y : Row) (hl : a.length = b.length)
    (hm : a.map (getCell x) = b.map (getCell y)) : getKey a x = getKey b y := by
  cases a with
  | nil => cases b with
    | nil => rfl
    | cons _ _ => simp at hl
  | cons i ta => cases b with
    | nil => simp at hl
    | cons j tb =>
      cases ta with
      | nil => cases tb with
        | nil => simp only [List.map_cons, List.map_nil, List.cons.injEq, and_true] at hm; simp [getKey, hm]
        | cons _ _ => simp at hl
      | cons i2 ta2 => cases tb with
        | nil => simp at hl
        | cons j2 tb2 => simp only [getKey]; rw [hm]

section
variable (kidx : List Nat) (vars : List (Nat × Val))

/-- key cells of a row -/
def kcells (r : Row) : Row := kidx.map (getCell r)
/-- one row of the molten table -/
def mrow (r : Row) (p : Nat × Val) : Row := kcells kidx r ++ [p.2, getCell r p.1]
/-- the molten table -/
def molten (rows : List Row) : List Row := rows.flatMap (fun r => vars.map (mrow kidx r))
/-- a row put back together: key cells, then one cell per variable -/
def rebuilt (r : Row) : Row := kcells kidx r ++ vars.map (fun p => getCell r p.1)

theorem kcells_length (r : Row) : (kcells kidx r).length = kidx.length := by simp [kcells]

theorem getCell_mrow_key (r : Row) (p : Nat × Val) (j : Nat) (hj : j < kidx.length) :
    getCell (mrow kidx r p) j = getCell (kcells kidx r) j := by
  have hj' : j < (kcells kidx r).length := by rw [kcells_length]; exact hj
  simp only [getCell, mrow, List.getD_eq_getElem?_getD, List.getElem?_append_left hj']

theorem getCell_mrow_var (r : Row) (p : Nat × Val) : getCell (mrow kidx r p) kidx.length = p.2 := by
  have h : (kcells kidx r).length ≤ kidx.length := by rw [kcells_length]; exact Nat.le_refl _
  simp only [getCell, mrow, List.getD_eq_getElem?_getD, List.getElem?_append_right h, kcells_length]
  simp

theorem getCell_mrow_val (r : Row) (p : Nat × Val) : getCell (mrow kidx r p) (kidx.length + 1) = getCell r p.1 := by
  have h : (kcells kidx r).length ≤ kidx.length + 1 := by rw [kcells_length]; omega
  simp only [getCell, mrow, List.getD_eq_getElem?_getD, List.getElem?_append_right h, kcells_length]
  simp

/-- the key cells of a molten row, read back by position -/
theorem range_map_mrow (r : Row) (p : Nat × Val) :
    (List.range kidx.length).map (getCell (mrow kidx r p)) = kcells kidx r := by
  apply List.ext_getElem
  · simp [kcells]
  · intro i h1 h2
    simp only [List.length_map, List.length_range] at h1
    simp only [List.getElem_map, List.getElem_range]
    rw [getCell_mrow_key kidx r p i h1]
    simp [getCell, kcells, List.getD_eq_getElem?_getD, h1]

theorem getKey_mrow (r : Row) (p : Nat × Val) :
    getKey (List.range kidx.length) (mrow kidx r p) = getKey kidx r := by
  apply getKey_of_map
  · simp
  · rw [range_map_mrow]; rfl

variable {kidx vars}

/-- with pairwise distinct keys, the molten rows carrying the key of `r` are exactly the block of `r` -/
theorem molten_filter_key : ∀ (rows : List Row),
    rows.Pairwise (fun a b => Val.eq (getKey kidx a) (getKey kidx b) = false) → ∀ r ∈ rows,
    (molten kidx vars rows).filter (fun m => Val.eq (getKey (List.range kidx.length) m) (getKey kidx r))
      = vars.map (mrow kidx r) := by
  intro rows
  induction rows with
  | nil => intro _ r hr; simp at hr
  | cons a t ih =>
    intro hp r hr
    obtain ⟨hhead, htail⟩ := List.pairwise_cons.1 hp
    have hblock : ∀ (x y : Row), (vars.map (mrow kidx x)).filter
        (fun m => Val.eq (getKey (List.range kidx.length) m) (getKey kidx y))
        = if Val.eq (getKey kidx x) (getKey kidx y) then vars.map (mrow kidx x) else [] := by
      intro x y
      by_cases h : Val.eq (getKey kidx x) (getKey kidx y) = true
      · rw [if_pos h]
        apply List.filter_eq_self.2
        intro m hm
        obtain ⟨p, _, rfl⟩ := List.mem_map.1 hm
        rw [getKey_mrow]; exact h
      · rw [if_neg h]
        apply List.filter_eq_nil_iff.2
        intro m hm
        obtain ⟨p, _, rfl⟩ := List.mem_map.1 hm
        rw [getKey_mrow]; exact h
    simp only [molten, List.flatMap_cons, List.filter_append]
    rcases List.mem_cons.1 hr with rfl | hr'
    · rw [hblock, if_pos (Val.eq_refl _)]
      have : (List.flatMap (fun r => vars.map (mrow kidx r)) t).filter
          (fun m => Val.eq (getKey (List.range kidx.length) m) (getKey kidx r)) = [] := by
        apply List.filter_eq_nil_iff.2
        intro m hm
        obtain ⟨x, hx, hmx⟩ := List.mem_flatMap.1 hm
        obtain ⟨p, _, rfl⟩ := List.mem_map.1 hmx
        rw [getKey_mrow, Val.eq_symm, hhead x hx]; simp
      rw [this, List.append_nil]
    · rw [hblock, hhead r hr']
      simp only [Bool.false_eq_true, if_false, List.nil_append]
      exact ih htail r hr'

/-- in the block of `r`, the rows carrying the variable of `q` are exactly the one for `q` -/
theorem block_filter_var (r : Row) : ∀ (vs : List (Nat × Val)),
    vs.Pairwise (fun p q => Val.pyEq p.2 q.2 = false ∧ Val.pyEq q.2 p.2 = false) → ∀ q ∈ vs,
    (vs.map (mrow kidx r)).filter (fun m => Val.pyEq (getCell m kidx.length) q.2) = [mrow kidx r q] := by
  intro vs
  induction vs with
  | nil => intro _ q hq; simp at hq
  | cons a t ih =>
    intro hp q hq
    obtain ⟨hhead, htail⟩ := List.pairwise_cons.1 hp
    simp only [List.map_cons, List.filter_cons, getCell_mrow_var]
    rcases List.mem_cons.1 hq with rfl | hq'
    · rw [pyEq_refl]
      simp only [if_true, List.cons.injEq, true_and]
      apply List.filter_eq_nil_iff.2
      intro m hm
      obtain ⟨p, hp', rfl⟩ := List.mem_map.1 hm
      rw [getCell_mrow_var, (hhead p hp').2]; simp
    · rw [(hhead q hq').1]
      simp only [Bool.false_eq_true, if_false]
      exact ih htail q hq'

end

/-- **melt then recast.**  For data rows with pairwise distinct keys (None, mixed-type and compound keys
    included), all cells present, at least one variable field and pairwise distinct variable names, recasting
    the molten table gives, for every buffer size, one row per original row: the key cells followed by the
    variable cells -/
theorem recast_melt_rows (kidx : List Nat) (vars : List (Nat × Val)) (missing : Val) (bs : Option Nat)
    (hbs : ∀ b, bs = some b → 1 ≤ b) (rows : List Row) (hv : vars ≠ [])
    (hkeys : rows.Pairwise (fun a b => Val.eq (getKey kidx a) (getKey kidx b) = false))
    (hnames : vars.Pairwise (fun p q => Val.pyEq p.2 q.2 = false ∧ Val.pyEq q.2 p.2 = false)) :
    ∀ out, out ∈ recastRows (List.range kidx.length) kidx.length (kidx.length + 1) (vars.map (·.2)) missing bs
        (molten kidx vars rows) ↔ ∃ r ∈ rows, out = rebuilt kidx vars r := by
  have hgroup : ∀ g ∈ sortedGroups (List.range kidx.length) bs (molten kidx vars rows), ∀ r ∈ rows,
      (∃ m ∈ g.2, ∃ p ∈ vars, m = mrow kidx r p) → g.2 = vars.map (mrow kidx r) := by
    intro g hg r hr ⟨m, hm, p, _, hmp⟩
    have h1 := group_eq_input_filter (List.range kidx.length) bs hbs (molten kidx vars rows) g hg
    obtain ⟨_, hwf, _⟩ := sortedGroups_spec (List.range kidx.length) bs hbs (molten kidx vars rows)
    have hk : Val.eq (getKey kidx r) g.1 = true := by
      have := hwf.keyed g hg m hm
      rw [hmp, getKey_mrow] at this; exact this
    have hf : (fun m => Val.eq (getKey (List.range kidx.length) m) g.1)
        = (fun m => Val.eq (getKey (List.range kidx.length) m) (getKey kidx r)) := by
      funext x
      cases hx : Val.eq (getKey (List.range kidx.length) x) (getKey kidx r)
      · cases hx2 : Val.eq (getKey (List.range kidx.length) x) g.1
        · rfl
        · have := Val.eq_trans _ _ _ hx2 (by rw [Val.eq_symm]; exact hk)
          rw [this] at hx; cases hx
      · exact Val.eq_trans _ _ _ hx hk
    rw [h1, hf]
    exact molten_filter_key rows hkeys r hr
  -- what recast makes of the block of r
  have hF : ∀ r : Row,
      (match vars.map (mrow kidx r) with
        | m :: _ => (List.range kidx.length).map (getCell m) | [] => []) ++
      (vars.map (·.2)).map (fun v =>
        match ((vars.map (mrow kidx r)).filter (fun m => Val.pyEq (getCell m kidx.length) v)).map
            (fun m => getCell m (kidx.length + 1)) with
        | [] => missing | [x] => x | xs => .seq true xs) = rebuilt kidx vars r := by
    intro r
    unfold rebuilt
    congr 1
    · obtain ⟨p, ps, hvv⟩ := List.exists_cons_of_ne_nil hv
      rw [hvv]; simp only [List.map_cons]; exact range_map_mrow kidx r p
    · rw [List.map_map]
      apply List.map_congr_left
      intro q hq
      simp only [Function.comp]
      rw [block_filter_var r vars hnames q hq]
      simp [getCell_mrow_val]
  intro out
  constructor
  · intro hout
    simp only [recastRows, List.mem_map] at hout
    obtain ⟨g, hg, rfl⟩ := hout
    obtain ⟨hflat, _, hne⟩ := sortedGroups_spec (List.range kidx.length) bs hbs (molten kidx vars rows)
    -- a row of the group comes from some original row
    cases hg2 : g.2 with
    | nil => exact absurd hg2 (hne g hg)
    | cons m rest =>
      have hmem : m ∈ molten kidx vars rows := by
        have : m ∈ flattenG (sortedGroups (List.range kidx.length) bs (molten kidx vars rows)) := by
          simp only [flattenG, List.mem_flatMap]; exact ⟨g, hg, by rw [hg2]; simp⟩
        rw [hflat] at this
        exact (sortRows_perm' _ false bs hbs _).mem_iff.1 this
      obtain ⟨r, hr, hmr⟩ := List.mem_flatMap.1 hmem
      obtain ⟨p, hp, hmp⟩ := List.mem_map.1 hmr
      have hblock := hgroup g hg r hr ⟨m, by rw [hg2]; simp, p, hp, hmp.symm⟩
      refine ⟨r, hr, ?_⟩
      rw [← hg2, hblock]
      exact hF r
  · intro ⟨r, hr, hout⟩
    subst hout
    obtain ⟨hflat, _, _⟩ := sortedGroups_spec (List.range kidx.length) bs hbs (molten kidx vars rows)
    obtain ⟨p, hp⟩ := List.exists_mem_of_ne_nil vars hv
    have hmem : mrow kidx r p ∈ molten kidx vars rows :=
      List.mem_flatMap.2 ⟨r, hr, List.mem_map.2 ⟨p, hp, rfl⟩⟩
    have : mrow kidx r p ∈ flattenG (sortedGroups (List.range kidx.length) bs (molten kidx vars rows)) := by
      rw [hflat]; exact (sortRows_perm' _ false bs hbs _).mem_iff.2 hmem
    simp only [flattenG, List.mem_flatMap] at this
    obtain ⟨g, hg, hmg⟩ := this
    have hblock := hgroup g hg r hr ⟨_, hmg, p, hp, rfl⟩
    simp only [recastRows, List.mem_map]
    refine ⟨g, hg, ?_⟩
    rw [hblock]
    exact hF r

/-- the sort's output is ordered by key -/
theorem C05sorted (kidx : List Nat) (bs : Option Nat) (hbs : ∀ b, bs = some b → 1 ≤ b) (rows : List Row) :
    (sortRows (rowLe kidx false) bs rows).Pairwise (fun a b => rowLe kidx false a b = true) := by
  cases bs with
  | none => exact (mergeSort_isStableSort _ (rowLe_totalPre kidx false) rows).1
  | some b =>
    rw [sortRows_eq_mergeSort _ (rowLe_totalPre kidx false) b (hbs b rfl)]
    exact (mergeSort_isStableSort _ (rowLe_totalPre kidx false) rows).1

/-- every key group of the molten table is the block of one original row -/
theorem group_block (kidx : List Nat) (vars : List (Nat × Val)) (bs : Option Nat)
    (hbs : ∀ b, bs = some b → 1 ≤ b) (rows : List Row)
    (hkeys : rows.Pairwise (fun a b => Val.eq (getKey kidx a) (getKey kidx b) = false)) :
    ∀ g ∈ sortedGroups (List.range kidx.length) bs (molten kidx vars rows),
      ∃ r ∈ rows, g.2 = vars.map (mrow kidx r) ∧ Val.eq (getKey kidx r) g.1 = true := by
  intro g hg
  obtain ⟨hflat, hwf, hne⟩ := sortedGroups_spec (List.range kidx.length) bs hbs (molten kidx vars rows)
  cases hg2 : g.2 with
  | nil => exact absurd hg2 (hne g hg)
  | cons m rest =>
    have hm : m ∈ g.2 := by rw [hg2]; simp
    have hmem : m ∈ molten kidx vars rows := by
      have : m ∈ flattenG (sortedGroups (List.range kidx.length) bs (molten kidx vars rows)) := by
        simp only [flattenG, List.mem_flatMap]; exact ⟨g, hg, hm⟩
      rw [hflat] at this
      exact (sortRows_perm' _ false bs hbs _).mem_iff.1 this
    obtain ⟨r, hr, hmr⟩ := List.mem_flatMap.1 hmem
    obtain ⟨p, _, hmp⟩ := List.mem_map.1 hmr
    have hk : Val.eq (getKey kidx r) g.1 = true := by
      have := hwf.keyed g hg m hm
      rw [← hmp, getKey_mrow] at this; exact this
    refine ⟨r, hr, ?_, hk⟩
    have h1 := group_eq_input_filter (List.range kidx.length) bs hbs (molten kidx vars rows) g hg
    have hf : (fun m => Val.eq (getKey (List.range kidx.length) m) g.1)
        = (fun m => Val.eq (getKey (List.range kidx.length) m) (getKey kidx r)) := by
      funext x
      cases hx : Val.eq (getKey (List.range kidx.length) x) (getKey kidx r)
      · cases hx2 : Val.eq (getKey (List.range kidx.length) x) g.1
        · rfl
        · have := Val.eq_trans _ _ _ hx2 (by rw [Val.eq_symm]; exact hk)
          rw [this] at hx; cases hx
      · exact Val.eq_trans _ _ _ hx hk
    rw [← hg2, h1, hf]
    exact molten_filter_key rows hkeys r hr

/-- what recast makes of one key group -/
def castRow (n : Nat) (variables : List Val) (missing : Val) (g : Val × List Row) : Row :=
  (match g.2 with | r :: _ => (List.range n).map (getCell r) | [] => []) ++
  variables.map (fun v =>
    match (g.2.filter (fun r => Val.pyEq (getCell r n) v)).map (fun r => getCell r (n + 1)) with
    | [] => missing
    | [x] => x
    | xs => .seq true xs)

theorem recastRows_eq_map_castRow (n : Nat) (variables : List Val) (missing : Val) (bs : Option Nat) (rows : List Row) :
    recastRows (List.range n) n (n + 1) variables missing bs rows
      = (sortedGroups (List.range n) bs rows).map (castRow n variables missing) := rfl

/-- what recast makes of the block of one original row -/
theorem recast_of_block (kidx : List Nat) (vars : List (Nat × Val)) (missing : Val) (hv : vars ≠ [])
    (hnames : vars.Pairwise (fun p q => Val.pyEq p.2 q.2 = false ∧ Val.pyEq q.2 p.2 = false)) (r : Row)
    (g : Val × List Row) (hg : g.2 = vars.map (mrow kidx r)) :
    castRow kidx.length (vars.map (·.2)) missing g = rebuilt kidx vars r := by
  unfold rebuilt castRow
  rw [hg]
  congr 1
  · obtain ⟨p, ps, hvv⟩ := List.exists_cons_of_ne_nil hv
    rw [hvv]; simp only [List.map_cons]; exact range_map_mrow kidx r p
  · rw [List.map_map]
    apply List.map_congr_left
    intro q hq
    simp only [Function.comp]
    rw [block_filter_var r vars hnames q hq]
    simp [getCell_mrow_val]

/-- strictly ascending lists (by a key) with the same members are equal -/
theorem strictAsc_ext {α : Type} (K : α → Val) : ∀ (l1 l2 : List α),
    l1.Pairwise (fun a b => Val.lt (K a) (K b) = true) → l2.Pairwise (fun a b => Val.lt (K a) (K b) = true) →
    (∀ x, x ∈ l1 ↔ x ∈ l2) → l1 = l2 := by
  intro l1
  induction l1 with
  | nil =>
    intro l2 _ _ h
    cases l2 with
    | nil => rfl
    | cons b t => exact absurd ((h b).2 (by simp)) (by simp)
  | cons a t ih =>
    intro l2 h1 h2 h
    cases l2 with
    | nil => exact absurd ((h a).1 (by simp)) (by simp)
    | cons b t2 =>
      obtain ⟨ha, ht⟩ := List.pairwise_cons.1 h1
      obtain ⟨hb, ht2⟩ := List.pairwise_cons.1 h2
      have hab : a = b := by
        have h3 := (h a).1 (by simp)
        have h4 := (h b).2 (by simp)
        rcases List.mem_cons.1 h3 with e | e
        · exact e
        · rcases List.mem_cons.1 h4 with e2 | e2
          · exact e2.symm
          · have l1 := hb a e
            have l2 := ha b e2
            rw [Val.lt_asymm _ _ l1] at l2; cases l2
      subst hab
      congr 1
      apply ih t2 ht ht2
      intro x
      constructor
      · intro hx
        rcases List.mem_cons.1 ((h x).1 (List.mem_cons_of_mem _ hx)) with e | e
        · subst e; have := ha x hx; rw [Val.lt_irrefl] at this; cases this
        · exact e
      · intro hx
        rcases List.mem_cons.1 ((h x).2 (List.mem_cons_of_mem _ hx)) with e | e
        · subst e; have := hb x hx; rw [Val.lt_irrefl] at this; cases this
        · exact e

theorem range_map_rebuilt (kidx : List Nat) (vars : List (Nat × Val)) (r : Row) :
    (List.range kidx.length).map (getCell (rebuilt kidx vars r)) = kcells kidx r := by
  apply List.ext_getElem
  · simp [kcells]
  · intro i h1 h2
    simp only [List.length_map, List.length_range] at h1
    have hj' : i < (kcells kidx r).length := by rw [kcells_length]; exact h1
    simp only [List.getElem_map, List.getElem_range, getCell, rebuilt, List.getD_eq_getElem?_getD,
      List.getElem?_append_left hj']
    simp [kcells, h1]

theorem getKey_rebuilt (kidx : List Nat) (vars : List (Nat × Val)) (r : Row) :
    getKey (List.range kidx.length) (rebuilt kidx vars r) = getKey kidx r := by
  apply getKey_of_map
  · simp
  · rw [range_map_rebuilt]; rfl

/-- **melt then recast, as a table.**  Under the hypotheses of `recast_melt_rows`, recast(melt(rows)) is the rows
    sorted by key (the C05 sort, any buffer size), each rebuilt as key cells followed by the variable cells:
    "melt followed by recast reproduces the original table (rows sorted by key, variable fields in the given order)". -/
theorem recast_melt_eq (kidx : List Nat) (vars : List (Nat × Val)) (missing : Val) (bs : Option Nat)
    (hbs : ∀ b, bs = some b → 1 ≤ b) (rows : List Row) (hv : vars ≠ [])
    (hkeys : rows.Pairwise (fun a b => Val.eq (getKey kidx a) (getKey kidx b) = false))
    (hnames : vars.Pairwise (fun p q => Val.pyEq p.2 q.2 = false ∧ Val.pyEq q.2 p.2 = false)) :
    recastRows (List.range kidx.length) kidx.length (kidx.length + 1) (vars.map (·.2)) missing bs (molten kidx vars rows)
      = (sortRows (rowLe kidx false) bs rows).map (rebuilt kidx vars) := by
  apply strictAsc_ext (getKey (List.range kidx.length))
  · -- recast output: one row per group, groups strictly ascending
    obtain ⟨_, hwf, _⟩ := sortedGroups_spec (List.range kidx.length) bs hbs (molten kidx vars rows)
    rw [recastRows_eq_map_castRow, List.pairwise_map]
    refine List.Pairwise.imp_of_mem ?_ hwf.asc
    intro g h hg hh hlt
    obtain ⟨r, _, hbr, hkr⟩ := group_block kidx vars bs hbs rows hkeys g hg
    obtain ⟨r', _, hbr', hkr'⟩ := group_block kidx vars bs hbs rows hkeys h hh
    rw [recast_of_block kidx vars missing hv hnames r g hbr, recast_of_block kidx vars missing hv hnames r' h hbr',
      getKey_rebuilt, getKey_rebuilt, Val.lt_congr_left _ _ _ hkr, Val.lt_congr_right _ _ _ hkr']
    exact hlt
  · -- the sorted rows: non-decreasing and pairwise distinct keys, hence strictly ascending
    rw [List.pairwise_map]
    have hsorted : (sortRows (rowLe kidx false) bs rows).Pairwise (fun a b => rowLe kidx false a b = true) := by
      have := (C05sorted kidx bs hbs rows)
      exact this
    have hperm := sortRows_perm' kidx false bs hbs rows
    have hdist : (sortRows (rowLe kidx false) bs rows).Pairwise
        (fun a b => Val.eq (getKey kidx a) (getKey kidx b) = false) := by
      refine (List.Perm.pairwise_iff ?_ hperm).2 hkeys
      intro a b hab; rw [Val.eq_symm]; exact hab
    refine (hsorted.and hdist).imp ?_
    intro a b ⟨hle, hne⟩
    rw [getKey_rebuilt, getKey_rebuilt]
    simp only [rowLe, Bool.false_eq_true, if_false, Bool.not_eq_true'] at hle
    rcases Val.tri (getKey kidx a) (getKey kidx b) with h | h | h
    · exact h
    · rw [h] at hne; cases hne
    · rw [h] at hle; cases hle
  · intro out
    rw [recast_melt_rows kidx vars missing bs hbs rows hv hkeys hnames out]
    simp only [List.mem_map]
    constructor
    · intro ⟨r, hr, he⟩
      exact ⟨r, (sortRows_perm' kidx false bs hbs rows).mem_iff.2 hr, he.symm⟩
    · intro ⟨r, hr, he⟩
      exact ⟨r, (sortRows_perm' kidx false bs hbs rows).mem_iff.1 hr, he.symm⟩

/-- … one output row per original row, in ascending key order -/
theorem recast_melt_count_order (kidx : List Nat) (vars : List (Nat × Val)) (missing : Val) (bs : Option Nat)
    (hbs : ∀ b, bs = some b → 1 ≤ b) (rows : List Row) :
    (recastRows (List.range kidx.length) kidx.length (kidx.length + 1) (vars.map (·.2)) missing bs
        (molten kidx vars rows)).length
      = (sortedGroups (List.range kidx.length) bs (molten kidx vars rows)).length ∧
    (sortedGroups (List.range kidx.length) bs (molten kidx vars rows)).Pairwise (fun g h => Val.lt g.1 h.1 = true) := by
  refine ⟨by simp [recastRows], ?_⟩
  exact (sortedGroups_spec (List.range kidx.length) bs hbs (molten kidx vars rows)).2.1.asc

/-- the molten table of the model is what `melt` produces -/
theorem molten_eq_melt (kidx : List Nat) (vars : List (Nat × Val)) (rows : List Row)
    (hk : ∀ r ∈ rows, ∀ i ∈ kidx, i < r.length) (hvl : ∀ r ∈ rows, ∀ p ∈ vars, p.1 < r.length) :
    meltRows kidx vars rows = (molten kidx vars rows, none) := by
  have : ∀ (rs : List Row), (∀ r ∈ rs, ∀ i ∈ kidx, i < r.length) → (∀ r ∈ rs, ∀ p ∈ vars, p.1 < r.length) →
      meltRows kidx vars rs = (molten kidx vars rs, none) := by
    intro rs
    induction rs with
    | nil => intro _ _; rfl
    | cons r rs ih =>
      intro hk hvl
      have ih' := ih (fun x hx => hk x (List.mem_cons_of_mem _ hx)) (fun x hx => hvl x (List.mem_cons_of_mem _ hx))
      have h1 : kidx.any (fun i => decide (r.length ≤ i)) = false := by
        rw [List.any_eq_false]; intro i hi; have := hk r (by simp) i hi; simp; omega
      have h2 : vars.filterMap (fun (p : Nat × Val) =>
          if p.1 < r.length then some (kidx.map (getCell r) ++ [p.2, getCell r p.1]) else none)
          = vars.map (mrow kidx r) := by
        have : ∀ (vs : List (Nat × Val)), (∀ p ∈ vs, p.1 < r.length) →
            vs.filterMap (fun (p : Nat × Val) =>
              if p.1 < r.length then some (kidx.map (getCell r) ++ [p.2, getCell r p.1]) else none)
            = vs.map (mrow kidx r) := by
          intro vs
          induction vs with
          | nil => intro _; rfl
          | cons p ps ihp =>
            intro h
            simp [List.filterMap_cons, h p (by simp), ihp (fun q hq => h q (List.mem_cons_of_mem _ hq)), mrow, kcells]
        exact this vars (hvl r (by simp))
      simp only [meltRows, meltRow, h1, Bool.false_eq_true, if_false, ih', molten, List.flatMap_cons]
      congr 2
  exact this rows hk hvl

/-- the same in terms of the `melt` model, and — when the key fields come first and the variable fields follow in
    order, so that rebuilding a row gives the row itself — literally "the original table, rows sorted by key" -/
theorem recast_melt_table (kidx : List Nat) (vars : List (Nat × Val)) (missing : Val) (bs : Option Nat)
    (hbs : ∀ b, bs = some b → 1 ≤ b) (rows : List Row) (hv : vars ≠ [])
    (hkeys : rows.Pairwise (fun a b => Val.eq (getKey kidx a) (getKey kidx b) = false))
    (hnames : vars.Pairwise (fun p q => Val.pyEq p.2 q.2 = false ∧ Val.pyEq q.2 p.2 = false))
    (hk : ∀ r ∈ rows, ∀ i ∈ kidx, i < r.length) (hvl : ∀ r ∈ rows, ∀ p ∈ vars, p.1 < r.length) :
    (meltRows kidx vars rows).2 = none ∧
    recastRows (List.range kidx.length) kidx.length (kidx.length + 1) (vars.map (·.2)) missing bs (meltRows kidx vars rows).1
      = (sortRows (rowLe kidx false) bs rows).map (rebuilt kidx vars) := by
  rw [molten_eq_melt kidx vars rows hk hvl]
  exact ⟨rfl, recast_melt_eq kidx vars missing bs hbs rows hv hkeys hnames⟩

theorem recast_melt_identity (kidx : List Nat) (vars : List (Nat × Val)) (missing : Val) (bs : Option Nat)
    (hbs : ∀ b, bs = some b → 1 ≤ b) (rows : List Row) (hv : vars ≠ [])
    (hkeys : rows.Pairwise (fun a b => Val.eq (getKey kidx a) (getKey kidx b) = false))
    (hnames : vars.Pairwise (fun p q => Val.pyEq p.2 q.2 = false ∧ Val.pyEq q.2 p.2 = false))
    (hshape : ∀ r ∈ rows, rebuilt kidx vars r = r) :
    recastRows (List.range kidx.length) kidx.length (kidx.length + 1) (vars.map (·.2)) missing bs (molten kidx vars rows)
      = sortRows (rowLe kidx false) bs rows := by
  rw [recast_melt_eq kidx vars missing bs hbs rows hv hkeys hnames]
  have : ∀ r ∈ sortRows (rowLe kidx false) bs rows, rebuilt kidx vars r = r :=
    fun r hr => hshape r ((sortRows_perm' kidx false bs hbs rows).mem_iff.1 hr)
  rw [List.map_congr_left this, List.map_id']

/-- non-vacuity: the hypotheses are satisfiable — a table with a None key and an int key, two variables
    with different names (the theorem then gives its recast∘melt; the driver prints
    `TB2 R3 N S121 Q5/1:i R3 Q2/1:i S120 N` for it) -/
example :
    ([[.num .int (.fin 2), .str [120], .none], [.none, .str [121], .num .int (.fin 5)]] : List Row).Pairwise
      (fun a b => Val.eq (getKey [0] a) (getKey [0] b) = false) ∧
    ([(1, .str [98]), (2, .str [99])] : List (Nat × Val)).Pairwise
      (fun p q => Val.pyEq p.2 q.2 = false ∧ Val.pyEq q.2 p.2 = false) := by
  constructor
  · simp only [List.pairwise_cons, List.mem_cons, List.mem_nil_iff, or_false, forall_eq, List.Pairwise.nil, and_true,
      false_imp_iff, implies_true]
    decide
  · simp only [List.pairwise_cons, List.mem_cons, List.mem_nil_iff, or_false, forall_eq, List.Pairwise.nil, and_true,
      false_imp_iff, implies_true]
    decide

end Petl.RecastMelt
