/-
  Soundness of the ownership analysis of Petl.Heap: helper lemmas.
-/
import Petl.Heap

namespace Petl.Heap

/-- what an abstract value claims about the object a variable refers to -/
def Fact (s : HState) (x : Nat) : AVal → Prop
  | .own n => s.env x ∈ s.owned ∧ s.tag (s.env x) = n
  | .ext => s.env x ∉ s.owned ∧ s.env x < s.next
  | .maybe n => (s.env x ∈ s.owned → s.tag (s.env x) = n) ∧ s.env x < s.next

/-- the analysis facts hold of a concrete state -/
def Models (s : HState) (a : Abs) : Prop := ∀ x v, (x, v) ∈ a → Fact s x v

def WF (s : HState) : Prop := ∀ o ∈ s.owned, o < s.next

theorem okLog_append : ∀ (e1 e2 : List Ev) (own : List Nat),
    okLog own (e1 ++ e2) = (okLog own e1 && okLog (ownedAfter own e1) e2) := by
  intro e1
  induction e1 with
  | nil => intro e2 own; simp [okLog, ownedAfter]
  | cons e es ih =>
    intro e2 own
    cases e with
    | alloc o => simp [okLog, ownedAfter, ih]
    | release o => simp [okLog, ownedAfter, ih]
    | write o => simp [okLog, ownedAfter, ih, Bool.and_assoc]

theorem ownedAfter_append : ∀ (e1 e2 : List Ev) (own : List Nat),
    ownedAfter own (e1 ++ e2) = ownedAfter (ownedAfter own e1) e2 := by
  intro e1
  induction e1 with
  | nil => intro e2 own; simp [ownedAfter]
  | cons e es ih =>
    intro e2 own
    cases e <;> simp [ownedAfter, ih]

theorem get_mem {a : Abs} {x : Nat} {v : AVal} (h : a.get x = some v) : (x, v) ∈ a := by
  unfold Abs.get at h
  cases hf : a.find? (·.1 = x) with
  | none => simp [hf] at h
  | some f =>
    simp [hf] at h
    have h1 := List.mem_of_find?_eq_some hf
    have h2 := List.find?_some hf
    simp at h2
    cases f with
    | mk y w => simp at h h2; subst h; subst h2; exact h1

theorem mem_drop {a : Abs} {x y : Nat} {v : AVal} (h : (y, v) ∈ a.drop x) : (y, v) ∈ a ∧ y ≠ x := by
  unfold Abs.drop at h
  have := List.mem_filter.mp h
  simpa using this

theorem fact_le {s : HState} {x : Nat} {w v : AVal} (wf : WF s) (h : w.le v = true) (hw : Fact s x w) : Fact s x v := by
  cases w <;> cases v <;> simp [AVal.le] at h <;> simp only [Fact] at hw ⊢
  · subst h; exact hw
  · subst h; exact ⟨fun _ => hw.2, wf _ hw.1⟩
  · exact hw
  · exact ⟨fun hc => absurd hc hw.1, hw.2⟩
  · subst h; exact hw

theorem join_le {v w u : AVal} (h : v.join w = some u) : v.le u = true ∧ w.le u = true := by
  unfold AVal.join at h
  by_cases hvw : v = w
  · simp [hvw] at h; subst h; subst hvw; cases v <;> simp [AVal.le]
  · simp only [hvw, if_false] at h
    cases v <;> cases w <;> simp at h
    all_goals (try (obtain ⟨h1, h2⟩ := h; subst h1; subst h2))
    all_goals (try subst h)
    all_goals simp [AVal.le]

theorem models_sub {s : HState} {a b : Abs} (wf : WF s) (h : a.sub b = true) (hb : Models s b) : Models s a := by
  intro x v hm
  have h1 := List.all_eq_true.mp h (x, v) hm
  simp only at h1
  cases hg : b.get x with
  | none => simp [hg] at h1
  | some w =>
    simp only [hg] at h1
    exact fact_le wf h1 (hb x w (get_mem hg))

theorem mem_meet {a b : Abs} {x : Nat} {u : AVal} (h : (x, u) ∈ a.meet b) :
    ∃ v w, (x, v) ∈ a ∧ b.get x = some w ∧ v.join w = some u := by
  unfold Abs.meet at h
  obtain ⟨f, hf, hfm⟩ := List.mem_filterMap.mp h
  cases hg : b.get f.1 with
  | none => simp [hg] at hfm
  | some w =>
    simp only [hg] at hfm
    cases hj : f.2.join w with
    | none => simp [hj] at hfm
    | some u' =>
      simp [hj] at hfm
      obtain ⟨h1, h2⟩ := hfm
      subst h2
      refine ⟨f.2, w, ?_, ?_, hj⟩
      · rw [← h1]; exact hf
      · rw [← h1]; exact hg

theorem models_meet_left {s : HState} {a b : Abs} (wf : WF s) (ha : Models s a) : Models s (a.meet b) := by
  intro x u hm
  obtain ⟨v, w, hv, _, hj⟩ := mem_meet hm
  exact fact_le wf (join_le hj).1 (ha x v hv)

theorem models_meet_right {s : HState} {a b : Abs} (wf : WF s) (hb : Models s b) : Models s (a.meet b) := by
  intro x u hm
  obtain ⟨v, w, _, hw, hj⟩ := mem_meet hm
  exact fact_le wf (join_le hj).2 (hb x w (get_mem hw))

/-- what `loopInv` returns is implied by its start and is preserved by the body -/
theorem loopInv_spec (f : Abs → Option Abs) : ∀ (fuel : Nat) (a inv : Abs), loopInv f fuel a = some inv →
    (∀ s, WF s → Models s a → Models s inv) ∧ ∃ out, f inv = some out ∧ inv.sub out = true := by
  intro fuel
  induction fuel with
  | zero => intro a inv h; simp [loopInv] at h
  | succ n ih =>
    intro a inv h
    unfold loopInv at h
    cases hf : f a with
    | none => simp [hf] at h
    | some out =>
      simp only [hf] at h
      by_cases hs : a.sub out = true
      · simp only [hs, if_true, Option.some.injEq] at h
        subst h
        exact ⟨fun _ _ m => m, out, hf, hs⟩
      · simp only [hs] at h
        have ⟨h1, h2⟩ := ih (a.meet out) inv h
        exact ⟨fun s wf m => h1 s wf (models_meet_left wf m), h2⟩

end Petl.Heap
