import PetlProofs.HeapReviewedBodies
/-
  Hand-reviewed exceptions to the ownership analysis (property C03).  Hand-written: the translator never
  touches this file.
-/
namespace Petl.Heap

/-- Functions whose body the analysis does not accept as it stands, each read by hand; none writes to a
    source table, a source row or a delivered row.  They are covered by the dynamic mutation check only.
    * `*.__setitem__` (FieldConvertView, RenameView, FieldMapView, MultiAggregateView, DummyTable): the documented
      `view[field] = spec` API, called by the user and not by evaluation; writes the view's own registry.
    * itermergeduplicates: `vals.pop()` on the sets it built itself two lines above (comprehension variable).
    * iterrecast: `variables[f].add(..)` on the defaultdict created in the same branch (a user-supplied dict is not written).
    * _shortlistmergesorted: `shortlist`/`iterators` are its own lists; ownership is lost because the result of
      `op(shortlist)` (min/max, an element) is yielded.
    * iterproblems: `constraint[..] = getter` on the dict copies made by normalize_constraints.
    * lookup / lookupone / dictlookup / dictlookupone / recordlookup / recordlookupone: fill the `dictionary`
      argument, which is the documented output parameter, and the lists they put into it.
    * columns / facetcolumns: append to the lists inside the OrderedDict they return.
    * CacheView.__iter__: appends to the view's private cache list (see C01).
    * _look_grid / _look_simple / _look_minimal: pad `fldsrepr` / `valsrepr`, lists of strings built a few lines above.
    * PopenSource.open, _register_handler: keyword dict of the source object / handler registry, no table data. -/
def reviewed : List String := [
  "transform.conversions.FieldConvertView.__setitem__", "transform.headers.RenameView.__setitem__",
  "transform.maps.FieldMapView.__setitem__", "transform.reductions.MultiAggregateView.__setitem__",
  "util.random.DummyTable.__setitem__",
  "transform.reductions.itermergeduplicates", "transform.reshape.iterrecast", "transform.sorts._shortlistmergesorted",
  "transform.validation.iterproblems",
  "util.lookups.lookup", "util.lookups.lookupone", "util.lookups.dictlookup", "util.lookups.dictlookupone",
  "util.lookups.recordlookup", "util.lookups.recordlookupone",
  "util.materialise.columns", "util.materialise.facetcolumns", "util.materialise.CacheView.__iter__",
  "util.vis._look_grid", "util.vis._look_simple", "util.vis._look_minimal",
  "io.sources.PopenSource.open", "io.sources._register_handler"]

/-- a function is exempt only if it is on the reviewed list AND its body still translates to exactly the program that
    was reviewed (PetlProofs/HeapReviewedBodies.lean) -/
def isReviewed (f : String × Prog) : Bool :=
  reviewed.contains f.1 && reviewedBodies.any (fun r => r.1 == f.1 && decide (r.2 = f.2))

end Petl.Heap
