import PetlProofs.Order
import PetlProofs.Sort
import PetlProofs.Props.C04
import PetlProofs.Props.C05
import PetlProofs.Props.C06
import PetlProofs.Props.C07
import PetlProofs.Props.C08
import PetlProofs.Props.C09
