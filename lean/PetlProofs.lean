import PetlProofs.Order
