import PetlProofs.Order
import PetlProofs.Props.C04
