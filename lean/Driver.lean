/-
  Line-protocol driver: one case per input line, one answer line per case.
  Built as `lean_exe driver`; imports only the Mathlib-free models.
-/
import Petl.Proto
import Petl.Ops
open Petl

def runLine (line : String) : String :=
  let toks := (line.splitOn " ").filter (· ≠ "")
  match toks with
  | [] => "EMPTY"
  | op :: rest =>
    match dispatch op with
    | none => s!"BADOP {op}"
    | some p =>
      match (p.run rest) with
      | .ok (out, []) => out
      | .ok (_, extra) => s!"PARSE trailing tokens {extra.length}"
      | .error e => s!"PARSE {e}"

partial def loop (h : IO.FS.Stream) (out : IO.FS.Stream) : IO Unit := do
  let line ← h.getLine
  if line.isEmpty then
    out.flush
    return ()
  let l := (line.dropEndWhile (fun c => c == '\n' || c == '\r')).toString
  out.putStrLn (runLine l)
  loop h out

def main : IO Unit := do
  loop (← IO.getStdin) (← IO.getStdout)
