import Petl.Val
import Petl.Proto
import Petl.Ops
