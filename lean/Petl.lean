import Petl.Val
import Petl.Proto
import Petl.Fields
import Petl.Sort
import Petl.Join
import Petl.HashJoin
import Petl.SetOps
import Petl.Ops
