import Petl.Val
