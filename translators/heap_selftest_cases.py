"""Reference snippets for the ownership translator + analysis (property C03).

Each case is (name, source of one function, expected verdict of Petl.Heap.safe).  The translator
turns them into lean/Petl/Gen/HeapSelfTest.lean on every run and the expected verdicts are proved
there by `decide`, so a translator change that starts accepting an in-place edit of a source row
(or of a delivered row) breaks a proof obligation of C03.  The unsafe shapes are the ones a
maintainer would plausibly write as an optimisation."""

CASES = [
    ('copy_edit_yield', '''
def f(source, value):
    it = iter(source)
    hdr = next(it)
    yield tuple(hdr)
    for row in it:
        out = list(row)
        out.append(value)
        yield tuple(out)
''', True),
    ('edit_source_row', '''
def f(source, value):
    it = iter(source)
    for row in it:
        row.append(value)
        yield row
''', False),
    ('pad_source_row_in_place', '''
def f(sources, missing, n):
    for it in sources:
        for row in it:
            if len(row) < n:
                row += [missing] * (n - len(row))
            yield tuple(row)
''', False),
    ('extend_source_row', '''
def f(source, n, missing):
    for row in source:
        if len(row) < n:
            row.extend([missing] * (n - len(row)))
        yield tuple(row)
''', False),
    ('setitem_source_row', '''
def f(source, i, v):
    for row in source:
        row[i] = v
        yield tuple(row)
''', False),
    ('fill_aliases_first_row', '''
def f(table, idxs, missing):
    it = iter(table)
    hdr = next(it)
    yield tuple(hdr)
    fill = next(it)
    yield tuple(fill)
    for row in it:
        out = list(row)
        for idx in idxs:
            if row[idx] == missing:
                out[idx] = fill[idx]
            else:
                fill[idx] = row[idx]
        yield tuple(out)
''', False),
    ('fill_is_a_copy', '''
def f(table, idxs, missing):
    it = iter(table)
    hdr = next(it)
    yield tuple(hdr)
    fill = list(next(it))
    yield tuple(fill)
    for row in it:
        out = list(row)
        for idx in idxs:
            if row[idx] == missing:
                out[idx] = fill[idx]
            else:
                fill[idx] = row[idx]
        yield tuple(out)
''', True),
    ('reused_row_buffer', '''
def f(source):
    buf = []
    for row in source:
        del buf[:]
        buf.extend(row)
        yield buf
''', False),
    ('fresh_buffer_each_time', '''
def f(source):
    for row in source:
        buf = []
        buf.extend(row)
        yield buf
''', True),
    ('edit_after_yield', '''
def f(source):
    for row in source:
        out = list(row)
        yield out
        out.append(1)
''', False),
    ('edit_alias_after_yield', '''
def f(source):
    for row in source:
        out = list(row)
        keep = out
        yield out
        keep.append(1)
''', False),
    ('sort_source_in_place', '''
def f(source, key):
    source.sort(key=key)
    for row in source:
        yield tuple(row)
''', False),
    ('sort_own_copy', '''
def f(source, key):
    rows = list(source)
    rows.sort(key=key)
    for row in rows:
        yield tuple(row)
''', True),
    ('edit_item_of_own_list', '''
def f(source):
    rows = list(source)
    for row in rows:
        row.append(1)
        yield tuple(row)
''', False),
    ('edit_nested_cell', '''
def f(source):
    for row in source:
        out = list(row)
        out[0].append(1)
        yield tuple(out)
''', False),
    ('header_edited_in_place', '''
def f(source, field):
    it = iter(source)
    hdr = next(it)
    hdr.append(field)
    yield tuple(hdr)
    for row in it:
        yield tuple(row)
''', False),
    ('slice_is_a_copy', '''
def f(source, n):
    for row in source:
        out = row[:n]
        out.append(None)
        yield out
''', True),
    ('conditional_copy', '''
def f(source, flag):
    for row in source:
        if flag:
            out = list(row)
        else:
            out = row
        out.append(1)
        yield tuple(out)
''', False),
    ('try_copy_then_edit', '''
def f(source, idx):
    for row in source:
        try:
            o = list(row)
            o.append(row[idx])
            yield tuple(o)
        except IndexError:
            pass
''', True),
    ('stored_then_edited', '''
def f(source):
    acc = []
    for row in source:
        out = list(row)
        acc.append(out)
        out.append(1)
    yield acc
''', False),
    ('pop_from_source', '''
def f(source):
    while source:
        yield source.pop()
''', False),
    ('heap_on_own_list', '''
def f(iterables, key):
    h = []
    for it in iterables:
        for v in it:
            heappush(h, (key(v), v))
    while h:
        k, v = heappop(h)
        yield v
''', True),
    ('dict_param_updated', '''
def f(table, lkp):
    for row in table:
        lkp[row[0]] = row
    return lkp
''', False),
    ('kwargs_are_fresh', '''
def f(table, **kwargs):
    kwargs['x'] = 1
    kwargs.setdefault('y', 2)
    return g(table, **kwargs)
''', True),
    # --- shapes added after a round-5 sub-agent ported the analysis and probed it
    ('buffer_escapes_through_a_binary_operation', '''
def f(source):
    buf = []
    for row in source:
        buf.append(row[0])
        yield (len(buf),) + (buf,)
''', False),
    ('buffer_escapes_through_a_call_in_the_yield', '''
def f(source, wrap):
    buf = []
    for row in source:
        buf.append(row[0])
        yield wrap(buf)
''', False),
    ('buffer_copied_in_the_yield', '''
def f(source):
    buf = []
    for row in source:
        buf.append(row[0])
        yield tuple(buf)
''', True),
    ('bound_method_alias_of_a_source_row', '''
def f(source, n, missing):
    for row in source:
        grow = row.extend
        grow([missing] * n)
        yield tuple(row)
''', False),
    ('inplace_operator_function_over_source_rows', '''
def f(sources):
    for rows in zip(*sources):
        yield tuple(reduce(operator.iconcat, rows))
''', False),
    ('getattr_of_a_mutator_on_a_source_row', '''
def f(source, value):
    for row in source:
        getattr(row, 'append')(value)
        yield tuple(row)
''', False),
]
