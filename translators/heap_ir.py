"""Ownership IR of every function body that handles rows.
petl/{transform,util,io}/*.py, petl/comparison.py  ->  lean/Petl/Gen/HeapProgs.lean

Each function (generator or not, methods included, `__init__` excluded) becomes a `Petl.Heap.Prog`:
  copy constructors / literals / comprehensions / arithmetic / slices   -> bindFresh
  parameters, loop variables, next(), subscripts, attributes            -> bindExt
  x = y                                                                  -> bindVar
  anything else (calls of helpers, methods with unknown result)          -> bindUnknown
  x.append/extend/insert/pop/remove/sort/reverse/clear/update/add/...,
  x[i] = v, del x[i], x += v, heappush(x, v), shuffle(x)                 -> mutate x   (+ release v when v is stored)
  yield x / return x / x put into a literal or container / self.a = x    -> release x
  if/else -> branch; for/while -> loop; try bodies and bodies left by break -> every statement optional.
A write whose target is not a plain local name (row[0][1] = v, self.rows.append(v), src.sort()) is
emitted as a write to a foreign object, which no analysis state accepts.
The translation is deliberately conservative: it may reject harmless code, never accept a write to a
parameter, to an item obtained from one, or to a delivered row."""
import ast, os
from .common import REPO, write_if_changed

MODULE_DIRS = ['transform', 'util', 'io']
EXTRA_FILES = ['comparison.py']
SKIP_FILES = {'__init__.py'}
# io modules built on optional third-party packages are outside the modelled core
IO_FILES = {'base.py', 'csv.py', 'csv_py2.py', 'csv_py3.py', 'pickle.py', 'text.py', 'json.py', 'html.py', 'sources.py', 'db.py', 'db_utils.py'}
SKIP_FUNCS = {'__init__', '__repr__', '__str__', '__getattr__', '__setattr__', '__len__'}

FRESH_CALLS = {'list', 'tuple', 'dict', 'set', 'frozenset', 'sorted', 'str', 'int', 'float', 'bool', 'len', 'range', 'zip', 'map',
               'filter', 'enumerate', 'reversed', 'sum', 'isinstance', 'callable', 'hasattr', 'repr', 'type', 'abs', 'round', 'any',
               'all', 'bytes', 'Record', 'OrderedDict', 'Counter', 'defaultdict', 'namedtuple', 'itemgetter', 'attrgetter', 'chain',
               'islice', 'groupby', 'product', 'tee', 'count', 'starmap', 'zip_longest', 'izip_longest', 'text_type', 'binary_type',
               'Comparable', 'partial', 'deque', 'Decimal', 'compile', 'format', 'hash', 'id', 'ord', 'chr', 'divmod', 'pow',
               'comparable_itemgetter', 'rowgetter', 'rowitemgetter', 'asindices', 'complex', 'slice', 'object', 'IntervalTree',
               'maxint', 'unicode', 'long', 'xrange', 'izip', 'imap', 'ifilter', 'print', 'open', 'NamedTemporaryFile'}
FRESH_METHODS = {'copy', 'split', 'join', 'format', 'keys', 'values', 'items', 'strip', 'lstrip', 'rstrip', 'lower', 'upper', 'replace',
                 'encode', 'decode', 'groups', 'most_common', 'startswith', 'endswith', 'index', 'count', 'find', 'rsplit', 'splitlines',
                 'title', 'capitalize', 'isdigit', 'match', 'search', 'sub', 'findall', 'read', 'readline', 'tell', 'total_seconds',
                 'rjust', 'ljust', 'zfill', 'union', 'intersection', 'difference', 'symmetric_difference', 'issubset', 'issuperset'}
ELEMENT_METHODS = {'get', 'pop', 'popitem', 'popleft', 'setdefault', 'group', '__getitem__', 'next', '__next__'}
MUTATORS = {'append', 'extend', 'insert', 'pop', 'remove', 'sort', 'reverse', 'clear', 'update', 'add', 'discard', 'popitem',
            'setdefault', 'appendleft', 'popleft', 'extendleft', 'rotate', '__setitem__', '__delitem__', 'difference_update',
            'intersection_update', 'symmetric_difference_update', 'subtract'}
STORING = {'append', 'insert', 'add', 'appendleft', 'setdefault', '__setitem__', 'update', 'extend'}
MUTATING_FUNCS = {'heappush': 0, 'heappop': 0, 'heapify': 0, 'heapreplace': 0, 'heappushpop': 0, 'shuffle': 0, 'insort': 0,
                  'insort_left': 0, 'insort_right': 0, 'setattr': 0, 'setitem': 0, 'delitem': 0,
                  # operator's in-place functions: iconcat(a, b) is a += b
                  'iconcat': 0, 'iadd': 0, 'imul': 0, 'isub': 0, 'ior': 0, 'iand': 0, 'ixor': 0}
INPLACE_OPERATORS = {'iconcat', 'iadd', 'imul', 'isub', 'ior', 'iand', 'ixor', 'setitem', 'delitem'}
JUMPS = (ast.Return, ast.Raise, ast.Continue, ast.Break)


class Tr(object):
    def __init__(self):
        self.site = 0
        self.sites = {}
        self.tmp = 0

    def fresh_site(self, x=None):
        """allocation-site label: one per variable name, so that re-binding a variable to a new copy on
        different paths (outrow = tuple(row); if trim: outrow = outrow[:n]) keeps one ownership fact"""
        if x is not None:
            if x not in self.sites:
                self.site += 1
                self.sites[x] = self.site
            return self.sites[x]
        self.site += 1
        return self.site

    def tmpvar(self):
        self.tmp += 1
        return '$t%d' % self.tmp

    # ------------------------------------------------------------ expressions
    def stored_names(self, e, bound=()):
        """names whose objects become elements of the object built by literal e"""
        out = []
        if isinstance(e, (ast.List, ast.Tuple, ast.Set)):
            for x in e.elts:
                if isinstance(x, ast.Name) and x.id not in bound:
                    out.append(x.id)
                elif isinstance(x, (ast.List, ast.Tuple, ast.Set, ast.Dict)):
                    out += self.stored_names(x, bound)
        elif isinstance(e, ast.Dict):
            for x in list(e.values) + [k for k in e.keys if k is not None]:
                if isinstance(x, ast.Name) and x.id not in bound:
                    out.append(x.id)
                elif isinstance(x, (ast.List, ast.Tuple, ast.Set, ast.Dict)):
                    out += self.stored_names(x, bound)
        elif isinstance(e, (ast.ListComp, ast.SetComp, ast.GeneratorExp)):
            b = set(bound)
            for g in e.generators:
                for n in ast.walk(g.target):
                    if isinstance(n, ast.Name):
                        b.add(n.id)
            if isinstance(e.elt, ast.Name) and e.elt.id not in b:
                out.append(e.elt.id)
            else:
                out += self.stored_names(e.elt, b)
        elif isinstance(e, ast.DictComp):
            b = set(bound)
            for g in e.generators:
                for n in ast.walk(g.target):
                    if isinstance(n, ast.Name):
                        b.add(n.id)
            if isinstance(e.value, ast.Name) and e.value.id not in b:
                out.append(e.value.id)
        return out

    def classify(self, e):
        """-> ('fresh', stored) | ('var', name) | ('ext',) | ('unknown',) | ('join', [classes])"""
        if isinstance(e, ast.Name):
            if e.id in ('None', 'True', 'False'):
                return ('fresh', [])
            return ('var', e.id)
        if isinstance(e, ast.BinOp):
            # `(k,) + (buf,)`, `[a] * n`: a new object that holds what its operands' displays hold
            return ('fresh', self.stored_names(e.left) + self.stored_names(e.right)
                    + [n for side in (e.left, e.right) if isinstance(side, ast.BinOp) for n in self.classify(side)[1]])
        if isinstance(e, (ast.Constant, ast.JoinedStr, ast.Lambda, ast.UnaryOp, ast.Compare)):
            return ('fresh', [])
        if isinstance(e, (ast.List, ast.Tuple, ast.Set, ast.Dict, ast.ListComp, ast.SetComp, ast.DictComp, ast.GeneratorExp)):
            return ('fresh', self.stored_names(e))
        if isinstance(e, ast.BoolOp):
            return ('join', [self.classify(v) for v in e.values])
        if isinstance(e, ast.IfExp):
            return ('join', [self.classify(e.body), self.classify(e.orelse)])
        if isinstance(e, ast.Subscript):
            if isinstance(e.slice, ast.Slice):
                return ('fresh', [])
            return ('ext',)
        if isinstance(e, (ast.Attribute, ast.Yield, ast.YieldFrom, ast.Await, ast.Starred)):
            return ('ext',)
        if isinstance(e, ast.Call):
            f = e.func
            if isinstance(f, ast.Name):
                if f.id in FRESH_CALLS:
                    return ('fresh', [])
                if f.id in ('next', 'min', 'max', 'getattr', 'iter', 'first', 'itervalues'):
                    return ('ext',)
                return self.call_result(e, [])
            if isinstance(f, ast.Attribute):
                if f.attr in FRESH_METHODS or f.attr in FRESH_CALLS:
                    return ('fresh', [])
                if f.attr in ELEMENT_METHODS:
                    return ('ext',)
                return self.call_result(e, [f.value.id] if isinstance(f.value, ast.Name) and f.value.id != 'self' else [])
            return self.call_result(e, [])
        return ('unknown',)

    def call_result(self, e, extra):
        """result of a call the translator knows nothing about: a foreign object (also: one the callee allocated),
        or one of the objects handed to it"""
        names = list(extra)
        for a in list(e.args) + [k.value for k in e.keywords]:
            if isinstance(a, ast.Starred):
                a = a.value
            if isinstance(a, ast.Name) and a.id not in ('None', 'True', 'False'):
                names.append(a.id)
        return ('join', [('ext',)] + [('var', n) for n in names])

    def bind(self, x, cls):
        k = cls[0]
        if k == 'fresh':
            return [('bindFresh', x, self.fresh_site(x))] + [('release', n) for n in cls[1]]
        if k == 'var':
            return [('bindVar', x, cls[1])]
        if k == 'ext':
            return [('bindExt', x)]
        if k == 'join':
            alts = [seqs(self.bind(x, c)) for c in cls[1]]
            p = alts[0]
            for q in alts[1:]:
                p = ('branch', p, q)
            return [p]
        return [('bindUnknown', x)]

    def foreign_write(self):
        t = self.tmpvar()
        return [('bindExt', t), ('mutate', t)]

    def effects(self, e):
        """in-place writes and releases performed while evaluating expression e"""
        out = []
        if e is None:
            return out
        called = {id(n.func) for n in walk_expr(e) if isinstance(n, ast.Call)}
        for n in walk_expr(e):
            if isinstance(n, ast.Attribute) and n.attr in MUTATORS and id(n) not in called and isinstance(n.ctx, ast.Load):
                # a mutating method taken as a value (`grow = row.extend`, `map(buf.append, xs)`): whoever gets it may call it
                if isinstance(n.value, ast.Name) and n.value.id == 'self':
                    pass            # `self.reverse`, `self.update`: a field of the view itself, not a method of a row or table
                elif isinstance(n.value, ast.Name):
                    out.append(('mutate', n.value.id))
                else:
                    out += self.foreign_write()
            if isinstance(n, ast.Call):
                f = n.func
                if isinstance(f, ast.Name) and f.id == 'getattr' and len(n.args) >= 2 and isinstance(n.args[1], ast.Constant) \
                        and n.args[1].value in MUTATORS:
                    # getattr(x, 'extend'): a mutating method is what is fetched
                    if isinstance(n.args[0], ast.Name) and n.args[0].id != 'self':
                        out.append(('mutate', n.args[0].id))
                    else:
                        out += self.foreign_write()
                if any((isinstance(a, ast.Name) and a.id in INPLACE_OPERATORS) or (isinstance(a, ast.Attribute) and a.attr in INPLACE_OPERATORS)
                       for a in n.args):
                    # reduce(operator.iconcat, parts) and the like: the in-place operator is applied to the other arguments' contents
                    # — to the ELEMENTS of those arguments, whose owner this analysis does not track: a write to foreign data
                    out += self.foreign_write()
                if isinstance(f, ast.Attribute) and f.attr in MUTATORS:
                    base = f.value
                    if isinstance(base, ast.Name) and base.id != 'self':
                        out.append(('mutate', base.id))
                    else:
                        out += self.foreign_write()
                    if f.attr in STORING:
                        for a in list(n.args) + [k.value for k in n.keywords]:
                            if isinstance(a, ast.Name):
                                out.append(('release', a.id))
                            else:
                                out += [('release', x) for x in self.stored_names(a)]
                elif (isinstance(f, ast.Name) and f.id in MUTATING_FUNCS) or (isinstance(f, ast.Attribute) and f.attr in MUTATING_FUNCS):
                    if n.args and isinstance(n.args[0], ast.Name):
                        out.append(('mutate', n.args[0].id))
                    else:
                        out += self.foreign_write()
                    for a in n.args[1:]:
                        if isinstance(a, ast.Name):
                            out.append(('release', a.id))
                        else:
                            out += [('release', x) for x in self.stored_names(a)]
            elif isinstance(n, ast.Yield):
                v = n.value
                if isinstance(v, ast.Name):
                    out.append(('release', v.id))
                elif isinstance(v, ast.BinOp):
                    out += [('release', x) for x in self.classify(v)[1]]
                elif isinstance(v, ast.Call) and not (isinstance(v.func, ast.Name) and v.func.id in FRESH_CALLS):
                    # `yield f(buf)`: what an unknown function returns may be, or hold, its argument
                    out += [('release', a.id) for a in v.args if isinstance(a, ast.Name)]
                    out += [('release', x) for a in v.args for x in self.stored_names(a)]
                elif v is not None:
                    out += [('release', x) for x in self.stored_names(v)]
        return out

    # ------------------------------------------------------------ statements
    def assign_target(self, t, value_cls, value):
        if isinstance(t, ast.Name):
            return self.bind(t.id, value_cls)
        if isinstance(t, (ast.Tuple, ast.List)):
            if isinstance(value, (ast.Tuple, ast.List)) and len(value.elts) == len(t.elts) and \
                    not any(isinstance(x, ast.Starred) for x in list(t.elts) + list(value.elts)):
                tmps, out = [], []
                for v in value.elts:
                    tv = self.tmpvar()
                    tmps.append(tv)
                    out += self.bind(tv, self.classify(v))
                for tt, tv in zip(t.elts, tmps):
                    out += self.assign_target(tt, ('var', tv), None)
                return out
            out = []
            elem = ('unknown',) if value_cls[0] == 'unknown' else ('ext',)
            for tt in t.elts:
                if isinstance(tt, ast.Starred):
                    tt = tt.value
                    out += self.assign_target(tt, ('fresh', []), None)
                else:
                    out += self.assign_target(tt, elem, None)
            return out
        if isinstance(t, ast.Subscript):
            out = self.effects(t.slice)
            if isinstance(t.value, ast.Name) and t.value.id != 'self':
                out.append(('mutate', t.value.id))
            else:
                out += self.effects(t.value) + self.foreign_write()
            out += self.store_of(value, value_cls)
            return out
        if isinstance(t, ast.Attribute):
            out = []
            if not (isinstance(t.value, ast.Name) and t.value.id == 'self'):
                # attribute of some other object: a write to that object
                if isinstance(t.value, ast.Name):
                    out.append(('mutate', t.value.id))
                else:
                    out += self.foreign_write()
            out += self.store_of(value, value_cls)
            return out
        return []

    def store_of(self, value, cls):
        if cls[0] == 'var':
            return [('release', cls[1])]
        if cls[0] == 'fresh':
            return [('release', n) for n in cls[1]]
        if cls[0] == 'join':
            out = []
            for c in cls[1]:
                out += self.store_of(None, c)
            return out
        return []

    def stmt(self, s):
        if isinstance(s, ast.Assign):
            out = self.effects(s.value)
            cls = self.classify(s.value)
            for t in s.targets:
                out += self.assign_target(t, cls, s.value)
            return out
        if isinstance(s, ast.AnnAssign):
            if s.value is None:
                return []
            return self.effects(s.value) + self.assign_target(s.target, self.classify(s.value), s.value)
        if isinstance(s, ast.AugAssign):
            out = self.effects(s.value)
            t = s.target
            if isinstance(t, ast.Name):
                if isinstance(s.value, ast.Constant) and isinstance(s.value.value, (int, float, str, bytes)):
                    return out + [('bindFresh', t.id, self.fresh_site(t.id))]   # arithmetic / text: a rebinding
                return out + [('mutate', t.id)] + self.store_of(s.value, self.classify(s.value))
            if isinstance(t, ast.Subscript):
                if isinstance(t.value, ast.Name) and t.value.id != 'self':
                    return out + [('mutate', t.value.id)]
                return out + self.foreign_write()
            if isinstance(t, ast.Attribute):
                if isinstance(t.value, ast.Name) and t.value.id == 'self':
                    return out
                return out + self.foreign_write()
            return out
        if isinstance(s, ast.Delete):
            out = []
            for t in s.targets:
                if isinstance(t, ast.Subscript):
                    if isinstance(t.value, ast.Name) and t.value.id != 'self':
                        out.append(('mutate', t.value.id))
                    else:
                        out += self.foreign_write()
                elif isinstance(t, ast.Attribute) and not (isinstance(t.value, ast.Name) and t.value.id == 'self'):
                    out += self.foreign_write()
            return out
        if isinstance(s, ast.Expr):
            return self.effects(s.value)
        if isinstance(s, ast.Return):
            out = self.effects(s.value)
            if isinstance(s.value, ast.Name):
                out.append(('release', s.value.id))
            elif s.value is not None:
                out += [('release', x) for x in self.stored_names(s.value)]
            return out
        if isinstance(s, ast.Raise):
            return self.effects(s.exc)
        if isinstance(s, (ast.Continue, ast.Break, ast.Pass, ast.Global, ast.Nonlocal, ast.Import, ast.ImportFrom,
                          ast.FunctionDef, ast.ClassDef, ast.AsyncFunctionDef)):
            return []
        if isinstance(s, ast.Assert):
            return self.effects(s.test)
        if isinstance(s, (ast.For, ast.AsyncFor)):
            out = self.effects(s.iter)
            body = seqs(self.assign_target(s.target, ('ext',), None) + [self.block(s.body)])
            out.append(('loop', body))
            if has_break(s.body):
                out.append(seqs(self.assign_target(s.target, ('ext',), None) + [self.prefixes(s.body)]))
            if s.orelse:
                out.append(('branch', self.block(s.orelse), ('skip',)))
            return out
        if isinstance(s, ast.While):
            body = seqs(self.effects(s.test) + [self.block(s.body)])
            out = [('loop', body)] + self.effects(s.test)
            if has_break(s.body):
                out.append(self.prefixes(s.body))
            if s.orelse:
                out.append(('branch', self.block(s.orelse), ('skip',)))
            return out
        if isinstance(s, ast.If):
            return [self.block([s])]
        if isinstance(s, ast.Try) or s.__class__.__name__ == 'TryStar':
            out = [self.prefixes(s.body)]
            for h in s.handlers:
                hb = ([('bindExt', h.name)] if h.name else []) + [self.block(h.body)]
                out.append(('branch', seqs(hb), ('skip',)))
            if s.orelse:
                out.append(('branch', self.block(s.orelse), ('skip',)))
            if s.finalbody:
                out.append(self.block(s.finalbody))
            return out
        if isinstance(s, (ast.With, ast.AsyncWith)):
            out = []
            for it in s.items:
                out += self.effects(it.context_expr)
                if it.optional_vars is not None:
                    out += self.assign_target(it.optional_vars, ('ext',), None)
            out.append(self.block(s.body))
            return out
        if s.__class__.__name__ == 'Match':
            return [('bindExt', self.tmpvar()), ('mutate', '$unsupported')]
        return []

    def prefixes(self, stmts):
        """every way of executing a statement list and leaving it early (exception, break): some statements run
        in full, then at most one compound statement runs partially, then nothing"""
        if not stmts:
            return ('skip',)
        s, rest = stmts[0], stmts[1:]
        full = seqs(self.stmt(s))
        then = seqs([full, self.prefixes(rest)])
        part = self.partial(s)
        if part is None:
            return ('branch', ('skip',), then)
        return ('branch', part, then)

    def partial(self, s):
        """a compound statement left in the middle (None for simple statements: they either ran or did not)"""
        if isinstance(s, ast.If):
            return seqs(self.effects(s.test) + [('branch', self.prefixes(s.body), self.prefixes(s.orelse))])
        if isinstance(s, (ast.For, ast.AsyncFor)):
            bind = self.assign_target(s.target, ('ext',), None)
            return seqs(self.effects(s.iter) + [('loop', seqs(bind + [self.block(s.body)]))] + bind + [self.prefixes(s.body)])
        if isinstance(s, ast.While):
            return seqs([('loop', seqs(self.effects(s.test) + [self.block(s.body)]))] + self.effects(s.test) + [self.prefixes(s.body)])
        if isinstance(s, ast.Try) or s.__class__.__name__ == 'TryStar':
            alts = [self.prefixes(list(s.body) + list(s.orelse))]
            for h in s.handlers:
                alts.append(seqs([self.prefixes(s.body)] + ([('bindExt', h.name)] if h.name else []) + [self.prefixes(h.body)]))
            p = alts[0]
            for q in alts[1:]:
                p = ('branch', p, q)
            return seqs([p, self.prefixes(s.finalbody)])
        if isinstance(s, (ast.With, ast.AsyncWith)):
            out = []
            for it in s.items:
                out += self.effects(it.context_expr)
                if it.optional_vars is not None:
                    out += self.assign_target(it.optional_vars, ('ext',), None)
            return seqs(out + [self.prefixes(s.body)])
        return None

    def block(self, stmts):
        if not stmts:
            return ('skip',)
        s, rest = stmts[0], stmts[1:]
        if isinstance(s, ast.If):
            eff = self.effects(s.test)
            tb, eb = s.body, s.orelse
            if may_jump(tb) or may_jump(eb):
                # control may leave one arm early: what follows the `if` belongs to each arm separately
                p = ('branch', self.block(list(tb) + list(rest)), self.block(list(eb) + list(rest)))
            else:
                p = seqs([('branch', self.block(tb), self.block(eb)), self.block(rest)])
            return seqs(eff + [p])
        if isinstance(s, JUMPS):
            return seqs(self.stmt(s))
        if isinstance(s, ast.Try) and s.handlers:
            # either the body completes (no handler runs), or it is left somewhere and exactly one handler runs
            fin = list(s.finalbody)
            normal = self.block(list(s.body) + list(s.orelse) + fin + list(rest))
            hs = None
            for h in s.handlers:
                hb = seqs(([('bindExt', h.name)] if h.name else []) + [self.block(list(h.body) + fin + list(rest))])
                hs = hb if hs is None else ('branch', hs, hb)
            return ('branch', normal, seqs([self.prefixes(s.body), hs]))
        return seqs(self.stmt(s) + [self.block(rest)])

    def function(self, fn):
        out = []
        a = fn.args
        self.locals = local_names(fn)
        for p in list(a.posonlyargs) + list(a.args) + list(a.kwonlyargs):
            out.append(('bindExt', p.arg))
        for p in ([a.vararg] if a.vararg else []) + ([a.kwarg] if a.kwarg else []):
            out.append(('bindFresh', p.arg, self.fresh_site(p.arg)))     # *args / **kwargs are built anew by every call
        out.append(self.block(fn.body))
        return prune(seqs(out), self.locals)


def local_names(fn):
    """names bound in the function's own scope (parameters, assignment / loop / with / except targets)"""
    names = set()
    a = fn.args
    for p in list(a.posonlyargs) + list(a.args) + list(a.kwonlyargs) + ([a.vararg] if a.vararg else []) + ([a.kwarg] if a.kwarg else []):
        names.add(p.arg)
    todo = list(fn.body)
    while todo:
        n = todo.pop()
        if isinstance(n, (ast.FunctionDef, ast.AsyncFunctionDef, ast.ClassDef)):
            names.add(n.name)
            continue
        if isinstance(n, (ast.Lambda, ast.ListComp, ast.SetComp, ast.DictComp, ast.GeneratorExp)):
            continue
        if isinstance(n, ast.Name) and isinstance(n.ctx, (ast.Store, ast.Del)):
            names.add(n.id)
        if isinstance(n, ast.ExceptHandler) and n.name:
            names.add(n.name)
        todo.extend(ast.iter_child_nodes(n))
    return names


def prune(p, local):
    """a name that is not local refers to a global, a builtin or a variable of an enclosing function: foreign to this body"""
    k = p[0]
    if k == 'release' and p[1] not in local and not p[1].startswith('$'):
        return ('skip',)
    if k == 'bindVar' and p[2] not in local and not p[2].startswith('$'):
        return ('bindExt', p[1])
    if k in ('seq', 'branch'):
        a, b = prune(p[1], local), prune(p[2], local)
        if k == 'seq':
            return seqs([a, b])
        return (k, a, b)
    if k == 'loop':
        return ('loop', prune(p[1], local))
    return p


def walk_expr(e):
    """sub-expressions of e, not descending into lambdas"""
    todo = [e]
    while todo:
        n = todo.pop()
        yield n
        for ch in ast.iter_child_nodes(n):
            if isinstance(ch, ast.Lambda):
                continue
            todo.append(ch)


def jumps(stmts):
    if not stmts:
        return False
    last = stmts[-1]
    if isinstance(last, JUMPS):
        return True
    if isinstance(last, ast.If):
        return jumps(last.body) and bool(last.orelse) and jumps(last.orelse)
    return False


def may_jump(stmts):
    """does the block contain, at any depth, a statement that leaves it (return/raise anywhere; break/continue
    outside nested loops)?"""
    for s in stmts:
        if isinstance(s, JUMPS):
            return True
        if isinstance(s, (ast.FunctionDef, ast.AsyncFunctionDef, ast.ClassDef)):
            continue
        if isinstance(s, (ast.For, ast.While, ast.AsyncFor)):
            if any(isinstance(n, (ast.Return, ast.Raise)) for b in (s.body, s.orelse) for st in b for n in ast.walk(st)):
                return True
            continue
        for fld in ('body', 'orelse', 'finalbody'):
            if may_jump(getattr(s, fld, []) or []):
                return True
        for h in getattr(s, 'handlers', []) or []:
            if may_jump(h.body):
                return True
    return False


def has_break(stmts):
    for s in stmts:
        if isinstance(s, ast.Break):
            return True
        if isinstance(s, (ast.For, ast.While, ast.AsyncFor, ast.FunctionDef, ast.ClassDef)):
            # a break in a nested loop belongs to that loop (its else-clause could hold one of ours: rare, covered by optional there)
            if isinstance(s, (ast.For, ast.While)) and has_break(s.orelse):
                return True
            continue
        for fld in ('body', 'orelse', 'finalbody'):
            if has_break(getattr(s, fld, []) or []):
                return True
        for h in getattr(s, 'handlers', []) or []:
            if has_break(h.body):
                return True
    return False


def seqs(ps):
    ps = [p for p in ps if p != ('skip',)]
    if not ps:
        return ('skip',)
    p = ps[-1]
    for q in reversed(ps[:-1]):
        p = ('seq', q, p)
    return p


def lean(p, ids=None):
    """variables are numbered per function in order of first appearance"""
    if ids is None:
        ids = {}

    def vid(x):
        if x not in ids:
            ids[x] = len(ids)
        return ids[x]
    k = p[0]
    if k == 'skip':
        return '.skip'
    if k in ('bindExt', 'bindUnknown', 'mutate', 'release'):
        return '(.%s %d)' % (k, vid(p[1]))
    if k == 'bindFresh':
        return '(.bindFresh %d %d)' % (vid(p[1]), p[2])
    if k == 'bindVar':
        return '(.bindVar %d %d)' % (vid(p[1]), vid(p[2]))
    if k in ('seq', 'branch'):
        a = lean(p[1], ids)
        return '(.%s %s %s)' % (k, a, lean(p[2], ids))
    if k == 'loop':
        return '(.loop %s)' % lean(p[1], ids)
    raise ValueError(p)


def size(p):
    return 1 + sum(size(x) for x in p[1:] if isinstance(x, tuple))


def functions_of(tree, prefix):
    """(qualified name, FunctionDef) for every function, method and nested function"""
    out = []

    def visit(body, pre):
        for n in body:
            if isinstance(n, (ast.FunctionDef, ast.AsyncFunctionDef)):
                if n.name not in SKIP_FUNCS:
                    out.append((pre + n.name, n))
                visit(n.body, pre + n.name + '.')
            elif isinstance(n, ast.ClassDef):
                visit(n.body, pre + n.name + '.')
            elif isinstance(n, (ast.If, ast.Try, ast.With, ast.For, ast.While)):
                for fld in ('body', 'orelse', 'finalbody'):
                    visit(getattr(n, fld, []) or [], pre)
                for h in getattr(n, 'handlers', []) or []:
                    visit(h.body, pre)
    visit(tree.body, prefix)
    return out


def source_files():
    files = []
    for d in MODULE_DIRS:
        dd = os.path.join(REPO, 'petl', d)
        for fn in sorted(os.listdir(dd)):
            if fn.endswith('.py') and fn not in SKIP_FILES and (d != 'io' or fn in IO_FILES):
                files.append((os.path.join(dd, fn), '%s.%s.' % (d, fn[:-3])))
    for fn in EXTRA_FILES:
        files.append((os.path.join(REPO, 'petl', fn), fn[:-3] + '.'))
    return files


def translate_all():
    progs = []
    for path, prefix in source_files():
        tree = ast.parse(open(path).read(), path)
        for name, fn in functions_of(tree, prefix):
            progs.append((name, Tr().function(fn), fn.lineno))
    # names can repeat (py2/py3 variants defined under `if`): disambiguate by line
    seen = {}
    out = []
    for name, p, ln in progs:
        if name in seen:
            name = '%s@%d' % (name, ln)
        seen[name] = True
        out.append((name, p, ln))
    return out


NCHUNKS = 16


def nested_pat(n):
    pat = 'h | h'
    for _ in range(n - 2):
        pat = '(%s) | h' % pat
    return pat


def generate():
    from .common import GEN_DIR, VERIF
    progs = translate_all()
    per = max(1, -(-len(progs) // NCHUNKS))
    chunks = [progs[i * per:(i + 1) * per] for i in range(NCHUNKS)]
    lines = ['/- GENERATED by translators/heap_ir.py from petl/{transform,util,io}/*.py and petl/comparison.py — do not edit. -/',
             'import Petl.Heap', 'set_option maxRecDepth 8000', 'namespace Petl.Gen', 'open Petl.Heap', '']
    k = 0
    chunk_items = []
    for ch in chunks:
        items = []
        for name, p, ln in ch:
            lines.append('/-- %s (line %d) -/' % (name, ln))
            lines.append('def hp%d : Prog := %s' % (k, lean(p)))
            items.append('("%s", hp%d)' % (name, k))
            k += 1
        chunk_items.append(items)
    lines.append('')
    for ci, items in enumerate(chunk_items):
        lines.append('def heapChunk%d : List (String × Prog) := [%s]' % (ci, ', '.join(items)))
    lines.append('')
    lines.append('def heapProgs : List (String × Prog) := ' + ' ++ '.join('heapChunk%d' % i for i in range(NCHUNKS)))
    lines += ['', 'end Petl.Gen', '']
    changed = write_if_changed('HeapProgs.lean', '\n'.join(lines))
    # proof obligations, one module per chunk so that lake checks them in parallel
    pdir = os.path.join(VERIF, 'lean', 'PetlProofs', 'Gen')
    os.makedirs(pdir, exist_ok=True)

    def put(name, text):
        path = os.path.join(pdir, name)
        try:
            old = open(path).read()
        except FileNotFoundError:
            old = None
        if old != text:
            from .common import atomic_write
            atomic_write(path, text)
    for ci in range(NCHUNKS):
        put('HeapSafe%d.lean' % ci, '\n'.join([
            '/- GENERATED by translators/heap_ir.py — do not edit. -/',
            'import PetlProofs.HeapReviewed', 'import Petl.Gen.HeapProgs', 'namespace Petl.Gen', 'open Petl.Heap', '',
            'theorem heapChunk%d_safe : ∀ f ∈ heapChunk%d, Petl.Heap.isReviewed f = true ∨ safe f.2 = true := by' % (ci, ci),
            '  decide +kernel', '', 'end Petl.Gen', '']))
    body = ['/- GENERATED by translators/heap_ir.py — do not edit. -/'] + \
           ['import PetlProofs.Gen.HeapSafe%d' % ci for ci in range(NCHUNKS)] + \
           ['namespace Petl.Gen', 'open Petl.Heap', '',
            'theorem heapProgs_safe : ∀ f ∈ heapProgs, Petl.Heap.isReviewed f = true ∨ safe f.2 = true := by',
            '  intro f hf', '  simp only [heapProgs, List.mem_append] at hf',
            '  rcases hf with ' + nested_pat(NCHUNKS)]
    nest = NCHUNKS
    # List.mem_append nests to the left: ((((c0 ∨ c1) ∨ c2) ...) ∨ c15); rcases with a flat pattern handles it
    for ci in range(NCHUNKS):
        body.append('  · exact heapChunk%d_safe f h' % ci)
    body += ['', 'end Petl.Gen', '']
    put('HeapSafe.lean', '\n'.join(body))
    # reference snippets with known verdicts: validates translator + analysis on every run
    from .heap_selftest_cases import CASES
    st = ['/- GENERATED by translators/heap_ir.py from translators/heap_selftest_cases.py — do not edit. -/',
          'import Petl.Heap', 'set_option maxRecDepth 8000', 'namespace Petl.Gen', 'open Petl.Heap', '']
    names = []
    for i, (name, src, expected) in enumerate(CASES):
        fn = ast.parse(src).body[0]
        st.append('/-- %s -/' % name)
        st.append('def st%d : Prog := %s' % (i, lean(Tr().function(fn))))
        names.append('("%s", st%d, %s)' % (name, i, 'true' if expected else 'false'))
    st += ['', 'def selfTests : List (String × Prog × Bool) := [%s]' % ', '.join(names), '', 'end Petl.Gen', '']
    write_if_changed('HeapSelfTest.lean', '\n'.join(st))
    put('HeapSelfTest.lean', '\n'.join([
        '/- GENERATED by translators/heap_ir.py — do not edit. -/',
        'import Petl.Gen.HeapSelfTest', 'namespace Petl.Gen', 'open Petl.Heap', '',
        'theorem selfTests_verdicts : ∀ t ∈ selfTests, safe t.2.1 = t.2.2 := by', '  decide +kernel', '', 'end Petl.Gen', '']))
    nwrites = sum(1 for _, p, _ in progs if 'mutate' in repr(p))
    return {'selftests': len(CASES), 'functions': len(progs), 'with_writes': nwrites, 'nodes': sum(size(p) for _, p, _ in progs), 'changed': changed}


if __name__ == '__main__':
    print(generate())
