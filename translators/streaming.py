"""Which generator functions materialise (a part of) a source table while iterating?
petl/transform/*.py, petl/util/{base,materialise,timing,vis}.py, petl/io/{csv_py3,pickle,text,json,html}.py
  -> lean/Petl/Gen/Materialise.lean

For every generator function / __iter__ method: the names derived from a table parameter (the parameter itself,
`iter(p)`, `islice(x, ..)`, `chain(.., x, ..)`, generator expressions over x, plain aliases) and every site where such a
name is consumed wholesale: list/tuple/set/frozenset/sorted/dict/Counter/deque/len/sum/min/max/any?/all? applied to it,
a list/set/dict comprehension looping over it, `.extend(x)`, `heapify`, `zip(*x)`, `product(..x..)`.
`list(islice(x, n))` and friends are recorded as `bounded`.  The C02 proof obligation is that every `full` site is in a
function on the hand-written list of operators that are documented to need the whole input."""
import ast, os
from .common import REPO, write_if_changed

FILES = [('transform', None), ('util', ['base', 'materialise', 'timing', 'vis', 'lookups']),
         ('io', ['csv_py3', 'pickle', 'text', 'json', 'html', 'base'])]
SKIP = {'intervals'}
TABLE_PARAMS = {'table', 'source', 'left', 'right', 'a', 'b', 'tbl', 'inner', 'dicts', 'it', 'tables', 'sources', 'its', 'lit', 'rit',
                'input', 'wrapped'}
CONSUMERS = {'list', 'tuple', 'set', 'frozenset', 'sorted', 'dict', 'Counter', 'deque', 'len', 'sum', 'min', 'max', 'OrderedDict',
             'heapify', 'reversed', 'product', 'lookup', 'lookupone', 'dictlookup', 'dictlookupone', 'recordlookup', 'recordlookupone',
             'listoflists', 'listoftuples', 'columns', 'nrows'}
DERIVERS = {'iter', 'islice', 'chain', 'enumerate', 'izip', 'zip', 'map', 'imap', 'filter', 'ifilter', 'izip_longest', 'zip_longest',
            'groupby', 'rowgroupby', 'iterpeek', 'data', 'values', 'dropwhile', 'takewhile', 'tee'}
BOUNDED = {'islice', 'head'}


def has_yield(fn):
    for n in ast.walk(fn):
        if isinstance(n, (ast.Yield, ast.YieldFrom)):
            return True
    return False


def names_in(e):
    return [n.id for n in ast.walk(e) if isinstance(n, ast.Name)]


def derive_sources(fn, seeds=None):
    """names of `fn` that denote a source table or a lazy iterator derived from one (shared with translators/pullshape.py);
    `seeds`: start from these parameters only (the projection on one operand of a binary operator)"""
    return _analyse(fn, want='S', seeds=seeds)


def table_params(fn):
    params = [a.arg for a in fn.args.args] + ([fn.args.vararg.arg] if fn.args.vararg else [])
    return [p for p in params if p in TABLE_PARAMS]


def analyse(fn):
    return _analyse(fn, want='sites')


def _analyse(fn, want, seeds=None):
    params = [a.arg for a in fn.args.args] + ([fn.args.vararg.arg] if fn.args.vararg else [])
    S = {p for p in params if p in TABLE_PARAMS} if seeds is None else set(seeds)
    # self.<attr> of view methods: the wrapped table lives in attributes
    changed = True
    assigns = [n for n in ast.walk(fn) if isinstance(n, ast.Assign)]
    fors = [n for n in ast.walk(fn) if isinstance(n, (ast.For, ast.comprehension))]
    while changed:
        changed = False
        for a in assigns:
            v = a.value
            derived = False
            if isinstance(v, ast.Name) and v.id in S:
                derived = True
            elif isinstance(v, ast.Call):
                f = v.func
                fname = f.id if isinstance(f, ast.Name) else (f.attr if isinstance(f, ast.Attribute) else None)
                args = list(v.args) + [k.value for k in v.keywords]
                if fname in DERIVERS and any(isinstance(x, (ast.Name, ast.Starred)) and
                                             (x.id if isinstance(x, ast.Name) else getattr(x.value, 'id', None)) in S for x in args):
                    derived = True
                if fname == 'iter' and v.args and isinstance(v.args[0], ast.Attribute) and isinstance(v.args[0].value, ast.Name) \
                        and v.args[0].value.id == 'self':
                    derived = True       # iter(self.source)
            elif isinstance(v, ast.GeneratorExp):
                if any(isinstance(g.iter, ast.Name) and g.iter.id in S for g in v.generators):
                    derived = True
            elif isinstance(v, (ast.ListComp,)):
                # its = [iter(t) for t in tables]: a list of iterators, still lazy
                if isinstance(v.elt, ast.Call) and isinstance(v.elt.func, ast.Name) and v.elt.func.id == 'iter' \
                        and any(isinstance(g.iter, ast.Name) and g.iter.id in S for g in v.generators):
                    derived = True
            if derived:
                for t in a.targets:
                    if isinstance(t, ast.Tuple) and isinstance(v, ast.Call) and getattr(v.func, 'id', getattr(v.func, 'attr', None)) == 'iterpeek':
                        cands = [t.elts[-1]]          # peek, it = iterpeek(it): only the second result is the iterator
                    else:
                        cands = [t]
                    for c in cands:
                        for n in ast.walk(c):
                            if isinstance(n, ast.Name) and n.id not in S:
                                S.add(n.id)
                                changed = True
        for f in fors:
            # `for it in its:` — an element of a list of iterators is an iterator
            it = f.iter
            if isinstance(it, ast.Name) and it.id in S and it.id in ('its', 'tables', 'sources', 'iterators', 'iterables'):
                for n in ast.walk(f.target):
                    if isinstance(n, ast.Name) and n.id not in S:
                        S.add(n.id)
                        changed = True
    if want == 'S':
        return S
    sites = []
    for n in ast.walk(fn):
        if isinstance(n, (ast.FunctionDef, ast.Lambda)) and n is not fn:
            continue
        if isinstance(n, ast.Call):
            f = n.func
            fname = f.id if isinstance(f, ast.Name) else (f.attr if isinstance(f, ast.Attribute) else None)
            args = list(n.args) + [k.value for k in n.keywords]
            if fname in CONSUMERS:
                for x in args:
                    if isinstance(x, ast.Name) and x.id in S:
                        sites.append(('full', fname, n.lineno))
                    elif isinstance(x, ast.Starred) and isinstance(x.value, ast.Name) and x.value.id in S and fname in ('zip', 'product'):
                        sites.append(('full', fname + '*', n.lineno))
                    elif isinstance(x, ast.Call) and getattr(x.func, 'id', getattr(x.func, 'attr', None)) in BOUNDED \
                            and any(isinstance(y, ast.Name) and y.id in S for y in x.args):
                        sites.append(('bounded', fname + '(islice)', n.lineno))
                    elif isinstance(x, ast.GeneratorExp) and any(isinstance(g.iter, ast.Name) and g.iter.id in S for g in x.generators):
                        sites.append(('full', fname + '(genexp)', n.lineno))
            if fname == 'extend' and args and isinstance(args[0], ast.Name) and args[0].id in S:
                sites.append(('full', 'extend', n.lineno))
            if fname in ('zip', 'izip', 'zip_longest', 'izip_longest', 'product') and any(
                    isinstance(x, ast.Starred) and isinstance(x.value, ast.Name) and x.value.id in S for x in n.args) and fname == 'product':
                sites.append(('full', 'product*', n.lineno))
        if isinstance(n, ast.For) and not any(isinstance(y, (ast.Yield, ast.YieldFrom)) for y in ast.walk(n)):
            it = n.iter
            if isinstance(it, ast.Name) and it.id in S and it.id not in ('its', 'tables', 'sources', 'iterators', 'iterables'):
                sites.append(('full', 'loop-without-yield', n.lineno))
            elif isinstance(it, ast.Call) and getattr(it.func, 'id', getattr(it.func, 'attr', None)) in BOUNDED \
                    and any(isinstance(y, ast.Name) and y.id in S for y in it.args):
                sites.append(('bounded', 'loop-without-yield(islice)', n.lineno))
        if isinstance(n, (ast.ListComp, ast.SetComp, ast.DictComp)):
            if any(isinstance(g.iter, ast.Name) and g.iter.id in S for g in n.generators):
                # a list of iterators is not a materialisation
                if isinstance(n, ast.ListComp) and isinstance(n.elt, ast.Call) and isinstance(n.elt.func, ast.Name) and n.elt.func.id == 'iter':
                    continue
                sites.append(('full', 'comprehension', n.lineno))
    return sorted(set(sites))


def generate():
    rows = []
    nfun = 0
    for pkg, mods in FILES:
        d = os.path.join(REPO, 'petl', pkg)
        for fn in sorted(os.listdir(d)):
            if not fn.endswith('.py') or fn.startswith('__'):
                continue
            m = fn[:-3]
            if m in SKIP or (mods is not None and m not in mods):
                continue
            tree = ast.parse(open(os.path.join(d, fn)).read())

            def visit(body, pre):
                nonlocal nfun
                for n in body:
                    if isinstance(n, ast.FunctionDef):
                        if has_yield(n):
                            nfun += 1
                            for kind, callee, ln in analyse(n):
                                rows.append(('%s.%s.%s%s' % (pkg, m, pre, n.name), kind, callee, ln))
                    elif isinstance(n, ast.ClassDef):
                        visit(n.body, pre + n.name + '.')
            visit(tree.body, '')
    lines = ['/- GENERATED by translators/streaming.py — do not edit. -/', 'namespace Petl.Gen', '',
             'structure MatSite where', '  fn : String', '  kind : String', '  callee : String', '',
             'def materialisations : List MatSite := [']
    lines.append(',\n'.join('  { fn := "%s", kind := "%s", callee := "%s" }' % (f, k, c) for f, k, c, ln in rows))
    lines += [']', '', 'end Petl.Gen', '']
    changed = write_if_changed('Materialise.lean', '\n'.join(lines))
    return {'generators': nfun, 'sites': [(f, k, c, ln) for f, k, c, ln in rows], 'changed': changed}


if __name__ == '__main__':
    r = generate()
    print(r['generators'], 'generator functions')
    for s in r['sites']:
        print(s)
