import os, ast

REPO = os.environ.get('PETL_REPO', '/repo')
VERIF = os.path.dirname(os.path.dirname(os.path.abspath(__file__)))
GEN_DIR = os.path.join(VERIF, 'lean', 'Petl', 'Gen')


class TranslationError(Exception):
    pass


def parse(relpath):
    p = os.path.join(REPO, relpath)
    return ast.parse(open(p).read(), p)


def write_if_changed(name, text):
    os.makedirs(GEN_DIR, exist_ok=True)
    p = os.path.join(GEN_DIR, name)
    try:
        old = open(p).read()
    except FileNotFoundError:
        old = None
    if old != text:
        atomic_write(p, text)
        return True
    return False


def atomic_write(path, text):
    """write via a temporary file and rename: a concurrently running check never sees a half-written Lean file"""
    tmp = '%s.%d.tmp' % (path, os.getpid())
    with open(tmp, 'w') as f:
        f.write(text)
    os.replace(tmp, path)


def find_class(mod, name):
    for n in mod.body:
        if isinstance(n, ast.ClassDef) and n.name == name:
            return n
    raise TranslationError('class %s not found' % name)


def find_func(body, name):
    for n in body:
        if isinstance(n, ast.FunctionDef) and n.name == name:
            return n
    raise TranslationError('function %s not found' % name)


def strip_doc(body):
    if body and isinstance(body[0], ast.Expr) and isinstance(getattr(body[0], 'value', None), ast.Constant) \
            and isinstance(body[0].value.value, str):
        return body[1:]
    return body
