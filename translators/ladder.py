"""Translate petl/comparison.py (Comparable.__lt__/__eq__/__le__/__gt__/__ge__, _typestr) and the
type tuples of petl/compat.py into lean/Petl/Gen/Ladder.lean.

Accepted subset (anything else is a TranslationError = broken tie):
  __init__ : stores obj; converts list/tuple to a tuple of Comparable
  __lt__   : `obj = self.obj`; `if isinstance(other, Comparable): other = other.obj
             elif isinstance(other, (list, tuple)): other = Comparable(other).obj` (so raw and wrapped operands agree);
             a sequence of `if <cond>: return <True|False>` over `is None`, isinstance(·, numeric_types|
             text_type|binary_type), and/or/not;  finally `try: return obj < other
             except TypeError: return _typestr(obj) < _typestr(other)`
  __eq__/__le__/__gt__/__ge__ : one return of a boolean expression over `self < other`, `self == other`
  _typestr : `if isinstance(x, T): return '<name>'` ...; `return type(x).__name__`
"""
import ast
from .common import parse, write_if_changed, find_class, find_func, strip_doc, TranslationError

TYPE_PRED = {'numeric_types': 'isNumeric', 'text_type': 'isText', 'binary_type': 'isBinary'}


def cond(e, names):
    """translate a condition over the variables in `names` (python name -> lean name)"""
    if isinstance(e, ast.BoolOp):
        op = ' && ' if isinstance(e.op, ast.And) else ' || '
        return '(' + op.join(cond(v, names) for v in e.values) + ')'
    if isinstance(e, ast.UnaryOp) and isinstance(e.op, ast.Not):
        return '(!' + cond(e.operand, names) + ')'
    if isinstance(e, ast.Compare) and len(e.ops) == 1:
        l, r = e.left, e.comparators[0]
        if isinstance(e.ops[0], ast.Is) and isinstance(r, ast.Constant) and r.value is None and isinstance(l, ast.Name) and l.id in names:
            return '(isNone %s)' % names[l.id]
    if isinstance(e, ast.Call) and isinstance(e.func, ast.Name) and e.func.id == 'isinstance' and len(e.args) == 2:
        x, t = e.args
        if isinstance(x, ast.Name) and x.id in names and isinstance(t, ast.Name) and t.id in TYPE_PRED:
            return '(%s %s)' % (TYPE_PRED[t.id], names[x.id])
    raise TranslationError('condition outside the accepted subset: ' + ast.unparse(e))


def const_bool(e):
    if isinstance(e, ast.Constant) and e.value in (True, False):
        return 'true' if e.value else 'false'
    raise TranslationError('expected True/False, got ' + ast.unparse(e))


def translate_lt(fn):
    body = strip_doc(fn.body)
    if [a.arg for a in fn.args.args] != ['self', 'other']:
        raise TranslationError('__lt__ signature')
    # prologue
    s0, s1 = body[0], body[1]
    if not (isinstance(s0, ast.Assign) and ast.unparse(s0) == 'obj = self.obj'):
        raise TranslationError('__lt__ prologue 1: ' + ast.unparse(s0))
    if ast.unparse(s1).replace('\n', ' ').split() != ('if isinstance(other, Comparable): other = other.obj '
            'elif isinstance(other, (list, tuple)): other = Comparable(other).obj').split():
        raise TranslationError('__lt__ prologue 2: ' + ast.unparse(s1))
    names = {'obj': 'obj', 'other': 'other'}
    rungs = []
    for st in body[2:-1]:
        if not (isinstance(st, ast.If) and not st.orelse and len(st.body) == 1 and isinstance(st.body[0], ast.Return)):
            raise TranslationError('__lt__ rung outside subset: ' + ast.unparse(st))
        rungs.append((cond(st.test, names), const_bool(st.body[0].value)))
    last = body[-1]
    ok = (isinstance(last, ast.Try) and len(last.body) == 1 and ast.unparse(last.body[0]) == 'return obj < other'
          and len(last.handlers) == 1 and ast.unparse(last.handlers[0].type) == 'TypeError'
          and len(last.handlers[0].body) == 1
          and ast.unparse(last.handlers[0].body[0]) == 'return _typestr(obj) < _typestr(other)'
          and not last.orelse and not last.finalbody)
    if not ok:
        raise TranslationError('__lt__ final try/except outside subset: ' + ast.unparse(last))
    lines = ['def ltStep (native : Val → Val → Option Bool) (obj other : Val) : Bool :=']
    for c, r in rungs:
        lines.append('  if %s then %s else' % (c, r))
    lines.append('  match native obj other with')
    lines.append('  | some b => b')
    lines.append('  | none => decide (typestr obj < typestr other)')
    return '\n'.join(lines), len(rungs)


def rel(e):
    """boolean expression over `self < other`, `self == other`"""
    if isinstance(e, ast.BoolOp):
        op = ' && ' if isinstance(e.op, ast.And) else ' || '
        return '(' + op.join(rel(v) for v in e.values) + ')'
    if isinstance(e, ast.UnaryOp) and isinstance(e.op, ast.Not):
        return '(!' + rel(e.operand) + ')'
    if isinstance(e, ast.Compare) and len(e.ops) == 1 and ast.unparse(e.left) == 'self' and ast.unparse(e.comparators[0]) == 'other':
        if isinstance(e.ops[0], ast.Lt):
            return '(lt a b)'
        if isinstance(e.ops[0], ast.Eq):
            return '(eq a b)'
    raise TranslationError('derived operator outside subset: ' + ast.unparse(e))


def translate_derived(cls, name):
    fn = find_func(cls.body, name)
    body = strip_doc(fn.body)
    if len(body) != 1 or not isinstance(body[0], ast.Return):
        raise TranslationError(name + ' body')
    return rel(body[0].value)


def translate_eq(cls):
    fn = find_func(cls.body, '__eq__')
    src = ' '.join(ast.unparse(ast.Module(strip_doc(fn.body), [])).split())
    want = ('if isinstance(other, Comparable): return self.obj == other.obj '
            'if isinstance(other, (list, tuple)): return self.obj == Comparable(other).obj return self.obj == other')
    if src != want:
        raise TranslationError('__eq__ outside subset: ' + src)


def translate_init(cls):
    fn = find_func(cls.body, '__init__')
    src = ' '.join(ast.unparse(ast.Module(strip_doc(fn.body), [])).split())
    want = 'self.inner = obj if isinstance(obj, (list, tuple)): obj = tuple((Comparable(o) for o in obj)) self.obj = obj'
    if src != want:
        raise TranslationError('__init__ outside subset: ' + src)


def translate_typestr(mod):
    fn = find_func(mod.body, '_typestr')
    body = strip_doc(fn.body)
    lines = ['def typestr (x : Val) : String :=']
    for st in body[:-1]:
        if not (isinstance(st, ast.If) and not st.orelse and len(st.body) == 1 and isinstance(st.body[0], ast.Return)
                and isinstance(st.body[0].value, ast.Constant) and isinstance(st.body[0].value.value, str)):
            raise TranslationError('_typestr rung: ' + ast.unparse(st))
        lines.append('  if %s then %s else' % (cond(st.test, {'x': 'x'}), lean_str(st.body[0].value.value)))
    if ast.unparse(body[-1]) != 'return type(x).__name__':
        raise TranslationError('_typestr tail: ' + ast.unparse(body[-1]))
    lines.append('  pyTypeName x')
    return '\n'.join(lines)


def lean_str(s):
    return '"' + s.replace('\\', '\\\\').replace('"', '\\"') + '"'


def compat_types(mod):
    """the PY3 branch (the `else` of `if PY2`) of petl/compat.py: numeric_types, text_type, binary_type"""
    out = {}
    for n in mod.body:
        if isinstance(n, ast.If) and ast.unparse(n.test) == 'PY2':
            for st in n.orelse:
                if isinstance(st, ast.Assign) and len(st.targets) == 1 and isinstance(st.targets[0], ast.Name):
                    nm = st.targets[0].id
                    if nm == 'numeric_types':
                        if not isinstance(st.value, ast.Tuple) or not all(isinstance(e, ast.Name) for e in st.value.elts):
                            raise TranslationError('numeric_types is not a tuple of names')
                        out[nm] = [e.id for e in st.value.elts]
                    elif nm in ('text_type', 'binary_type'):
                        if not isinstance(st.value, ast.Name):
                            raise TranslationError(nm + ' is not a name')
                        out[nm] = st.value.id
    for k in ('numeric_types', 'text_type', 'binary_type'):
        if k not in out:
            raise TranslationError(k + ' not found in compat.py')
    return out


def generate():
    cmod = parse('petl/comparison.py')
    cls = find_class(cmod, 'Comparable')
    translate_init(cls)
    translate_eq(cls)
    lt_src, nrungs = translate_lt(find_func(cls.body, '__lt__'))
    le = translate_derived(cls, '__le__')
    gt = translate_derived(cls, '__gt__')
    ge = translate_derived(cls, '__ge__')
    typestr = translate_typestr(cmod)
    ct = compat_types(parse('petl/compat.py'))
    text = '''/- GENERATED by translators/ladder.py from petl/comparison.py and petl/compat.py — do not edit. -/
import Petl.GenSupport
namespace Petl.Gen

def numericTypes : List String := [%s]
def textType : String := %s
def binaryType : String := %s

def isNone (x : Val) : Bool := pyTypeName x == "NoneType"
def isNumeric (x : Val) : Bool := numericTypes.contains (pyTypeName x)
def isText (x : Val) : Bool := pyTypeName x == textType
def isBinary (x : Val) : Bool := pyTypeName x == binaryType

%s

%s

def le (lt eq : Val → Val → Bool) (a b : Val) : Bool := %s
def gt (lt eq : Val → Val → Bool) (a b : Val) : Bool := %s
def ge (lt eq : Val → Val → Bool) (a b : Val) : Bool := %s

end Petl.Gen
''' % (', '.join(lean_str(x) for x in ct['numeric_types']), lean_str(ct['text_type']), lean_str(ct['binary_type']),
       typestr, lt_src, le, gt, ge)
    changed = write_if_changed('Ladder.lean', text)
    return {'rungs': nrungs, 'changed': changed, 'numeric_types': ct['numeric_types']}


if __name__ == '__main__':
    print(generate())
