"""Pull shape of every generator function: how its yields interleave with the rows it takes from a source iterator.
petl/transform/*.py, petl/util/{base,materialise,timing,vis,lookups}.py, petl/io/{csv_py3,pickle,text,json,html,base}.py
  -> lean/Petl/Gen/PullShapes.lean   (one `Petl.PullShape.PS` program per generator function)

Events: `pull` = `next(x)` on a source-derived name, or one iteration of `for .. in x` over one; `yld` = a `yield`.
A source-derived name handed to anything else (another generator function, `list`, `sorted`, a comprehension, `yield from`)
is `opq`: this analysis does not follow it (translators/streaming.py decides whether it is a wholesale consumption).
Control flow: if / for / while / try become branch / forSrc / loop / tryS; an arm that ends in continue / break / return /
raise does not run the statements after the `if` (they are attached to the other arm only).  Where the translation is
unsure whether an arm always jumps it assumes it may fall through (more traces, never fewer).

Lean then computes `bound` of each program (PetlProofs/Props/C02Shape.lean): a function with bound `(n, k)` has pulled at
most j + k rows of any one source when it delivers its j-th row."""
import ast, os
from .common import REPO, write_if_changed
from . import streaming as st

LAZY = st.DERIVERS | {'iter'}
LISTS_OF_ITERATORS = ('its', 'tables', 'sources', 'iterators', 'iterables')


def fname_of(call):
    f = call.func
    return f.id if isinstance(f, ast.Name) else (f.attr if isinstance(f, ast.Attribute) else None)


class Tr:
    def __init__(self, fn, seeds=None):
        self.fn = fn
        self.multi_names = set()
        self.S = st.derive_sources(fn, seeds)
        # a local bound to the wrapped table of a view (`inpt = self.input`) is a source too
        if seeds is None or not seeds:
            extra = set()
            for a in ast.walk(fn):
                if isinstance(a, ast.Assign) and self.self_table(a.value):
                    extra |= {n.id for t in a.targets for n in ast.walk(t) if isinstance(n, ast.Name)}
            if extra - self.S:
                self.S = st.derive_sources(fn, set(self.S) | extra)
        # names bound to a slice with start/step of a source (`it = islice(it, *sliceargs)`)
        self.multi_names = set()
        for _round in range(3):
            for a in ast.walk(fn):
                if isinstance(a, ast.Assign) and self.multi_step(a.value):
                    self.multi_names |= {n.id for t in a.targets for n in ast.walk(t) if isinstance(n, ast.Name)}

    # ---- expressions -----------------------------------------------------------------------------
    def is_src(self, e):
        if isinstance(e, ast.Name):
            return e.id in self.S
        if isinstance(e, ast.Starred):
            return self.is_src(e.value)
        return False

    def self_table(self, e):
        """`self.table` and the like: the wrapped table of a view (NB `self.source` of a tee view is the file being written,
        so an attribute only counts where it is iterated: `iter(self.x)`, `for row in self.x`)"""
        return isinstance(e, ast.Attribute) and isinstance(e.value, ast.Name) and e.value.id == 'self' and \
            e.attr in ('source', 'table', 'left', 'right', 'a', 'b', 'inner', 'wrapped', 'dicts', 'tables', 'sources', 'tbl', 'input', 'inpt')

    def list_of_iterators(self, e):
        """`its`, or `zip(hdrs, its)` / `enumerate(its)`: looping over it takes no row from any source"""
        if isinstance(e, ast.Name):
            return e.id in LISTS_OF_ITERATORS
        if isinstance(e, ast.Call) and fname_of(e) in ('zip', 'izip', 'enumerate', 'reversed', 'list'):
            srcs = [a for a in e.args if self.mentions_src(a)]
            return bool(srcs) and all(self.list_of_iterators(a) for a in srcs)
        return False

    def multi_step(self, e):
        if isinstance(e, ast.Name) and e.id in self.multi_names:
            return True
        if isinstance(e, ast.Call) and fname_of(e) == 'islice' and e.args and self.lazy_src(e.args[0]):
            return len(e.args) > 2 or any(isinstance(a, ast.Starred) for a in e.args[1:])
        if isinstance(e, ast.Call) and fname_of(e) in LAZY:
            return any(self.multi_step(a) for a in e.args)
        return False

    def lazy_src(self, e):
        """an expression that denotes a (lazily derived) source iterator"""
        if self.is_src(e):
            return True
        if isinstance(e, ast.Call) and fname_of(e) == 'iter' and e.args and self.self_table(e.args[0]):
            return True
        if isinstance(e, ast.Call) and fname_of(e) in LAZY:
            return any(self.lazy_src(x) for x in list(e.args) + [k.value for k in e.keywords])
        if isinstance(e, ast.GeneratorExp):
            return any(self.lazy_src(g.iter) for g in e.generators)
        return False

    def expr(self, e):
        """events of evaluating an expression, in evaluation order"""
        if e is None:
            return []
        out = []
        if isinstance(e, ast.Yield):
            return self.expr(e.value) + ['yld']
        if isinstance(e, ast.YieldFrom):
            if self.lazy_src(e.value) or self.mentions_src(e.value):
                return ['opq']
            return self.expr(e.value) + [('loop', ['yld'])]
        if isinstance(e, (ast.Lambda,)):
            return ['opq'] if self.mentions_src(e.body) else []
        if isinstance(e, ast.GeneratorExp):
            # creating a generator expression does nothing; consuming it is seen at the consumer
            return []
        if isinstance(e, (ast.ListComp, ast.SetComp, ast.DictComp)):
            if any(self.lazy_src(g.iter) for g in e.generators):
                elt = e.elt if not isinstance(e, ast.DictComp) else e.value
                # `[iter(t) for t in tables]` only creates iterators
                if isinstance(e, ast.ListComp) and isinstance(elt, ast.Call) and fname_of(elt) == 'iter' and \
                        all(isinstance(g.iter, ast.Name) and g.iter.id in LISTS_OF_ITERATORS + ('tables', 'sources') for g in e.generators):
                    return []
                return ['opq']
            inner = []
            for g in e.generators:
                inner += self.expr(g.iter)
                for c in g.ifs:
                    inner += self.expr(c)
            body = self.expr(e.elt) if not isinstance(e, ast.DictComp) else self.expr(e.key) + self.expr(e.value)
            return inner + ([('loop', body)] if body else [])
        if isinstance(e, ast.Call):
            fn = fname_of(e)
            args = list(e.args) + [k.value for k in e.keywords]
            if fn == 'next' and e.args and self.lazy_src(e.args[0]):
                for a in e.args[1:]:
                    out += self.expr(a)
                return out + ['pull']
            if fn in LAZY:
                for a in args:
                    if not self.lazy_src(a):
                        out += self.expr(a)
                return out
            for a in args:
                if self.lazy_src(a):
                    out.append('opq')
                else:
                    out += self.expr(a)
            out += self.expr(e.func) if not isinstance(e.func, ast.Name) else []
            return out
        if isinstance(e, ast.IfExp):
            return self.expr(e.test) + [('branch', self.expr(e.body), self.expr(e.orelse))]
        if isinstance(e, ast.BoolOp):
            # short circuit: the first operand always, the others maybe
            out = self.expr(e.values[0])
            for v in e.values[1:]:
                ev = self.expr(v)
                if ev:
                    out.append(('branch', ev, []))
            return out
        for c in ast.iter_child_nodes(e):
            if isinstance(c, ast.expr):
                out += self.expr(c)
            elif isinstance(c, (ast.comprehension, ast.keyword)):
                for cc in ast.iter_child_nodes(c):
                    if isinstance(cc, ast.expr):
                        out += self.expr(cc)
        return out

    def mentions_src(self, e):
        return any(isinstance(n, ast.Name) and n.id in self.S for n in ast.walk(e))

    # ---- statements ------------------------------------------------------------------------------
    def block(self, stmts):
        """-> (list of IR items, always_jumps)"""
        out = []
        for i, s in enumerate(stmts):
            rest = stmts[i + 1:]
            if isinstance(s, ast.If):
                te = self.expr(s.test)
                a, ja = self.block(s.body)
                b, jb = self.block(s.orelse)
                if ja and jb:
                    return out + te + [('branch', a, b)], True
                if ja or jb:
                    r, jr = self.block(rest)
                    if ja:
                        return out + te + [('branch', a, b + r)], jr
                    return out + te + [('branch', a + r, b)], jr
                out += te + [('branch', a, b)]
                continue
            if isinstance(s, (ast.For, ast.AsyncFor)):
                body, _ = self.block(s.body)
                orelse, _ = self.block(s.orelse)
                it = s.iter
                if self.list_of_iterators(it):
                    # one round per source iterator.  Seen from any ONE of the sources: rounds of the others (their pulls are
                    # not pulls of this source; their yields are yields), this source's round, rounds of the others
                    others = erase(body)
                    out += [('loop', others)] + body + [('loop', others)] + orelse
                elif self.multi_step(it):
                    # islice(it, start, stop[, step]) / islice(it, *args): several source rows may go by per round
                    out += [('loop', [('loop', ['pull']), 'pull'] + body), ('loop', ['pull'])] + orelse
                elif self.lazy_src(it) or self.self_table(it):
                    out += [('forSrc', body)] + orelse
                elif self.mentions_src(it):
                    out += ['opq', ('loop', body)] + orelse
                else:
                    out += self.expr(it) + [('loop', body)] + orelse
                continue
            if isinstance(s, ast.While):
                body, _ = self.block(s.body)
                orelse, _ = self.block(s.orelse)
                out += [('loop', self.expr(s.test) + body)] + self.expr(s.test) + orelse
                continue
            if isinstance(s, ast.Try):
                body, jb = self.block(s.body)
                orelse, _ = self.block(s.orelse)
                hs = [self.block(h.body) for h in s.handlers]
                final, _ = self.block(s.finalbody)
                handler = hs[-1][0] if hs else []
                for h, _j in reversed(hs[:-1]):
                    handler = [('branch', h, handler)]
                out += [('tryS', body + orelse, handler)] + final
                if jb and not s.orelse and hs and all(j for _h, j in hs):
                    return out, True
                continue
            if isinstance(s, ast.With):
                for item in s.items:
                    out += self.expr(item.context_expr)
                body, j = self.block(s.body)
                out += body
                if j:
                    return out, True
                continue
            if isinstance(s, (ast.Return,)):
                return out + self.expr(s.value), True
            if isinstance(s, ast.Raise):
                return out + self.expr(s.exc), True
            if isinstance(s, (ast.Continue, ast.Break)):
                return out, True
            if isinstance(s, (ast.FunctionDef, ast.ClassDef, ast.AsyncFunctionDef)):
                if any(isinstance(n, ast.Name) and n.id in self.S for n in ast.walk(s)):
                    out.append('opq')
                continue
            for c in ast.iter_child_nodes(s):
                if isinstance(c, ast.expr):
                    out += self.expr(c)
        return out, False


def erase(items):
    """the same program with its pulls removed (they are pulls of another source)"""
    out = []
    for x in items:
        if x == 'pull':
            continue
        if isinstance(x, tuple):
            k = x[0]
            if k == 'forSrc':
                x = ('loop', erase(x[1]))
            elif k in ('branch', 'tryS'):
                x = (k, erase(x[1]), erase(x[2]))
            else:
                x = (k, erase(x[1]))
        out.append(x)
    return out


def to_lean(items):
    """list of IR items -> Lean term of type PS"""
    def one(x):
        if x == 'pull':
            return '.pull'
        if x == 'yld':
            return '.yld'
        if x == 'opq':
            return '.opq'
        k = x[0]
        if k == 'branch':
            return '(.branch %s %s)' % (to_lean(x[1]), to_lean(x[2]))
        if k == 'forSrc':
            return '(.forSrc %s)' % to_lean(x[1])
        if k == 'loop':
            return '(.loop %s)' % to_lean(x[1])
        if k == 'tryS':
            return '(.tryS %s %s)' % (to_lean(x[1]), to_lean(x[2]))
        raise ValueError(x)
    items = simplify(items)
    if not items:
        return '.skip'
    t = one(items[-1])
    for x in reversed(items[:-1]):
        t = '(.seq %s %s)' % (one(x), t)
    return t


def simplify(items):
    """drop constructs without events (keeps the generated terms small; `bound` of the dropped parts is (0, 0))"""
    out = []
    for x in items:
        if isinstance(x, tuple):
            k = x[0]
            if k == 'branch':
                a, b = simplify(x[1]), simplify(x[2])
                if not a and not b:
                    continue
                x = ('branch', a, b)
            elif k == 'loop':
                a = simplify(x[1])
                if not a:
                    continue
                x = ('loop', a)
            elif k == 'forSrc':
                x = ('forSrc', simplify(x[1]))
            elif k == 'tryS':
                a, b = simplify(x[1]), simplify(x[2])
                if not a and not b:
                    continue
                x = ('tryS', a, b)
        out.append(x)
    return out


def functions():
    """(qualified name, ast.FunctionDef) of every generator function in scope — the same set as translators/streaming.py"""
    for pkg, mods in st.FILES:
        d = os.path.join(REPO, 'petl', pkg)
        for fn in sorted(os.listdir(d)):
            if not fn.endswith('.py') or fn.startswith('__'):
                continue
            m = fn[:-3]
            if m in st.SKIP or (mods is not None and m not in mods):
                continue
            tree = ast.parse(open(os.path.join(d, fn)).read())
            found = []

            def visit(body, pre):
                for n in body:
                    if isinstance(n, ast.FunctionDef):
                        if st.has_yield(n):
                            found.append(('%s.%s.%s%s' % (pkg, m, pre, n.name), n))
                    elif isinstance(n, ast.ClassDef):
                        visit(n.body, pre + n.name + '.')
            visit(tree.body, '')
            for x in found:
                yield x


def operands(fn):
    """the table parameters of `fn`.  (`source` next to `table` is the file a tee view writes, not an input.)"""
    ps = st.table_params(fn)
    if 'table' in ps and 'source' in ps:
        ps.remove('source')
    return ps


def translate(fn, seeds=None):
    from .common import strip_doc
    t = Tr(fn, operands(fn) if seeds is None else seeds)
    items, _ = t.block(strip_doc(fn.body))
    return items


def programs():
    """(name, IR): one program per generator function; for a function with several table parameters one per parameter
    (`name@left`: only rows taken from `left` count as pulls), since the bound is per source"""
    for name, fn in functions():
        ops = operands(fn)
        if len(ops) >= 2:
            for o in ops:
                yield '%s@%s' % (name, o), translate(fn, [o])
        else:
            yield name, translate(fn)


def selftest_programs():
    from .pullshape_selftest_cases import CASES
    out = []
    for name, src, k, opq in CASES:
        fn = ast.parse(src).body[0]
        out.append((name, to_lean(translate(fn)), k, opq))
    return out


def generate():
    # the translator's own reference snippets, translated afresh
    st = selftest_programs()
    lines = ['/- GENERATED by translators/pullshape.py from translators/pullshape_selftest_cases.py — do not edit. -/', 'import Petl.PullShape',
             'set_option maxRecDepth 8000', 'namespace Petl.Gen', 'open Petl.PullShape', '',
             '/-- (snippet, its translation, the look-ahead bound expected, whether it hands a source on) -/',
             'def pullShapeSelfTest : List (String × PS × Option Int × Bool) := [']
    lines.append(',\n'.join('  ("%s", %s, %s, %s)' % (n, t, 'none' if k is None else 'some %d' % k, 'true' if o else 'false') for n, t, k, o in st))
    lines += [']', '', 'end Petl.Gen', '']
    write_if_changed('PullShapeSelfTest.lean', '\n'.join(lines))
    progs = []
    for name, items in programs():
        progs.append((name, to_lean(items)))
    lines = ['/- GENERATED by translators/pullshape.py — do not edit. -/', 'import Petl.PullShape', 'set_option maxRecDepth 8000',
             'namespace Petl.Gen', 'open Petl.PullShape', '']
    for i, (name, term) in enumerate(progs):
        lines.append('/-- %s -/' % name)
        lines.append('def ps_%d : PS := %s' % (i, term))
    lines += ['', 'def pullShapes : List (String × PS) := [']
    lines.append(',\n'.join('  ("%s", ps_%d)' % (name, i) for i, (name, _t) in enumerate(progs)))
    lines += [']', '', 'end Petl.Gen', '']
    changed = write_if_changed('PullShapes.lean', '\n'.join(lines))
    return {'functions': len(progs), 'changed': changed, 'selftest': len(st)}


# ---- a Python mirror of Petl.PullShape.bound, for diagnostics only (the check uses the Lean definition) -------------
def py_bound(items):
    n, k = 0, 0
    for x in simplify(items):
        if x == 'pull':
            b = (1, 1)
        elif x == 'yld':
            b = (-1, 0)
        elif x == 'opq':
            return None
        elif x[0] == 'branch':
            a, c = py_bound(x[1]), py_bound(x[2])
            if a is None or c is None:
                return None
            b = (max(a[0], c[0]), max(a[1], c[1]))
        elif x[0] == 'forSrc':
            a = py_bound(x[1])
            if a is None or 1 + a[0] > 0:
                return None
            b = (0, max(0, 1 + a[1]))
        elif x[0] == 'loop':
            a = py_bound(x[1])
            if a is None or a[0] > 0:
                return None
            b = (0, max(0, a[1]))
        elif x[0] == 'tryS':
            a, c = py_bound(x[1]), py_bound(x[2])
            if a is None or c is None:
                return None
            b = (max(a[0], a[1] + c[0]), a[1] + max(0, c[1]))
        n, k = n + b[0], max(k, n + b[1])
    return (n, k)


if __name__ == '__main__':
    import sys
    if len(sys.argv) > 1:
        for name, items in programs():
            if sys.argv[1] in name:
                print(name, to_lean(items), py_bound(items))
    else:
        print(generate())
