"""Truthiness tests on selection-like arguments.
petl/transform/*.py, petl/util/{base,lookups,materialise,counting}.py -> lean/Petl/Gen/ArgForms.lean

A field selection, key, value spec, index, count or `missing` value may legitimately be 0, '' or an empty tuple, so
testing such a parameter by truthiness (`if not key`, `index or len(hdr)`, `if value`) instead of `is None` changes
behaviour for exactly those arguments.  Every such site is listed; the proof obligation is that the list is inside the
hand-reviewed one."""
import ast, os
from .common import REPO, write_if_changed

FILES = [('transform', None), ('util', ['base', 'lookups', 'materialise', 'counting'])]
SKIP = {'intervals'}
PARAMS = {'key', 'lkey', 'rkey', 'value', 'index', 'field', 'fields', 'spec', 'missing', 'n', 'start', 'stop', 'step', 'count',
          'fillfields', 'keys', 'newfields', 'variables', 'include', 'exclude', 'header', 'errorvalue', 'default', 'dictionary',
          'limit', 'samplesize', 'sample', 'period', 'minv', 'maxv', 'prefix', 'suffix', 'lprefix', 'rprefix', 'where', 'fill'}


def sites_in(fn, qual):
    a = fn.args
    names = {x.arg for x in list(a.args) + list(a.kwonlyargs)}
    cand = names & PARAMS
    out = []

    def operand_names(t):
        t2 = t.operand if isinstance(t, ast.UnaryOp) and isinstance(t.op, ast.Not) else t
        if isinstance(t2, ast.Name):
            return [t2.id]
        if isinstance(t2, ast.Attribute) and isinstance(t2.value, ast.Name) and t2.value.id == 'self' and t2.attr in PARAMS:
            return ['self.' + t2.attr]
        if isinstance(t2, ast.BoolOp):
            r = []
            for v in t2.values:
                r += operand_names(v)
            return r
        return []
    for sub in ast.walk(fn):
        if isinstance(sub, (ast.FunctionDef, ast.Lambda)) and sub is not fn:
            continue
        if isinstance(sub, (ast.If, ast.IfExp, ast.While)):
            for nm in operand_names(sub.test):
                if nm in cand or nm.startswith('self.'):
                    out.append((qual, nm, ast.unparse(sub.test)))
        if isinstance(sub, ast.BoolOp) and isinstance(sub.op, ast.Or) and not isinstance(getattr(sub, '_parent', None), (ast.If,)):
            v0 = sub.values[0]
            if isinstance(v0, ast.Name) and v0.id in cand:
                out.append((qual, v0.id, ast.unparse(sub)))
            if isinstance(v0, ast.Attribute) and isinstance(v0.value, ast.Name) and v0.value.id == 'self' and v0.attr in PARAMS:
                out.append((qual, 'self.' + v0.attr, ast.unparse(sub)))
    return out


def identity_sites(fn, qual):
    """`x is p` / `x is not p` where p is a parameter (or self.<param-like attribute>): equality is meant, cells read from
    files are never the same object as an argument"""
    a = fn.args
    names = {x.arg for x in list(a.args) + list(a.kwonlyargs)} - {'self'}
    out = []
    for sub in ast.walk(fn):
        if isinstance(sub, ast.Compare) and any(isinstance(o, (ast.Is, ast.IsNot)) for o in sub.ops):
            for e in [sub.left] + list(sub.comparators):
                if isinstance(e, ast.Name) and e.id in names and e.id in PARAMS:
                    others = [x for x in [sub.left] + list(sub.comparators) if x is not e]
                    if all(isinstance(x, ast.Constant) and x.value is None for x in others):
                        continue          # `p is None` is the correct test for an omitted argument
                    out.append((qual, e.id, ast.unparse(sub)))
                if isinstance(e, ast.Attribute) and isinstance(e.value, ast.Name) and e.value.id == 'self' and e.attr in PARAMS:
                    others = [x for x in [sub.left] + list(sub.comparators) if x is not e]
                    if all(isinstance(x, ast.Constant) and x.value is None for x in others):
                        continue
                    out.append((qual, 'self.' + e.attr, ast.unparse(sub)))
    return out


def generate():
    rows = []
    idrows = []
    nfun = 0
    for pkg, mods in FILES:
        d = os.path.join(REPO, 'petl', pkg)
        for f in sorted(os.listdir(d)):
            if not f.endswith('.py') or f.startswith('__'):
                continue
            m = f[:-3]
            if m in SKIP or (mods is not None and m not in mods):
                continue
            tree = ast.parse(open(os.path.join(d, f)).read())

            def visit(body, pre):
                nonlocal nfun
                for n in body:
                    if isinstance(n, ast.FunctionDef):
                        nfun += 1
                        rows.extend(sites_in(n, '%s.%s.%s%s' % (pkg, m, pre, n.name)))
                        idrows.extend(identity_sites(n, '%s.%s.%s%s' % (pkg, m, pre, n.name)))
                        visit(n.body, pre + n.name + '.')
                    elif isinstance(n, ast.ClassDef):
                        visit(n.body, pre + n.name + '.')
            visit(tree.body, '')
    rows = sorted(set(rows))
    esc = lambda t: t.replace('\\', '\\\\').replace('"', '\\"')
    lines = ['/- GENERATED by translators/argforms.py — do not edit. -/', 'namespace Petl.Gen', '',
             '/-- (function, parameter, the expression that tests it by truthiness) -/',
             'def truthinessSites : List (String × String × String) := [']
    lines.append(',\n'.join('  ("%s", "%s", "%s")' % (q, p, esc(e)) for q, p, e in rows))
    idrows = sorted(set(idrows))
    lines += [']', '', '/-- (function, parameter, the expression that compares it by identity) -/',
              'def identitySites : List (String × String × String) := [']
    lines.append(',\n'.join('  ("%s", "%s", "%s")' % (q, p, esc(e)) for q, p, e in idrows))
    lines += [']', '', 'end Petl.Gen', '']
    changed = write_if_changed('ArgForms.lean', '\n'.join(lines))
    return {'functions': nfun, 'sites': rows, 'identity_sites': idrows, 'changed': changed}


if __name__ == '__main__':
    r = generate()
    print(r['functions'], 'functions')
    for s in r['sites']:
        print(s)
    print('identity:', r['identity_sites'])
