"""Fingerprints of the petl functions and classes that the hand-written Lean models mirror.
-> lean/Petl/Gen/Fingerprints.lean

A hand-written model is tied to the code by the correspondence check; this table adds the static half of that tie:
the model of a property was validated against exactly these function bodies (docstrings and comments ignored).  When
one of them changes, the obligation `Cxx_sources_as_validated` (PetlProofs/SourceSnapshot.lean) fails until the model
has been validated against the new body and the snapshot retaken (tools/source_snapshot.py)."""
import ast, hashlib, os
from .common import REPO, write_if_changed, TranslationError

T = 'transform/'
SOURCES = {
    'C01': [('util/materialise.py', ['CacheView']), ('util/random.py', ['RandomTable', 'DummyTable']), ('io/json.py', ['DictsGeneratorView']),
            (T + 'sorts.py', ['SortView']), (T + 'hashjoins.py', ['HashJoinView', 'HashLeftJoinView', 'HashRightJoinView'])],
    'C04': [('comparison.py', ['Comparable', '_typestr', 'comparable_itemgetter', '_itemgetter_with_default'])],
    'C05': [(T + 'sorts.py', ['_iterchunk', '_Keyed', '_heapqmergesorted', '_shortlistmergesorted', '_mergesorted', 'SortView', 'MergeSortView',
                              'itermergesort', 'issorted'])],
    'C06': [(T + 'joins.py', ['natural_key', 'keys_from_args', 'JoinView', 'iterjoin', 'CrossJoinView', 'itercrossjoin', 'AntiJoinView',
                              'iterantijoin', 'LookupJoinView', 'iterlookupjoin'])],
    'C07': [(T + 'hashjoins.py', ['iterhashjoin', 'iterhashleftjoin', 'iterhashrightjoin', 'iterhashantijoin', 'iterhashlookupjoin']),
            ('util/lookups.py', ['_setup_lookup', 'lookup', 'lookupone', 'dictlookup', 'dictlookupone', 'recordlookup', 'recordlookupone'])],
    'C08': [(T + 'setops.py', ['ComplementView', 'itercomplement', 'recordcomplement', 'diff', 'recorddiff', 'IntersectionView', 'iterintersection',
                               'iterhashcomplement', 'iterhashintersection'])],
    'C09': [(T + 'reductions.py', ['iterrowreduce', 'SimpleAggregateView', 'itersimpleaggregate', 'MultiAggregateView', 'itermultiaggregate',
                                   'groupselectfirst', 'groupselectlast', 'groupselectmin', 'groupselectmax', 'itermergeduplicates', 'iterfold']),
            ('util/base.py', ['rowgroupby'])],
    'C10': [(T + 'dedup.py', ['iterduplicates', 'iterunique', 'iterconflicts', 'DistinctView', 'isunique'])],
    'C12': [(T + 'basics.py', ['itercut', 'itercutout', 'itercat', 'iterstack', 'iteraddfield', 'iteraddfields', 'MoveFieldView', 'iterannex',
                               'iteraddrownumbers', 'iteraddcolumn', 'CutView', 'CutOutView', 'CatView', 'StackView', 'AddFieldView',
                               'AddFieldsView', 'AnnexView', 'AddRowNumbersView', 'AddColumnView']),
            (T + 'headers.py', ['iterrename', 'itersetheader', 'iterextendheader', 'iterpushheader', 'iterskip', 'PrefixHeaderView',
                                'SuffixHeaderView', 'SortHeaderView', 'RenameView', 'SetHeaderView', 'ExtendHeaderView', 'PushHeaderView',
                                'SkipView']),
            (T + 'fills.py', ['iterfilldown', 'iterfillright', 'iterfillleft', 'FillDownView', 'FillRightView', 'FillLeftView']),
            (T + 'conversions.py', ['iterfieldconvert', 'FieldConvertView', 'convert', 'convertall', 'replace', 'replaceall', 'update']),
            ('util/base.py', ['asindices', 'rowgetter', 'itervalues', 'iterdata', 'iterdicts', 'iternamedtuples', 'iterrecords', 'Record'])],
    'C13': [(T + 'selects.py', ['iterfieldselect', 'iterrowselect', 'rowlenselect', 'biselect', 'facet']),
            (T + 'basics.py', ['iterrowslice', 'head', 'itertail']), (T + 'headers.py', ['iterskip'])],
    'C14': [(T + 'reshape.py', ['itermelt', 'iterrecast', 'itertranspose', 'iterpivot', 'FlattenView', 'UnflattenView']),
            (T + 'unpacks.py', ['iterunpack', 'iterunpackdict']), (T + 'regex.py', ['itercapture', 'itersplit', 'itersplitdown']),
            ('util/materialise.py', ['columns']), ('io/json.py', ['iterdicts', 'DictsView'])],
    'C15': [('io/csv_py3.py', ['fromcsv_impl', 'CSVView', 'tocsv_impl', 'appendcsv_impl', '_writecsv']),
            ('io/pickle.py', ['PickleView', 'topickle', 'appendpickle', '_writepickle']),
            ('io/json.py', ['JsonView', 'iterjlines', 'tojson', 'tojsonarrays', '_writejson', '_writeobj']),
            ('io/sources.py', ['MemorySource', 'FileSource', 'GzipSource', 'BZ2Source'])],
    'C16': [('io/csv_py3.py', ['TeeCSVView']), ('io/pickle.py', ['TeePickleView']), ('io/text.py', ['TeeTextView', '_iterteetext', '_writetext']),
            ('util/materialise.py', ['CacheView'])],
    'C17': [('io/db.py', ['_todb', '_todb_dbapi_connection', '_todb_dbapi_mkcurs', '_todb_dbapi_cursor', 'todb', 'appenddb',
                          '_iter_dbapi_connection', '_iter_dbapi_cursor', '_iter_dbapi_mkcurs'])],
    'C18': [(T + 'sorts.py', ['_NamedTempFileDeleteOnGC', 'SortView']), ('io/json.py', ['DictsGeneratorView'])],
    'C19': [(T + 'conversions.py', ['iterfieldconvert', 'FieldConvertView']),
            (T + 'maps.py', ['iterfieldmap', 'iterrowmap', 'iterrowmapmany', 'FieldMapView', 'RowMapView', 'RowMapManyView'])],
}


# Whole modules (docstrings and comments ignored): what the operators of a property run through besides the mirrored
# functions — public wrappers, view constructors, sort(), Comparable, asindices/expr, the source classes.  The dynamic
# part of a check vouches for the behaviour of this source text as a whole; any edit to it breaks the obligation until
# the check has been re-run on the new text and the snapshot retaken.
_ALL_TRANSFORM = ['transform/%s.py' % m for m in ('basics', 'conversions', 'dedup', 'fills', 'hashjoins', 'headers', 'joins', 'maps',
                                                   'reductions', 'regex', 'reshape', 'selects', 'setops', 'sorts', 'unpacks', 'validation')]
_CORE = ['comparison.py', 'compat.py', 'util/base.py', 'config.py']
_UTIL = ['util/materialise.py', 'util/timing.py', 'util/vis.py', 'util/lookups.py', 'util/counting.py', 'util/random.py']
_IO = ['io/base.py', 'io/sources.py', 'io/csv.py', 'io/csv_py3.py', 'io/pickle.py', 'io/text.py', 'io/json.py', 'io/html.py']
T_ = lambda *ms: ['transform/%s.py' % m for m in ms]
FILES = {
    'C01': _CORE + T_('sorts', 'hashjoins') + ['util/materialise.py', 'util/random.py', 'io/json.py', 'io/db.py', 'io/sources.py'],
    'C02': _CORE + _ALL_TRANSFORM + _UTIL + _IO,
    'C03': _CORE + _ALL_TRANSFORM + _UTIL,
    'C04': _CORE + T_('sorts', 'selects', 'joins'),
    'C05': _CORE + T_('sorts', 'basics'),
    'C06': _CORE + T_('joins', 'basics', 'sorts'),
    'C07': _CORE + T_('hashjoins', 'joins', 'sorts') + ['util/lookups.py'],
    'C08': _CORE + T_('setops', 'sorts', 'basics'),
    'C09': _CORE + T_('reductions', 'sorts', 'basics', 'dedup') + ['util/counting.py'],
    'C10': _CORE + T_('dedup', 'sorts'),
    'C11': _CORE + T_('sorts', 'joins', 'setops', 'dedup', 'reductions', 'reshape', 'maps', 'basics'),
    'C12': _CORE + T_('basics', 'headers', 'conversions', 'fills', 'maps', 'regex') + ['util/materialise.py'],
    'C13': _CORE + T_('selects', 'regex', 'basics', 'headers'),
    'C14': _CORE + T_('reshape', 'unpacks', 'regex', 'sorts') + ['io/json.py', 'io/base.py', 'util/materialise.py'],
    'C15': ['util/base.py'] + _IO,
    'C16': ['util/base.py', 'util/timing.py', 'util/materialise.py'] + _IO,
    'C17': ['util/base.py', 'io/db.py', 'io/db_utils.py', 'io/db_create.py'],
    'C18': _CORE + T_('sorts') + ['io/json.py'],
    'C19': _CORE + T_('conversions', 'maps'),
    'C20': _CORE + _ALL_TRANSFORM + ['util/materialise.py', 'util/lookups.py', 'util/counting.py'],
}


def strip_docstrings(node):
    for n in ast.walk(node):
        if isinstance(n, (ast.FunctionDef, ast.ClassDef, ast.Module)) and n.body and isinstance(n.body[0], ast.Expr) \
                and isinstance(getattr(n.body[0], 'value', None), ast.Constant) and isinstance(n.body[0].value.value, str):
            n.body = n.body[1:] or [ast.Pass()]
    return node


def fingerprint_all():
    """-> {property: {module.name: fingerprint}}"""
    out = {}
    cache = {}
    for pid in sorted(set(SOURCES) | set(FILES)):
        out[pid] = {}
        for rel in FILES.get(pid, []):
            path = os.path.join(REPO, 'petl', rel)
            if not os.path.exists(path):
                raise TranslationError('%s not found' % rel)
            if rel not in cache:
                cache[rel] = open(path).read()
            if ('file', rel) not in cache:
                cache[('file', rel)] = hashlib.sha1(ast.unparse(strip_docstrings(ast.parse(cache[rel]))).encode()).hexdigest()[:16]
            out[pid]['file:' + rel] = cache[('file', rel)]
        for rel, names in SOURCES.get(pid, []):
            if rel not in cache:
                cache[rel] = open(os.path.join(REPO, 'petl', rel)).read()
            tree = ast.parse(cache[rel])
            for nm in names:
                nodes = [n for n in tree.body if isinstance(n, (ast.FunctionDef, ast.ClassDef)) and n.name == nm]
                if not nodes:
                    raise TranslationError('%s: %s not found' % (rel, nm))
                h = hashlib.sha1()
                for n in nodes:
                    h.update(ast.unparse(strip_docstrings(ast.parse(ast.unparse(n)))).encode())
                out[pid][rel[:-3].replace('/', '.') + '.' + nm] = h.hexdigest()[:16]
    return out


def generate():
    fp = fingerprint_all()
    changed = False
    for pid, table in fp.items():
        lines = ['/- GENERATED by translators/fingerprints.py — do not edit. -/', 'namespace Petl.Gen', '',
                 '/-- (module.name, fingerprint of its body without docstrings) for the sources the model of %s mirrors -/' % pid,
                 'def fp%s : List (String × String) := [' % pid]
        lines.append(',\n'.join('  ("%s", "%s")' % kv for kv in sorted(table.items())))
        lines += [']', '', 'end Petl.Gen', '']
        changed = write_if_changed('Fp%s.lean' % pid, '\n'.join(lines)) or changed
    return {'names': sum(len(t) for t in fp.values()), 'properties': len(fp), 'changed': changed}


if __name__ == '__main__':
    print(generate())
