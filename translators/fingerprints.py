"""Fingerprints of the petl functions and classes that the hand-written Lean models mirror.
-> lean/Petl/Gen/Fingerprints.lean

A hand-written model is tied to the code by the correspondence check; this table adds the static half of that tie:
the model of a property was validated against exactly these function bodies (docstrings and comments ignored).  When
one of them changes, the obligation `Cxx_sources_as_validated` (PetlProofs/SourceSnapshot.lean) fails until the model
has been validated against the new body and the snapshot retaken (tools/source_snapshot.py)."""
import ast, hashlib, os
from .common import REPO, write_if_changed, TranslationError

T = 'transform/'
SOURCES = {
    'C01': [('util/materialise.py', ['CacheView']), ('util/random.py', ['RandomTable', 'DummyTable']), ('io/json.py', ['DictsGeneratorView']),
            (T + 'sorts.py', ['SortView']), (T + 'hashjoins.py', ['HashJoinView', 'HashLeftJoinView', 'HashRightJoinView'])],
    'C04': [('comparison.py', ['Comparable', '_typestr', 'comparable_itemgetter', '_itemgetter_with_default'])],
    'C05': [(T + 'sorts.py', ['_iterchunk', '_Keyed', '_heapqmergesorted', '_shortlistmergesorted', '_mergesorted', 'SortView', 'MergeSortView',
                              'itermergesort', 'issorted'])],
    'C06': [(T + 'joins.py', ['natural_key', 'keys_from_args', 'JoinView', 'iterjoin', 'CrossJoinView', 'itercrossjoin', 'AntiJoinView',
                              'iterantijoin', 'LookupJoinView', 'iterlookupjoin'])],
    'C07': [(T + 'hashjoins.py', ['iterhashjoin', 'iterhashleftjoin', 'iterhashrightjoin', 'iterhashantijoin', 'iterhashlookupjoin']),
            ('util/lookups.py', ['_setup_lookup', 'lookup', 'lookupone', 'dictlookup', 'dictlookupone', 'recordlookup', 'recordlookupone'])],
    'C08': [(T + 'setops.py', ['ComplementView', 'itercomplement', 'recordcomplement', 'diff', 'recorddiff', 'IntersectionView', 'iterintersection',
                               'iterhashcomplement', 'iterhashintersection'])],
    'C09': [(T + 'reductions.py', ['iterrowreduce', 'SimpleAggregateView', 'itersimpleaggregate', 'MultiAggregateView', 'itermultiaggregate',
                                   'groupselectfirst', 'groupselectlast', 'groupselectmin', 'groupselectmax', 'itermergeduplicates', 'iterfold']),
            ('util/base.py', ['rowgroupby'])],
    'C10': [(T + 'dedup.py', ['iterduplicates', 'iterunique', 'iterconflicts', 'DistinctView', 'isunique'])],
    'C12': [(T + 'basics.py', ['itercut', 'itercutout', 'itercat', 'iterstack', 'iteraddfield', 'iteraddfields', 'MoveFieldView', 'iterannex',
                               'iteraddrownumbers', 'iteraddcolumn', 'CutView', 'CutOutView', 'CatView', 'StackView', 'AddFieldView',
                               'AddFieldsView', 'AnnexView', 'AddRowNumbersView', 'AddColumnView']),
            (T + 'headers.py', ['iterrename', 'itersetheader', 'iterextendheader', 'iterpushheader', 'iterskip', 'PrefixHeaderView',
                                'SuffixHeaderView', 'SortHeaderView', 'RenameView', 'SetHeaderView', 'ExtendHeaderView', 'PushHeaderView',
                                'SkipView']),
            (T + 'fills.py', ['iterfilldown', 'iterfillright', 'iterfillleft', 'FillDownView', 'FillRightView', 'FillLeftView']),
            (T + 'conversions.py', ['iterfieldconvert', 'FieldConvertView', 'convert', 'convertall', 'replace', 'replaceall', 'update']),
            ('util/base.py', ['asindices', 'rowgetter', 'itervalues', 'iterdata', 'iterdicts', 'iternamedtuples', 'iterrecords', 'Record'])],
    'C13': [(T + 'selects.py', ['iterfieldselect', 'iterrowselect', 'rowlenselect', 'biselect', 'facet']),
            (T + 'basics.py', ['iterrowslice', 'head', 'itertail']), (T + 'headers.py', ['iterskip'])],
    'C14': [(T + 'reshape.py', ['itermelt', 'iterrecast', 'itertranspose', 'iterpivot', 'FlattenView', 'UnflattenView']),
            (T + 'unpacks.py', ['iterunpack', 'iterunpackdict']), (T + 'regex.py', ['itercapture', 'itersplit', 'itersplitdown']),
            ('util/materialise.py', ['columns']), ('io/json.py', ['iterdicts', 'DictsView'])],
    'C15': [('io/csv_py3.py', ['fromcsv_impl', 'CSVView', 'tocsv_impl', 'appendcsv_impl', '_writecsv']),
            ('io/pickle.py', ['PickleView', 'topickle', 'appendpickle', '_writepickle']),
            ('io/json.py', ['JsonView', 'iterjlines', 'tojson', 'tojsonarrays', '_writejson', '_writeobj']),
            ('io/sources.py', ['MemorySource', 'FileSource', 'GzipSource', 'BZ2Source'])],
    'C16': [('io/csv_py3.py', ['TeeCSVView']), ('io/pickle.py', ['TeePickleView']), ('io/text.py', ['TeeTextView', '_iterteetext', '_writetext']),
            ('util/materialise.py', ['CacheView'])],
    'C17': [('io/db.py', ['_todb', '_todb_dbapi_connection', '_todb_dbapi_mkcurs', '_todb_dbapi_cursor', 'todb', 'appenddb',
                          '_iter_dbapi_connection', '_iter_dbapi_cursor', '_iter_dbapi_mkcurs'])],
    'C18': [(T + 'sorts.py', ['_NamedTempFileDeleteOnGC', 'SortView']), ('io/json.py', ['DictsGeneratorView'])],
    'C19': [(T + 'conversions.py', ['iterfieldconvert', 'FieldConvertView']),
            (T + 'maps.py', ['iterfieldmap', 'iterrowmap', 'iterrowmapmany', 'FieldMapView', 'RowMapView', 'RowMapManyView'])],
}


def strip_docstrings(node):
    for n in ast.walk(node):
        if isinstance(n, (ast.FunctionDef, ast.ClassDef, ast.Module)) and n.body and isinstance(n.body[0], ast.Expr) \
                and isinstance(getattr(n.body[0], 'value', None), ast.Constant) and isinstance(n.body[0].value.value, str):
            n.body = n.body[1:] or [ast.Pass()]
    return node


def fingerprint_all():
    """-> {property: {module.name: fingerprint}}"""
    out = {}
    cache = {}
    for pid, items in SOURCES.items():
        out[pid] = {}
        for rel, names in items:
            if rel not in cache:
                cache[rel] = open(os.path.join(REPO, 'petl', rel)).read()
            tree = ast.parse(cache[rel])
            for nm in names:
                nodes = [n for n in tree.body if isinstance(n, (ast.FunctionDef, ast.ClassDef)) and n.name == nm]
                if not nodes:
                    raise TranslationError('%s: %s not found' % (rel, nm))
                h = hashlib.sha1()
                for n in nodes:
                    h.update(ast.unparse(strip_docstrings(ast.parse(ast.unparse(n)))).encode())
                out[pid][rel[:-3].replace('/', '.') + '.' + nm] = h.hexdigest()[:16]
    return out


def generate():
    fp = fingerprint_all()
    changed = False
    for pid, table in fp.items():
        lines = ['/- GENERATED by translators/fingerprints.py — do not edit. -/', 'namespace Petl.Gen', '',
                 '/-- (module.name, fingerprint of its body without docstrings) for the sources the model of %s mirrors -/' % pid,
                 'def fp%s : List (String × String) := [' % pid]
        lines.append(',\n'.join('  ("%s", "%s")' % kv for kv in sorted(table.items())))
        lines += [']', '', 'end Petl.Gen', '']
        changed = write_if_changed('Fp%s.lean' % pid, '\n'.join(lines)) or changed
    return {'names': sum(len(t) for t in fp.values()), 'properties': len(fp), 'changed': changed}


if __name__ == '__main__':
    print(generate())
