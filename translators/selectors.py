"""The comparison selectors of petl/transform/selects.py as a table: for every `select*` function the lambda it
hands to `select` (through `selectop` for the operator forms), as an expression over the cell and the reference
arguments, with the information which operands are wrapped in `Comparable`.
-> lean/Petl/Gen/Selectors.lean.   The Lean side proves every entry equal to the model's predicate (C13)."""
import ast
from .common import parse, write_if_changed, TranslationError, strip_doc

OPS = {'eq': 'eq', 'ne': 'ne', 'lt': 'lt', 'le': 'le', 'gt': 'gt', 'ge': 'ge'}
CMP = {ast.Eq: 'eq', ast.NotEq: 'ne', ast.Lt: 'lt', ast.LtE: 'le', ast.Gt: 'gt', ast.GtE: 'ge'}
UNSUPPORTED_OPS = {'contains', 'is_', 'is_not'}


def operand(e, params, wrapped, lam_arg):
    """-> Lean Operand"""
    if isinstance(e, ast.Call) and isinstance(e.func, ast.Name) and e.func.id == 'Comparable' and len(e.args) == 1:
        inner = e.args[0]
        if isinstance(inner, ast.Name) and inner.id == lam_arg:
            return '(.cell true)'
        if isinstance(inner, ast.Name) and inner.id in params:
            return '(.ref %d true)' % params.index(inner.id)
        raise TranslationError('Comparable(%s)' % ast.dump(inner))
    if isinstance(e, ast.Name):
        if e.id == lam_arg:
            return '(.cell false)'
        if e.id in params:
            return '(.ref %d %s)' % (params.index(e.id), 'true' if e.id in wrapped else 'false')
    raise TranslationError('operand %s' % ast.dump(e))


def lambda_expr(body, params, wrapped, lam_arg):
    if isinstance(body, ast.Compare):
        ops = [type(o) for o in body.ops]
        if len(ops) == 1 and ops[0] in CMP:
            return '(.cmp %s .%s %s)' % (operand(body.left, params, wrapped, lam_arg), CMP[ops[0]],
                                        operand(body.comparators[0], params, wrapped, lam_arg))
        if len(ops) == 2 and all(o in CMP for o in ops):
            return '(.chain %s .%s %s .%s %s)' % (operand(body.left, params, wrapped, lam_arg), CMP[ops[0]],
                                                 operand(body.comparators[0], params, wrapped, lam_arg), CMP[ops[1]],
                                                 operand(body.comparators[1], params, wrapped, lam_arg))
        if len(ops) == 1 and ops[0] in (ast.Is, ast.IsNot) and isinstance(body.left, ast.Name) and body.left.id == lam_arg \
                and isinstance(body.comparators[0], ast.Constant) and body.comparators[0].value is None:
            return '.isNone' if ops[0] is ast.Is else '.isNotNone'
        if len(ops) == 1 and ops[0] in (ast.In, ast.NotIn) and isinstance(body.left, ast.Name) and body.left.id == lam_arg \
                and isinstance(body.comparators[0], ast.Name) and body.comparators[0].id in params:
            if body.comparators[0].id in wrapped:
                raise TranslationError('membership in a wrapped value')
            return '(.%s %d)' % ('isIn' if ops[0] is ast.In else 'notIn', params.index(body.comparators[0].id))
    if isinstance(body, ast.Call) and isinstance(body.func, ast.Name) and body.func.id == 'bool' \
            and len(body.args) == 1 and isinstance(body.args[0], ast.Name) and body.args[0].id == lam_arg:
        return '.truthy'
    if isinstance(body, ast.UnaryOp) and isinstance(body.op, ast.Not):
        inner = lambda_expr(body.operand, params, wrapped, lam_arg)
        if inner == '.truthy':
            return '.notTruthy'
    raise TranslationError('lambda body %s' % ast.dump(body))


def check_selectop(mod):
    """selectop must be `return select(table, field, lambda v: op(v, value), complement=complement)`"""
    fn = next(n for n in mod.body if isinstance(n, ast.FunctionDef) and n.name == 'selectop')
    body = strip_doc(fn.body)
    ok = len(body) == 1 and isinstance(body[0], ast.Return) and isinstance(body[0].value, ast.Call)
    if ok:
        c = body[0].value
        ok = isinstance(c.func, ast.Name) and c.func.id == 'select' and len(c.args) == 3 and isinstance(c.args[2], ast.Lambda)
        if ok:
            lam = c.args[2]
            ok = ast.unparse(lam.body) == 'op(%s, value)' % lam.args.args[0].arg and ast.unparse(c.args[1]) == 'field' and \
                [(k.arg, ast.unparse(k.value)) for k in c.keywords] == [('complement', 'complement')]
    if not ok:
        raise TranslationError('selectop has an unexpected shape')


def generate():
    mod = parse('petl/transform/selects.py')
    check_selectop(mod)
    rows = []
    for fn in mod.body:
        if not (isinstance(fn, ast.FunctionDef) and fn.name.startswith('select') and fn.name not in
                ('select', 'selectop', 'selectusingcontext')):
            continue
        args = [a.arg for a in fn.args.args]
        if args[:2] != ['table', 'field'] or args[-1] != 'complement':
            raise TranslationError('%s: unexpected signature %r' % (fn.name, args))
        params = args[2:-1]
        wrapped = set()
        body = strip_doc(fn.body)
        ret = None
        for st in body:
            if isinstance(st, ast.Assign) and len(st.targets) == 1 and isinstance(st.targets[0], ast.Name) \
                    and isinstance(st.value, ast.Call) and isinstance(st.value.func, ast.Name) and st.value.func.id == 'Comparable' \
                    and len(st.value.args) == 1 and isinstance(st.value.args[0], ast.Name) and st.value.args[0].id == st.targets[0].id \
                    and st.targets[0].id in params:
                wrapped.add(st.targets[0].id)
            elif isinstance(st, ast.Return) and ret is None:
                ret = st.value
            else:
                raise TranslationError('%s: unexpected statement %s' % (fn.name, ast.unparse(st)))
        if not (isinstance(ret, ast.Call) and isinstance(ret.func, ast.Name)):
            raise TranslationError('%s: unexpected return' % fn.name)
        kws = [(k.arg, ast.unparse(k.value)) for k in ret.keywords]
        if kws != [('complement', 'complement')]:
            raise TranslationError('%s: complement is not forwarded as given: %r' % (fn.name, kws))
        if ret.func.id == 'selectop':
            if [ast.unparse(a) for a in ret.args[:2]] != ['table', 'field'] or len(ret.args) != 4 or \
                    not (isinstance(ret.args[2], ast.Name) and ret.args[2].id in params):
                raise TranslationError('%s: unexpected selectop call' % fn.name)
            op = ret.args[3]
            ref = ret.args[2].id
            opname = op.attr if isinstance(op, ast.Attribute) and isinstance(op.value, ast.Name) and op.value.id == 'operator' else \
                (op.id if isinstance(op, ast.Name) else None)
            if opname in OPS:
                expr = '(.cmp (.cell false) .%s (.ref %d %s))' % (OPS[opname], params.index(ref), 'true' if ref in wrapped else 'false')
            elif opname in UNSUPPORTED_OPS or opname == 'isinstance':
                expr = '(.unsupported "%s")' % opname
            else:
                raise TranslationError('%s: unknown operator %r' % (fn.name, ast.unparse(op)))
        elif ret.func.id == 'select':
            if [ast.unparse(a) for a in ret.args[:2]] != ['table', 'field'] or len(ret.args) != 3 or not isinstance(ret.args[2], ast.Lambda):
                raise TranslationError('%s: unexpected select call' % fn.name)
            lam = ret.args[2]
            expr = lambda_expr(lam.body, params, wrapped, lam.args.args[0].arg)
        else:
            raise TranslationError('%s: returns %s' % (fn.name, ret.func.id))
        rows.append((fn.name, len(params), expr))
    lines = ['/- GENERATED by translators/selectors.py from petl/transform/selects.py — do not edit. -/',
             'import Petl.SelSupport', 'namespace Petl.Gen', '',
             '/-- (function name, number of reference arguments, the predicate it passes to `select`) -/',
             'def selectors : List (String × Nat × SExpr) := [']
    lines.append(',\n'.join('  ("%s", %d, %s)' % r for r in rows))
    lines += [']', '', 'end Petl.Gen', '']
    changed = write_if_changed('Selectors.lean', '\n'.join(lines))
    return {'selectors': len(rows), 'changed': changed}


if __name__ == '__main__':
    print(generate())
