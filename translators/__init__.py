"""Python ast -> Lean translators; each regenerates one file under lean/Petl/Gen."""
import importlib

NAMES = ['ladder', 'sort_wiring', 'ctor_purity', 'heap_ir', 'selectors', 'policy', 'streaming', 'argforms', 'bare_next', 'merge_shape', 'fingerprints', 'pullshape']


def run_all():
    out = []
    for n in NAMES:
        m = importlib.import_module('translators.' + n)
        try:
            out.append((n, m.generate()))
        except Exception as e:   # a translation failure is reported by the property's own check
            out.append((n, 'FAILED: %r' % e))
    return out
