"""Reference snippets for translators/pullshape.py: (name, source, expected look-ahead bound or None, hands a source on).
Each is translated on every run; Lean checks that `summary` of the translation is what is written here
(theorem Petl.C02.pullshape_selftest)."""
CASES = [
    ('one_to_one', '''
def f(source):
    it = iter(source)
    hdr = next(it)
    yield tuple(hdr)
    for row in it:
        yield tuple(row)
''', 1, False),
    ('header_guarded', '''
def f(source):
    it = iter(source)
    try:
        hdr = next(it)
    except StopIteration:
        return
    yield tuple(hdr)
    for row in it:
        try:
            yield tuple(row[i] for i in (0, 1))
        except IndexError:
            yield tuple(row)
''', 1, False),
    ('filter', '''
def f(source, where):
    it = iter(source)
    yield tuple(next(it))
    for row in it:
        if where(row):
            yield tuple(row)
''', None, False),
    ('buffers_two_rows', '''
def f(source):
    it = iter(source)
    yield tuple(next(it))
    for row in it:
        nxt = next(it)
        yield tuple(row) + tuple(nxt)
''', None, False),
    ('reads_ahead_before_the_loop', '''
def f(source):
    it = iter(source)
    hdr = next(it)
    first = next(it)
    yield tuple(hdr)
    yield tuple(first)
    for row in it:
        yield tuple(row)
''', 2, False),
    ('drains_first', '''
def f(source):
    it = iter(source)
    hdr = next(it)
    rows = []
    for row in it:
        rows.append(row)
    yield tuple(hdr)
    for row in rows:
        yield tuple(row)
''', None, False),
    ('materialises', '''
def f(source):
    it = iter(source)
    hdr = next(it)
    rows = sorted(it)
    yield tuple(hdr)
    for row in rows:
        yield tuple(row)
''', None, True),
    ('slice_with_step', '''
def f(source, *sliceargs):
    it = iter(source)
    yield tuple(next(it))
    for row in islice(it, *sliceargs):
        yield tuple(row)
''', None, False),
    ('several_sources_in_turn', '''
def f(sources):
    its = [iter(t) for t in sources]
    hdrs = []
    for it in its:
        hdrs.append(next(it))
    yield tuple(hdrs[0])
    for it in its:
        for row in it:
            yield tuple(row)
''', 1, False),
    ('expands', '''
def f(source):
    it = iter(source)
    yield tuple(next(it))
    for row in it:
        yield tuple(row)
        yield tuple(row)
''', 1, False),
    ('delegates', '''
def f(source, g):
    it = iter(source)
    yield tuple(next(it))
    for row in g(it):
        yield tuple(row)
''', None, True),
    ('early_return', '''
def f(source, n):
    it = iter(source)
    yield tuple(next(it))
    k = 0
    for row in it:
        if k >= n:
            return
        k += 1
        yield tuple(row)
''', None, False),      # sound but imprecise: a `return` inside the loop is translated as the end of that iteration only
    ('no_source', '''
def f(n):
    yield ('a',)
    for i in range(n):
        yield (i,)
''', 0, False),
]
