#!/venv/bin/python
"""Retake the snapshot of the petl sources that the hand-written Lean models were validated against
(lean/PetlProofs/Snapshot/Cxx.lean).  Run BY THE REVIEWER after the correspondence checks pass on the tree at hand;
never run by a check.  Use the interpreter the checks use: /venv/bin/python tools/source_snapshot.py [Cxx ...]"""
import os, sys
VERIF = os.path.dirname(os.path.dirname(os.path.abspath(__file__)))
sys.path.insert(0, VERIF)
from translators import fingerprints as F

fp = F.fingerprint_all()
only = sys.argv[1:]
d = os.path.join(VERIF, 'lean', 'PetlProofs', 'Snapshot')
os.makedirs(d, exist_ok=True)
for pid, table in sorted(fp.items()):
    if only and pid not in only:
        continue
    lines = ['/-', '  Snapshot of the petl function bodies the hand-written model of %s was validated against' % pid,
             '  (tools/source_snapshot.py, run by the reviewer).  `Petl.Gen.fp%s` is regenerated from the source on every run.' % pid, '-/',
             'import Petl.Gen.Fp%s' % pid, '', 'namespace Petl.Snapshot', 'open Petl.Gen', '',
             'def expected%s : List (String × String) := [' % pid]
    lines.append(',\n'.join('  ("%s", "%s")' % kv for kv in sorted(table.items())))
    lines += [']', '', '/-- every function or class the model of %s mirrors still has the body it was validated against -/' % pid,
              'theorem %s_sources_as_validated : fp%s = expected%s := by decide +kernel' % (pid, pid, pid), '', 'end Petl.Snapshot', '']
    open(os.path.join(d, pid + '.lean'), 'w').write('\n'.join(lines))
print('snapshot written for', ', '.join(sorted(only or fp)))
