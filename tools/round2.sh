#!/bin/bash
# usage: tools/round2.sh C05 C07 ...   — for each property: try m3/m4 from /tmp/wt2/<P> against its own quick check, then confirm
for P in "$@"; do
  for M in m3 m4; do
    D=/tmp/wt2/$P/$M.diff
    [ -f "$D" ] || { echo "$P-$M: no diff"; continue; }
    R=$(tools/trymut.sh "$D" "$P" 2>&1 | tail -1)
    echo "$P-$M: $R"
  done
done
