#!/bin/bash
# usage: tools/trymut.sh <patch.diff> <pid> [<pid>...]   — apply a seeded change to /repo, run quick checks, undo.
set -u
diff=$1; shift
cd /repo || exit 2
if ! git diff --quiet || ! git diff --cached --quiet; then echo "/repo not clean"; exit 2; fi
git apply -3 "$diff" >/dev/null 2>&1 || { echo "patch does not apply: $diff"; git reset -q --hard HEAD; exit 2; }
git reset -q
cd /verif
for pid in "$@"; do
  echo "== $pid on $(basename $(dirname $diff))/$(basename $diff)"
  timeout 1800 /venv/bin/python harness/run.py check "$pid" --tier ${TIER:-quick} 2>&1 | tail -${TAIL:-6}
done
cd /repo && git checkout -q -- . && git reset -q && git status --short
cd /verif && /venv/bin/python harness/run.py gen >/dev/null
