#!/bin/bash
# usage: tools/roundN.sh <wtroot> "<m5 m6>" C05 C07 ...   — try each mutant against its own quick check
ROOT=$1; MS=$2; shift 2
for P in "$@"; do
  for M in $MS; do
    D=$ROOT/$P/$M.diff
    [ -f "$D" ] || { echo "$P-$M: no diff"; continue; }
    R=$(tools/trymut.sh "$D" "$P" 2>&1 | tail -1)
    echo "$P-$M: $R"
  done
done
