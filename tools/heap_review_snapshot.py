#!/usr/bin/env python3
"""Snapshot the ownership IR of the hand-reviewed function bodies (lean/PetlProofs/HeapReviewed.lean) into
lean/PetlProofs/HeapReviewedBodies.lean.  Run BY THE REVIEWER after reading the bodies; never run by a check.
A reviewed function whose body later changes no longer matches its snapshot, so its obligation fails until it is
reviewed again."""
import os, re, sys
VERIF = os.path.dirname(os.path.dirname(os.path.abspath(__file__)))
sys.path.insert(0, VERIF)
from translators import heap_ir

src = open(os.path.join(VERIF, 'lean', 'PetlProofs', 'HeapReviewed.lean')).read()
names = re.findall(r'"([a-z_A-Z0-9.@]+)"', src[src.index('def reviewed'):])
progs = {n: p for n, p, ln in heap_ir.translate_all()}
missing = [n for n in names if n not in progs]
if missing:
    print('reviewed names without a function in the current source:', missing)
lines = ['/-', '  Snapshot of the ownership IR of the hand-reviewed bodies (tools/heap_review_snapshot.py, run by the reviewer).',
         '  A reviewed function is exempt from the analysis only while its body still translates to exactly this program.',
         '-/', 'import Petl.Heap', 'set_option maxRecDepth 8000', 'namespace Petl.Heap', '']
items = []
for i, n in enumerate(names):
    if n in progs:
        lines.append('/-- %s -/' % n)
        lines.append('def rb%d : Prog := %s' % (i, heap_ir.lean(progs[n])))
        items.append('("%s", rb%d)' % (n, i))
lines += ['', 'def reviewedBodies : List (String × Prog) := [%s]' % ', '.join(items), '', 'end Petl.Heap', '']
open(os.path.join(VERIF, 'lean', 'PetlProofs', 'HeapReviewedBodies.lean'), 'w').write('\n'.join(lines))
print('snapshot of %d reviewed bodies written' % len(items))
