#!/usr/bin/env python3
"""Reviewer-run (never by a check): retake the table `expectedShapes` of lean/PetlProofs/Props/C02Shape.lean from the
current /repo.  Run it only after reading the diff of the generator functions whose entry changes: an entry going from
`some k` to `none`, a larger k, or `true` in the last column means the function now reads further ahead than before.
Usage: /venv/bin/python tools/pullshape_snapshot.py"""
import os, subprocess, sys, tempfile
VERIF = os.path.dirname(os.path.dirname(os.path.abspath(__file__)))
sys.path.insert(0, VERIF)
from translators import pullshape
print(pullshape.generate())
LEAN = os.path.join(VERIF, 'lean')
subprocess.run(['lake', 'build', 'Petl.Gen.PullShapes'], cwd=LEAN, check=True, stdout=subprocess.DEVNULL)
src = '''import Petl.Gen.PullShapes
open Petl.PullShape Petl.Gen
def fmtOpt : Option Int → String
  | none => "none"
  | some k => s!"some {k}"
#eval IO.println (String.intercalate ",\\n" (pullShapes.map (fun f => s!"  (\\"{f.1}\\", {fmtOpt (summary f.2).1}, {(summary f.2).2})")))
'''
fn = os.path.join(LEAN, '.lake', 'pullshape_snapshot_%d.lean' % os.getpid())
open(fn, 'w').write(src)
try:
    out = subprocess.run(['lake', 'env', 'lean', fn], cwd=LEAN, check=True, stdout=subprocess.PIPE, text=True).stdout
finally:
    os.unlink(fn)
p = os.path.join(LEAN, 'PetlProofs', 'Props', 'C02Shape.lean')
s = open(p).read()
head = 'def expectedShapes : List (String × Option Int × Bool) := [\n'
a = s.index(head) + len(head)
b = s.index('\n]\n', a)
old = s[a:b]
new = out.rstrip('\n')
if old == new:
    print('unchanged')
else:
    import difflib
    print('\n'.join(difflib.unified_diff(old.split('\n'), new.split('\n'), 'before', 'after', lineterm='')))
    open(p, 'w').write(s[:a] + new + s[b:])
