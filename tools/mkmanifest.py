#!/usr/bin/env python3
"""Regenerate MANIFEST.json from the table below (keeps the file valid and not_applicable current)."""
import json, os
HERE = os.path.dirname(os.path.dirname(os.path.abspath(__file__)))
ALL = ['C%02d' % i for i in range(1, 21)]

COMMON_NOTE = ('Static tie of the hand-written model: fingerprints of the petl functions it mirrors are regenerated on every run and must equal the snapshot taken when the model was validated (theorem Cxx_sources_as_validated; C02, C03, C11, C20 are tied by their own translators instead). Trusted: Lean 4.33 kernel (axioms propext, Classical.choice, Quot.sound only; audited each run), the hand-written '
               'models, the harness value coding/generators, and the CPython builtins the model abstracts. ')

CHECKS = {
 'C04': dict(
  text="Lean 4 theorems (all values, unbounded nesting): Comparable's < is irreflexive, asymmetric, transitive, total, its incomparability is ==, derived operators consistent, None < numbers < rest, bytes < text, element-wise sequences. The model is tied to the source by a translator that regenerates the decision ladder from petl/comparison.py on every run (bridge theorems re-proved) and by exhaustive pair comparison of the real Comparable against the model over a 66-value universe plus random nested values; users of the ordering (sort, issorted, selectlt..ge, join) are checked against the same relation. Also on the real code: ties in chunked sorts and mergesort never fall back to native row comparison; chunked sorts in both directions incl. the pass served from the chunk-file cache; a 120-row mixed-type sort in 60 chunks.",
  note="Also trusted: translators/ladder.py, Gen.nativeOf/pyTypeName (CPython native < within a kind, TypeError across kinds). NaN and aware datetimes outside the domain.",
  technique="Lean 4 proof (mutual structural induction) + AST translator with re-proved bridge + differential correspondence",
  ref="DESIGN.md section 3, C04"),
}
# filled in by later edits: CHECKS['C05'] = ...
try:
    from manifest_entries import ENTRIES
    CHECKS.update(ENTRIES)
except ImportError:
    pass

NA_REASON = {}

def main():
    checks = []
    for pid in ALL:
        if pid not in CHECKS:
            continue
        c = CHECKS[pid]
        checks.append({
            'property_id': pid,
            'quick_cmd': '/venv/bin/python harness/run.py check %s --tier quick' % pid,
            'thorough_cmd': '/venv/bin/python harness/run.py check %s --tier thorough' % pid,
            'evidence_file': 'evidence/%s.json' % pid,
            'replay_cmd_template': '/venv/bin/python harness/run.py replay {path}',
            'engine': 'lean-proof+correspondence',
            'level_claimed': {'category': 'proof', 'text': c['text'], 'design_ref': c['ref']},
            'level_note': COMMON_NOTE + c['note'],
            'technique': c['technique'],
        })
    na = [{'property_id': p, 'reason': NA_REASON.get(p, 'no check committed yet: model, theorems and correspondence for this property are still being built (the technique applies; see DESIGN.md section 3)')}
          for p in ALL if p not in CHECKS]
    m = {
        'version': 1,
        'setup_cmd': '/venv/bin/python harness/run.py setup',
        'hooks': {
            'guard': 'PETL_VERIF',
            'enable': 'no source hooks are needed: the harness instruments petl from outside (counting/failing sources, DB-API proxy, private tempdir); PETL_VERIF=1 is set by harness/run.py for symmetry only',
            'baseline_off_cmd': 'cd /repo && /venv/bin/python -m pytest -ra -q -p no:cacheprovider --timeout=900 --continue-on-collection-errors',
            'source_commits': [],
            'add_only': True,
        },
        'engines': [{'name': 'lean-proof+correspondence', 'path': 'harness/run.py', 'serves_properties': [c['property_id'] for c in checks],
                     'kind_free_text': 'Lean 4 theorems about hand-written/generated models (lean/), tied to /repo by translators (translators/) and a differential correspondence harness (harness/)'}],
        'checks': checks,
        'not_applicable': na,
        'notes': 'Every check: translate (where a translator exists) -> lake build + #print axioms audit -> correspondence of the real petl against the compiled Lean driver -> decide. Known genuine defects: known_findings.json.',
    }
    with open(os.path.join(HERE, 'MANIFEST.json'), 'w') as f:
        json.dump(m, f, indent=1)
    print('MANIFEST: %d checks, %d not claimed' % (len(checks), len(na)))

if __name__ == '__main__':
    import sys
    sys.path.insert(0, os.path.dirname(os.path.abspath(__file__)))
    main()
