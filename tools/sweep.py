#!/usr/bin/env python3
"""Run every quick check against every seeded change: apply seeded/<id>/patch.diff to /repo, run the 20 checks
(in parallel), undo.  Writes seeded/<id>/meta.json:detected_by and tools/sweep_result.json.
usage: tools/sweep.py [<seeded id> ...]"""
import os, sys, json, subprocess, glob, time
from concurrent.futures import ThreadPoolExecutor
VERIF = os.path.dirname(os.path.dirname(os.path.abspath(__file__)))
PIDS = ['C%02d' % i for i in range(1, 21)]


def sh(cmd, **kw):
    return subprocess.run(cmd, shell=True, stdout=subprocess.PIPE, stderr=subprocess.STDOUT, text=True, **kw)


def run_check(pid):
    t0 = time.time()
    r = sh('cd %s && timeout 1800 /venv/bin/python harness/run.py check %s --tier quick' % (VERIF, pid))
    viol = [l for l in r.stdout.split('\n') if l.startswith('VIOLATION')]
    nf = any(l.endswith('no-failing-input-found') for l in viol)
    return pid, r.returncode, len(viol), nf, round(time.time() - t0, 1)


def main():
    ids = sys.argv[1:] or sorted(os.path.basename(d) for d in glob.glob(os.path.join(VERIF, 'seeded', 'C*')))
    res_path = os.path.join(VERIF, 'tools', 'sweep_result.json')
    try:
        result = json.load(open(res_path))
    except Exception:
        result = {}
    for sid in ids:
        patch = os.path.join(VERIF, 'seeded', sid, 'patch.diff')
        if sh('cd /repo && git diff --quiet && git diff --cached --quiet').returncode != 0:
            print('/repo not clean'); sys.exit(2)
        a = sh('cd /repo && git apply %s' % patch)
        if a.returncode != 0:
            print(sid, 'patch does not apply:', a.stdout[-300:])
            sh('cd /repo && git checkout -q -- . && git reset -q')
            result[sid] = {'error': 'patch does not apply'}
            continue
        try:
            # translators + one build first, so the parallel checks do not all rebuild
            sh('cd %s && /venv/bin/python harness/run.py gen' % VERIF)
            pids = PIDS
            if os.environ.get('SWEEP_MODE') == 'own':
                # only the check of the property the change targets (plus C01 for schedule-dependent cache changes)
                own = sid.split('-')[0]
                pids = [own] + (['C01'] if own == 'C16' else [])
            with ThreadPoolExecutor(max_workers=10) as ex:
                rows = list(ex.map(run_check, pids))
        finally:
            sh('cd /repo && git checkout -q -- . && git reset -q')
        det = {pid: {'exit': rc, 'violations': nv, 'no_failing_input_found': nf, 's': t} for pid, rc, nv, nf, t in rows}
        result[sid] = det
        caught = [p for p in PIDS if p in det and det[p]['exit'] == 1]
        errs = [p for p in PIDS if p in det and det[p]['exit'] not in (0, 1)]
        print(sid, 'caught by', caught, ('ERRORS ' + str(errs)) if errs else '', flush=True)
        mp = os.path.join(VERIF, 'seeded', sid, 'meta.json')
        m = json.load(open(mp))
        m['detected_by'] = [{'check': p, 'tier': 'quick', 'with_failing_input': not det[p]['no_failing_input_found']} for p in caught]
        json.dump(m, open(mp, 'w'), indent=1)
        json.dump(result, open(res_path, 'w'), indent=1)
    sh('cd %s && /venv/bin/python harness/run.py gen' % VERIF)


if __name__ == '__main__':
    main()
