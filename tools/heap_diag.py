"""Diagnostics for translators/heap_ir.py: re-runs the ownership analysis in Python (mirror of
Petl.Heap.analyze, for diagnostics only - the Lean one decides) and reports the first rejected write."""
import sys, os
sys.path.insert(0, os.path.dirname(os.path.dirname(os.path.abspath(__file__))))
from translators import heap_ir


class Unsafe(Exception):
    pass


def get(a, x):
    for (y, v) in a:
        if y == x:
            return v
    return None


def aset(a, x, v):
    return [(x, v)] + [f for f in a if f[0] != x]


def le(w, v):
    if w == v:
        return True
    if isinstance(v, tuple) and v[0] == 'maybe':
        return w == 'ext' or (isinstance(w, tuple) and w[0] == 'own' and w[1] == v[1])
    return False


def join(v, w):
    if v == w:
        return v
    for a, b in ((v, w), (w, v)):
        if isinstance(a, tuple) and a[0] == 'own' and b == 'ext':
            return ('maybe', a[1])
        if isinstance(a, tuple) and a[0] == 'own' and isinstance(b, tuple) and b[0] == 'maybe' and a[1] == b[1]:
            return b
        if a == 'ext' and isinstance(b, tuple) and b[0] == 'maybe':
            return b
    return None


def meet(a, b):
    out = []
    for (x, v) in a:
        w = get(b, x)
        if w is not None:
            u = join(v, w)
            if u is not None:
                out.append((x, u))
    return out


def sub(a, b):
    return all(get(b, x) is not None and le(get(b, x), v) for (x, v) in a)


def analyze(p, a):
    k = p[0]
    if k == 'skip':
        return a
    if k == 'bindExt':
        return aset(a, p[1], 'ext')
    if k == 'bindFresh':
        return aset(a, p[1], ('own', p[2]))
    if k == 'bindVar':
        v = get(a, p[2])
        return aset(a, p[1], v) if v is not None else [f for f in a if f[0] != p[1]]
    if k == 'bindUnknown':
        return [f for f in a if f[0] != p[1]]
    if k == 'mutate':
        v = get(a, p[1])
        if isinstance(v, tuple) and v[0] == 'own':
            return a
        raise Unsafe('write to %s (%s) state=%s' % (p[1], v, a if os.environ.get('HEAP_DEBUG') else ''))
    if k == 'release':
        v = get(a, p[1])
        if isinstance(v, tuple):
            return [(f[0], ('maybe', v[1])) if f[1] == ('own', v[1]) else f for f in a]
        if v == 'ext':
            return a
        return [(f[0], ('maybe', f[1][1])) if isinstance(f[1], tuple) and f[1][0] == 'own' else f for f in a]
    if k == 'seq':
        return analyze(p[2], analyze(p[1], a))
    if k == 'branch':
        return meet(analyze(p[1], a), analyze(p[2], a))
    if k == 'loop':
        inv = a
        for _ in range(2 * len(a) + 2):
            out = analyze(p[1], inv)
            if sub(inv, out):
                return inv
            inv = meet(inv, out)
        raise Unsafe('no loop invariant')
    raise ValueError(p)


if __name__ == '__main__':
    want = sys.argv[1:]
    for name, p, ln in heap_ir.translate_all():
        try:
            analyze(p, [])
        except Unsafe as e:
            if not want or any(w in name for w in want):
                print('%-55s line %-5d %s' % (name, ln, e))


def show(p, ind=0):
    k = p[0]
    pad = '  ' * ind
    if k == 'seq':
        show(p[1], ind); show(p[2], ind)
    elif k == 'branch':
        print(pad + 'branch {'); show(p[1], ind + 1); print(pad + '} or {'); show(p[2], ind + 1); print(pad + '}')
    elif k == 'loop':
        print(pad + 'loop {'); show(p[1], ind + 1); print(pad + '}')
    else:
        print(pad + ' '.join(str(x) for x in p))
