#!/usr/bin/env python3
"""Render tools/sweep_result.json + seeded/*/meta.json as the table of DESIGN.md section 8.7."""
import json, os, glob, re
VERIF = os.path.dirname(os.path.dirname(os.path.abspath(__file__)))
res = json.load(open(os.path.join(VERIF, 'tools', 'sweep_result.json')))
rows = ['| Seeded change | Breaks | What it does (needs) | Caught by (quick tier) |', '|---|---|---|---|']
missed = []
for d in sorted(glob.glob(os.path.join(VERIF, 'seeded', 'C*'))):
    sid = os.path.basename(d)
    m = json.load(open(os.path.join(d, 'meta.json')))
    r = res.get(sid, {})
    if 'error' in r or not r:
        caught = '(not swept: %s)' % r.get('error', 'no result')
    else:
        cs = []
        for pid in sorted(r):
            if r[pid]['exit'] == 1:
                cs.append('%s (%s)' % (pid, 'tie' if r[pid]['no_failing_input_found'] else 'input'))
        errs = [pid for pid in sorted(r) if r[pid]['exit'] not in (0, 1)]
        caught = ', '.join(cs) or '**missed**'
        if len(r) < 20:
            caught += ' — only ' + ', '.join(sorted(r)) + ' run'
        if errs:
            caught += '; harness error in ' + ', '.join(errs)
        if m['breaks_property'] not in [c.split(' ')[0] for c in cs]:
            missed.append(sid)
    files = sorted(set(re.findall(r'^\+\+\+ b/(\S+)', open(os.path.join(d, 'patch.diff')).read(), re.M)))
    rows.append('| %s | %s | %s — `%s` | %s |' % (sid, m['breaks_property'], m.get('needs', '').replace('|', '/'), ', '.join(f.replace('petl/', '') for f in files), caught))
table = '\n'.join(rows)
if missed:
    table += '\n\nNot caught by the check of the property they target: ' + ', '.join(missed) + '.'
p = os.path.join(VERIF, 'DESIGN.md')
s = open(p).read()
a, b = s.index('<!-- SWEEP-TABLE-BEGIN -->'), s.index('<!-- SWEEP-TABLE-END -->')
s = s[:a] + '<!-- SWEEP-TABLE-BEGIN -->\n' + table + '\n' + s[b:]
open(p, 'w').write(s)
print(table)
