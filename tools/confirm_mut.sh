#!/bin/bash
# usage: tools/confirm_mut.sh C05 m1 "<needs>"   — confirm a sub-agent's change in its scratch worktree, then keep it under seeded/
set -u
P=$1; M=$2; NEEDS=${3:-}
WTR=${WT_ROOT:-/tmp/wt2}
WT=$WTR/$P
ID=$P-$M
cd $WT || exit 2
git reset -q --hard HEAD
git checkout -q --detach $(git -C /repo rev-parse HEAD) || exit 2
cp /repo/petl/version.py petl/version.py
git apply -3 $M.diff >/dev/null 2>&1 || { echo "$ID: patch does not apply on current HEAD"; exit 1; }
git reset -q
git diff -- petl > $WTR/$ID.patch
T=$(PYTHONPATH=$WT /venv/bin/python -m pytest -q -p no:cacheprovider --timeout=900 2>&1 | tail -1)
PYTHONPATH=$WT /venv/bin/python demo_$M.py >$WTR/$ID.with.log 2>&1; W=$?
git reset -q --hard HEAD
PYTHONPATH=$WT /venv/bin/python demo_$M.py >$WTR/$ID.without.log 2>&1; WO=$?
echo "$ID: tests[$T] demo-with=$W demo-without=$WO"
case "$T" in *failed*|*error*) echo "$ID: REJECT tests fail"; exit 1;; esac
if [ $W -ne 1 ] || [ $WO -ne 0 ]; then echo "$ID: REJECT demo"; exit 1; fi
D=/verif/seeded/$ID
mkdir -p $D
cp $WTR/$ID.patch $D/patch.diff
cp demo_$M.py $D/demo.py
python3 - "$P" "$ID" "$NEEDS" "$T" <<'PY'
import json,sys
p,i,needs,t=sys.argv[1:5]
json.dump({"id":i,"breaks_property":p,"needs":needs,
 "confirmed":{"tests_with_change":t,"demo_exit_with_change":1,"demo_exit_without_change":0,
   "how":"in a scratch worktree of /repo at the current HEAD: git apply patch.diff; full pytest suite; PYTHONPATH=<wt> python demo.py; git checkout -- .; python demo.py"},
 "detected_by":[]}, open('/verif/seeded/%s/meta.json'%i,'w'), indent=1)
PY
