ENTRIES = {}
ENTRIES['C05'] = dict(
  text="Lean 4 theorems, for every table, key, direction, number of chunks and chunk length: the external chunk sort (chunking, per-chunk stable sort, first-minimal k-way merge as heapq.merge/_shortlistmergesorted do it) equals the in-memory stable sort for every buffersize >= 1 (sort_buffersize_irrelevant), the result is ordered under the C04 relation, a permutation, stable, and uniquely determined by that specification; mergesort = sort of the concatenation (also presorted). Tie: the real sort is run under every buffersize 1..nrows+2 and None x cache x pass x tempdir and must equal the model's row sequence exactly; mergesort vs model and vs sort(cat).",
  note="Assumed: list.sort stability (incl. reverse=True), heapq.merge tie-breaking by iterable order, min/max return the first extremal element, pickle round-trips rows. mergesort is modelled for tables over one header (different headers are compared against sort(cat) on the real code only).",
  technique="Lean 4 proof (strong induction on remaining run length; uniqueness of stable sort) + differential correspondence over all buffer sizes",
  ref="DESIGN.md section 3, C05")
