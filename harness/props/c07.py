"""C07 — hash joins and lookups agree with the sort-merge joins."""
from collections import Counter
from .. import lean, proto, gen, util
from . import c06

REQUIRED = ['Petl.C07.' + n for n in (
    'lookup_spec lookupone_spec strict_raises_iff_dup hashjoin_eq_nested_loop hashleftjoin_eq_nested_loop '
    'hashantijoin_eq_filter hashlookupjoin_eq_first hashjoin_perm_join hashleftjoin_perm_leftjoin '
    'hashantijoin_perm_antijoin hashrightjoin_eq_nested_loop hashrightjoin_perm_rightjoin find_first_partner_sorted '
    'hashlookupjoin_perm_lookupjoin').split()]

KINDS = ['inner', 'left', 'right', 'anti', 'lookup']
HFN = {'inner': 'hashjoin', 'left': 'hashleftjoin', 'right': 'hashrightjoin', 'anti': 'hashantijoin', 'lookup': 'hashlookupjoin'}


def dict_rows(d, one, conv=lambda v: v):
    rows = []
    for k, v in d.items():
        rows.append((k, conv(v) if one else [conv(x) for x in v]))
    return rows


def run(ctx):
    import petl as etl
    ctx.rule = ('table pairs as in C06 with hashable key cells (rectangular for the anti-joins): each hash join on the real code '
                'vs the model (exact sequence), x cache on/off x two passes, and its row multiset + header vs the real sort-merge '
                'join; lookup/lookupone/dictlookup(one)/recordlookup(one) dictionaries (insertion order, values in table order, '
                'strict) vs the model. Non-trivial: both sides non-empty / table with a repeated key.')
    ctx.assumptions += ['Python dict/set: hash consistent with ==, insertion-ordered']
    from translators import argforms as _af
    try:
        _info = _af.generate()
        ctx.bridge('translator: truthiness tests on selection-like arguments in %d functions (%d sites)' % (_info['functions'], len(_info['sites'])), True)
    except Exception as e:   # noqa
        ctx.bridge('translator: argument-form sites extracted', False, repr(e))
    from translators import fingerprints as _fp
    try:
        _fpi = _fp.generate()
        ctx.bridge('translator: fingerprints of the petl functions the hand-written models mirror (%d bodies)' % _fpi['names'], True)
    except Exception as e:   # noqa
        ctx.bridge('translator: source fingerprints extracted', False, repr(e))
    ctx.prove(['PetlProofs.Props.C07', 'PetlProofs.Props.ArgForms', 'PetlProofs.Snapshot.C07'], REQUIRED + ['Petl.ArgForms.selection_arguments_not_tested_by_truthiness', 'Petl.ArgForms.selection_arguments_not_compared_by_identity'] + ['Petl.Snapshot.C07_sources_as_validated'])
    rng = ctx.rng
    n = 2000 if ctx.thorough() else 300
    lines, metas = [], []
    for ci in range(n):
        L, R, lkey, rkey, natural = c06.gen_pair(rng, ctx.thorough())
        missing = rng.choice([None, None, 'NA', -1])
        lp = rng.choice([None, None, None, 'l_'])
        rp = rng.choice([None, None, None, 'r_'])
        for kind in KINDS:
            Lk, Rk = L, R
            if kind == 'anti' and rng.random() < 0.8:
                # rectangular inputs (hashantijoin does not square up)
                Lk = [L[0]] + [(list(r) + [None] * len(L[0]))[:len(L[0])] for r in L[1:]]
                Rk = [R[0]] + [(list(r) + [None] * len(R[0]))[:len(R[0])] for r in R[1:]]
            m = None if kind in ('inner', 'anti') else missing
            try:
                line = 'hashjoin %s %s %s %s %s %s %s %s' % (
                    kind, proto.enc(m), '-' if (lp is None or kind == 'anti') else proto.enc(lp),
                    '-' if (rp is None or kind == 'anti') else proto.enc(rp),
                    util.enc_key(lkey), util.enc_key(rkey), proto.enc_table(Lk), proto.enc_table(Rk))
            except proto.Unencodable:
                continue
            lines.append(line)
            metas.append((kind, Lk, Rk, lkey, rkey, natural, m, lp, rp))
    model = lean.run_driver(lines)
    for (kind, L, R, lkey, rkey, natural, missing, lp, rp), line, spec in zip(metas, lines, model):
        hfn = getattr(etl, HFN[kind])
        mfn = getattr(etl, c06.FN[kind])
        kw = {}
        if kind in ('left', 'right', 'lookup'):
            kw['missing'] = missing
        if kind != 'anti':
            kw['lprefix'] = lp
            kw['rprefix'] = rp
        if natural:
            keykw = {}
        elif lkey == rkey:
            keykw = {'key': lkey}
        else:
            keykw = {'lkey': lkey, 'rkey': rkey}
        nl, nr = len(L) - 1, len(R) - 1
        case = {'op': HFN[kind], 'left': repr(L), 'right': repr(R), 'lkey': repr(lkey), 'rkey': repr(rkey), 'natural': natural,
                'missing': repr(missing), 'lprefix': lp, 'rprefix': rp, 'spec': spec, 'line': line}
        if spec.startswith(('PARSE', 'BADOP')):
            ctx.corr_fail(HFN[kind], 'driver: ' + spec, case)
            continue
        merge = util.run_show(lambda: mfn(L, R, **keykw, **kw))
        for cache in ((True, False) if kind in ('inner', 'left', 'right') else (None,)):
            kw2 = dict(kw)
            if cache is not None:
                kw2['cache'] = cache
            try:
                view = hfn(L, R, **keykw, **kw2)
                outs = [util.show_out(*util.collect(view)) for _ in range(2)]
            except Exception as e:   # noqa
                outs = ['TB0 ERR ' + util.errkind(e)]
            for p, real in enumerate(outs):
                ctx.case((line, cache, p) if nl and nr else None,
                         sample=dict(case, out=real) if len(ctx.samples) < 3 and nl > 1 and nr > 1 else None)
                ctx.count('kind:' + kind)
                ctx.exact(real == spec, dict(case, real=real, cache=cache, **{'pass': p + 1}))
                c2 = dict(case, real=real, cache=cache, merge_join=merge, **{'pass': p + 1})
                # property: same header, same multiset as the merge join (where the merge join is defined)
                ok_vs_merge = None
                if ' ERR ' not in merge and ' ERR ' not in real:
                    mt, rt = proto.parse_table(merge), proto.parse_table(real)
                    ok_vs_merge = (mt[:1] == rt[:1] and Counter(mt[1:]) == Counter(rt[1:]))
                    if not ok_vs_merge:
                        ctx.spec_fail('%s|differs-from-merge-join|%s' % (HFN[kind], 'pass>1' if p else 'pass1'),
                                      '%s does not return the rows/header of %s' % (HFN[kind], c06.FN[kind]), c2)
                        continue
                elif ' ERR ' in real and ' ERR ' not in merge:
                    # rectangular/hashable domain: the hash variant must not fail where the merge join works
                    rect = all(len(r) == len(L[0]) for r in L[1:]) and all(len(r) == len(R[0]) for r in R[1:])
                    if kind != 'anti' or rect:
                        ctx.spec_fail('%s|raises' % HFN[kind], '%s raises where %s succeeds' % (HFN[kind], c06.FN[kind]), c2)
                        continue
                if real != spec:
                    # order of the streamed side: compare the sequence of streamed rows
                    ctx.spec_fail('%s|stream-order|%s' % (HFN[kind], 'pass>1' if p else 'pass1'),
                                  '%s output differs from the nested-loop form in streaming order (or from the model)' % HFN[kind], c2)
    # ---- lookups
    llines, lmetas = [], []
    for ci in range(n):
        hdr = gen.header(rng)
        pools = {j: rng.choice([gen.INT_KEYS + [None], gen.SCALAR_KEYS, gen.SMALL_KEYS]) for j in range(len(hdr))}
        t = gen.table(rng, hdr, pools=pools, maxn=6, ragged=0.08)
        key = util.rand_key(rng, hdr, allow_none=False)
        value = rng.choice([None, None, util.rand_key(rng, hdr, allow_none=False)])
        for one in (False, True):
            for strict in ((False, True) if one else (False,)):
                try:
                    llines.append('lookup %s %s %s %s %s' % (proto.enc_bool(one), proto.enc_bool(strict), util.enc_key(key),
                                                            util.enc_key(value), proto.enc_table(t)))
                except proto.Unencodable:
                    continue
                lmetas.append((t, key, value, one, strict))
    lmodel = lean.run_driver(llines)
    for (t, key, value, one, strict), line, spec in zip(lmetas, llines, lmodel):
        rect = all(len(r) == len(t[0]) for r in t[1:])
        variants = [('lookup', None)]
        if value is None and rect:
            flds = [str(f) for f in t[0]]
            if len(set(flds)) == len(flds):
                variants.append(('dictlookup', lambda d: tuple(d[f] for f in flds)))
            variants.append(('recordlookup', lambda rec: tuple(rec)))
        for base, conv in variants:
            name = base + ('one' if one else '')
            fn = getattr(etl, name)
            # the mapping to fill may be supplied: a plain dict, an ordered one, or (for the *one variants) one that answers
            # unknown keys by itself (defaultdict, a dict subclass with __missing__)
            import collections as _c
            class _Missing(dict):
                def __missing__(self, k):
                    return 'unknown'
            target = rng.choice([None, None, {}, _c.OrderedDict()] + ([_c.defaultdict(lambda: 'unknown'), _Missing(), _c.defaultdict(list)] if one else []))
            dkw = {} if target is None else {'dictionary': target}
            try:
                if base == 'lookup':
                    d = fn(t, key, value, **dict(dkw, **({'strict': strict} if one else {})))
                else:
                    d = fn(t, key, **dict(dkw, **({'strict': strict} if one else {})))
                real = proto.enc_table(dict_rows(d, one, conv or (lambda v: v)))
            except proto.Unencodable:
                continue
            except Exception as e:   # noqa
                real = 'ERR ' + util.errkind(e)
            keys = [tuple(r[:1]) for r in t[1:]]
            ctx.case((line, name) if len(t) > 2 else None,
                     sample={'op': name, 'table': repr(t), 'key': repr(key), 'value': repr(value), 'strict': strict, 'out': real}
                     if len(ctx.samples) < 6 and len(t) > 3 else None)
            ctx.count('lookup:' + name)
            case = {'op': name, 'table': repr(t), 'key': repr(key), 'value': repr(value), 'strict': strict, 'real': real, 'spec': spec,
                    'dictionary': type(target).__name__}
            ctx.exact(real == spec, case)
            if real != spec:
                if spec.startswith(('PARSE', 'BADOP')):
                    ctx.corr_fail(name, 'driver: ' + spec, case)
                else:
                    kind = 'raises' if real.startswith('ERR') else ('should-raise' if spec.startswith('ERR') else 'wrong-mapping')
                    ctx.spec_fail('%s|%s' % (name, kind), '%s does not map each key to its values in table order / strict' % name, case)

    # ---- lookup() into a dictionary that already holds some of the keys (one dictionary loaded from two tables): extended, in order
    for ci in range(80 if ctx.thorough() else 24):
        A = [['k', 'v']] + [[rng.choice([1, 2, 3]), 'a%d' % i] for i in range(rng.choice([1, 2, 4]))]
        B = [['k', 'v']] + [[rng.choice([2, 3, 4]), 'b%d' % i] for i in range(rng.choice([1, 2, 4]))]
        import collections as _c2
        for target in ({}, _c2.OrderedDict()):
            etl.lookup(A, 'k', 'v', dictionary=target)
            etl.lookup(B, 'k', 'v', dictionary=target)
            want = {}
            for t_ in (A, B):
                for k_, v_ in t_[1:]:
                    want.setdefault(k_, []).append(v_)
            ctx.case(('lookup-two-tables', repr(A), repr(B)))
            ctx.count('lookup:two-tables')
            if dict(target) != want:
                ctx.spec_fail('lookup|dictionary-already-populated', 'lookup into a dictionary that already holds a key does not extend that key\'s list',
                              {'first table': repr(A), 'second table': repr(B), 'dictionary': repr(dict(target)), 'want': repr(want)})
    # ---- one Table object as the build side of two cached hash joins that square it up differently
    for ci in range(80 if ctx.thorough() else 24):
        L = [['id', 'a']] + [[rng.choice([1, 2, 3]), rng.choice('xy')] for _ in range(rng.choice([1, 3]))]
        Rrows = [['id', 'b', 'c']] + [[rng.choice([1, 2, 3]), 'p'][:rng.choice([1, 2])] for _ in range(rng.choice([1, 2, 3]))]
        Rw = etl.wrap(Rrows)
        for name in ('hashjoin', 'hashleftjoin', 'hashlookupjoin'):
            fn = getattr(etl, name)
            list(fn(L, Rw, key='id', missing='first'))
            got = util.run_show(lambda: fn(L, Rw, key='id', missing='second'))
            want = util.run_show(lambda: fn(L, [list(r) for r in Rrows], key='id', missing='second'))
            ctx.case(('shared-build-side', name, repr(L), repr(Rrows)))
            ctx.count('shared-build-side')
            if got != want:
                ctx.spec_fail('%s|shared-build-side' % name, '%s: a second view over the same table object, with another `missing`, is not what a fresh copy of the table gives' % name,
                              {'left': repr(L), 'right': repr(Rrows), 'real': got, 'want': want})
        fn = etl.hashrightjoin
        Lw = etl.wrap([['id', 'a', 'z']] + [[rng.choice([1, 2]), 'q'][:rng.choice([1, 2])] for _ in range(2)])
        R2 = [['id', 'b']] + [[rng.choice([1, 2, 3]), 'r']]
        list(fn(Lw, R2, key='id', missing='first'))
        got = util.run_show(lambda: fn(Lw, R2, key='id', missing='second'))
        want = util.run_show(lambda: fn([tuple(r) for r in Lw], R2, key='id', missing='second'))
        if got != want:
            ctx.spec_fail('hashrightjoin|shared-build-side', 'hashrightjoin: a second view over the same table object, with another `missing`, is not what a fresh copy of the table gives',
                          {'left': repr(list(Lw)), 'right': repr(R2), 'real': got, 'want': want})

    # ---- argument forms the two join families must treat alike (no model involved): prefixes that are not strings, keys given
    # as negative positions; header and multiset of rows of the hash join = those of the merge join
    from collections import Counter as _Counter
    PAIRS = [('hashjoin', 'join'), ('hashleftjoin', 'leftjoin'), ('hashrightjoin', 'rightjoin'), ('hashantijoin', 'antijoin'), ('hashlookupjoin', 'lookupjoin')]
    for ci in range(200 if ctx.thorough() else 60):
        L = [['id', 'a']] + [[rng.choice([1, 2, 3]), rng.choice('xyz')] for _ in range(rng.choice([0, 1, 3, 4]))]
        R = [['b', 'id']] + [[rng.choice('pq'), rng.choice([1, 2, 4])] for _ in range(rng.choice([0, 1, 3]))]
        hname, mname = PAIRS[ci % len(PAIRS)]
        form = rng.choice(['prefix', 'prefix', 'negative-rkey', 'negative-lkey', 'negative-both'])
        if form == 'prefix':
            if mname == 'antijoin':
                continue
            kw = {'lkey': 'id', 'rkey': 'id', 'lprefix': rng.choice([1, 2020, 2.5, True, 'l_', None]), 'rprefix': rng.choice([0, 7, 'r_', None])}
        elif form == 'negative-rkey':
            kw = {'lkey': 'id', 'rkey': -1}
        elif form == 'negative-lkey':
            kw = {'lkey': -2, 'rkey': 'id'}
        else:
            kw = {'lkey': -2, 'rkey': -1}
        def show(fn):
            try:
                rows = [tuple(r) for r in getattr(etl, fn)(L, R, **kw)]
                return (rows[0], _Counter(rows[1:]))
            except Exception as e:   # noqa
                return 'ERR ' + type(e).__name__
        h, m = show(hname), show(mname)
        ctx.case(('family-agreement', hname, repr(L), repr(R), repr(sorted(kw.items(), key=repr))))
        ctx.count('family-agreement:' + form)
        if h != m:
            ctx.spec_fail('%s|differs-from-%s|%s' % (hname, mname, form), '%s and %s do not return the same header and multiset of rows' % (hname, mname),
                          {'left': repr(L), 'right': repr(R), 'arguments': repr(kw), hname: repr(h), mname: repr(m)})

    util.positional_call_cases(etl, rng, ctx, ['hashjoin', 'hashleftjoin'], 120 if ctx.thorough() else 36, 2)

def replay(d):
    print('replay case:', d.get('case'))
    return 0
