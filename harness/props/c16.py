"""C16 — pass-through views are transparent; a consumed tee writes what to* writes."""
import io, os, tempfile, shutil, logging
from .. import lean, proto, gen, util

REQUIRED = ['Petl.C16.' + n for n in (
    'tee_rows_id tee_bytes_eq_to tee_partial_is_prefix passthrough_id cacheView_rows_id').split()]

TEXT = ['a', 'b,c', 'say "hi"', 'line1\nline2', 'cr\rx', '', ' sp ', 'é', '\U0001F600', 'x;y', "it's", '\t']
CELLS = TEXT + [None, 1, 2.5, True]


def rows_of(view):
    return [tuple(r) for r in view]


def run(ctx):
    import petl as etl
    ctx.rule = ('tables of 0-5 rows (header-only included), 1-3 fields, ragged rows, cells from an adversarial text pool '
                '(delimiters, quotes, CR, LF, tab, non-ASCII, astral) plus None/numbers; teecsv/teetsv (write_header, encoding, '
                'delimiter, quoting), teepickle (protocol, write_header), teetext (template, prologue, epilogue), teehtml (caption, '
                'encoding): rows yielded vs the wrapped table, target bytes vs the bytes of the matching to* call, a partially '
                'consumed tee vs a prefix; progress/log_progress (batch sizes 1..n+1), clock, wrap, cache(n) (n None, 1..n+1): rows '
                'vs the wrapped table on two passes. Non-trivial: at least one data row.')
    ctx.assumptions += ['csv.writer.writerow / pickle.dump / str.format render one row independently of the others (checked: the file '
                        'equals the concatenation of single-row files)']
    from translators import fingerprints as _fp
    try:
        _fpi = _fp.generate()
        ctx.bridge('translator: fingerprints of the petl functions the hand-written models mirror (%d bodies)' % _fpi['names'], True)
    except Exception as e:   # noqa
        ctx.bridge('translator: source fingerprints extracted', False, repr(e))
    ctx.prove(['PetlProofs.Props.C16', 'PetlProofs.Snapshot.C16'], REQUIRED + ['Petl.Snapshot.C16_sources_as_validated'])
    rng = ctx.rng
    tmpd = tempfile.mkdtemp(prefix='petl_c16_')
    n = 800 if ctx.thorough() else 120
    cnt = [0]

    def path(ext='dat'):
        cnt[0] += 1
        return os.path.join(tmpd, 'f%d.%s' % (cnt[0] % 40, ext))

    def compare(name, T, mk_tee, mk_to, case, nt):
        """mk_tee(target) -> view ; mk_to(target) writes; targets are file paths"""
        p1, p2 = path(), path()
        try:
            got_rows = rows_of(mk_tee(p1))
            mk_to(p2)
            b1, b2 = open(p1, 'rb').read(), open(p2, 'rb').read()
            want_rows = [tuple(r) for r in T]
        except Exception as e:   # noqa
            # both must fail alike (e.g. an unencodable character): compare the failure kinds
            try:
                mk_to(path())
                ctx.spec_fail('%s|raises' % name, '%s raises %s where the to* function succeeds' % (name, type(e).__name__), dict(case, error=repr(e)))
            except Exception:   # noqa
                pass
            return
        ctx.case((name, repr(T), repr(sorted(case.items()))) if nt else None,
                 sample=dict(case, op=name, table=repr(T), bytes=repr(b1[:80])) if len(ctx.samples) < 6 and nt and ctx.evaluations % 67 == 0 else None)
        ctx.count('op:' + name)
        ok_rows = got_rows == want_rows
        ok_bytes = b1 == b2
        ctx.exact(ok_rows and ok_bytes, dict(case, op=name, table=repr(T)))
        if not ok_rows:
            ctx.spec_fail('%s|rows' % name, '%s does not yield exactly the rows of the wrapped table' % name,
                          dict(case, table=repr(T), got=repr(got_rows)))
        if not ok_bytes:
            ctx.spec_fail('%s|bytes' % name, 'the consumed %s target differs from what the to* function writes' % name,
                          dict(case, table=repr(T), tee=repr(b1[:300]), to=repr(b2[:300])))
        # partial consumption: a prefix
        if len(T) > 1:
            k = rng.randrange(1, len(T))
            p3 = path()
            it = iter(mk_tee(p3))
            try:
                for _ in range(k):
                    next(it)
                it.close()
                b3 = open(p3, 'rb').read()
                if not b2.startswith(b3) and name not in ('teehtml',):
                    ctx.spec_fail('%s|partial-not-prefix' % name, 'a partially consumed %s left bytes that are not a prefix of the full output' % name,
                                  dict(case, table=repr(T), k=k, partial=repr(b3[:200]), full=repr(b2[:200])))
            except Exception:   # noqa
                pass

    try:
        for ci in range(n):
            hdr = gen.header(rng, n=rng.choice([1, 2, 3]))
            T = gen.table(rng, hdr, default_pool=CELLS, maxn=5, ragged=0.3)
            if ci % 25 == 7:
                # a header without fields (etl.empty(), a blank file), with and without (over-long) data rows
                hdr = []
                T = [[]] + [[rng.choice(CELLS)] for _ in range(rng.choice([0, 0, 2]))]
            nt = len(T) > 1
            wh = rng.random() < 0.7
            enc = rng.choice(['utf-8', 'utf-8', 'utf-16', 'latin-1'])
            kw = {}
            if rng.random() < 0.4:
                kw['delimiter'] = rng.choice([';', '|', '\t'])
            if rng.random() < 0.4:
                import csv
                kw['quoting'] = rng.choice([csv.QUOTE_ALL, csv.QUOTE_MINIMAL, csv.QUOTE_NONNUMERIC])
            if rng.random() < 0.2:
                kw['quotechar'] = "'"
            compare('teecsv', T, lambda p: etl.teecsv(T, p, encoding=enc, write_header=wh, **kw),
                    lambda p: etl.tocsv(T, p, encoding=enc, write_header=wh, **kw), dict(write_header=wh, encoding=enc, csvargs=repr(kw)), nt)
            tkw = {}
            if rng.random() < 0.5:
                # teetsv/totsv take the csv arguments too: the dialect (by name, class or instance) and single settings
                import csv as _csv
                class _Semi(_csv.excel):
                    delimiter = ';'
                tkw = rng.choice([{'dialect': 'unix'}, {'dialect': _csv.excel}, {'dialect': _Semi}, {'dialect': _Semi()}, {'quoting': _csv.QUOTE_ALL},
                                  {'dialect': 'excel-tab', 'quotechar': "'"}, {'lineterminator': '\n'}])
            compare('teetsv', T, lambda p: etl.teetsv(T, p, encoding=enc, write_header=wh, **tkw),
                    lambda p: etl.totsv(T, p, encoding=enc, write_header=wh, **tkw), dict(write_header=wh, encoding=enc, csvargs=repr(tkw)), nt)
            if 'dialect' not in kw and rng.random() < 0.3:
                dk = dict(kw, dialect=rng.choice(['unix', 'excel-tab']))
                compare('teecsv', T, lambda p: etl.teecsv(T, p, encoding=enc, write_header=wh, **dk),
                        lambda p: etl.tocsv(T, p, encoding=enc, write_header=wh, **dk), dict(write_header=wh, encoding=enc, csvargs=repr(dk)), nt)
            proto_ = rng.choice([-1, 0, 2])
            compare('teepickle', T, lambda p: etl.teepickle(T, p, protocol=proto_, write_header=wh),
                    lambda p: etl.topickle(T, p, protocol=proto_, write_header=wh), dict(write_header=wh, protocol=proto_), nt)
            if len(set(hdr)) == len(hdr):
                tmpl = ' | '.join('{%s}' % f for f in hdr) + '\n'
                pro = rng.choice([None, 'START\n'])
                epi = rng.choice([None, 'END\n'])
                tenc = rng.choice(['utf-8', 'utf-8', 'utf-16', 'utf-8-sig'])
                if hdr and rng.random() < 0.3 and all(len(r) == len(hdr) for r in T[1:]):
                    # a format spec that itself refers to a field, conversions and alignments
                    tmpl = '{%s!r:>{%s!s}.3}|' % (hdr[0], hdr[0]) + ' | '.join('{%s!s:<4}' % f for f in hdr[1:]) + '\n' \
                        if all(isinstance(r[0], int) and not isinstance(r[0], bool) and 0 < r[0] < 9 for r in T[1:]) else tmpl
                compare('teetext', T, lambda p: etl.teetext(T, p, encoding=tenc, template=tmpl, prologue=pro, epilogue=epi),
                        lambda p: etl.totext(T, p, encoding=tenc, template=tmpl, prologue=pro, epilogue=epi), dict(template=tmpl, prologue=pro, epilogue=epi, encoding=tenc), nt)
                H = [list(hdr)]
                compare('teetext', H, lambda p: etl.teetext(H, p, encoding=tenc, template=tmpl, prologue=pro, epilogue=epi),
                        lambda p: etl.totext(H, p, encoding=tenc, template=tmpl, prologue=pro, epilogue=epi), dict(template=tmpl, prologue=pro, epilogue=epi, encoding=tenc, header_only=True), False)
            cap = rng.choice([None, 'cap'])
            compare('teehtml', T, lambda p: etl.teehtml(T, p, encoding='utf-8', caption=cap),
                    lambda p: etl.tohtml(T, p, encoding='utf-8', caption=cap), dict(caption=cap), nt)
            if ci % 25 == 9:
                # nothing at all, not even a header row: tohtml still writes the table frame (and caption); so must a consumed teehtml
                E = rng.choice([[], ()])
                compare('teehtml', E, lambda p: etl.teehtml(E, p, encoding='utf-8', caption=cap),
                        lambda p: etl.tohtml(E, p, encoding='utf-8', caption=cap), dict(caption=cap, no_header_row=True), False)
            # the render is per row: the file is the concatenation of single-row files (model validation)
            if nt:
                try:
                    p = path(); etl.tocsv(T, p, encoding='utf-8', **kw)
                    whole = open(p, 'rb').read()
                    parts = b''
                    for r in T:
                        q = path(); etl.tocsv([r], q, encoding='utf-8', **kw); parts += open(q, 'rb').read()
                    ctx.count('render-per-row')
                    if whole != parts:
                        ctx.corr_fail('tocsv', 'the csv file is not the concatenation of its rows rendered one by one', {'table': repr(T), 'csvargs': repr(kw)})
                except Exception:   # noqa
                    pass
            # pure pass-through views, two passes each
            want = [tuple(r) for r in T]
            devnull = open(os.devnull, 'w')
            views = [('progress', lambda: etl.progress(T, rng.choice(range(1, len(T) + 2)), out=devnull)),
                     ('log_progress', lambda: etl.log_progress(T, rng.choice(range(1, len(T) + 2)), logger=logging.getLogger('petl_c16_null'))),
                     ('clock', lambda: etl.clock(T)),
                     ('wrap', lambda: etl.wrap(T))]
            for k in [None] + list(range(1, len(T) + 2)):
                views.append(('cache(n=%s)' % k, lambda k=k: etl.wrap(T).cache(k)))
            for vname, mk in views:
                try:
                    v = mk()
                    p1_, p2_ = rows_of(v), rows_of(v)
                except Exception as e:   # noqa
                    ctx.spec_fail('%s|raises' % vname.split('(')[0], '%s raised %r' % (vname, e), {'table': repr(T)})
                    continue
                ctx.case((vname, repr(T)) if nt else None)
                ctx.count('view:' + vname.split('(')[0])
                if p1_ != want or p2_ != want:
                    ctx.spec_fail('%s|rows' % vname.split('(')[0], '%s does not yield exactly the rows of the wrapped table' % vname,
                                  {'table': repr(T), 'pass1': repr(p1_), 'pass2': repr(p2_)})
            devnull.close()
            # cache(): a pass abandoned early must not truncate later passes
            for k in (None, 2):
                v = etl.wrap(T).cache(k)
                it = iter(v)
                try:
                    next(it)
                except StopIteration:
                    pass
                it.close()
                etl.header(v)
                if rows_of(v) != want:
                    ctx.spec_fail('cache|abandoned-pass-truncates', 'cache(): after an abandoned pass a full pass does not yield the wrapped table',
                                  {'table': repr(T), 'n': k})
            # cache(): every iterator over the view yields the wrapped table, also when two of them take turns
            for k in (None, 2, len(T) + 1):
                for pat in ((1, 1), (2, 1), (1, 2), (3, 1), (1, 3)):
                    v = etl.wrap(T).cache(k)
                    a = iter(v)
                    got_a = [next(a, 'END') for _ in range(2)]
                    b = iter(v)
                    got_b = []
                    done_a = done_b = False
                    while not (done_a and done_b):
                        for _ in range(pat[0]):
                            x = next(a, 'END')
                            got_a.append(x)
                            done_a = done_a or x == 'END'
                        for _ in range(pat[1]):
                            x = next(b, 'END')
                            got_b.append(x)
                            done_b = done_b or x == 'END'
                    ra = [tuple(r) for r in got_a if r != 'END']
                    rb = [tuple(r) for r in got_b if r != 'END']
                    ctx.case(('cache', 'two-iterators', repr(T), k, pat) if nt else None)
                    ctx.count('view:cache-two-iterators')
                    if ra != want or rb != want or rows_of(v) != want:
                        ctx.spec_fail('cache|rows|two-iterators', 'cache(n=%s): two iterators taking turns do not both yield the wrapped table' % k,
                                      {'table': repr(T), 'n': k, 'turns': pat, 'first': repr(ra), 'second': repr(rb)})
            # a template whose format spec refers to another field
            if ci % 7 == 1:
                NT = [['name', 'width', 'qty']] + [[rng.choice(['ab', 'c', 'défg']), rng.choice([3, 5, 8]), rng.choice([1, 22])] for _ in range(rng.choice([1, 2, 3]))]
                ntm = rng.choice(['{name:<{width}}|{qty}\n', '{name:>{width}}|{qty:0{width}d}\n', '{qty:{width}}\n'])
                compare('teetext', NT, lambda p: etl.teetext(NT, p, encoding='utf-8', template=ntm), lambda p: etl.totext(NT, p, encoding='utf-8', template=ntm),
                        dict(template=ntm, nested_format_spec=True), True)
            # a pass-through view that was copied (copy / deepcopy / pickle round trip) is still a pass-through view
            import copy as _copy, pickle as _pickle
            for vname, mk in (('cache', lambda: etl.wrap(T).cache()), ('cache(n=1)', lambda: etl.wrap(T).cache(1)), ('wrap', lambda: etl.wrap(T)),
                              ('clock', lambda: etl.clock(T))):
                for warm in (False, True):
                    for how, dup in (('copy', _copy.copy), ('deepcopy', _copy.deepcopy), ('pickle', lambda v: _pickle.loads(_pickle.dumps(v)))):
                        try:
                            v = mk()
                            if warm:
                                rows_of(v)
                            d_ = dup(v)
                            got = (rows_of(d_), rows_of(v), rows_of(d_))
                        except Exception as e:   # noqa
                            got = repr(e)
                        ctx.case(('copied-view', vname, how, warm, repr(T)) if nt else None)
                        ctx.count('view:copied')
                        if got != (want, want, want):
                            ctx.spec_fail('%s|rows|copied-view' % vname.split('(')[0], '%s (%s, %s) does not yield exactly the rows of the wrapped table'
                                          % (vname, how + ' of the view', 'after a complete pass' if warm else 'before any pass'),
                                          {'table': repr(T), 'view': vname, 'duplicate made by': how, 'after a pass': warm, 'rows (copy, original, copy again)': repr(got)})
            # a tee view read to the end a second time leaves in its target what to* writes, whatever happened to the target meanwhile
            if ci % 5 == 0:
                for tname, tee, to in (('teepickle', lambda p: etl.teepickle(T, p), lambda p: etl.topickle(T, p)),
                                       ('teecsv', lambda p: etl.teecsv(T, p, encoding='utf-8'), lambda p: etl.tocsv(T, p, encoding='utf-8')),
                                       ('teetext', None, None)):
                    if tee is None or not all(len(r) > 0 for r in T):
                        continue
                    try:
                        p1, p2 = path(), path()
                        v = tee(p1)
                        rows_of(v)
                        how = rng.choice(['overwrite', 'delete', 'truncate'])
                        if how == 'overwrite':
                            etl.totext([['x'], ['junk']], p1, template='{x}')
                        elif how == 'delete':
                            os.unlink(p1)
                        else:
                            open(p1, 'wb').close()
                        second = rows_of(v)
                        to(p2)
                        same = open(p1, 'rb').read() == open(p2, 'rb').read()
                    except Exception as e:   # noqa
                        second, same, how = repr(e), False, 'raised'
                    ctx.case((tname, 'second-pass', repr(T)) if nt else None)
                    ctx.count('tee:second-pass')
                    if second != want or not same:
                        ctx.spec_fail('%s|second-pass' % tname, '%s read to the end a second time (target %s in between): rows or target not those of %s'
                                      % (tname, how, tname.replace('tee', 'to')), {'table': repr(T), 'target was': how, 'rows of the second pass': repr(second), 'bytes equal': same})
    finally:
        shutil.rmtree(tmpd, ignore_errors=True)


def replay(d):
    print('replay case:', d.get('case'))
    return 0
