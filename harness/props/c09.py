"""C09 — grouping and aggregation conserve rows: each row in exactly one group."""
import operator, functools
from collections import OrderedDict, Counter
from .. import lean, proto, gen, util

REQUIRED = ['Petl.C09.' + n for n in (
    'groups_flatten groups_keys_strictly_ascending group_is_filter group_counts_sum_nrows group_sums_sum_total '
    'selectfirst_is_first_of_key selectmin_is_min_of_group aggregate_applies_to_group groupcountdistinct_counts keyless_aggregate_sees_every_row').split()]

AGGS = {'len': len, 'list': list, 'sum': sum, 'min': min, 'max': max}


def ref_groups(tbl, key):
    """independent reference grouping: ascending distinct keys, rows in input order"""
    from petl.comparison import comparable_itemgetter, Comparable
    from petl.util.base import asindices
    hdr = tbl[0]
    idx = asindices(hdr, key)
    gk = comparable_itemgetter(*idx)
    groups = []
    for r in tbl[1:]:
        k = gk(r)
        for g in groups:
            if g[0] == k:
                g[1].append(tuple(r))
                break
        else:
            groups.append((k, [tuple(r)]))
    groups.sort(key=lambda g: g[0])
    return idx, [(g[0].inner, g[1]) for g in groups]


def canon(c):
    """which of several equal key values (True / 1 / 1.0 / Decimal('1')) stands for a group is not specified by the property"""
    from decimal import Decimal as _D
    if isinstance(c, _D) and c == c and float(c) == c:
        c = float(c)
    if isinstance(c, (bool, float)) and c == c and c not in (float('inf'), float('-inf')) and int(c) == c:
        c = int(c)
    return tuple(canon(x) for x in c) if isinstance(c, tuple) else c


def keycells(idx, k):
    return [k] if len(idx) == 1 else list(k)


def getv(vidx, row):
    if vidx is None:
        return tuple(row)
    if len(vidx) == 1:
        return row[vidx[0]]
    return tuple(row[i] for i in vidx)


def run(ctx):
    import petl as etl
    from petl.util.base import asindices
    ctx.rule = ('tables of 0-8 rows whose key columns come from small pools (ints+None / mixed scalars / tuples) and whose value '
                'columns are ints; keys single/compound/by index; every operator (aggregate simple: len,list,sum,min,max; '
                'multi-aggregate in all spec forms incl. key=None; groupselectfirst/last/min/max; fold; mergeduplicates; merge; '
                'rowreduce; rowgroupmap; groupcountdistinctvalues; valuecounts/valuecounter) x buffersize: real vs model and vs a '
                'dictionary-based reference grouping. Non-trivial: a table with a key that repeats.')
    ctx.assumptions += ['itertools.groupby, functools.reduce, builtin sum/min/max/len/list on ints',
                        'value fields for sum/min/max are ints (float addition is outside the model)']
    from translators import argforms as _af
    try:
        _info = _af.generate()
        ctx.bridge('translator: truthiness tests on selection-like arguments in %d functions (%d sites)' % (_info['functions'], len(_info['sites'])), True)
    except Exception as e:   # noqa
        ctx.bridge('translator: argument-form sites extracted', False, repr(e))
    from translators import fingerprints as _fp
    try:
        _fpi = _fp.generate()
        ctx.bridge('translator: fingerprints of the petl functions the hand-written models mirror (%d bodies)' % _fpi['names'], True)
    except Exception as e:   # noqa
        ctx.bridge('translator: source fingerprints extracted', False, repr(e))
    ctx.prove(['PetlProofs.Props.C09', 'PetlProofs.Props.ArgForms', 'PetlProofs.Snapshot.C09'], REQUIRED + ['Petl.ArgForms.selection_arguments_not_tested_by_truthiness', 'Petl.ArgForms.selection_arguments_not_compared_by_identity'] + ['Petl.Snapshot.C09_sources_as_validated'])
    rng = ctx.rng
    n = 2000 if ctx.thorough() else 300
    jobs = []   # (opname, line or None, thunk, oracle_thunk, case)
    for ci in range(n):
        nk = rng.choice([1, 1, 2])
        nv = rng.choice([1, 2])
        names = list(gen.FIELD_NAMES)
        rng.shuffle(names)
        hdr = names[:nk + nv]
        order = list(range(nk + nv)); rng.shuffle(order)
        keyf = hdr[:nk]
        valf = hdr[nk:]
        hdr = [hdr[i] for i in order]
        kp = rng.choice([gen.INT_KEYS + [None], gen.SCALAR_KEYS, gen.SMALL_KEYS, [[1, 'a'], (1, 'a'), [2], (2,), (1, 'b')]])      # last: lists next to tuples of equal items (one key)
        pools = {j: (kp if hdr[j] in keyf else [0, 1, 2, 5, -3]) for j in range(len(hdr))}
        T = gen.table(rng, hdr, pools=pools, maxn=8, ragged=0.08)
        key = keyf[0] if nk == 1 else (tuple(keyf) if rng.random() < 0.5 else list(keyf))
        if nk == 1 and rng.random() < 0.2:
            key = hdr.index(keyf[0])
        if nk == 1 and rng.random() < 0.1:
            key = (keyf[0],)
        bs = rng.choice([None, None, 1, 2, 3])
        vf = rng.choice(valf)
        base = {'table': repr(T), 'key': repr(key), 'buffersize': bs}
        nt = len(T) > 2 and len(set(repr([r[hdr.index(f)] if hdr.index(f) < len(r) else None for f in keyf]) for r in T[1:])) < len(T) - 1
        ttok = proto.enc_table(T)
        kt = util.enc_key(key)
        bt = proto.enc_opt(bs)
        # --- simple aggregate
        for an in ('len', 'list', 'sum', 'min', 'max'):
            value = None if an in ('len',) and rng.random() < 0.5 else (vf if rng.random() < 0.8 or an in ('sum', 'min', 'max') else None)
            if an == 'list' and rng.random() < 0.2 and len(valf) > 1:
                value = tuple(valf)
            line = 'agg %s %s %s %s %s %s' % (kt, util.enc_key(value), an, proto.enc('value'), bt, ttok)
            def oracle(T=T, key=key, value=value, an=an):
                idx, gs = ref_groups(T, key)
                vidx = None if value is None else asindices(T[0], value)
                k1 = key[0] if isinstance(key, (list, tuple)) and len(key) == 1 else key
                oh = (tuple(k1) if isinstance(k1, (list, tuple)) else (k1,)) + ('value',)
                return [oh] + [tuple(keycells(idx, k)) + (AGGS[an]([getv(vidx, r) for r in rows]),) for k, rows in gs]
            jobs.append(('aggregate:' + an, line,
                         lambda T=T, key=key, value=value, an=an, bs=bs: etl.aggregate(T, key, AGGS[an], value, buffersize=bs),
                         oracle, dict(base, agg=an, value=repr(value)), nt))
        # --- multi aggregate, several spec forms
        cols = []
        spec = OrderedDict()
        for j in range(rng.choice([1, 2, 3])):
            an = rng.choice(['len', 'list', 'sum', 'min', 'max'])
            form = rng.choice(['callable', 'pair', 'name', 'multi'])
            out = 'o%d' % j
            if an == 'len' or (form == 'callable' and an == 'list'):
                spec[out] = AGGS[an]
                cols.append((out, None, an))
            elif form == 'name':
                vfj = rng.choice(valf)          # each output field has its own source field
                spec[out] = vfj
                cols.append((out, (vfj,), 'list'))
            elif form == 'multi' and len(valf) > 1 and an == 'list':
                spec[out] = (tuple(valf), list)
                cols.append((out, tuple(valf), 'list'))
            else:
                vfj = rng.choice(valf)
                spec[out] = (vfj, AGGS[an])
                cols.append((out, (vfj,), an))
        mkey = key if rng.random() < 0.8 else None
        aggarg = spec if rng.random() < 0.5 else [(o,) + (v if isinstance(v, tuple) else (v,)) for o, v in spec.items()]
        line = 'multiagg %s %s %s %s' % (util.enc_key(mkey), proto.enc_list(
            cols, lambda c: '%s %s %s' % (proto.enc(c[0]), util.enc_key(c[1]), c[2])), bt, ttok)
        def moracle(T=T, mkey=mkey, cols=cols):
            hdr = T[0]
            if mkey is None:
                idx, gs = [], ([(None, [tuple(r) for r in T[1:]])] if len(T) > 1 else [])
                oh = ()
            else:
                idx, gs = ref_groups(T, mkey)
                oh = tuple(mkey) if isinstance(mkey, (list, tuple)) else (mkey,)
            out = [oh + tuple(c[0] for c in cols)]
            for k, rows in gs:
                cells = []
                for (o, src, an) in cols:
                    vidx = None if src is None else [list(hdr).index(f) for f in src]
                    cells.append(AGGS[an]([getv(vidx, r) for r in rows]))
                out.append((tuple(keycells(idx, k)) if mkey is not None else ()) + tuple(cells))
            return out
        jobs.append(('aggregate:multi', line, lambda T=T, mkey=mkey, aggarg=aggarg, bs=bs: etl.aggregate(T, mkey, aggarg, buffersize=bs),
                     moracle, dict(base, key=repr(mkey), aggregation=repr(aggarg)), nt))
        # --- groupselect*
        for which in ('first', 'last', 'min', 'max'):
            fn = getattr(etl, 'groupselect' + which)
            if which in ('first', 'last'):
                line = 'gsel %s %s KN %s %s' % (which, kt, bt, ttok)
                thunk = lambda T=T, key=key, fn=fn, bs=bs: fn(T, key, buffersize=bs)
            else:
                line = 'gsel %s %s %s %s %s' % (which, kt, util.enc_key(vf), bt, ttok)
                thunk = lambda T=T, key=key, fn=fn, vf=vf, bs=bs: fn(T, key, vf, buffersize=bs)
            def soracle(T=T, key=key, which=which, vf=vf):
                from petl.comparison import Comparable
                idx, gs = ref_groups(T, key)
                vi = list(T[0]).index(vf)
                out = [tuple(T[0])]
                for k, rows in gs:
                    if which == 'first':
                        out.append(rows[0])
                    elif which == 'last':
                        out.append(rows[-1])
                    else:
                        cv = lambda r: Comparable(r[vi] if vi < len(r) else None)
                        best = rows[0]
                        for r in rows[1:]:
                            if (which == 'min' and cv(r) < cv(best)) or (which == 'max' and cv(r) > cv(best)):
                                best = r
                        out.append(best)
                return out
            jobs.append(('groupselect' + which, line, thunk, soracle, dict(base, value=vf), nt))
        # --- fold
        line = 'foldadd %s %s %s %s' % (kt, util.enc_key(vf), bt, ttok)
        def foracle(T=T, key=key, vf=vf):
            idx, gs = ref_groups(T, key)
            vi = list(T[0]).index(vf)
            return [('key', 'value')] + [(k, functools.reduce(operator.add, [r[vi] for r in rows])) for k, rows in gs]
        jobs.append(('fold', line, lambda T=T, key=key, vf=vf, bs=bs: etl.fold(T, key, operator.add, vf, buffersize=bs), foracle,
                     dict(base, value=vf), nt))
        # --- mergeduplicates (key by name)
        if not isinstance(key, int):
            missing = rng.choice([None, None, 0])
            mk = key
            line = 'mergedup %s %s %s %s' % (util.enc_key(mk), proto.enc(missing), bt, ttok)
            jobs.append(('mergeduplicates', line, lambda T=T, mk=mk, missing=missing, bs=bs: etl.mergeduplicates(T, mk, missing=missing, buffersize=bs),
                         None, dict(base, missing=repr(missing)), nt))
        # --- rowreduce / rowgroupmap / groupcountdistinctvalues: reference only
        def rroracle(T=T, key=key):
            idx, gs = ref_groups(T, key)
            return [('k', 'n')] + [(k, len(rows)) for k, rows in gs]
        jobs.append(('rowreduce', None, lambda T=T, key=key, bs=bs: etl.rowreduce(T, key, lambda k, rows: [k, len(list(rows))], header=['k', 'n'], buffersize=bs),
                     rroracle, base, nt))
        def rgoracle(T=T, key=key):
            idx, gs = ref_groups(T, key)
            return [('k', 'i', 'row')] + [(k, i, r) for k, rows in gs for i, r in enumerate(rows)]
        jobs.append(('rowgroupmap', None, lambda T=T, key=key, bs=bs: etl.rowgroupmap(T, key, lambda k, rows: ((k, i, tuple(r)) for i, r in enumerate(rows)), header=['k', 'i', 'row'], buffersize=bs),
                     rgoracle, base, nt))
        # --- key-less simple aggregate: one group made of all the rows
        for an in ('len', 'list'):
            value = rng.choice([None, vf])
            def koracle(T=T, value=value, an=an):
                vidx = None if value is None else asindices(T[0], value)
                return [('value',), (AGGS[an]([getv(vidx, tuple(r)) for r in T[1:]]),)]
            jobs.append(('aggregate:keyless-' + an, 'agg KN %s %s %s - %s' % (util.enc_key(value), an, proto.enc('value'), ttok),
                         lambda T=T, value=value, an=an: etl.aggregate(T, None, AGGS[an], value),
                         koracle, dict(base, key='None', agg=an, value=repr(value)), len(T) > 2))
        # --- groupcountdistinctvalues: per key group, the number of distinct values of the value field
        gv = vf if rng.random() < 0.7 else hdr.index(vf)
        def goracle(T=T, key=key, gv=gv):
            idx, gs = ref_groups(T, key)
            vidx = asindices(T[0], gv)
            out = []
            for k, rows in gs:
                seen = []
                for r in rows:
                    v = getv(vidx, r)
                    if not any(v == x for x in seen):
                        seen.append(v)
                out.append(tuple(canon(c) for c in keycells(idx, k)) + (len(seen),))
            return out
        def gthunk(T=T, key=key, gv=gv):
            # data rows (the header names positional keys by position)
            return list(etl.groupcountdistinctvalues(T, key, gv))[1:]
        # (not over the list/tuple twins: `distinct` tells [2] from (2,) by raw ==, the sort does not — outside what C09 fixes)
        if all(len(r) == len(hdr) for r in T[1:]) and not any(isinstance(c, list) for r in T[1:] for c in r):
            jobs.append(('groupcountdistinctvalues', 'gcdv %s %s %s %s' % (kt, util.enc_key(gv), '-', ttok), gthunk, goracle, dict(base, value=repr(gv)), nt))
    # conservation laws on valuecounts / valuecounter (Counter oracle)
    lines = [j[1] for j in jobs if j[1] is not None]
    model = iter(lean.run_driver(lines))
    for (name, line, thunk, oracle, case, nt) in jobs:
        spec = next(model) if line is not None else None
        real = util.run_show(thunk)
        ctx.case((name, line or repr(case)) if nt else None,
                 sample=dict(case, op=name, out=real) if len(ctx.samples) < 6 and nt and name.startswith(('aggregate:m', 'groupselectmin', 'merged')) else None)
        ctx.count('op:' + name)
        c2 = dict(case, op=name, real=real, spec=spec)
        if spec is not None and spec.startswith(('PARSE', 'BADOP', 'ERR unsupported')):
            ctx.corr_fail(name, 'driver: ' + spec, c2)
            spec = None
        if name == 'mergeduplicates' and spec is not None:
            # Conflict is a frozenset: compare its members order-insensitively
            real_c = util.run_show(lambda: [tuple(sorted(c, key=repr) if isinstance(c, frozenset) else c for c in r) for r in thunk()])
            def canon(line):
                if ' ERR ' in line:
                    return line
                t = proto.parse_table(line)
                return [tuple((' '.join(sorted(c.split()[1:])) if c.startswith(('L', 'U')) and ' ' in c else c) for c in r) for r in t]
            ctx.exact(canon(real_c) == canon(spec), c2)
            if canon(real_c) != canon(spec):
                ctx.spec_fail('mergeduplicates|differs', 'mergeduplicates does not merge each key group as documented', dict(c2, real=real_c))
            continue
        if spec is not None:
            ctx.exact(real == spec, c2)
        if spec is not None and real == spec:
            continue
        if name == 'groupcountdistinctvalues':
            # the reference grouping does not say which of several equal key values stands for a group
            real = util.run_show(lambda: [tuple(canon(c) for c in r) for r in thunk()])
        # reference grouping decides
        ref = None
        if oracle is not None:
            try:
                ref = util.show_out([tuple(r) for r in oracle()])
            except Exception as e:   # noqa
                ref = None
        if ref is not None and real != ref:
            kind = 'raises' if ' ERR ' in real else 'wrong-groups'
            ctx.spec_fail('%s|%s' % (name.split(':')[0] if kind == 'raises' else name, kind),
                          '%s differs from the reference grouping (one group per distinct key, ascending, rows in input order)' % name,
                          dict(c2, reference=ref))
        elif spec is not None and real != spec:
            if ref is None:
                # the reference does not apply (e.g. an error case): model and code must still agree
                ctx.corr_fail(name, 'real differs from model and no reference applies', c2)
            else:
                ctx.corr_fail(name, 'real agrees with the reference grouping but differs from the model', c2)
    # ---- counts add up (valuecounts / valuecounter / nrows / groupcountdistinctvalues)
    for ci in range(n // 3):
        hdr = gen.header(rng, n=rng.choice([1, 2, 3]))
        T = gen.table(rng, hdr, default_pool=gen.SCALAR_KEYS, maxn=8, ragged=0.15)
        f = rng.choice(hdr)
        try:
            vc = etl.valuecounter(T, f)
            tot = sum(vc.values())
            exp = Counter((r[hdr.index(f)] if hdr.index(f) < len(r) else None) for r in T[1:])
            vt = list(etl.valuecounts(T, f))
            ok = (tot == len(T) - 1) and vc == exp and sum(r[1] for r in vt[1:]) == len(T) - 1 and etl.nrows(T) == len(T) - 1
        except Exception as e:   # noqa
            ok = False
        ctx.case(('vc', repr(T), f) if len(T) > 2 else None)
        ctx.count('op:valuecounts')
        if not ok:
            ctx.spec_fail('valuecounts|sum', 'valuecounter/valuecounts do not add up to nrows', {'table': repr(T), 'field': f})
    # groups stay in input order when the sort behind the grouping spills into hundreds of chunks
    keys = [None, 1, 2, 'a', 2.5]
    for n, bs in ((400, 3), (300, 1)):
        rows = [[rng.choice(keys), i] for i in range(n)]
        T = [['k', 'i']] + rows
        for name, call in (('aggregate(list)', lambda **kw: etl.aggregate(T, 'k', list, 'i', **kw)),
                           ('aggregate(multi)', lambda **kw: etl.aggregate(T, 'k', OrderedDict([('n', len), ('is', ('i', list))]), **kw)),
                           ('rowreduce', lambda **kw: etl.rowreduce(T, 'k', lambda k, g: [k, [r[1] for r in g]], header=['k', 'is'], **kw)),
                           ('groupselectlast', lambda **kw: etl.groupselectlast(T, 'k', **kw))):
            try:
                a, b = list(call()), list(call(buffersize=bs))
            except Exception as e:   # noqa
                a, b = 'default', 'ERR ' + type(e).__name__
            ctx.case((name, 'many-chunks', n, bs))
            ctx.count('many-chunks')
            if a != b:
                ctx.spec_fail('%s|many-chunks' % name, '%s over %d rows with buffersize=%d differs from the default call (groups not in input order)' % (name, n, bs),
                              {'op': name, 'nrows': n, 'buffersize': bs})

    # ---- operands that are sort views (also by a field whose name merely starts with the key's name)
    util.view_operand_cases(etl, rng, ctx, [
        ('aggregate(len)', 1, lambda t: etl.aggregate(t, 'x', len)), ('aggregate(list)', 1, lambda t: etl.aggregate(t, 'x', list, 'v')),
        ('aggregate(multi)', 1, lambda t: etl.aggregate(t, 'x', OrderedDict([('n', len), ('vs', ('v', list))]))),
        ('aggregate(compound)', 1, lambda t: etl.aggregate(t, ('x', 'xy'), len)),
        ('groupselectmin', 1, lambda t: etl.groupselectmin(t, 'x', 'xy')), ('groupselectmax', 1, lambda t: etl.groupselectmax(t, 'x', 'v')),
        ('groupselectfirst', 1, lambda t: etl.groupselectfirst(t, 'x')), ('groupselectlast', 1, lambda t: etl.groupselectlast(t, 'x')),
        ('rowreduce', 1, lambda t: etl.rowreduce(t, 'x', lambda k, g: [k, len(list(g))], header=['x', 'n'])),
        ('fold', 1, lambda t: etl.fold(t, 'x', lambda a, b: a + b, 'v')), ('mergeduplicates', 1, lambda t: etl.mergeduplicates(t, 'x')),
        ('groupcountdistinctvalues', 1, lambda t: etl.groupcountdistinctvalues(t, 'x', 'v')),
    ], 480 if ctx.thorough() else 120)
    # ---- a multi-field aggregation view configured (and re-configured) through item assignment: every pass applies the functions
    # it has at that moment; table containers whose len() is not rows + 1 (only __iter__ is part of the table convention)
    class _Records(object):
        def __init__(self, rows):
            self.rows = rows
        def __iter__(self):
            return iter(self.rows)
        def __len__(self):
            return len(self.rows) - 1 if len(self.rows) > 2 else 7       # "number of records", or anything else
    for ci in range(80 if ctx.thorough() else 20):
        T = [['k', 'v']] + [[rng.choice([1, 2, 3]), rng.choice([0, 1, 5, 7])] for _ in range(rng.choice([1, 2, 4, 6]))]
        idx, gs = ref_groups(T, 'k')
        ref = lambda f: [('k', 'x')] + [(k, f([r[1] for r in rows])) for k, rows in gs]
        v = etl.aggregate(T, 'k')
        v['x'] = 'v', min
        p1 = [tuple(r) for r in v]
        v['x'] = 'v', max
        p2 = [tuple(r) for r in v]
        v['x'] = ('v', sum)
        p3 = [tuple(r) for r in v]
        ctx.case(('multiaggregate-reconfigured', repr(T)))
        ctx.count('op:aggregate[item assignment]')
        if p1 != ref(min) or p2 != ref(max) or p3 != ref(sum):
            ctx.spec_fail('aggregate|item-assignment|stale', 'a multi-field aggregation view whose aggregator was replaced by item assignment does not apply the current function',
                          {'table': repr(T), 'pass with min': repr(p1), 'pass with max': repr(p2), 'pass with sum': repr(p3)})
        R = _Records(T)
        n = len(T) - 1
        try:
            got = (list(etl.aggregate(R, None, len)), etl.nrows(R), sum(c for _, c in etl.valuecounter(R, 'k').items()),
                   sum(r[1] for r in list(etl.aggregate(R, 'k', len))[1:]))
        except Exception as e:   # noqa
            got = repr(e)
        ctx.case(('sized-container', repr(T)))
        ctx.count('sized-container')
        if got != ([('value',), (n,)], n, n, n):
            ctx.spec_fail('aggregate|sized-container', 'row counts over a table container with its own __len__ do not add up to the number of data rows',
                          {'table': repr(T), 'len(container)': len(R), '(aggregate(None, len), nrows, valuecounter total, group counts total)': repr(got), 'nrows': n})

    # ---- a view built after the table was edited in place describes the edited table, whatever views of it existed before
    for ci in range(60 if ctx.thorough() else 20):
        T = [['k', 'v']] + [[rng.choice([1, 2, 3]), rng.choice([0, 1, 5])] for _ in range(rng.choice([1, 2, 4]))]
        ops = [('aggregate', lambda t: etl.aggregate(t, 'k', len)), ('fold', lambda t: etl.fold(t, 'k', lambda a, b: a + b, 'v')),
               ('rowreduce', lambda t: etl.rowreduce(t, 'k', lambda k, g: [k, len(list(g))], header=['k', 'n'])), ('groupselectfirst', lambda t: etl.groupselectfirst(t, 'k')),
               ('mergeduplicates', lambda t: etl.mergeduplicates(t, 'k')), ('sort', lambda t: etl.sort(t, 'k')), ('distinct', lambda t: etl.distinct(t, 'k'))]
        n1, f1 = rng.choice(ops)
        n2, f2 = rng.choice(ops)
        old_view = f1(T)
        list(old_view)
        T.append([rng.choice([1, 4]), 9])
        got = util.run_show(lambda: f2(T))
        want = util.run_show(lambda: f2([list(r) for r in T]))
        ctx.case(('view-after-edit', n1, n2, repr(T)))
        ctx.count('view-after-edit')
        if got != want:
            ctx.spec_fail('%s|stale-table' % n2, '%s built over a table that was edited after an earlier view (%s) had been read does not see the edit' % (n2, n1),
                          {'table now': repr(T), 'earlier view': n1, 'new view': n2, 'real': got, 'want': want})
        del old_view

    # ---- merge(): `missing` fills the fields a table does not have, and is not a value that can conflict
    for ci in range(80 if ctx.thorough() else 24):
        A = [['k', 'a']] + [[rng.choice([1, 2, 3]), rng.choice(['x', 'y'])] for _ in range(rng.choice([1, 2, 3]))]
        B = [['k', 'b']] + [[rng.choice([1, 2, 4]), rng.choice(['p', 'q'])] for _ in range(rng.choice([1, 2, 3]))]
        m = rng.choice(['NA', 0, ''])
        with_m = util.run_show(lambda: etl.merge(A, B, key='k', missing=m))
        plain = list(etl.merge(A, B, key='k'))
        want = util.show_out([tuple((m if c is None else c) for c in r) for r in plain])
        ctx.case(('merge(missing)', repr(A), repr(B), repr(m)))
        ctx.count('op:merge(missing)')
        if with_m != want.replace('N ', 'N ') and 'Conflict' not in repr(plain):
            ctx.spec_fail('merge|missing', 'merge(missing=...) is not merge() with the absent cells filled by that value',
                          {'a': repr(A), 'b': repr(B), 'missing': repr(m), 'real': with_m, 'want': want})

    util.positional_call_cases(etl, rng, ctx, ['mergeduplicates'], 120 if ctx.thorough() else 36, 1)

def replay(d):
    print('replay case:', d.get('case'))
    return 0
