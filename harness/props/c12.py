"""C12 — row- and field-level transforms touch only what they are asked to."""
from collections import OrderedDict
import collections
from .. import lean, proto, gen, util

REQUIRED = ['Petl.C12.' + n for n in (
    'transforms_one_row_per_row cut_cells cut_cutout_cover stack_pads_trims annex_pads addfield_frame addrownumbers_frame '
    'movefield_is_a_permutation movefield_cells addcolumn_frame convert_frame header_functions_keep_data filldown_frame fillright_frame accessors_pad '
    'rename_pointwise asindices_index_priority asindices_names_left_to_right pyInsert_spec cat_aligns_by_name').split()]

CELLS = [None, 1, 2, 2.5, 'a', 'b', '', True, (1, 'a'), b'x', 'NA', -999, 0]


def fv_pair(rng, w):
    """a field value both as protocol tokens and as the Python argument"""
    r = rng.random()
    if r < 0.5:
        v = rng.choice(CELLS)
        return 'c ' + proto.enc(v), v
    if r < 0.75:
        return 'len', (lambda row: len(row))
    i = rng.randrange(max(w, 1))
    return 'cell %d' % i, (lambda row, i=i: [row[i]])


def spec_sel(rng, hdr, k=None):
    """field selection by name / index / mixed; duplicates of a name are referred to by repeating it"""
    w = len(hdr)
    k = k or rng.choice([1, 1, 2, min(3, w)])
    js = [rng.randrange(w) for _ in range(k)] if rng.random() < 0.3 else rng.sample(range(w), min(k, w))
    out = []
    for j in js:
        out.append(j if rng.random() < 0.4 else hdr[j])
    return out


def run(ctx):
    import petl as etl
    ctx.rule = ('tables with 1-4 fields (20% with a duplicated field name), 0-6 rows, ragged rows (short, long, empty), cells from a '
                'mixed pool; for each of cut, cutout, movefield, cat, stack (trim/pad), annex, addfield, addfields, addcolumn, '
                'addrownumbers, rename, setheader, extendheader, pushheader, prefixheader, suffixheader, sortheader, skip, filldown, '
                'fillright, fillleft, values, data, dicts, records, namedtuples, columns: argument forms incl. selection by name / '
                'index / mixed, repeated names, negative and out-of-range insertion indices; real vs model (exact). '
                'Non-trivial: at least 2 data rows.')
    ctx.assumptions += ['header cells are text; str() of header cells; Python list.insert / sorted / zip_longest semantics']
    from translators import argforms as _af
    try:
        _info = _af.generate()
        ctx.bridge('translator: truthiness tests on selection-like arguments in %d functions (%d sites)' % (_info['functions'], len(_info['sites'])), True)
    except Exception as e:   # noqa
        ctx.bridge('translator: argument-form sites extracted', False, repr(e))
    from translators import fingerprints as _fp
    try:
        _fpi = _fp.generate()
        ctx.bridge('translator: fingerprints of the petl functions the hand-written models mirror (%d bodies)' % _fpi['names'], True)
    except Exception as e:   # noqa
        ctx.bridge('translator: source fingerprints extracted', False, repr(e))
    ctx.prove(['PetlProofs.Props.C12', 'PetlProofs.Props.ArgForms', 'PetlProofs.Snapshot.C12'], REQUIRED + ['Petl.ArgForms.selection_arguments_not_tested_by_truthiness', 'Petl.ArgForms.selection_arguments_not_compared_by_identity'] + ['Petl.Snapshot.C12_sources_as_validated'])
    rng = ctx.rng
    n = 1200 if ctx.thorough() else 200
    jobs = []

    def add(name, line, thunk, case, nt):
        jobs.append((name, line, thunk, case, nt))
    for ci in range(n):
        hdr = gen.header(rng, dup=0.2)
        T = gen.table(rng, hdr, default_pool=CELLS, maxn=6, ragged=0.35)
        if rng.random() < 0.3:
            T.insert(rng.randrange(1, len(T) + 1), [])
        w = len(hdr)
        tt = proto.enc_table(T)
        nt = len(T) > 2
        base = {'table': repr(T)}
        m = gen.fresh(rng.choice([None, None, 'NA', 0, -999]))
        me = proto.enc(m)
        # cut / cutout
        sp = spec_sel(rng, hdr)
        add('cut', 'xf cut %s %s %s' % (util.enc_key(sp), me, tt), lambda T=T, sp=sp, m=m: etl.cut(T, *sp, missing=m), dict(base, spec=repr(sp), missing=repr(m)), nt)
        sp = spec_sel(rng, hdr)
        add('cutout', 'xf cutout %s %s %s' % (util.enc_key(sp), me, tt), lambda T=T, sp=sp, m=m: etl.cutout(T, *sp, missing=m), dict(base, spec=repr(sp), missing=repr(m)), nt)
        # cat / stack / annex with a second table
        hdr2 = gen.header(rng, names=hdr + ['zz', 'yy'], n=rng.choice([1, 2, 3]))
        T2 = gen.table(rng, hdr2, default_pool=CELLS, maxn=4, ragged=0.3)
        tt2 = proto.enc_table(T2)
        if len(set(hdr)) == len(hdr) and len(set(hdr2)) == len(hdr2):
            add('cat', 'xf cat %s - 2 %s %s' % (me, tt, tt2), lambda T=T, T2=T2, m=m: etl.cat(T, T2, missing=m), dict(base, table2=repr(T2), missing=repr(m)), nt)
            oh = rng.sample(hdr + ['qq'], rng.choice([1, 2]))
            add('cat(header)', 'xf cat %s %s 2 %s %s' % (me, proto.enc_row(oh), tt, tt2), lambda T=T, T2=T2, m=m, oh=oh: etl.cat(T, T2, missing=m, header=oh), dict(base, table2=repr(T2), header=repr(oh)), nt)
        trim, pad = rng.random() < 0.7, rng.random() < 0.7
        add('stack', 'xf stack %s %s %s 2 %s %s' % (me, proto.enc_bool(trim), proto.enc_bool(pad), tt, tt2),
            lambda T=T, T2=T2, m=m, trim=trim, pad=pad: etl.stack(T, T2, missing=m, trim=trim, pad=pad), dict(base, table2=repr(T2), trim=trim, pad=pad), nt)
        add('annex', 'xf annex %s 2 %s %s' % (me, tt, tt2), lambda T=T, T2=T2, m=m: etl.annex(T, T2, missing=m), dict(base, table2=repr(T2), missing=repr(m)), nt)
        # addfield / addfields / addcolumn / addrownumbers
        idx = rng.choice([None, None, 0, 1, w, w + 3, -1, -2, -(w + 2)])
        ft, fa = fv_pair(rng, w)
        fname = rng.choice(['new', hdr[0]])
        add('addfield', 'xf addfield %s %s %s %s %s' % (proto.enc(fname), ft, proto.enc_opt(idx), me, tt),
            lambda T=T, fname=fname, fa=fa, idx=idx, m=m: etl.addfield(T, fname, fa, index=idx, missing=m), dict(base, field=fname, value=ft, index=idx, missing=repr(m)), nt)
        defs, dline = [], []
        for k in range(rng.choice([1, 2, 3])):
            ft2, fa2 = fv_pair(rng, w)
            i2 = rng.choice([None, 0, 1, -1, w + 5])
            defs.append(('n%d' % k, fa2) if i2 is None else ('n%d' % k, fa2, i2))
            dline.append('%s %s %s' % (proto.enc('n%d' % k), ft2, proto.enc_opt(i2)))
        add('addfields', 'xf addfields %d %s %s %s' % (len(defs), ' '.join(dline), me, tt), lambda T=T, defs=defs, m=m: etl.addfields(T, defs, missing=m), dict(base, defs=repr(dline)), nt)
        col = [rng.choice(CELLS) for _ in range(rng.choice([0, len(T) - 1, len(T) - 1, len(T) + 1, max(0, len(T) - 2)]))]
        if m is not None or not any(r == [] and False for r in T):
            add('addcolumn', 'xf addcolumn %s %s %s %s %s' % (proto.enc('col'), proto.enc(tuple(col)), proto.enc_opt(idx), me, tt),
                lambda T=T, col=col, idx=idx, m=m: etl.addcolumn(T, 'col', col, index=idx, missing=m), dict(base, col=repr(col), index=idx, missing=repr(m)), nt)
        st, sp_ = rng.choice([1, 0, 5, -2]), rng.choice([1, 2, -1])
        add('addrownumbers', 'xf addrownumbers %d %d %s %s' % (st, sp_, proto.enc('row'), tt), lambda T=T, st=st, sp_=sp_: etl.addrownumbers(T, st, sp_), dict(base, start=st, step=sp_), nt)
        # convert and its convenience forms: only the addressed field changes (first field of that name)
        cj = rng.randrange(w)
        cname = hdr[cj] if rng.random() < 0.7 else cj
        cidx = hdr.index(cname) if isinstance(cname, str) else cname
        fs = tuple(rng.sample(CELLS, 2))
        def conv(v, fs=fs):
            if any(x == v for x in fs):
                raise ValueError('boom')
            return [v]
        cline = 'convert s %s 1 %d Value %s %s' % (proto.enc('EV'), cidx, proto.enc(fs), tt)
        add('convert', cline, lambda T=T, cname=cname, conv=conv: etl.convert(T, cname, conv, errorvalue='EV', failonerror=False), dict(base, field=repr(cname), failing=repr(fs)), nt)
        add('convert(dict)', cline, lambda T=T, cname=cname, conv=conv: etl.convert(T, {cname: conv}, errorvalue='EV', failonerror=False), dict(base, field=repr(cname), failing=repr(fs)), nt)
        # headers
        newh = [rng.choice(['p', 'q', 'r', 's']) for _ in range(rng.choice([1, w, w + 1]))]
        add('setheader', 'xf setheader %s %s' % (proto.enc_row(newh), tt), lambda T=T, newh=newh: etl.setheader(T, newh), dict(base, header=repr(newh)), nt)
        add('extendheader', 'xf extendheader %s %s' % (proto.enc_row(newh), tt), lambda T=T, newh=newh: etl.extendheader(T, newh), dict(base, fields=repr(newh)), nt)
        add('pushheader', 'xf pushheader %s %s' % (proto.enc_row(newh), tt), lambda T=T, newh=newh: etl.pushheader(T, newh), dict(base, header=repr(newh)), nt)
        add('prefixheader', 'xf prefixheader %s %s' % (proto.enc('pre_'), tt), lambda T=T: etl.prefixheader(T, 'pre_'), base, nt)
        add('suffixheader', 'xf suffixheader %s %s' % (proto.enc('_suf'), tt), lambda T=T: etl.suffixheader(T, '_suf'), base, nt)
        if len(set(hdr)) == len(hdr):
            rs = OrderedDict()
            for j in rng.sample(range(w), rng.choice([1, min(2, w)])):
                rs[hdr[j] if rng.random() < 0.6 else j] = 'R%d' % j
            if rng.random() < 0.15:
                rs['nosuch'] = 'X'
            strict = rng.random() < 0.7
            add('rename', 'xf rename %s %s %s' % (proto.enc_bool(strict), proto.enc_list(list(rs.items()), lambda kv: '%s %s' % (util.enc_fspec(kv[0]), proto.enc(kv[1]))), tt),
                lambda T=T, rs=rs, strict=strict: etl.rename(T, rs, strict=strict), dict(base, spec=repr(dict(rs)), strict=strict), nt)
            rv = rng.random() < 0.5
            add('sortheader', 'xf sortheader %s %s %s' % (proto.enc_bool(rv), me, tt), lambda T=T, m=m, rv=rv: etl.sortheader(T, reverse=rv, missing=m),
                dict(base, missing=repr(m), reverse=rv), nt)
        # movefield, also over duplicate field names: only the first field of that name moves, no column is lost
        mf = rng.choice(hdr)
        mi = rng.choice([0, 1, w - 1, w, -1])
        add('movefield', 'xf movefield %s %d N %s' % (proto.enc(mf), mi, tt), lambda T=T, mf=mf, mi=mi: etl.movefield(T, mf, mi), dict(base, field=mf, index=mi), nt)
        k = rng.choice([0, 1, 2, len(T), len(T) + 1])
        add('skip', 'skip %d %s' % (k, tt), lambda T=T, k=k: etl.skip(T, k), dict(base, n=k), nt)
        # fills (filldown needs rows as long as the filled fields)
        R = [T[0]] + [(list(r) + [None] * w)[:w] for r in T[1:]]
        rt = proto.enc_table(R)
        ff = None if rng.random() < 0.5 else [hdr[j] for j in rng.sample(range(w), rng.choice([1, min(2, w)]))]
        if len(set(hdr)) == len(hdr):
            add('filldown', 'xf filldown %s %s %s' % (util.enc_key(ff), me, rt), lambda R=R, ff=ff, m=m: etl.filldown(R, *(ff or []), missing=m), dict(table=repr(R), fields=repr(ff), missing=repr(m)), nt)
        add('fillright', 'xf fillright %s %s' % (me, tt), lambda T=T, m=m: etl.fillright(T, missing=m), dict(base, missing=repr(m)), nt)
        add('fillleft', 'xf fillleft %s %s' % (me, tt), lambda T=T, m=m: etl.fillleft(T, missing=m), dict(base, missing=repr(m)), nt)
        # accessors
        sp = spec_sel(rng, hdr, k=rng.choice([1, 1, 2]))
        add('values', 'xf values %s %s %s' % (util.enc_key(sp), me, tt), lambda T=T, sp=sp, m=m: [(v,) for v in etl.values(T, *sp, missing=m)], dict(base, spec=repr(sp), missing=repr(m)), nt)
        add('data', 'skip 1 %s' % tt, lambda T=T: etl.data(T), base, nt)
        add('records', 'xf records %s %s' % (me, tt), lambda T=T, m=m, w=w: [tuple(rec[i] for i in range(w)) for rec in etl.records(T, missing=m)], dict(base, missing=repr(m)), nt)
        if len(set(hdr)) == len(hdr):
            add('dicts', 'xf records %s %s' % (me, tt), lambda T=T, m=m, hdr=hdr: [tuple(d[f] for f in hdr) for d in etl.dicts(T, missing=m)], dict(base, missing=repr(m)), nt)
            add('namedtuples', 'xf records %s %s' % (me, tt), lambda T=T, m=m: [tuple(t) for t in etl.namedtuples(T, missing=m)], dict(base, missing=repr(m)), nt)
            add('columns', 'xf columns %s %s' % (me, tt), lambda T=T, m=m, hdr=hdr: [tuple(etl.columns(T, missing=m)[f]) for f in hdr], dict(base, missing=repr(m)), nt)
    model = lean.run_driver([j[1] for j in jobs])
    for (name, line, thunk, case, nt), spec in zip(jobs, model):
        real = util.run_show(thunk)
        ctx.case((name, line) if nt else None, sample=dict(case, op=name, out=real) if len(ctx.samples) < 8 and nt and ctx.evaluations % 53 == 0 else None)
        ctx.count('op:' + name)
        c2 = dict(case, op=name, real=real, spec=spec)
        if spec.startswith(('PARSE', 'BADOP')):
            ctx.corr_fail(name, 'driver: ' + spec, c2)
            continue
        if real.startswith('UNENC'):
            continue
        ctx.exact(real == spec, c2)
        if real != spec:
            kind = 'raises' if ' ERR ' in real and ' ERR ' not in spec else ('should-raise' if ' ERR ' in spec and ' ERR ' not in real else 'wrong-cells')
            ctx.spec_fail('%s|%s' % (name, kind), '%s does not produce the documented rows/cells' % name, c2)
    # ---- views configured through item assignment (rename(t)['a'] = 'b', convert(t)['f'] = fn): what one view was asked to do
    # must not leak into another view of the same kind
    for ci in range(40 if ctx.thorough() else 10):
        T1 = gen.table(rng, ['a', 'b'], default_pool=CELLS, maxn=4, ragged=0.0, n=rng.choice([1, 2, 3]))
        T2 = gen.table(rng, ['b', 'c'], default_pool=CELLS, maxn=4, ragged=0.0, n=rng.choice([1, 2, 3]))
        v1 = etl.rename(T1)
        v1['a'] = 'x'
        v2 = etl.rename(T2)
        o1, o2 = util.run_show(lambda: v1), util.run_show(lambda: v2)
        w1 = util.show_out([tuple(['x', 'b'])] + [tuple(r) for r in T1[1:]])
        w2 = util.show_out([tuple(r) for r in T2])
        ctx.case(('rename[]', repr(T1), repr(T2)))
        ctx.count('op:item-assignment')
        if o1 != w1 or o2 != w2:
            ctx.spec_fail('rename|item-assignment', 'rename(t)[old] = new: the view, or a second rename view created afterwards, is not what was asked for',
                          {'table1': repr(T1), 'table2': repr(T2), 'view1': o1, 'view2': o2, 'want1': w1, 'want2': w2})
        c1 = etl.convert(T1)
        c1['a'] = lambda v: 'X'
        c2 = etl.convert(T2)
        c3 = etl.convert(T2, 'b', lambda v: 'Y')
        o1, o2, o3 = util.run_show(lambda: c1), util.run_show(lambda: c2), util.run_show(lambda: c3)
        w1 = util.show_out([tuple(T1[0])] + [('X',) + tuple(r[1:]) for r in T1[1:]])
        w3 = util.show_out([tuple(T2[0])] + [('Y',) + tuple(r[1:]) for r in T2[1:]])
        ctx.case(('convert[]', repr(T1), repr(T2)))
        ctx.count('op:item-assignment')
        if o1 != w1 or o2 != w2 or o3 != w3:
            ctx.spec_fail('convert|item-assignment', 'convert(t)[field] = fn: the view, or another convert view created afterwards, is not what was asked for',
                          {'table1': repr(T1), 'table2': repr(T2), 'view1': o1, 'view2': o2, 'view3': o3})

    # ---- rows handed on by convert(..., where=...) are plain rows: the next operator pads them with ITS `missing`
    for ci in range(120 if ctx.thorough() else 30):
        hdr = ['a', 'b', 'c'][:rng.choice([2, 3])]
        T = gen.table(rng, hdr, default_pool=['x', 'y', 1, None], maxn=5, ragged=0.5)
        sel = rng.choice([lambda r: False, lambda r: True, lambda r: len(r) > 1 and r[0] == 'x'])
        v = etl.convert(T, 'a', lambda c: 'C', where=sel)
        plain = [tuple(r) for r in v]
        for name, f in (('cut', lambda t: etl.cut(t, *reversed(hdr), missing='M')), ('cat', lambda t: etl.cat(t, missing='M')),
                        ('cutout', lambda t: etl.cutout(t, 'a', missing='M')), ('movefield', lambda t: etl.movefield(t, 'a', 1, missing='M'))):
            try:
                got, want = util.run_show(lambda: f(v)), util.run_show(lambda: f(plain))
            except TypeError:
                continue
            ctx.case(('convert-where-then', name, repr(T)))
            ctx.count('op:convert(where)-then-' + name)
            if got != want or any(type(r) is not tuple for r in v):
                ctx.spec_fail('convert|where|rows-handed-on', 'rows that convert(where=...) leaves alone are not handed on as plain rows: '
                              'the next operator does not pad them with its own `missing`',
                              {'table': repr(T), 'then': name, 'real': got, 'want': want, 'row types': sorted({type(r).__name__ for r in v})})
    # ---- sub(): every form of pattern and replacement is re.sub applied to the one field
    import re as _re
    for ci in range(120 if ctx.thorough() else 30):
        T = [['a', 'b']] + [[rng.choice(['xax', 'aa', 'b.b', 'a\\b', '', 'AbA']), rng.choice(['a', 'z'])] for _ in range(rng.choice([1, 2, 4]))]
        pat = rng.choice(['a', 'b', '.', 'a+', '(a)(x)?', 'A', '\\\\'])
        repl = rng.choice(['Z', '', r'\g<0>\g<0>', r'[\g<0>]', r'\\', r'\n', 'a', lambda m: m.group(0).upper()] + ([r'<\1>'] if '(' in pat else []))
        count = rng.choice([0, 0, 1])
        flags = rng.choice([0, 0, _re.I])
        try:
            want = util.show_out([('a', 'b')] + [(_re.sub(pat, repl, r[0], count=count, flags=flags), r[1]) for r in T[1:]])
        except Exception:   # noqa
            continue
        got = util.run_show(lambda: etl.sub(T, 'a', pat, repl, count=count, flags=flags))
        ctx.case(('sub', repr(T), pat, repr(repl), count, flags))
        ctx.count('op:sub')
        if got != want:
            ctx.spec_fail('sub|wrong-cells', 'sub does not apply re.sub(pattern, repl) to the cells of the field (and to nothing else)',
                          {'table': repr(T), 'pattern': pat, 'repl': repr(repl), 'count': count, 'flags': int(flags), 'real': got, 'want': want})
    # ---- the *all forms touch every field, also fields that share a name
    for ci in range(60 if ctx.thorough() else 20):
        hdr = rng.choice([['foo', 'foo', 'bar'], ['a', 'b', 'a'], ['x', 'x'], ['p', 'q', 'r']])
        T = [hdr] + [[rng.choice(['a', 'b', 'c']) for _ in hdr] for _ in range(rng.choice([1, 2, 3]))]
        for name, call, f in (('convertall', lambda: etl.convertall(T, 'upper'), lambda v: v.upper()),
                              ('replaceall', lambda: etl.replaceall(T, 'b', 'X'), lambda v: 'X' if v == 'b' else v),
                              ('convertall(dict)', lambda: etl.convertall(T, {'a': 'A'}), lambda v: 'A' if v == 'a' else v)):
            got = util.run_show(call)
            want = util.show_out([tuple(hdr)] + [tuple(f(v) for v in r) for r in T[1:]])
            ctx.case((name, repr(T)))
            ctx.count('op:' + name.split('(')[0] + '(duplicate names)')
            if got != want:
                ctx.spec_fail('%s|duplicate-field-names' % name.split('(')[0], '%s does not convert every field of a table whose field names repeat' % name,
                              {'table': repr(T), 'real': got, 'want': want})
    # ---- rename: all entries of a spec refer to the header as it was (swaps and chains included), by dict and by item assignment
    for ci in range(60 if ctx.thorough() else 20):
        hdr = ['foo', 'bar', 'baz']
        T = [hdr] + [[1, 2, 3]]
        spec = rng.choice([{'foo': 'bar', 'bar': 'foo'}, {'foo': 'bar', 'bar': 'baz', 'baz': 'foo'}, {'foo': 'bar', 'bar': 'qux'}, {0: 'bar', 'bar': 'foo'},
                           {'bar': 'foo', 'foo': 'bar'}, {'baz': 'foo', 'foo': 'zap'}])
        want = tuple(spec.get(h, spec.get(i, h)) for i, h in enumerate(hdr))
        v1 = etl.rename(T, spec)
        v2 = etl.rename(T)
        for k_, n_ in spec.items():
            v2[k_] = n_
        for form, v in (('dict', v1), ('item assignment', v2)):
            got = util.run_show(lambda: v)
            exp = util.show_out([want, (1, 2, 3)])
            ctx.case(('rename-swap', form, repr(spec)))
            ctx.count('op:rename(swap/chain)')
            if got != exp:
                ctx.spec_fail('rename|swap-or-chain', 'rename with a spec whose new names are other entries\' old names does not rename every field from the original header',
                              {'header': repr(hdr), 'spec': repr(spec), 'form': form, 'real': got, 'want': exp})
    # ---- update(table, field, value): the value is stored as it is, whatever kind of object it is
    class _Callable(object):
        def __call__(self, *a):
            return 'CALLED'
        def __repr__(self):
            return '<callable object>'
    for ci in range(40 if ctx.thorough() else 12):
        T = [['a', 'b']] + [[rng.choice([1, 2, 'x']), rng.choice(['p', 'q'])] for _ in range(rng.choice([1, 2, 3]))]
        val = rng.choice([str, len, dict, _Callable(), (lambda r: 'CALLED'), 'plain', None, 0])
        where = rng.choice([None, None, (lambda r: r[0] == 1)])
        try:
            rows = [tuple(r) for r in (etl.update(T, 'b', val) if where is None else etl.update(T, 'b', val, where=where))]
            err = None
        except Exception as e:   # noqa
            rows, err = None, type(e).__name__
        want = [('a', 'b')] + [(r[0], val if (where is None or where(r)) else r[1]) for r in T[1:]]
        ctx.case(('update', repr(T), repr(val), where is not None))
        ctx.count('op:update(value)')
        if err is not None or len(rows) != len(want) or any(x[0] != y[0] or x[1] is not y[1] and x[1] != y[1] for x, y in zip(rows[1:], want[1:])):
            ctx.spec_fail('update|wrong-cells', 'update does not put the given value itself into the cells of the field',
                          {'table': repr(T), 'value': repr(val), 'where': where is not None, 'real': repr(rows), 'error': err})
    # ---- several converters in one call (dict and positional list), every converter form: each field gets its own converter
    FORMS = [('upper', lambda v: v.upper()), ('lower', lambda v: v.lower()), ('strip', lambda v: v.strip()),
             (('replace', 'a', 'Z'), lambda v: v.replace('a', 'Z')), (['ljust', 4, '.'], lambda v: v.ljust(4, '.')),
             ({'a': 'AA', ' b ': 'BB'}, lambda v: {'a': 'AA', ' b ': 'BB'}.get(v, v)), (len, len), (None, lambda v: v),
             # mappings that answer unknown keys themselves: a cell that is not a key is still carried over unchanged
             (collections.defaultdict(lambda: 'DEFAULT', {'a': 'AA'}), lambda v: {'a': 'AA'}.get(v, v)),
             (collections.Counter({'aa': 2}), lambda v: {'aa': 2}.get(v, v)),
             (collections.OrderedDict([('Ab', 'x')]), lambda v: {'Ab': 'x'}.get(v, v))]
    STR = ['a', 'Ab', ' b ', 'aa', 'Ba ']
    for ci in range(200 if ctx.thorough() else 40):
        w = rng.choice([2, 3, 3, 4])
        hdr = ['f%d' % j for j in range(w)]
        T = [hdr] + [[rng.choice(STR) for _ in range(w)] for _ in range(rng.choice([1, 2, 3]))]
        picks = [rng.choice(FORMS) for _ in range(w)]
        want = util.show_out([tuple(hdr)] + [tuple(f(v) for (c, f), v in zip(picks, r)) for r in T[1:]])
        as_dict = {h: c for h, (c, f) in zip(hdr, picks) if c is not None}
        as_list = [c if c is not None else (lambda v: v) for c, f in picks]
        for form, thunk in (('dict', lambda: etl.convert(T, as_dict)), ('list', lambda: etl.convert(T, as_list))):
            got = util.run_show(thunk)
            ctx.case(('convert-many', form, repr(T), repr([repr(c) for c, f in picks])))
            ctx.count('op:convert-many(%s)' % form)
            if got != want:
                ctx.spec_fail('convert|several-converters|%s' % form, 'convert with several converters in one call: some field was not converted by its own converter',
                              {'table': repr(T), 'converters': repr([c for c, f in picks]), 'form': form, 'real': got, 'want': want})


def replay(d):
    print('replay case:', d.get('case'))
    return 0
