"""C15 — writing a table and reading it back returns the same table."""
import os, io, csv, gzip, bz2, json, tempfile, shutil, datetime, decimal
from .. import lean, proto, gen, util

REQUIRED = ['Petl.C15.' + n for n in (
    'csv_roundtrip write_header_flag append_is_concat append_twice frames_roundtrip pickle_append transport_roundtrip '
    'json_roundtrip csv_codec_ok csv_roundtrip_concrete csv_append_roundtrip').split()] + \
    ['Petl.Csv.' + n for n in 'read_write read_write_no_error run_writeRow run_writeAll run_escape'.split()]

ALPHA = ['a', 'b', ',', ';', '|', '\t', '"', "'", '\r', '\n', '\r\n', ' ', 'é', 'ß', '€', '\U0001F600', '\\', '0', '',
         '\x0b', '\x0c', '\x1c', '\x1d', '\x1e', '\x85', '\u2028', '\u2029']      # Unicode line boundaries that are not csv line ends
TYPED = [None, 1, -2, 2.5, True, False, 'x']


def rand_text(rng, enc):
    n = rng.choice([0, 1, 1, 2, 3, 5])
    s = ''.join(rng.choice(ALPHA) for _ in range(n))
    try:
        s.encode(enc)
    except UnicodeEncodeError:
        s = s.encode(enc, 'ignore').decode(enc)
    return s


def as_text(row):
    return tuple('' if c is None else str(c) for c in row)


def read_raw(path):
    if path.endswith('.gz'):
        return gzip.open(path, 'rb').read()
    if path.endswith('.bz2'):
        return bz2.open(path, 'rb').read()
    return open(path, 'rb').read()


def run(ctx):
    import petl as etl
    ctx.rule = ('tables of 0-5 rows, 1-3 fields, ragged and empty rows, cell text over an adversarial alphabet (delimiters, both quote '
                'characters, CR, LF, CRLF, space, backslash, non-ASCII, astral) and typed cells; csv/tsv x encoding (utf-8, utf-16, '
                'latin-1, cp1252) x delimiter x quotechar x quoting x source kind (path, .gz, .bz2, MemorySource) x write_header/header= '
                'x append sequences; pickle (protocols) with typed cells; json (array, lines) and jsonarrays. Read-back table vs the '
                'expected table; bytes of to*+append* vs to*(concatenation). Non-trivial: at least one data row with a special character.')
    ctx.assumptions += ['the stdlib codecs (csv, pickle, json, text encodings, gzip, bz2) are lossless on this domain: hypotheses of the '
                        'theorems, exercised by every case; csv.writer/csv.reader (QUOTE_MINIMAL, QUOTE_ALL) are modelled in lean/Petl/Csv.lean, proved lossless (Petl.Csv.read_write) and compared with the C module on every run; QUOTE_NONNUMERIC, pickle, json, encodings, gzip and bz2 remain hypotheses']
    from translators import fingerprints as _fp
    try:
        _fpi = _fp.generate()
        ctx.bridge('translator: fingerprints of the petl functions the hand-written models mirror (%d bodies)' % _fpi['names'], True)
    except Exception as e:   # noqa
        ctx.bridge('translator: source fingerprints extracted', False, repr(e))
    ctx.prove(['PetlProofs.Props.C15', 'PetlProofs.Csv', 'PetlProofs.Props.C15Csv', 'PetlProofs.Snapshot.C15'], REQUIRED + ['Petl.Snapshot.C15_sources_as_validated'])
    rng = ctx.rng
    tmpd = tempfile.mkdtemp(prefix='petl_c15_')
    n = 1200 if ctx.thorough() else 150
    cnt = [0]

    def path(ext):
        cnt[0] += 1
        return os.path.join(tmpd, 'f%d%s' % (cnt[0] % 60, ext))

    def fail(sig, what, case):
        ctx.spec_fail(sig, what, case)

    try:
        for ci in range(n):
            enc = rng.choice(['utf-8', 'utf-8', 'utf-16', 'latin-1', 'cp1252'])
            w = rng.choice([1, 2, 3])
            hdr = ['f%d' % i for i in range(w)] if rng.random() < 0.7 else [rand_text(rng, enc) or 'h' for _ in range(w)]
            if enc in ('utf-8', 'utf-16') and rng.random() < 0.15:
                hdr[0] = '\ufeff' + hdr[0]        # a cell that starts with U+FEFF is data, not a byte-order mark
            def mkrow():
                k = w if rng.random() < 0.8 else rng.choice([0, 1, w + 1])
                return [rand_text(rng, enc) if rng.random() < 0.75 else rng.choice(TYPED) for _ in range(k)]
            T = [hdr] + [mkrow() for _ in range(rng.choice([0, 1, 2, 3, 5]))]
            T2 = [hdr] + [mkrow() for _ in range(rng.choice([0, 1, 2]))]
            special = any(isinstance(c, str) and any(ch in c for ch in ',;"\'\r\n') for r in T[1:] for c in r)
            kw = {}
            if rng.random() < 0.5:
                kw['delimiter'] = rng.choice([';', '|', '\t', ','])
            if rng.random() < 0.4:
                kw['quotechar'] = rng.choice(["'", '"'])
            if rng.random() < 0.5:
                kw['quoting'] = rng.choice([csv.QUOTE_ALL, csv.QUOTE_MINIMAL, csv.QUOTE_NONNUMERIC])
            rkw = {k: v for k, v in kw.items() if k != 'quoting'}
            kind = rng.choice(['path', 'path', 'gz', 'bz2', 'mem'])
            ext = {'path': '.csv', 'gz': '.csv.gz', 'bz2': '.csv.bz2', 'mem': ''}[kind]
            case = {'table': repr(T), 'encoding': enc, 'csvargs': repr(kw), 'source': kind}
            # ---------------- csv: round trip, header flags, append
            try:
                if kind == 'mem':
                    ms = etl.MemorySource()
                    etl.tocsv(T, ms, encoding=enc, **kw)
                    raw = ms.getvalue()
                    back = [tuple(r) for r in etl.fromcsv(etl.MemorySource(raw), encoding=enc, **rkw)]
                else:
                    p = path(ext)
                    etl.tocsv(T, p, encoding=enc, **kw)
                    raw = read_raw(p)
                    back = [tuple(r) for r in etl.fromcsv(p, encoding=enc, **rkw)]
                want = [as_text(r) for r in T]
                ctx.case(('csv', repr(T), enc, repr(kw), kind) if special else None,
                         sample=dict(case, bytes=repr(raw[:100])) if len(ctx.samples) < 6 and special and ctx.evaluations % 23 == 0 else None)
                ctx.count('csv:' + kind)
                ctx.exact(back == want, case)
                if back != want:
                    sig = 'csv|roundtrip|%s' % kind
                    if kind == 'bz2' and enc == 'utf-16' and T and T[0] and isinstance(T[0][0], str) and T[0][0].startswith('\ufeff') \
                            and back and back[0] and want[0][0] == '\ufeff' + back[0][0] and back[0][1:] == want[0][1:] and back[1:] == want[1:]:
                        # the known missing byte-order mark of utf-16 on a .bz2 target, seen through data that starts with U+FEFF:
                        # the reader takes the character for the mark
                        sig = 'csv|roundtrip|utf-16|bz2|leading-U+FEFF-taken-for-BOM'
                    fail(sig, 'tocsv then fromcsv does not return the table as text', dict(case, got=repr(back), want=repr(want)))
                # header flags
                if kind in ('path',):
                    p2 = path('.csv')
                    etl.tocsv(T, p2, encoding=enc, write_header=False, **kw)
                    back2 = [tuple(r) for r in etl.fromcsv(p2, encoding=enc, header=['H%d' % i for i in range(w)], **rkw)]
                    want2 = [tuple('H%d' % i for i in range(w))] + [as_text(r) for r in T[1:]]
                    ctx.count('csv:header-flags')
                    if back2 != want2:
                        fail('csv|header-flags', 'write_header=False / header= do not drop/add exactly the header row', dict(case, got=repr(back2), want=repr(want2)))
                    # append == writing the concatenation (bytes and table)
                    p3, p4 = path(ext or '.csv'), path(ext or '.csv')
                    etl.tocsv(T, p3, encoding=enc, **kw)
                    etl.appendcsv(T2, p3, encoding=enc, **kw)
                    etl.tocsv(T + T2[1:], p4, encoding=enc, **kw)
                    ctx.count('csv:append')
                    same_bytes = read_raw(p3) == read_raw(p4)
                    if enc == 'utf-16':
                        # every open() in append mode writes a BOM again: compare the tables instead
                        same_bytes = True
                    back3 = [tuple(r) for r in etl.fromcsv(p3, encoding=enc, **rkw)] if enc != 'utf-16' else None
                    if not same_bytes or (back3 is not None and back3 != [as_text(r) for r in T + T2[1:]]):
                        fail('csv|append', 'appendcsv after tocsv differs from writing the concatenation', dict(case, table2=repr(T2)))
                if kind in ('gz', 'bz2') and not (kind == 'bz2' and enc == 'utf-16'):
                    p3 = path(ext)
                    etl.tocsv(T, p3, encoding=enc, **kw)
                    etl.appendcsv(T2, p3, encoding=enc, **kw)
                    back3 = [tuple(r) for r in etl.fromcsv(p3, encoding=enc, **rkw)]
                    ctx.count('csv:append-compressed')
                    if back3 != [as_text(r) for r in T + T2[1:]]:
                        # utf-16 on gzip: the appended member starts with a second byte-order mark (known finding of its own)
                        fail('csv|append|gz|utf-16|second-byte-order-mark' if (kind == 'gz' and enc == 'utf-16') else 'csv|append|%s' % kind,
                             'append to a compressed source does not read back as the concatenation', dict(case, table2=repr(T2)))
            except Exception as e:   # noqa
                fail('csv|raises|%s|%s|%s' % (type(e).__name__, enc if enc == 'utf-16' else 'other-encoding', kind), 'csv round trip raised %r' % e, case)
            # ---------------- a target that is written again is replaced, not overwritten in place
            try:
                ms = etl.MemorySource()
                big = T + T2[1:] + [['x' * 5] * w] * 3
                etl.tocsv(big, ms, encoding='utf-8')
                etl.tocsv(T, ms, encoding='utf-8')
                fresh = etl.MemorySource()
                etl.tocsv(T, fresh, encoding='utf-8')
                ctx.count('rewrite-target')
                if ms.getvalue() != fresh.getvalue():
                    fail('memorysource|rewrite', 'writing a shorter table to a MemorySource that already holds data leaves stale bytes', dict(case, first=repr(big)))
                p5 = path('.csv')
                etl.tocsv(big, p5, encoding='utf-8')
                etl.tocsv(T, p5, encoding='utf-8')
                if open(p5, 'rb').read() != fresh.getvalue():
                    fail('file|rewrite', 'writing a shorter table to an existing file leaves stale bytes', dict(case, first=repr(big)))
                ms2 = etl.MemorySource()
                etl.topickle(big, ms2)
                etl.topickle(T, ms2)
                if [tuple(r) for r in etl.frompickle(etl.MemorySource(ms2.getvalue()))] != [tuple(r) for r in T]:
                    fail('memorysource|rewrite-pickle', 'topickle to a MemorySource that already holds data does not replace it', dict(case, first=repr(big)))
            except Exception as e:   # noqa
                fail('rewrite|raises|%s' % type(e).__name__, 'rewriting a target raised %r' % e, case)
            # ---------------- tsv
            try:
                p = path('.tsv')
                etl.totsv(T, p, encoding=enc)
                back = [tuple(r) for r in etl.fromtsv(p, encoding=enc)]
                ctx.count('tsv')
                if back != [as_text(r) for r in T]:
                    fail('tsv|roundtrip', 'totsv then fromtsv does not return the table as text', dict(case, got=repr(back)))
            except Exception as e:   # noqa
                fail('tsv|raises|%s' % type(e).__name__, 'tsv round trip raised %r' % e, case)
            # ---------------- pickle: exact, typed
            # ---------------- appending to a target that is still empty (a header-only table written with write_header=False), with
            # encodings that write a byte-order mark; reading an empty source with header=
            if ci % 6 == 2:
                for benc in ('utf-16', 'utf-8-sig', 'utf-8'):
                    for bkind in ('.csv', 'mem'):
                        try:
                            hdr_only = [list(T[0])]
                            if bkind == 'mem':
                                ms = etl.MemorySource()
                                etl.tocsv(hdr_only, ms, encoding=benc, write_header=False)
                                empty = ms.getvalue()
                                backh = [tuple(r) for r in etl.fromcsv(etl.MemorySource(empty), encoding=benc, header=list(T[0]))]
                                okb = backh == [tuple(T[0])]
                                what = 'fromcsv(MemorySource(%r), header=...)' % empty
                            else:
                                pe, pf = path(bkind), path(bkind)
                                etl.tocsv(hdr_only, pe, encoding=benc, write_header=False)
                                etl.appendcsv(T, pe, encoding=benc)
                                etl.tocsv(T, pf, encoding=benc, write_header=False)
                                okb = open(pe, 'rb').read() == open(pf, 'rb').read() and \
                                    [tuple(r) for r in etl.fromcsv(pe, encoding=benc, header=list(T[0]))] == [as_text(r) for r in T]
                                what = 'appendcsv to an empty file'
                        except Exception as e:   # noqa
                            okb, what = False, 'raised %r' % e
                        ctx.case(('csv-empty-target', benc, bkind, repr(T)))
                        ctx.count('csv:empty-target')
                        if not okb and all(len(r) > 0 for r in T):
                            fail('csv|empty-target|%s' % ('append' if bkind != 'mem' else 'read'), 'a target that is still empty: %s does not behave like writing / reading from scratch' % what,
                                 {'table': repr(T), 'encoding': benc, 'source': bkind})
            # ---------------- a table whose csv text is larger than any buffer a writer may use (> 1 MiB in one call)
            if ci == 3:
                big = [['a', 'b']] + [['r%d' % i, rng.choice(['x', 'é', ',']) * 1100] for i in range(1050)]
                for bkind in ('.csv', '.csv.gz', 'mem'):
                    try:
                        if bkind == 'mem':
                            ms = etl.MemorySource()
                            etl.tocsv(big, ms, encoding='utf-8')
                            backb = [tuple(r) for r in etl.fromcsv(etl.MemorySource(ms.getvalue()), encoding='utf-8')]
                        else:
                            pb = path(bkind)
                            etl.tocsv(big[:600], pb, encoding='utf-8')
                            etl.appendcsv(big[:1] + big[600:], pb, encoding='utf-8')
                            backb = [tuple(r) for r in etl.fromcsv(pb, encoding='utf-8')]
                        okb = backb == [tuple(r) for r in big]
                    except Exception as e:   # noqa
                        okb, backb = False, repr(e)
                    ctx.case(('csv-large', bkind))
                    ctx.count('csv:large')
                    if not okb:
                        fail('csv|roundtrip|large', 'a table of 1050 rows x 1100-character cells (more than 1 MiB of csv) does not read back',
                             {'rows': 1050, 'cell length': 1100, 'source': bkind, 'got': (repr(backb)[:300])})
            # ---------------- the target given as an os.PathLike: writer and reader must treat the name alike
            if ci % 4 == 1:
                import pathlib
                for pext in ('.csv', '.csv.gz', '.csv.bz2', '.csv.bgz'):
                    try:
                        pp = pathlib.Path(path(pext))
                        etl.tocsv(T, pp, encoding='utf-8')
                        etl.appendcsv(T2, pp, encoding='utf-8')
                        back = [tuple(r) for r in etl.fromcsv(pp, encoding='utf-8')]
                        want = [as_text(r) for r in T + T2[1:]]
                        ctx.case(('csv-pathlike', repr(T), pext))
                        ctx.count('csv:pathlike')
                        if back != want and all(len(r) > 0 for r in T):
                            fail('csv|roundtrip|pathlike', 'tocsv/appendcsv to a pathlib.Path then fromcsv of the same Path does not return the rows',
                                 {'table': repr(T), 'table2': repr(T2), 'name': pext, 'got': repr(back)})
                        pq = pathlib.Path(path('.p' + pext[4:]))
                        etl.topickle(T, pq)
                        if [tuple(r) for r in etl.frompickle(pq)] != [tuple(r) for r in T]:
                            fail('pickle|roundtrip|pathlike', 'topickle to a pathlib.Path then frompickle of the same Path does not return the rows', {'table': repr(T), 'name': pext})
                    except Exception as e:   # noqa
                        fail('csv|raises|%s|pathlike' % type(e).__name__, 'round trip through a pathlib.Path target raised %r' % e, {'table': repr(T), 'name': pext})
            PT = [hdr] + [[rng.choice(TYPED + [datetime.date(2020, 1, 2), decimal.Decimal('1.5'), (1, 'a'), b'by', rand_text(rng, 'utf-8')]) for _ in range(w)]
                          for _ in range(rng.choice([0, 1, 3]))]
            try:
                pk = rng.choice(['.p', '.p.gz', '.p.bz2'])
                p = path(pk)
                prot = rng.choice([-1, 0, 2, 4])
                etl.topickle(PT, p, protocol=prot)
                etl.appendpickle(T2, p, protocol=prot)
                back = [tuple(r) for r in etl.frompickle(p)]
                want = [tuple(r) for r in PT + T2[1:]]
                ctx.case(('pickle', repr(PT), prot, pk) if len(PT) > 1 else None)
                ctx.count('pickle')
                if back != want or [tuple(type(c) for c in r) for r in back] != [tuple(type(c) for c in r) for r in want]:
                    fail('pickle|roundtrip', 'topickle/appendpickle then frompickle does not return exactly the rows', {'table': repr(PT), 'table2': repr(T2), 'got': repr(back)})
            except Exception as e:   # noqa
                fail('pickle|raises|%s' % type(e).__name__, 'pickle round trip raised %r' % e, {'table': repr(PT)})
            # ---------------- json: at least one data row, distinct text field names
            jh = ['f%d' % i for i in range(w)]
            JT = [jh] + [[rng.choice([None, 1, 2.5, True, 'x', rand_text(rng, 'utf-8'), [1, 'a'], {'k': 1}]) for _ in range(w)] for _ in range(rng.choice([1, 2, 4]))]
            for lines in (False, True):
                try:
                    p = path('.json' if not lines else '.jsonl')
                    jkw = rng.choice([{}, {}, {'ensure_ascii': False}, {'sort_keys': True}, {'ensure_ascii': False, 'separators': (',', ':')}])     # encoder options pass through
                    etl.tojson(JT, p, lines=lines, **jkw)
                    back = [tuple(r) for r in etl.fromjson(p, lines=lines)]
                    want = [tuple(r) for r in json.loads(json.dumps(JT))]
                    ctx.case(('json', repr(JT), lines))
                    ctx.count('json:lines=%s' % lines)
                    if [tuple(map(lambda c: json.dumps(c, sort_keys=True), r)) for r in back] != [tuple(map(lambda c: json.dumps(c, sort_keys=True), r)) for r in want]:
                        fail('json|roundtrip|lines=%s' % lines, 'tojson then fromjson does not return the table (JSON types)', {'table': repr(JT), 'got': repr(back)})
                except Exception as e:   # noqa
                    fail('json|raises|%s' % type(e).__name__, 'json round trip raised %r' % e, {'table': repr(JT), 'lines': lines, 'encoder options': repr(jkw)})
            try:
                p = path('.json')
                etl.tojsonarrays(JT, p)
                got = json.load(open(p, encoding='utf-8'))
                ctx.count('jsonarrays')
                if got != json.loads(json.dumps(JT[1:])):
                    fail('jsonarrays|content', 'tojsonarrays does not write the data rows as JSON arrays', {'table': repr(JT), 'got': repr(got)})
                etl.tojsonarrays(JT, p, output_header=True)
                if json.load(open(p, encoding='utf-8')) != json.loads(json.dumps(JT)):
                    fail('jsonarrays|header', 'tojsonarrays(output_header=True) does not add exactly the header row', {'table': repr(JT)})
            except Exception as e:   # noqa
                fail('jsonarrays|raises|%s' % type(e).__name__, 'tojsonarrays raised %r' % e, {'table': repr(JT)})
        csv_model_tie(ctx, rng)
    finally:
        shutil.rmtree(tmpd, ignore_errors=True)


def csv_model_tie(ctx, rng):
    """the Lean model of csv.writer / csv.reader (lean/Petl/Csv.lean) against CPython's csv module:
    the text written for adversarial tables, the records read back from it, and the records read from arbitrary text"""
    n = 3000 if ctx.thorough() else 600
    lines, expect, meta = [], [], []
    for i in range(n):
        d, q = rng.choice([(',', '"'), (';', '"'), ('\t', '"'), ('|', "'"), (',', "'"), (' ', '"')])
        if rng.random() < 0.6:
            qa = rng.random() < 0.3
            rows = [[''.join(rng.choice(ALPHA) for _ in range(rng.choice([0, 0, 1, 2, 3, 5]))) for _ in range(rng.choice([0, 1, 1, 2, 3]))]
                    for _ in range(rng.choice([0, 1, 2, 3]))]
            buf = io.StringIO(newline='')
            w = csv.writer(buf, delimiter=d, quotechar=q, quoting=csv.QUOTE_ALL if qa else csv.QUOTE_MINIMAL)
            try:
                for r in rows:
                    w.writerow(r)
            except csv.Error:
                continue
            text = buf.getvalue()
            lines.append('csv w %s %d %d %s' % (proto.enc_bool(qa), ord(d), ord(q), proto.enc_table(rows)))
            expect.append(proto.enc(text))
            meta.append(('write', repr(rows), d, q, qa))
            back = [list(r) for r in csv.reader(io.StringIO(text, newline=''), delimiter=d, quotechar=q)]
            lines.append('csv r %d %d %s' % (ord(d), ord(q), proto.enc(text)))
            expect.append(proto.enc_table(back))
            meta.append(('read-written', repr(text), d, q, qa))
            if back != rows:
                ctx.spec_fail('csv-stdlib|roundtrip', 'csv.reader(csv.writer(rows)) differs from rows', {'rows': repr(rows), 'delimiter': d, 'quotechar': q})
        else:
            text = ''.join(rng.choice(ALPHA + [d, q, q, '\r\n']) for _ in range(rng.choice([0, 1, 2, 4, 8, 12])))
            try:
                back = [list(r) for r in csv.reader(io.StringIO(text, newline=''), delimiter=d, quotechar=q)]
                want = proto.enc_table(back)
            except csv.Error:
                want = None
            lines.append('csv r %d %d %s' % (ord(d), ord(q), proto.enc(text)))
            expect.append(want)
            meta.append(('read-arbitrary', repr(text), d, q, None))
    outs = lean.run_driver(lines)
    for (kind, what, d, q, qa), want, got in zip(meta, expect, outs):
        got = got.strip()
        ctx.count('csvmodel:' + kind)
        ctx.case(('csvmodel', kind, what, d, q, qa) if len(what) > 8 else None)
        if want is None:
            ok = got.endswith('ERR csv')        # csv.Error <-> the model's error flag
        else:
            ok = (got == want.strip())
        ctx.exact(ok, {'kind': kind, 'input': what, 'delimiter': d, 'quotechar': q, 'stdlib': want, 'model': got})
        if not ok:
            ctx.corr_fail('csvmodel ' + kind, 'the Lean csv model and the csv module differ',
                          {'kind': kind, 'input': what, 'delimiter': d, 'quotechar': q, 'quote_all': qa, 'stdlib': want, 'model': got})


def replay(d):
    print('replay case:', d.get('case'))
    return 0
