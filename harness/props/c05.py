"""C05 — sort/mergesort: stable ordered permutation, same under every buffering strategy."""
import functools
from .. import lean, proto, gen, util

REQUIRED = ['Petl.C05.' + n for n in (
    'sort_buffersize_irrelevant sort_any_two_buffersizes sortRows_stable_sort sortRows_perm sort_ascending '
    'sort_descending stable_sort_unique mergesort_eq_sort_cat mergesort_differing_fields_eq_sort_cat cat_rows mergesort_presorted sort_of_sorted '
    'pickMin_is_heap_minimum heap_minimum_unique').split()]


def pyref_sort(etl, tbl, key, reverse):
    """independent reference: Python's stable sorted() with the real Comparable relation"""
    from petl.comparison import comparable_itemgetter
    from petl.util.base import asindices
    hdr = tbl[0]
    idx = asindices(hdr, key) if key is not None else list(range(len(hdr)))
    gk = comparable_itemgetter(*idx)

    def cmp(a, b):
        ka, kb = gk(a), gk(b)
        return -1 if ka < kb else (1 if kb < ka else 0)
    rows = sorted(tbl[1:], key=functools.cmp_to_key(cmp), reverse=reverse)
    return [tuple(hdr)] + [tuple(r) for r in rows]


def run(ctx):
    import petl as etl
    import tempfile, shutil
    ctx.rule = ('random small tables (0-8 rows, key cells from a 15-value universe of None/bool/int/float/Decimal/str/bytes/'
                'date/datetime/tuples so ties and cross-type equal keys are frequent, ragged rows, duplicate field names) x key '
                '(None, name, index, compound) x reverse; for each the real sort under EVERY buffersize 1..nrows+2 and None x '
                'cache on/off x passes 1..2 (tempdir set on half) must equal the model; mergesort of 1-3 tables vs the model and '
                'vs sort(cat()). Non-trivial: at least 2 data rows and a tie or a missing key cell.')
    ctx.assumptions += ['list.sort is stable (also with reverse=True); heapq.merge breaks ties by iterable order; '
                        'min/max return the first extremal element; pickle round-trips rows through chunk files']
    from translators import merge_shape as _ms
    try:
        _msi = _ms.generate()
        ctx.bridge('translator: %d syntactic facts about the merge machinery of sorts.py' % len(_msi['facts']), True)
    except Exception as e:   # noqa
        ctx.bridge('translator: merge machinery facts extracted', False, repr(e))
    from translators import fingerprints as _fp
    try:
        _fpi = _fp.generate()
        ctx.bridge('translator: fingerprints of the petl functions the hand-written models mirror (%d bodies)' % _fpi['names'], True)
    except Exception as e:   # noqa
        ctx.bridge('translator: source fingerprints extracted', False, repr(e))
    ctx.prove(['PetlProofs.Props.C05', 'PetlProofs.Props.C05Heap', 'PetlProofs.Props.C05Shape', 'PetlProofs.Snapshot.C05'], REQUIRED + ['Petl.C05.merge_machinery_as_modelled'] + ['Petl.Snapshot.C05_sources_as_validated'])
    ncases = 3000 if ctx.thorough() else 400
    rng = ctx.rng
    tmpd = tempfile.mkdtemp(prefix='petl_c05_')
    try:
        lines, metas = [], []
        for ci in range(ncases):
            hdr = gen.header(rng, dup=0.1)
            tbl = gen.table(rng, hdr, maxn=8 if not ctx.thorough() else 12)
            if rng.random() < 0.05:
                tbl = []          # a table without any header
            key = util.rand_key(rng, hdr) if tbl else rng.choice([None, 'a', 0])
            if rng.random() < 0.04:
                key = 'nosuchfield'
            reverse = rng.random() < 0.4
            n = max(len(tbl) - 1, 0)
            try:
                base = 'sort %s %s' % (util.enc_key(key), proto.enc_bool(reverse))
                ttok = proto.enc_table(tbl)
            except proto.Unencodable:
                continue
            bss = [None] + list(range(1, n + 3))
            for bs in bss:
                lines.append('%s %s %s' % (base, proto.enc_opt(bs), ttok))
                metas.append((ci, tbl, key, reverse, bs))
        model = lean.run_driver(lines)
        spec_by_case = {}
        for (ci, tbl, key, reverse, bs), out in zip(metas, model):
            if out.startswith(('PARSE', 'BADOP')):
                ctx.corr_fail('sort', 'driver: ' + out, {'table': repr(tbl), 'key': repr(key)})
                continue
            if bs is None:
                spec_by_case[ci] = out
            elif spec_by_case.get(ci) != out:
                # cannot happen if the theorems hold and the driver is the model: Impl(bs) vs Impl(None)
                ctx.corr_fail('sort', 'model disagrees with itself across buffersizes (driver != proved model?)',
                              {'table': repr(tbl), 'key': repr(key), 'bs': bs})
        seen = set()
        for (ci, tbl, key, reverse, bs) in metas:
            if ci not in spec_by_case:
                continue
            spec = spec_by_case[ci]
            n = max(len(tbl) - 1, 0)
            for cache in (True, False):
                td = tmpd if (ci + (bs or 0)) % 2 == 0 else None
                try:
                    view = etl.sort(tbl, key, reverse=reverse, buffersize=bs, cache=cache, tempdir=td)
                except Exception as e:   # noqa
                    view = None
                    outs = ['TB0 ERR ' + util.errkind(e)]
                if view is not None:
                    outs = [util.show_out(*util.collect(view)) for _ in range(2)]
                for p, real in enumerate(outs):
                    keys = [tuple(r[:1]) for r in tbl[1:]]
                    nt = n >= 2
                    ctx.case((ci, bs, cache, p) if nt else None,
                             sample={'table': repr(tbl), 'key': repr(key), 'reverse': reverse, 'buffersize': bs,
                                     'cache': cache, 'pass': p + 1, 'out': real} if (ci % 37 == 1 and bs == 2 and cache and p == 0) else None)
                    ctx.count('path:' + ('in-memory' if (bs is None or n < bs) else 'chunked'))
                    if bs is not None and bs == n:
                        ctx.count('buffersize==nrows')
                    ctx.exact(real == spec, {'table': repr(tbl), 'key': repr(key), 'reverse': reverse, 'bs': bs, 'cache': cache, 'pass': p + 1})
                    if real != spec:
                        case = {'op': 'sort', 'table': repr(tbl), 'key': repr(key), 'reverse': reverse, 'buffersize': bs,
                                'cache': cache, 'pass': p + 1, 'real': real, 'spec': spec}
                        # is it the property that fails? independent Python reference + cross-configuration equality
                        try:
                            ref = util.show_out(pyref_sort(etl, tbl, key, reverse))
                        except Exception as e:   # noqa
                            ref = None
                        inmem = util.run_show(lambda: etl.sort(tbl, key, reverse=reverse, buffersize=None, cache=False))
                        if (ref is not None and real != ref) or real != inmem:
                            kind = 'raises' if ' ERR ' in real and ' ERR ' not in (ref or inmem) else 'wrong-order'
                            path = 'chunked' if (bs is not None and n >= bs) else 'in-memory'
                            ctx.spec_fail('sort|%s|%s|%s|%s' % (kind, path, 'reverse' if reverse else 'forward',
                                                                'pass>1' if p else 'pass1'),
                                          'sort output is not the stable sort / differs between buffering strategies', case)
                        else:
                            ctx.corr_fail('sort', 'real sort agrees with the Python reference but not with the model', case)
        # ---- mergesort
        mlines, mmetas = [], []
        for ci in range(ncases):
            hdr = gen.header(rng)
            k = rng.choice([1, 2, 2, 3])
            same = rng.random() < 0.6
            tables = []
            for _ in range(k):
                h = hdr if same else gen.header(rng, names=hdr + ['zz'], n=rng.choice([len(hdr), max(1, len(hdr) - 1)]))
                tables.append(gen.table(rng, h, maxn=5, ragged=0.1 if same else 0.0))
            allh = [f for t in tables for f in t[0]]
            key = util.rand_key(rng, hdr, allow_none=same)
            missing = None
            if not same:
                # tables with different fields, or the same fields in another order: the key is a field name (possibly one
                # that some table lacks) or None; rows may be short; `missing` fills what a table does not have
                if rng.random() < 0.3:
                    h2 = list(hdr)
                    rng.shuffle(h2)
                    tables = [gen.table(rng, h, maxn=4, ragged=0.0) for h in (hdr, h2)]
                outh = []
                for t in tables:
                    for f in t[0]:
                        if f not in outh:
                            outh.append(f)
                key = rng.choice([rng.choice(outh), None, tuple(rng.sample(outh, min(2, len(outh))))])
                missing = rng.choice([None, None, 'NA', 0])
                if rng.random() < 0.3:
                    for t in tables:
                        if len(t) > 1 and rng.random() < 0.5:
                            t[rng.randrange(1, len(t))] = t[rng.randrange(1, len(t))][:rng.randrange(0, len(t[0]))]
            reverse = rng.random() < 0.4
            bs = rng.choice([None, None, 1, 2, 3])
            if not same and rng.random() < 0.35:
                # an explicit output header (a reordering or a subset of the fields): compared with sort(cat(header=...)) only
                oh = list(outh)
                rng.shuffle(oh)
                oh = oh[:rng.choice([len(oh), max(1, len(oh) - 1)])]
                hkey = rng.choice([rng.choice(oh), None, 0])
                try:
                    realh = util.run_show(lambda: etl.mergesort(*tables, key=hkey, reverse=reverse, buffersize=bs, missing=missing, header=oh))
                    viah = util.run_show(lambda: etl.sort(etl.cat(*tables, missing=missing, header=oh), hkey, reverse=reverse))
                except proto.Unencodable:
                    realh = viah = None
                ctx.case(('ms-header', repr(tables), repr(hkey), repr(oh), reverse, bs))
                ctx.count('mergesort:explicit-header')
                if realh != viah and all(len(r) == len(t[0]) for t in tables for r in t[1:]):
                    ctx.spec_fail('mergesort|differs|explicit-header', 'mergesort(tables, header=...) differs from sort(cat(tables, header=...))',
                                  {'op': 'mergesort', 'tables': repr(tables), 'key': repr(hkey), 'header': repr(oh), 'reverse': reverse, 'buffersize': bs,
                                   'missing': repr(missing), 'real': realh, 'sort(cat)': viah})
            mmetas.append((tables, key, reverse, bs, same, missing))
            if same:
                try:
                    mlines.append('mergesort %s %s %s 0 %s' % (util.enc_key(key), proto.enc_bool(reverse), proto.enc_opt(bs),
                                                               proto.enc_list(tables, proto.enc_table)))
                except proto.Unencodable:
                    mmetas.pop()
            else:
                try:
                    mlines.append('mergesortH %s %s %s %s %s' % (util.enc_key(key), proto.enc_bool(reverse), proto.enc_opt(bs), proto.enc(missing),
                                                                proto.enc_list(tables, proto.enc_table)))
                except proto.Unencodable:
                    mlines.append(None)
        mmodel = lean.run_driver([l for l in mlines if l is not None])
        it = iter(mmodel)
        for (tables, key, reverse, bs, same, missing), line in zip(mmetas, mlines):
            spec = next(it) if line is not None else None
            real = util.run_show(lambda: etl.mergesort(*tables, key=key, reverse=reverse, buffersize=bs, missing=missing))
            viacat = util.run_show(lambda: etl.sort(etl.cat(*tables, missing=missing), key, reverse=reverse))
            tot = sum(len(t) - 1 for t in tables)
            ctx.case(('ms', repr(tables), repr(key), reverse, bs) if tot >= 2 else None,
                     sample={'op': 'mergesort', 'tables': repr(tables), 'key': repr(key), 'reverse': reverse, 'out': real}
                     if len(ctx.samples) < 5 and tot >= 3 else None)
            ctx.count('mergesort:' + ('same-header' if same else 'different-headers'))
            case = {'op': 'mergesort', 'tables': repr(tables), 'key': repr(key), 'reverse': reverse, 'buffersize': bs, 'missing': repr(missing),
                    'real': real, 'sort(cat)': viacat, 'spec': spec}
            if spec is not None:
                ctx.exact(real == spec, case)
            if real != viacat:
                kind = 'raises' if ' ERR ' in real and ' ERR ' not in viacat else 'differs'
                ctx.spec_fail('mergesort|%s|%s' % (kind, 'key=None' if key is None else 'key'),
                              'mergesort(tables) differs from sort(cat(tables))', case)
            elif spec is not None and real != spec:
                if spec.startswith(('PARSE', 'BADOP')):
                    ctx.corr_fail('mergesort', 'driver: ' + spec, case)
                else:
                    ctx.corr_fail('mergesort', 'real mergesort == sort(cat) but differs from the model', case)
        util.many_chunk_cases(etl, rng, ctx, 'sort', ctx.thorough())
    finally:
        shutil.rmtree(tmpd, ignore_errors=True)

    # ---- mergesort whose operands are sort views with the same key, the key positional or absent and the fields in another order
    for ci in range(90 if ctx.thorough() else 30):
        A = [['a', 'b', 'c']] + [[rng.choice([0, 1, 2]), rng.choice(['b', 'x']), rng.choice([0, 5])] for _ in range(rng.choice([0, 1, 3]))]
        B = [['b', 'a']] + [[rng.choice([0, 1, 'b']), rng.choice([0, 1, 2])] for _ in range(rng.choice([1, 2, 4]))]
        key = rng.choice([0, None, 1, 'a', ('b', 'a')])
        rev = rng.random() < 0.3
        try:
            Bv = etl.sort(B, key, reverse=rev)
            Av = etl.sort(A, key, reverse=rev)
            got = util.run_show(lambda: etl.mergesort(Av, Bv, key=key, reverse=rev))
            want = util.run_show(lambda: etl.sort(etl.cat([tuple(r) for r in Av], [tuple(r) for r in Bv]), key, reverse=rev))     # of the tables the views stand for
        except proto.Unencodable:
            continue
        ctx.case(('ms-sortview-operands', repr(A), repr(B), repr(key), rev))
        ctx.count('mergesort:sort-view-operands')
        if got != want:
            ctx.spec_fail('mergesort|differs|sort-view-operands', 'mergesort over operands that are sort views differs from sort(cat(tables))',
                          {'a': repr(A), 'b': repr(B), 'key': repr(key), 'reverse': rev, 'real': got, 'sort(cat)': want})

    # ---- a first pass that the source cut short: every later pass is still the complete sorted table
    class FailsOnce(etl.Table):
        def __init__(self, rows, at):
            self.rows, self.at, self.armed = rows, at, True

        def __iter__(self):
            armed, self.armed = self.armed, False
            for i, r in enumerate(self.rows):
                if armed and i == self.at:
                    raise IOError('source failed at item %d' % i)
                yield tuple(r)
    for ci in range(160 if ctx.thorough() else 50):
        n = rng.choice([2, 3, 5, 8])
        T = [['k', 'v']] + [[rng.choice([0, 1, 2, None]), 'r%d' % i] for i in range(n)]
        at = rng.randrange(1, n + 2)            # item index of the fault (0 = header); n + 1 = never
        bs = rng.choice([1, 2, 3, None])
        cache = rng.random() < 0.7
        rev = rng.random() < 0.3
        src = FailsOnce(T, at)
        view = etl.sort(src, 'k', reverse=rev, buffersize=bs, cache=cache)
        try:
            list(view)
            faulted = False
        except IOError:
            faulted = True
        want = pyref_sort(etl, T, 'k', rev)
        ctx.case(('sort-after-fault', repr(T), at, bs, cache, rev))
        ctx.count('sort:first-pass-' + ('cut-short' if faulted else 'complete'))
        for p in (2, 3):
            try:
                got = [tuple(r) for r in view]
            except Exception as e:
                got = 'raised %s' % type(e).__name__
            if got != want:
                ctx.spec_fail('sort|after-faulted-pass|%s' % ('cache' if cache else 'nocache'),
                              'a pass of sort() after a pass that the source cut short is not the complete sorted table',
                              {'table': repr(T), 'source_fails_once_at_item': at, 'buffersize': bs, 'cache': cache, 'reverse': rev,
                               'pass': p, 'real': repr(got), 'expected': repr(want)})
                break

    # ---- operands that are sort views
    util.view_operand_cases(etl, rng, ctx, [
        ('sort', 1, lambda t: etl.sort(t, 'x')), ('sort(reverse)', 1, lambda t: etl.sort(t, 'x', reverse=True)),
        ('sort(None)', 1, lambda t: etl.sort(t)), ('sort(compound)', 1, lambda t: etl.sort(t, ('x', 'xy'))),
        ('sort(buffersize=1)', 1, lambda t: etl.sort(t, 'x', buffersize=1)),
        ('mergesort', 2, lambda a, b: etl.mergesort(a, b, key='x')), ('mergesort(reverse)', 2, lambda a, b: etl.mergesort(a, b, key='x', reverse=True)),
        ('issorted', 1, lambda t: [[etl.issorted(t, 'x'), etl.issorted(t, 'x', strict=True), etl.issorted(t, 'x', reverse=True, strict=True)]]),
    ], 240 if ctx.thorough() else 60)
    util.exotic_key_cases(etl, rng, ctx, 'C05', 200 if ctx.thorough() else 50)
    util.positional_call_cases(etl, rng, ctx, ['sort'], 120 if ctx.thorough() else 36, 1)

def replay(d):
    print('replay case:', d.get('case'))
    return 0
