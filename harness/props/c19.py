"""C19 — the failonerror policy decides exactly what a failing conversion becomes."""
import itertools
from collections import OrderedDict
from .. import lean, proto, gen, util

REQUIRED = ['Petl.C19.' + n for n in (
    'policy_false_total policy_inline_cell policy_true_prefix nonfailing_identical_across_policies nonfailing_cell_same '
    'rowmap_policies rowmapmany_keeps_produced default_from_config_at_construction ladders_as_expected defaults_from_config '
    'cellLadder_sem transformValue_follows_ladder rowLadder_sem rowmapRows_follows_ladder').split()]

POL = {'s': False, 'r': True, 'i': 'inline'}
EXC = {'Value': ValueError, 'Type': TypeError, 'Key': KeyError}


def mkconv(fs, exc):
    def conv(v):
        if any(x == v for x in fs):
            raise exc('boom %r' % (v,))
        return [v]
    return conv


def run(ctx):
    import petl as etl
    import petl.config as config
    ctx.rule = ('tables whose first column holds distinct ids 0..n-1 (n <= 4, thorough 6) and a second column with repeated '
                'values, some ragged; EVERY subset of failing ids (and a failing set on the second field) x the three policies x '
                'policy given as argument or through petl.config.failonerror (changed again before iterating) x errorvalue; '
                'convert, fieldmap, rowmap, rowmapmany: rows delivered before the exception are observed by iterating with next(). '
                'Real vs model exact. Non-trivial: a non-empty failing set.')
    ctx.assumptions += ['converters are the catalogue function failOn(S, exc): raises exc on the values of S, wraps others in a list']
    from translators import policy as _pol
    try:
        info = _pol.generate()
        ctx.bridge('translator: failonerror if-chains of %d exception handlers and the config defaults of their views' % info['sites'], True)
    except Exception as e:   # noqa
        ctx.bridge('translator: failonerror ladders extracted', False, repr(e))
    from translators import fingerprints as _fp
    try:
        _fpi = _fp.generate()
        ctx.bridge('translator: fingerprints of the petl functions the hand-written models mirror (%d bodies)' % _fpi['names'], True)
    except Exception as e:   # noqa
        ctx.bridge('translator: source fingerprints extracted', False, repr(e))
    ctx.prove(['PetlProofs.Props.C19', 'PetlProofs.Props.C19Ladder', 'PetlProofs.Snapshot.C19'], REQUIRED + ['Petl.Snapshot.C19_sources_as_validated'])
    rng = ctx.rng
    maxn = 6 if ctx.thorough() else 4
    jobs = []
    saved = config.failonerror
    try:
        for n in range(0, maxn + 1):
            for rep in range(3 if ctx.thorough() else 2):
                col2 = [rng.choice(['a', 'b', None, 1]) for _ in range(n)]
                T = [['id', 'v']] + [[i, col2[i]] for i in range(n)]
                if rep == 1 and n:
                    # ragged: drop the second cell of one row, add a third cell to another
                    T[rng.randrange(1, n + 1)] = T[rng.randrange(1, n + 1)][:1]
                    T[rng.randrange(1, n + 1)] = T[rng.randrange(1, n + 1)] + ['x']
                ids = [r[0] for r in T[1:]]
                tt = proto.enc_table(T)
                subsets = [s for k in range(len(set(ids)) + 1) for s in itertools.combinations(sorted(set(ids)), k)]
                if len(subsets) > 16 and not ctx.thorough():
                    subsets = subsets[:8] + rng.sample(subsets[8:], 8)
                for S in subsets:
                    S2 = rng.choice([(), (), ('a',), (None,)])
                    for pc, pol in POL.items():
                        ek = rng.choice(list(EXC))
                        ev = rng.choice([None, 'ERR', -1])
                        viacfg = rng.random() < 0.35
                        base = {'table': repr(T), 'failing_ids': S, 'failing_v': S2, 'policy': repr(pol), 'via_config': viacfg,
                                'errorvalue': repr(ev), 'exc': ek}
                        def build(mk, pol=pol, viacfg=viacfg):
                            if viacfg:
                                config.failonerror = pol
                                try:
                                    v = mk(None)
                                finally:
                                    # the default must have been read at construction: flip it before iterating
                                    config.failonerror = 'inline' if pol != 'inline' else False
                                return v
                            return mk(pol)
                        # convert (by name and by index)
                        convs = OrderedDict()
                        convs['id' if rng.random() < 0.5 else 0] = mkconv(S, EXC[ek])
                        if S2:
                            convs['v'] = mkconv(S2, EXC[ek])
                        line = 'convert %s %s %s %s' % (pc, proto.enc(ev), proto.enc_list(
                            [(0, S)] + ([(1, S2)] if S2 else []), lambda c: '%d %s %s' % (c[0], ek, proto.enc(tuple(c[1])))), tt)
                        jobs.append(('convert', line, (lambda T=T, convs=convs, ev=ev, build=build:
                                     build(lambda p: etl.convert(T, convs, errorvalue=ev, **({} if p is None else {'failonerror': p})))), base, bool(S)))
                        # the same conversion through the pass_row and where paths
                        convs2 = OrderedDict((k, (lambda c: (lambda v, row: c(v)))(c)) for k, c in convs.items())
                        jobs.append(('convert(pass_row)', line, (lambda T=T, convs2=convs2, ev=ev, build=build:
                                     build(lambda p: etl.convert(T, convs2, errorvalue=ev, pass_row=True, **({} if p is None else {'failonerror': p})))), base, bool(S)))
                        jobs.append(('convert(where)', line, (lambda T=T, convs=convs, ev=ev, build=build:
                                     build(lambda p: etl.convert(T, convs, errorvalue=ev, where=lambda rec: True, **({} if p is None else {'failonerror': p})))), base, bool(S)))
                        # fieldmap
                        maps = OrderedDict()
                        maps['x'] = ('id', mkconv(S, EXC[ek]))
                        maps['y'] = ('v', mkconv(S2, EXC[ek]))
                        line = 'fieldmap %s %s %s %s' % (pc, proto.enc(ev), proto.enc_list(
                            [('x', 0, S), ('y', 1, S2)], lambda c: '%s %d %s %s' % (proto.enc(c[0]), c[1], ek, proto.enc(tuple(c[2])))), tt)
                        jobs.append(('fieldmap', line, (lambda T=T, maps=maps, ev=ev, build=build:
                                     build(lambda p: etl.fieldmap(T, maps, errorvalue=ev, **({} if p is None else {'failonerror': p})))), base, bool(S)))
                        # rowmap / rowmapmany
                        def mapper(row, S=S, exc=EXC[ek]):
                            if any(x == row[0] for x in S):
                                raise exc('boom')
                            return list(row) + [len(row)]
                        def gener(row, S=S, exc=EXC[ek]):
                            yield tuple(row)
                            if any(x == row[0] for x in S):
                                raise exc('boom')
                            yield tuple(row)
                        def lazymapper(row, S=S, exc=EXC[ek]):
                            # returns a lazy iterable: the failure happens while petl materialises the row
                            def cells():
                                for x in row:
                                    if any(y == row[0] for y in S):
                                        raise exc('boom')
                                    yield x
                                if len(row) == 0 and any(y is None for y in S):
                                    raise exc('boom')
                                yield len(row)
                            return cells()
                        oh = ['a', 'b']
                        if all(len(r) > 0 for r in T[1:]):
                            jobs.append(('rowmap(lazy)', 'rowmap %s %s %s %s %s' % (pc, ek, proto.enc(tuple(S)), proto.enc_row(oh), tt),
                                         (lambda T=T, lazymapper=lazymapper, build=build: build(lambda p: etl.rowmap(T, lazymapper, header=['a', 'b'], **({} if p is None else {'failonerror': p})))), base, bool(S)))
                        jobs.append(('rowmap', 'rowmap %s %s %s %s %s' % (pc, ek, proto.enc(tuple(S)), proto.enc_row(oh), tt),
                                     (lambda T=T, mapper=mapper, build=build: build(lambda p: etl.rowmap(T, mapper, header=['a', 'b'], **({} if p is None else {'failonerror': p})))), base, bool(S)))
                        jobs.append(('rowmapmany', 'rowmapmany %s %s %s %s %s' % (pc, ek, proto.enc(tuple(S)), proto.enc_row(oh), tt),
                                     (lambda T=T, gener=gener, build=build: build(lambda p: etl.rowmapmany(T, gener, header=['a', 'b'], **({} if p is None else {'failonerror': p})))), base, bool(S)))
        model = lean.run_driver([j[1] for j in jobs])
        for (name, line, thunk, case, nt), spec in zip(jobs, model):
            config.failonerror = saved
            real = util.run_show(thunk)
            config.failonerror = saved
            ctx.case((name, line) if nt else None,
                     sample=dict(case, op=name, out=real) if len(ctx.samples) < 6 and nt and len(case['table']) > 40 and ctx.evaluations % 7 == 0 else None)
            ctx.count('op:%s policy:%s' % (name, case['policy']))
            if case['via_config']:
                ctx.count('policy-via-config')
            c2 = dict(case, op=name, real=real, spec=spec)
            if spec.startswith(('PARSE', 'BADOP')):
                ctx.corr_fail(name, 'driver: ' + spec, c2)
                continue
            ctx.exact(real == spec, c2)
            if real != spec:
                ctx.spec_fail('%s|policy=%s|%s' % (name, case['policy'], 'via-config' if case['via_config'] else 'argument'),
                              '%s under failonerror=%s does not deliver what the policy prescribes' % (name, case['policy']), c2)
        # ---- the convenience wrappers around convert take the same policy, from the argument or from the config
        def ref_convert(T, fields, fn, pol, errorvalue):
            """independent reference: rows before the first failing cell under True, then the exception"""
            hdr = list(T[0])
            out = [tuple(hdr)]
            for r in T[1:]:
                row = []
                for j, v in enumerate(r):
                    if j < len(hdr) and (fields is None or hdr[j] in fields):
                        try:
                            row.append(fn(v))
                        except Exception as e:   # noqa
                            if pol == 'inline':
                                row.append('EXC:' + type(e).__name__)
                            elif pol:
                                return out, util.errkind(e)
                            else:
                                row.append(errorvalue)
                    else:
                        row.append(v)
                out.append(tuple(row))
            return out, None

        def show(rows_err):
            rows, err = rows_err
            rows = [tuple(('EXC:' + type(c).__name__) if isinstance(c, Exception) else c for c in r) for r in rows]
            return repr(rows) + (' ERR ' + err if err else '')
        from petl.util.parsers import numparser
        wrappers = [
            ('convertnumbers(strict=True)', lambda T, kw: etl.convertnumbers(T, strict=True, **kw), None, numparser(strict=True)),
            ('convertall', lambda T, kw: etl.convertall(T, int, **kw), None, int),
            ('convert(several fields)', lambda T, kw: etl.convert(T, ('a', 'b'), int, **kw), ('a', 'b'), int),
            ('convert(dict)', lambda T, kw: etl.convert(T, {'a': int, 'b': float}, **kw), None, None),
            ('formatall', lambda T, kw: etl.formatall(T, '{:d}', **kw), None, lambda v: '{:d}'.format(v)),
            ('format', lambda T, kw: etl.format(T, 'b', '{:d}', **kw), ('b',), lambda v: '{:d}'.format(v)),
            ('interpolateall', lambda T, kw: etl.interpolateall(T, '%d', **kw), None, lambda v: '%d' % v),
            ('interpolate', lambda T, kw: etl.interpolate(T, 'a', '%d', **kw), ('a',), lambda v: '%d' % v),
        ]
        for ci in range(60 if ctx.thorough() else 12):
            T = [['a', 'b']] + [[rng.choice([1, '2', 'x', None, 2.5, '']), rng.choice([3, 'y', '4', None])] for _ in range(rng.choice([1, 2, 3, 4]))]
            for wname, call, fields, fn in wrappers:
                for pol in (False, True, 'inline'):
                    for via_config in (False, True):
                        ev = rng.choice([None, 'E'])
                        kw = {} if ev is None else {'errorvalue': ev}
                        config.failonerror = saved
                        try:
                            if via_config:
                                config.failonerror = pol
                                v = call(T, kw)
                                config.failonerror = not pol if pol != 'inline' else False     # read at construction, not at iteration
                            else:
                                v = call(T, dict(kw, failonerror=pol))
                            real = show(util.collect(v))
                        except Exception as e:   # noqa
                            real = 'construction raised ' + type(e).__name__
                        finally:
                            config.failonerror = saved
                        if wname == 'convert(dict)':
                            # two different converters: apply field-wise
                            a, ea = ref_convert(T, ('a',), int, pol, ev)
                            if ea is None:
                                want_rows, err = ref_convert([list(r) for r in a], ('b',), float, pol, ev)
                                # under True the first failing cell in row order decides; recompute row by row
                            hdr = T[0]
                            out, err = [tuple(hdr)], None
                            for r in T[1:]:
                                row = []
                                for j, v0 in enumerate(r):
                                    f = {0: int, 1: float}.get(j)
                                    try:
                                        row.append(f(v0) if f else v0)
                                    except Exception as e:   # noqa
                                        if pol == 'inline':
                                            row.append('EXC:' + type(e).__name__)
                                        elif pol:
                                            err = util.errkind(e)
                                            break
                                        else:
                                            row.append(ev)
                                if err:
                                    break
                                out.append(tuple(row))
                            want = show((out, err))
                        else:
                            want = show(ref_convert(T, fields, fn, pol, ev))
                        ctx.case((wname, repr(T), repr(pol), via_config, ev))
                        ctx.count('wrapper:%s' % wname)
                        if real != want:
                            ctx.spec_fail('%s|policy=%s|%s' % (wname, pol, 'via-config' if via_config else 'argument'),
                                          '%s under failonerror=%r (%s) does not deliver what the policy prescribes' % (wname, pol, 'petl.config' if via_config else 'argument'),
                                          {'op': wname, 'table': repr(T), 'policy': repr(pol), 'via_config': via_config, 'errorvalue': repr(ev), 'real': real, 'want': want})
        # ---- what counts as a failure is an exception RAISED by the converter or mapper — whatever its class — and nothing else
        class Odd(Exception):
            pass
        for ci in range(40 if ctx.thorough() else 10):
            T = [['a', 'b']] + [[rng.choice([1, 2, 3]), rng.choice(['x', 'y'])] for _ in range(rng.choice([1, 2, 3, 4]))]
            bad = rng.choice([1, 2, 3])
            exc_obj = ValueError('a value, not a failure')
            for pol in (False, True, 'inline'):
                # (a) a converter that RETURNS an exception object has not failed: same cells under every policy
                for wname, call in (('convert(returns an exception object)', lambda: etl.convert(T, 'a', lambda v: exc_obj if v == bad else v, failonerror=pol, errorvalue='E')),
                                    ('convertall(returns an exception object)', lambda: etl.convertall(T, lambda v: exc_obj if v == bad else v, failonerror=pol, errorvalue='E')),
                                    ('convert(dict with exception values)', lambda: etl.convert(T, 'a', {bad: exc_obj}, failonerror=pol, errorvalue='E')),
                                    ('fieldmap(returns an exception object)', lambda: etl.fieldmap(T, OrderedDict([('a', ('a', lambda v: exc_obj if v == bad else v)), ('b', 'b')]), failonerror=pol, errorvalue='E'))):
                    rows, err = util.collect(call())
                    want = [('a', 'b')] + [tuple((exc_obj if (c == bad and (j == 0 or wname.startswith('convertall'))) else c) for j, c in enumerate(r)) for r in T[1:]]
                    ctx.case((wname, repr(T), bad, repr(pol)))
                    ctx.count('returned-exception')
                    if err is not None or [tuple(r) for r in rows] != want:
                        ctx.spec_fail('%s|policy=%s' % (wname.split('(')[0] + '|returned-exception', pol),
                                      '%s: a cell that did not fail is not delivered unchanged under failonerror=%r' % (wname, pol),
                                      {'op': wname, 'table': repr(T), 'policy': repr(pol), 'returned for': bad, 'rows': repr(rows), 'error': err})
                # (b) exception classes a generator-based implementation is tempted to treat specially
                for exc in (StopIteration, GeneratorExit if False else Odd, LookupError, ArithmeticError):
                    def failing(v, exc=exc):
                        if (v[0] if isinstance(v, tuple) else v) == bad:
                            raise exc('boom')
                        return v
                    for wname, call in (('convert', lambda: etl.convert(T, 'a', failing, failonerror=pol, errorvalue='E')),
                                        ('rowmap', lambda: etl.rowmap(T, failing, header=['a', 'b'], failonerror=pol)),
                                        ('rowmapmany', lambda: etl.rowmapmany(T, lambda r: [failing(r)], header=['a', 'b'], failonerror=pol)),
                                        ('fieldmap', lambda: etl.fieldmap(T, OrderedDict([('a', ('a', failing)), ('b', 'b')]), failonerror=pol, errorvalue='E'))):
                        rows, err = util.collect(call())
                        first_bad = next((i for i, r in enumerate(T[1:]) if r[0] == bad), None)
                        ctx.case((wname, exc.__name__, repr(T), bad, repr(pol)))
                        ctx.count('exception-class:' + exc.__name__)
                        if first_bad is None:
                            ok = err is None and len(rows) == len(T)
                        elif pol is True:
                            ok = err is not None and len(rows) == 1 + first_bad       # the rows before it, then an exception
                        else:
                            ok = err is None and (len(rows) == len(T) if (pol == 'inline' or wname in ('convert', 'fieldmap')) else
                                                  len(rows) == len(T) - sum(1 for r in T[1:] if r[0] == bad))
                        if not ok:
                            ctx.spec_fail('%s|policy=%s|exception-class' % (wname, pol),
                                          '%s under failonerror=%r with a function raising %s: not (rows before the failure, then an exception) / (every row accounted for)'
                                          % (wname, pol, exc.__name__),
                                          {'op': wname, 'table': repr(T), 'policy': repr(pol), 'raises': exc.__name__, 'fails on': bad, 'rows': repr(rows), 'error': err})
        # ---- (c) a converter is applied once to each cell: a converter that remembers what it has seen (an "id must be unique"
        # validator) next to a converter that fails in another field of the same row.  Reference: one call per cell, row by row.
        class Duplicate(Exception):
            pass
        for ci in range(60 if ctx.thorough() else 20):
            n = rng.choice([2, 3, 4, 5])
            T = [['id', 'name', 'qty']] + [[rng.choice([1, 2, 3, 4]), rng.choice(['a', 'b']), rng.choice([1, 'x', 2, None])] for _ in range(n)]
            for pol in (False, True, 'inline'):
                def mk():
                    seen = set()

                    def uniq(v):
                        if v in seen:
                            raise Duplicate(v)
                        seen.add(v)
                        return v
                    return uniq
                # reference
                ref_uniq, want, want_err = mk(), [('id', 'name', 'qty')], None
                for r in T[1:]:
                    out, failed = [], None
                    for j, (c, f) in enumerate(zip(r, (ref_uniq, None, int))):
                        if f is None:
                            out.append(c)
                            continue
                        try:
                            out.append(f(c))
                        except Exception as e:
                            failed = failed or e
                            out.append('E' if pol is False else e)
                    if failed is not None and pol is True:
                        want_err = util.errkind(failed)
                        break
                    want.append(tuple(out))
                rows, err = util.collect(etl.convert(T, {'id': mk(), 'qty': int}, failonerror=pol, errorvalue='E'))
                got = [tuple((('EXC:' + type(c).__name__) if isinstance(c, Exception) else c) for c in r) for r in rows]
                wantc = [tuple((('EXC:' + type(c).__name__) if isinstance(c, Exception) else c) for c in r) for r in want]
                ctx.case(('convert-stateful', repr(T), repr(pol)))
                ctx.count('stateful-converter')
                ok = got == wantc and err == want_err
                if not ok:
                    ctx.spec_fail('convert|policy=%s|stateful-converter' % (pol,),
                                  'convert with a converter that keeps state: cells that do not fail are not what one call per cell gives under failonerror=%r' % (pol,),
                                  {'op': 'convert({id: unique-validator, qty: int})', 'table': repr(T), 'policy': repr(pol), 'rows': repr(got), 'error': err,
                                   'expected rows': repr(wantc), 'expected error': want_err})
    finally:
        config.failonerror = saved
    ctx.exhaustive = True
    ctx.extra['exhaustive_note'] = 'all subsets of failing ids for n <= 4 (quick: capped at 16 per table), all three policies'


def replay(d):
    print('replay case:', d.get('case'))
    return 0
