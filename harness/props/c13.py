"""C13 — selections return exactly the satisfying rows; complement is the exact rest."""
import re
from collections import Counter
from .. import lean, proto, gen, util

REQUIRED = ['Petl.C13.' + n for n in (
    'select_is_filter select_complement_partition rowselect_partition comparison_selectors_use_C04_order '
    'selectlt_ge_complement selectle_gt_complement range_selectors negated_selectors negated_selector_is_complement '
    'rowslice_eq_islice head_is_take tail_is_suffix selectors_as_expected selecteq_sem selectne_sem selectlt_sem selectle_sem '
    'selectgt_sem selectge_sem selectin_sem selectnotin_sem selectrangeopenleft_sem selectrangeopenright_sem selectrangeopen_sem '
    'selectrangeclosed_sem selecttrue_sem selectfalse_sem selectnone_sem selectnotnone_sem compound_field_cells cellOr_absent cellOr_present '
    'facet_covers facet_only_own_key search_partition search_short_row_in_complement').split()]

REFS = [None, 1, 1.0, 2, 2.5, 'a', 'b', (1, 'a'), [1, 'a'], True, b'a']
CELLS = gen.SMALL_KEYS + [[1, 'a'], 0, '', ()]

UNARY = {'eq': 'selecteq', 'ne': 'selectne', 'lt': 'selectlt', 'le': 'selectle', 'gt': 'selectgt', 'ge': 'selectge'}
BINARY = {'rol': 'selectrangeopenleft', 'ror': 'selectrangeopenright', 'ro': 'selectrangeopen', 'rc': 'selectrangeclosed'}
NULLARY = {'none': 'selectnone', 'notnone': 'selectnotnone', 'true': 'selecttrue', 'false': 'selectfalse'}
MEMBER = {'in': 'selectin', 'notin': 'selectnotin'}


def run(ctx):
    import petl as etl
    from petl.comparison import Comparable
    ctx.rule = ('tables of 0-7 rows, 1-3 fields, cells from a mixed-type pool incl. None, lists/tuples, falsy values, ragged rows; '
                'every comparison selector x reference values incl. None and values of another type x complement x missing; '
                'select with a predicate and its complement; biselect; rowlenselect; facet; search/searchcomplement; '
                'rowslice/head/tail/skip over all (start, stop, step) triples 0..n+1 (None included). Real vs model (exact '
                'sequence) and partition laws directly on the real outputs. Non-trivial: at least 2 data rows.')
    ctx.assumptions += ['itertools.islice; re.search (search/searchcomplement are checked as partitions only)']
    from translators import selectors as _sel
    try:
        info = _sel.generate()
        ctx.bridge('translator: %d select* functions of selects.py turned into predicate expressions' % info['selectors'], True)
    except Exception as e:   # noqa
        ctx.bridge('translator: selector table extracted', False, repr(e))
    from translators import fingerprints as _fp
    try:
        _fpi = _fp.generate()
        ctx.bridge('translator: fingerprints of the petl functions the hand-written models mirror (%d bodies)' % _fpi['names'], True)
    except Exception as e:   # noqa
        ctx.bridge('translator: source fingerprints extracted', False, repr(e))
    ctx.prove(['PetlProofs.Props.C13', 'PetlProofs.Props.C13Sel', 'PetlProofs.Snapshot.C13'], REQUIRED + ['Petl.Snapshot.C13_sources_as_validated'])
    rng = ctx.rng
    n = 1500 if ctx.thorough() else 250
    jobs = []
    for ci in range(n):
        hdr = gen.header(rng, n=rng.choice([1, 2, 3]))
        T = gen.table(rng, hdr, default_pool=CELLS, maxn=7, ragged=0.3)
        f = rng.choice(hdr) if rng.random() < 0.8 else hdr.index(rng.choice(hdr))
        refs = REFS
        if len(hdr) >= 2 and rng.random() < 0.3:
            # a compound field: the value tested is the tuple of its cells, each absent cell read as `missing`
            f = tuple(rng.sample(hdr, 2))
            ix = [hdr.index(x) for x in f]
            keys = [tuple((r[i] if i < len(r) else None) for i in ix) for r in T[1:]]
            refs = [k for k in keys if not any(isinstance(c, list) for c in k)][:4] + [(1, None), (None, None), ('a', 2), (1, 'a'), None, 1]
        fk = util.enc_key(f)
        tt = proto.enc_table(T)
        base = {'table': repr(T), 'field': repr(f)}
        nt = len(T) > 2
        for pn, fname in UNARY.items():
            ref = rng.choice(refs)
            compl = rng.random() < 0.3
            jobs.append((fname, 'select %s N %s %s %s %s' % (fk, proto.enc_bool(compl), pn, proto.enc(ref), tt),
                         lambda T=T, f=f, ref=ref, compl=compl, fname=fname: getattr(etl, fname)(T, f, ref, complement=compl),
                         dict(base, ref=repr(ref), complement=compl), nt))
        for pn, fname in BINARY.items():
            a, b = rng.choice(refs), rng.choice(refs)
            compl = rng.random() < 0.3
            jobs.append((fname, 'select %s N %s %s %s %s %s' % (fk, proto.enc_bool(compl), pn, proto.enc(a), proto.enc(b), tt),
                         lambda T=T, f=f, a=a, b=b, compl=compl, fname=fname: getattr(etl, fname)(T, f, a, b, complement=compl),
                         dict(base, minv=repr(a), maxv=repr(b), complement=compl), nt))
        for pn, fname in NULLARY.items():
            compl = rng.random() < 0.3
            jobs.append((fname, 'select %s N %s %s %s' % (fk, proto.enc_bool(compl), pn, tt),
                         lambda T=T, f=f, compl=compl, fname=fname: getattr(etl, fname)(T, f, complement=compl),
                         dict(base, complement=compl), nt))
        for pn, fname in MEMBER.items():
            vs = [rng.choice(refs) for _ in range(rng.choice([0, 1, 2, 3]))]
            vs = [v for v in vs if not isinstance(v, list)]
            compl = rng.random() < 0.3
            jobs.append((fname, 'select %s N %s %s %s %s' % (fk, proto.enc_bool(compl), pn, proto.enc(tuple(vs)), tt),
                         lambda T=T, f=f, vs=vs, compl=compl, fname=fname: getattr(etl, fname)(T, f, tuple(vs), complement=compl),
                         dict(base, values=repr(vs), complement=compl), nt))
        # select with predicate + missing, both polarities
        missing = rng.choice([None, 'NA', 0])
        ref = rng.choice(refs)
        for compl in (False, True):
            jobs.append(('select', 'select %s %s %s eq %s %s' % (fk, proto.enc(missing), proto.enc_bool(compl), proto.enc(ref), tt),
                         lambda T=T, f=f, ref=ref, compl=compl, missing=missing: etl.select(T, f, lambda v: v == ref, complement=compl, missing=missing),
                         dict(base, ref=repr(ref), complement=compl, missing=repr(missing)), nt))
        # a predicate that returns the cell itself (truthy/falsy but not a bool): select must apply bool()
        for compl in (False, True):
            jobs.append(('select', 'select %s %s %s true %s' % (fk, proto.enc(missing), proto.enc_bool(compl), tt),
                         lambda T=T, f=f, compl=compl, missing=missing: etl.select(T, f, lambda v: v, complement=compl, missing=missing),
                         dict(base, where='lambda v: v', complement=compl, missing=repr(missing)), nt))
        k = rng.choice([0, 1, 2, 3])
        compl = rng.random() < 0.3
        jobs.append(('rowlenselect', 'rowlen %d %s %s' % (k, proto.enc_bool(compl), tt),
                     lambda T=T, k=k, compl=compl: etl.rowlenselect(T, k, complement=compl), dict(base, n=k, complement=compl), nt))
        # positional
        nr = len(T) - 1
        opts = [None] + list(range(0, nr + 2))
        for _ in range(4 if not ctx.thorough() else 10):
            start, stop, step = rng.choice(opts), rng.choice(opts), rng.choice([None, 1, 1, 2, 3])
            jobs.append(('rowslice', 'slice %s %s %s %s' % (proto.enc_opt(start), proto.enc_opt(stop), proto.enc_opt(step), tt),
                         lambda T=T, a=(start, stop, step): etl.rowslice(T, *a), dict(base, slice=repr((start, stop, step))), nt))
        k = rng.choice(range(0, nr + 2))
        jobs.append(('head', 'slice - %d - %s' % (k, tt), lambda T=T, k=k: etl.head(T, k), dict(base, n=k), nt))
        jobs.append(('tail', 'tail %d %s' % (k, tt), lambda T=T, k=k: etl.tail(T, k), dict(base, n=k), nt))
        jobs.append(('skip', 'skip %d %s' % (k, tt), lambda T=T, k=k: etl.skip(T, k), dict(base, n=k), nt))
    model = lean.run_driver([j[1] for j in jobs])
    for (name, line, thunk, case, nt), spec in zip(jobs, model):
        real = util.run_show(thunk)
        ctx.case((name, line) if nt else None, sample=dict(case, op=name, out=real) if len(ctx.samples) < 6 and nt and name in ('selectlt', 'rowslice', 'selectrangeopen') else None)
        ctx.count('op:' + name)
        c2 = dict(case, op=name, real=real, spec=spec)
        if spec.startswith(('PARSE', 'BADOP')):
            ctx.corr_fail(name, 'driver: ' + spec, c2)
            continue
        ctx.exact(real == spec, c2)
        if real != spec:
            kind = 'raises' if ' ERR ' in real and ' ERR ' not in spec else 'wrong-rows'
            ctx.spec_fail('%s|%s' % (name, kind), '%s does not select exactly the rows of its documented predicate' % name, c2)
    # ---- partition laws on the real code (model-independent): biselect, facet, search
    for ci in range(n // 2):
        hdr = gen.header(rng, n=rng.choice([1, 2, 3]))
        T = gen.table(rng, hdr, default_pool=['a', 'b', 'ab', '', None, 1, 12], maxn=7, ragged=0.3)
        f = rng.choice(hdr)
        rows = [tuple(r) for r in T[1:]]
        missing = rng.choice([None, 'NA'])
        try:
            a, b = etl.biselect(T, f, lambda v: v in ('a', 'NA', 1), missing=missing)
            la, lb = list(a)[1:], list(b)[1:]
            ok = Counter(la) + Counter(lb) == Counter(rows) and not (set(la) & set(lb)) or \
                (Counter(la) + Counter(lb) == Counter(rows) and all(((r[hdr.index(f)] if hdr.index(f) < len(r) else missing) in ('a', 'NA', 1)) for r in la)
                 and all(((r[hdr.index(f)] if hdr.index(f) < len(r) else missing) not in ('a', 'NA', 1)) for r in lb))
        except Exception as e:   # noqa
            ok = False
        ctx.case(('biselect', repr(T), f) if len(T) > 2 else None)
        ctx.count('op:biselect')
        if not ok:
            ctx.spec_fail('biselect|partition', 'biselect does not partition the input', {'table': repr(T), 'field': f, 'missing': repr(missing)})
        # search / searchcomplement partition
        try:
            s1 = list(etl.search(T, f, 'a'))[1:]
            if s1 is not None:
                s2 = list(etl.searchcomplement(T, f, 'a'))[1:]
                fi_ = hdr.index(f)
                # a row too short to have the field does not match: it belongs to the complement
                ok = Counter(s1) + Counter(s2) == Counter(rows) and all(fi_ < len(r) and 'a' in str(r[fi_]) for r in s1) and \
                    all(not (fi_ < len(r) and 'a' in str(r[fi_])) for r in s2)
                ctx.case(('search', repr(T), f) if len(T) > 2 else None)
                ctx.count('op:search')
                if not ok:
                    ctx.spec_fail('search|partition', 'search/searchcomplement do not partition the input', {'table': repr(T), 'field': f})
        except Exception as e:   # noqa
            ctx.spec_fail('search|raises', 'search raised %r' % e, {'table': repr(T), 'field': f})
        # search over several fields / the whole row: a row matches when ANY of the cells matches
        if True:
            for fields in ([None] + ([tuple(hdr[:2]), tuple(reversed(hdr))] if len(hdr) >= 2 else [])):
                try:
                    if fields is None:
                        s1, s2 = list(etl.search(T, 'a'))[1:], list(etl.searchcomplement(T, 'a'))[1:]
                        idxs = list(range(len(hdr)))
                    else:
                        s1, s2 = list(etl.search(T, fields, 'a'))[1:], list(etl.searchcomplement(T, fields, 'a'))[1:]
                        idxs = [hdr.index(x) for x in fields]
                    hit = (lambda r: any('a' in str(c) for c in r)) if fields is None else (lambda r: any('a' in str(r[i]) for i in idxs if i < len(r)))
                    ok = s1 == [r for r in rows if hit(r)] and s2 == [r for r in rows if not hit(r)]
                    ctx.case(('search-multi', repr(T), repr(fields)) if len(T) > 2 else None)
                    ctx.count('op:search-multi')
                    if not ok:
                        ctx.spec_fail('search|multi-field', 'search/searchcomplement over several fields are not the rows with / without a matching cell',
                                      {'table': repr(T), 'fields': repr(fields), 'search': repr(s1), 'complement': repr(s2)})
                except Exception as e:   # noqa
                    ctx.spec_fail('search|raises', 'search raised %r' % e, {'table': repr(T), 'field': repr(fields)})
        # facet on a compound key: ragged rows belong to the facet of their padded key
        if len(hdr) >= 2:
            ff = tuple(hdr[:2])
            try:
                if all(not isinstance(c, list) for r in T[1:] for c in r):
                    fc = etl.facet(T, ff)
                    tot = Counter()
                    for t_ in fc.values():
                        tot += Counter(list(t_)[1:])
                    ctx.case(('facet-compound', repr(T)) if len(T) > 2 else None)
                    ctx.count('op:facet-compound')
                    if tot != Counter(rows):
                        ctx.spec_fail('facet|partition|compound-key', 'the tables of facet on a compound key do not partition the input',
                                      {'table': repr(T), 'field': repr(ff), 'facets': repr({k: list(v)[1:] for k, v in fc.items()})})
            except Exception as e:   # noqa
                ctx.spec_fail('facet|raises', 'facet raised %r' % e, {'table': repr(T), 'field': repr(ff)})
        # facet
        try:
            hashable = all(not isinstance((r[hdr.index(f)] if hdr.index(f) < len(r) else None), list) for r in T[1:])
            if hashable:
                fc = etl.facet(T, f)
                parts = [list(t)[1:] for t in fc.values()]
                tot = Counter()
                for p_ in parts:
                    tot += Counter(p_)
                ok = tot == Counter(rows)
                ctx.case(('facet', repr(T), f) if len(T) > 2 else None)
                ctx.count('op:facet')
                if not ok:
                    ctx.spec_fail('facet|partition', 'the tables of facet do not partition the input', {'table': repr(T), 'field': f})
        except Exception as e:   # noqa
            ctx.spec_fail('facet|raises', 'facet raised %r' % e, {'table': repr(T), 'field': f})

    # ---- predicates that tell equal values apart (type, identity, repr), on columns of cross-type-equal values; expression strings
    from decimal import Decimal as _D
    EQV = [1, 1.0, True, _D('1'), 0, 0.0, False, (1, 'a'), (1.0, 'a'), 'a', None, 2]
    for ci in range(200 if ctx.thorough() else 50):
        hdr = rng.choice([['f', 'g'], ['1', '0'], ['0', '1'], [1, 0], ['2019', '2020'], ['g', 'f']])
        rows = [tuple(rng.choice(EQV) for _ in hdr) for _ in range(rng.choice([2, 3, 5, 6]))]
        T = [tuple(hdr)] + rows
        fi = rng.randrange(len(hdr))
        f = hdr[fi]
        if isinstance(f, int):
            fi = f          # an integer field selection is a position, whatever the header says
        compl = rng.random() < 0.4
        typ = rng.choice([int, float, bool, _D, str, tuple, type(None), (int, float)])
        obj = rng.choice([None, True, False])
        preds = [('selectisinstance', lambda: etl.selectisinstance(T, f, typ, complement=compl), lambda v: isinstance(v, typ)),
                 ('selectis', lambda: etl.selectis(T, f, obj, complement=compl), lambda v: v is obj),
                 ('selectisnot', lambda: etl.selectisnot(T, f, obj, complement=compl), lambda v: v is not obj),
                 ('select(type)', lambda: etl.select(T, f, lambda v: type(v) is int, complement=compl), lambda v: type(v) is int),
                 ('select(repr)', lambda: etl.select(T, f, lambda v: repr(v) == '1.0', complement=compl), lambda v: repr(v) == '1.0')]
        if isinstance(f, str):
            ref = rng.choice([1, 'a', None, 2])
            preds.append(('select(expression)', lambda: etl.select(T, '{%s} == %r' % (f, ref), complement=compl), lambda v: v == ref))
            preds.append(('biselect(expression)[0]', lambda: etl.biselect(T, '{%s} == %r' % (f, ref))[1 if compl else 0], lambda v: v == ref))
        for name, thunk, p in preds:
            got = util.run_show(thunk)
            want = util.show_out([tuple(hdr)] + [r for r in rows if bool(p(r[fi])) != compl])
            ctx.case((name, repr(T), repr(f), compl))
            ctx.count('op:' + name)
            if got != want:
                ctx.spec_fail('%s|wrong-rows' % name.split('(')[0], '%s does not select exactly the rows of its documented predicate' % name,
                              {'table': repr(T), 'field': repr(f), 'complement': compl, 'real': got, 'want': want,
                               'argument': repr(typ if name == 'selectisinstance' else obj)})

    # ---- search / searchcomplement against the model: the verdict of re.search on every cell's text goes to the driver as a mask
    import re as _re2
    slines, smeta = [], []
    for ci in range(400 if ctx.thorough() else 100):
        hdr = gen.header(rng, n=rng.choice([1, 2, 3]))
        T = gen.table(rng, hdr, default_pool=['a', 'b', 'ab', 'ba', '', None, 1, 12, 'A'], maxn=6, ragged=0.35)
        pat = rng.choice(['a', 'b$', '^a', '1', 'A', '.', 'zz'])
        fl = rng.choice([0, 0, _re2.I])
        field = rng.choice([None, rng.choice(hdr), hdr.index(rng.choice(hdr))] + ([tuple(rng.sample(hdr, 2))] if len(set(hdr)) >= 2 else []))
        mask = [[0] * len(T[0])] + [[1 if _re2.search(pat, str(c), fl) else 0 for c in r] for r in T[1:]]
        for compl in (False, True):
            try:
                slines.append('search %s %s %s %s' % (proto.enc_bool(compl), util.enc_key(field), proto.enc_table(T), proto.enc_table(mask)))
            except proto.Unencodable:
                continue
            smeta.append((T, pat, fl, field, compl))
    for (T, pat, fl, field, compl), spec in zip(smeta, lean.run_driver(slines)):
        fn = etl.searchcomplement if compl else etl.search
        real = util.run_show(lambda: fn(T, pat, flags=fl) if field is None else fn(T, field, pat, flags=fl))
        ctx.case(('search-model', repr(T), pat, int(fl), repr(field), compl) if len(T) > 2 else None)
        ctx.count('op:search(model)')
        case = {'table': repr(T), 'pattern': pat, 'flags': int(fl), 'field': repr(field), 'complement': compl, 'real': real, 'spec': spec}
        if spec.startswith(('PARSE', 'BADOP')):
            ctx.corr_fail('search', 'driver: ' + spec, case)
            continue
        ctx.exact(real == spec, case)
        if real != spec:
            ctx.spec_fail('search|%s' % ('raises' if ' ERR ' in real and ' ERR ' not in spec else 'wrong-rows'),
                          'search / searchcomplement do not return exactly the rows with / without a matching cell among the cells present', case)

    # ---- selectin / selectnotin with a text or bytes container (membership is substring search there), and expression strings over
    # field names with white space at either end
    for ci in range(120 if ctx.thorough() else 40):
        cont = rng.choice(['ACGT', 'abc', b'abc', ''])
        cells = (['A', 'AC', 'CG', 'GA', '', 'ACGT', 'X', 'a', 'bc', 'abc'] if isinstance(cont, str) else [b'a', b'ab', b'bc', b'', b'ca', b'abc'])
        T = [('f', 'g')] + [(rng.choice(cells), i) for i in range(rng.choice([2, 4, 6]))]
        compl = rng.random() < 0.4
        for name, fn, pred in (('selectin', etl.selectin, lambda v: v in cont), ('selectnotin', etl.selectnotin, lambda v: v not in cont)):
            got = util.run_show(lambda: fn(T, 'f', cont, complement=compl))
            want = util.show_out([T[0]] + [r for r in T[1:] if bool(pred(r[0])) != compl])
            ctx.case((name, 'text-container', repr(T), repr(cont), compl))
            ctx.count('op:' + name + '(text container)')
            if got != want:
                ctx.spec_fail('%s|wrong-rows' % name, '%s with a text / bytes container does not select by `v in container`' % name,
                              {'table': repr(T), 'container': repr(cont), 'complement': compl, 'real': got, 'want': want})
        hdrw = rng.choice([(' foo', 'foo'), ('foo ', 'foo'), ('\tx', 'x'), (' ', 'y')])
        Tw = [hdrw] + [(rng.choice([1, 2, 3]), rng.choice([1, 2, 3])) for _ in range(rng.choice([2, 4]))]
        for j in (0, 1):
            got = util.run_show(lambda: etl.select(Tw, '{%s} == 2' % hdrw[j]))
            want = util.show_out([hdrw] + [r for r in Tw[1:] if r[j] == 2])
            ctx.case(('select-expression-whitespace', repr(Tw), j))
            ctx.count('op:select(expression, white space in names)')
            if got != want:
                ctx.spec_fail('select|expression|wrong-rows', 'select with an expression string does not read the field named between the braces',
                              {'table': repr(Tw), 'expression': '{%s} == 2' % hdrw[j], 'real': got, 'want': want})

    # ---- positional selections of positional selections (rowslice / head / tail / skip nested two and three deep) against islice
    import itertools as _it
    for ci in range(300 if ctx.thorough() else 80):
        nrows_ = rng.choice([0, 1, 3, 6, 9, 12])
        T = [('a', 'b')] + [(i, 'r%d' % i) for i in range(nrows_)]
        view, want = T, list(T[1:])
        desc = []
        for depth in range(rng.choice([2, 2, 3])):
            kind = rng.choice(['rowslice', 'rowslice', 'head', 'tail', 'skip0'])
            if kind == 'rowslice':
                a = rng.choice([None, 0, 1, 2, 4])
                b = rng.choice([None, 1, 2, 3, 5, 8])
                c = rng.choice([None, 1, 2, 3])
                view = etl.rowslice(view, a, b, c)
                want = list(_it.islice(want, a, b, c))
                desc.append('rowslice(%r, %r, %r)' % (a, b, c))
            elif kind == 'head':
                k = rng.choice([0, 1, 2, 4])
                view = etl.head(view, k)
                want = want[:k]
                desc.append('head(%d)' % k)
            elif kind == 'tail':
                k = rng.choice([0, 1, 2, 4])
                view = etl.tail(view, k)
                want = want[max(0, len(want) - k):] if k else []
                desc.append('tail(%d)' % k)
            else:
                view = etl.rowslice(view, 1, None)
                want = want[1:]
                desc.append('rowslice(1, None)')
        got = util.run_show(lambda: view)
        exp = util.show_out([('a', 'b')] + want)
        ctx.case(('nested-positional', nrows_, tuple(desc)))
        ctx.count('op:nested-positional')
        if got != exp:
            ctx.spec_fail('rowslice|nested|wrong-rows', 'a positional selection of a positional selection does not select by position as islice would',
                          {'nrows': nrows_, 'selections (inner first)': desc, 'real': got, 'want': exp})


def replay(d):
    print('replay case:', d.get('case'))
    return 0
