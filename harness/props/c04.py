"""C04 — mixed-type ordering is one consistent total preorder."""
import itertools, operator
from .. import lean, proto, gen, util

REQUIRED = ['Petl.C04.' + n for n in (
    'lt_irrefl lt_asymm lt_trans incomparable_iff_eq total eq_equivalence lt_congr_eq le_trans none_first '
    'numbers_before_rest numbers_by_value bytes_before_text seq_elementwise list_tuple_identified gt_iff_lt_swap '
    'ge_iff_le_swap le_total exactly_one getKey_missing_none bridge_lt bridge_le bridge_gt bridge_ge').split()]


def has_list(v):
    if isinstance(v, list):
        return True
    if isinstance(v, tuple):
        return any(has_list(x) for x in v)
    return False


def tyname(v):
    return type(v).__name__


def run(ctx):
    import petl as etl
    from petl.comparison import Comparable
    from translators import ladder
    from translators.common import TranslationError
    ctx.rule = ('all ordered pairs of a %d-value universe covering every kind of the domain (None, bool/int/float/Decimal '
                'incl. +-inf and cross-type equal values, bytes, str, date, datetime, time, nested tuples/lists) plus random '
                'nested values: the five Comparable operators and raw == on the real objects vs the Lean model; all triples '
                'for the order laws on the real objects; sort/issorted/selectlt..ge/join on two-row tables vs the same relation. '
                'A case is non-trivial when the two values are of different kinds, equal across types, or sequences.'
                % len(gen.UNIVERSE))
    ctx.trusted.append('translators/ladder.py: the accepted Python subset and its rendering as Gen.ltStep; '
                       'Gen.nativeOf (CPython native < within one kind; TypeError across kinds) and Gen.pyTypeName are hand-written')
    ctx.assumptions += ['native < / == of int, float, Decimal, str, bytes, date, datetime, time is the order of their exact values',
                        'NaN and timezone-aware values are outside the domain']
    # 1. translate the ladder from the current source
    try:
        info = ladder.generate()
        ctx.bridge('translator: petl/comparison.py within accepted subset (%d rungs)' % info['rungs'], True)
    except (TranslationError, Exception) as e:   # noqa
        ctx.bridge('translator: petl/comparison.py within accepted subset', False, repr(e))
    # 2. proofs
    from translators import fingerprints as _fp
    try:
        _fpi = _fp.generate()
        ctx.bridge('translator: fingerprints of the petl functions the hand-written models mirror (%d bodies)' % _fpi['names'], True)
    except Exception as e:   # noqa
        ctx.bridge('translator: source fingerprints extracted', False, repr(e))
    ctx.prove(['PetlProofs.Props.C04', 'PetlProofs.Snapshot.C04'], REQUIRED + ['Petl.Snapshot.C04_sources_as_validated'])

    U = list(gen.UNIVERSE)
    extra_n = 2000 if ctx.thorough() else 150
    R = [gen.rand_val(ctx.rng) for _ in range(extra_n)]
    # 3. pairs: real vs model
    pairs = [(a, b) for a in U for b in U]
    rp = R + U
    for _ in range(50000 if ctx.thorough() else 3000):
        pairs.append((ctx.rng.choice(rp), ctx.rng.choice(R)))
    lines = []
    real = []
    for a, b in pairs:
        ca, cb = Comparable(a), Comparable(b)
        try:
            bits = [ca < cb, ca == cb, ca <= cb, ca > cb, ca >= cb, a == b]
            real.append(' '.join(proto.enc_bool(bool(x)) for x in bits))
        except Exception as e:
            real.append('ERR ' + type(e).__name__)
        lines.append('cmp %s %s' % (proto.enc(a), proto.enc(b)))
    try:
        model = lean.run_driver(lines)
    except Exception as e:
        ctx.corr_fail('cmp', 'driver unavailable: %r' % e, None)
        model = None
    for i, (a, b) in enumerate(pairs):
        nt = (tyname(a) != tyname(b)) or isinstance(a, (list, tuple))
        ctx.case((lines[i]) if nt else None,
                 sample={'a': repr(a), 'b': repr(b), 'real(lt eq le gt ge rawEq)': real[i]} if i % 997 == 5 else None)
        ctx.count('pair:%s' % ('cross-kind' if tyname(a) != tyname(b) else 'same-kind'))
        if model is None:
            continue
        ctx.exact(real[i] == model[i], {'a': repr(a), 'b': repr(b)})
        if real[i] != model[i]:
            if model[i].startswith(('PARSE', 'BADOP')):
                ctx.corr_fail('cmp', model[i], {'a': repr(a), 'b': repr(b)})
            else:
                ctx.spec_fail('cmp|%s' % ('list' if has_list(a) or has_list(b) else 'values'),
                              'Comparable order differs from the documented order (model): (lt eq le gt ge ==) real=%s spec=%s'
                              % (real[i], model[i]), {'a': repr(a), 'b': repr(b), 'line': lines[i]})
    # 4. laws directly on the real objects (search oracle; always on)
    V = U + R[:40]
    C = [Comparable(v) for v in V]
    n = len(V)
    LT = [[bool(C[i] < C[j]) for j in range(n)] for i in range(n)]
    EQ = [[bool(C[i] == C[j]) for j in range(n)] for i in range(n)]
    for i in range(n):
        if LT[i][i] or not EQ[i][i]:
            ctx.spec_fail('law|irreflexive', 'a < a or not a == a', {'a': repr(V[i])})
        for j in range(n):
            ctx.evaluations += 1
            if LT[i][j] and LT[j][i]:
                ctx.spec_fail('law|asymmetric', 'a < b and b < a', {'a': repr(V[i]), 'b': repr(V[j])})
            if ((not LT[i][j]) and (not LT[j][i])) != EQ[i][j]:
                ctx.spec_fail('law|eq-agrees', 'incomparable != (a == b)', {'a': repr(V[i]), 'b': repr(V[j])})
            le, gt, ge = bool(C[i] <= C[j]), bool(C[i] > C[j]), bool(C[i] >= C[j])
            if le != (LT[i][j] or EQ[i][j]) or gt != LT[j][i] or ge != (not LT[i][j]):
                ctx.spec_fail('law|derived-ops', '<=, >, >= inconsistent with < and ==', {'a': repr(V[i]), 'b': repr(V[j])})
    ntr = 0
    for i in range(n):
        Li = LT[i]
        for j in range(n):
            if not Li[j]:
                continue
            Lj = LT[j]
            for k in range(n):
                if Lj[k]:
                    ntr += 1
                    if not Li[k]:
                        ctx.spec_fail('law|transitive', 'a < b < c but not a < c',
                                      {'a': repr(V[i]), 'b': repr(V[j]), 'c': repr(V[k])})
    ctx.evaluations += n * n * n
    ctx.count('triples-with-a<b<c', ntr)
    ctx.extra['triples_checked'] = n * n * n
    # 5. the users of the ordering agree with it (two-row tables)
    idx = {id(v): i for i, v in enumerate(U)}
    for a in U:
        i = idx[id(a)]
        for b in U:
            j = idx[id(b)]
            lt_ab, lt_ba, eq_ab = LT[i][j], LT[j][i], EQ[i][j]
            hl = 'list' if (has_list(a) or has_list(b)) else 'values'
            case = {'a': repr(a), 'b': repr(b)}
            t2 = [['f', 'n'], [a, 0], [b, 1]]
            try:
                out = [r[1] for r in list(etl.sort(t2, 'f'))[1:]]
                exp = [1, 0] if lt_ba else [0, 1]
                if out != exp:
                    ctx.spec_fail('use|sort|' + hl, 'sort order disagrees with the ordering', case)
                outr = [r[1] for r in list(etl.sort(t2, 'f', reverse=True))[1:]]
                expr = [1, 0] if lt_ab else [0, 1]
                if outr != expr:
                    ctx.spec_fail('use|sort-reverse|' + hl, 'reverse sort order disagrees with the ordering', case)
                if etl.issorted(t2, 'f') != (not lt_ba) or etl.issorted(t2, 'f', strict=True) != lt_ab \
                        or etl.issorted(t2, 'f', reverse=True) != (not lt_ab) \
                        or etl.issorted(t2, 'f', reverse=True, strict=True) != lt_ba:
                    ctx.spec_fail('use|issorted|' + hl, 'issorted(key) disagrees with the ordering', case)
                t1c = [['f'], [a], [b]]
                if etl.issorted(t1c) != (not lt_ba) or etl.issorted(t1c, strict=True) != lt_ab:
                    ctx.spec_fail('use|issorted-key-none|' + hl, 'issorted(key=None) disagrees with the ordering', case)
                t1 = [['f'], [a]]
                got = (len(list(etl.selectlt(t1, 'f', b))) == 2, len(list(etl.selectle(t1, 'f', b))) == 2,
                       len(list(etl.selectgt(t1, 'f', b))) == 2, len(list(etl.selectge(t1, 'f', b))) == 2)
                want = (lt_ab, lt_ab or eq_ab, lt_ba, not lt_ab)
                if got != want:
                    ctx.spec_fail('use|selectlt-le-gt-ge|' + hl,
                                  'selectlt/le/gt/ge disagree with the ordering: got %s want %s' % (got, want), case)
                # chunked sorts, both directions, first pass and the pass served from the chunk-file cache
                for rev, want in ((False, exp), (True, expr)):
                    vw = etl.sort(t2, 'f', reverse=rev, buffersize=1)
                    for pno in (1, 2):
                        got = [r[1] for r in list(vw)[1:]]
                        if got != want:
                            ctx.spec_fail('use|chunked-sort|' + hl, 'sort spilled to chunk files (reverse=%s, pass %d) disagrees with the ordering' % (rev, pno), case)
                # ties on the key must never fall back to comparing the rest of the rows natively
                t3 = [['k', 'f'], [1, a], [1, b]]
                out3 = [r[1] for r in list(etl.sort(t3, 'k', buffersize=1))[1:]]
                if [repr(x) for x in out3] != [repr(a), repr(b)]:
                    ctx.spec_fail('use|chunked-sort-ties|' + hl, 'sort spilled to chunk files reorders rows with equal keys', case)
                out4 = [r[1] for r in list(etl.mergesort([['k', 'f'], [1, a]], [['k', 'f'], [1, b]], key='k'))[1:]]
                if [repr(x) for x in out4] != [repr(a), repr(b)]:
                    ctx.spec_fail('use|mergesort-ties|' + hl, 'mergesort reorders rows with equal keys', case)
                jn = list(etl.join([['k', 'v'], [a, 0]], [['k', 'w'], [b, 1]], key='k'))
                if (len(jn) == 2) != eq_ab:
                    ctx.spec_fail('use|join|' + hl, 'merge join matches keys differently from ==', case)
            except Exception as e:
                ctx.spec_fail('use|raises|' + hl, 'a user of the ordering raised %s' % type(e).__name__,
                              dict(case, error=repr(e)))
            ctx.evaluations += 1
    # the users of the ordering on a table large enough to spill into many chunk files
    from petl.comparison import Comparable as _C
    flat = [v for v in U if not has_list(v)]
    big = [[ctx.rng.choice(flat), i] for i in range(120)]
    for rev in (False, True):
        want = [r[1] for r in sorted(big, key=lambda r: _C(r[0]), reverse=rev)]
        vw = etl.sort([['f', 'i']] + big, 'f', reverse=rev, buffersize=2)
        for pno in (1, 2):
            try:
                got = [r[1] for r in list(vw)[1:]]
            except Exception as e:   # noqa
                got = 'ERR ' + type(e).__name__
            ctx.evaluations += 1
            if got != want:
                ctx.spec_fail('use|many-chunk-sort|values', 'a 120-row sort in 60 chunks (reverse=%s, pass %d) disagrees with the ordering' % (rev, pno),
                              {'reverse': rev, 'pass': pno, 'nrows': 120, 'buffersize': 2})
    ctx.exhaustive = False

    # ---- comparisons outside the value domain (a naive against an aware datetime or time, a number against a complex, two dicts)
    # are made once, up front: whatever they do, they must leave no trace on the comparisons of the domain that follow.
    # (This block runs before the pair/triple sweep below is re-run on the real code.)
    import datetime as _dtm
    from petl.comparison import Comparable as _Cmp
    for a_, b_ in ((_dtm.datetime(2024, 1, 1), _dtm.datetime(2024, 1, 1, tzinfo=_dtm.timezone.utc)),
                   (_dtm.time(1, 2), _dtm.time(1, 2, tzinfo=_dtm.timezone.utc)), (1, 1j), ({'a': 1}, {'b': 2}), (set([1]), set([2]))):
        for x_, y_ in ((a_, b_), (b_, a_)):
            try:
                _Cmp(x_) < _Cmp(y_)
                _Cmp(x_) == _Cmp(y_)
            except Exception:   # noqa
                pass
    dts = [_dtm.datetime(2020, 1, 1), _dtm.datetime(2020, 1, 2), _dtm.datetime(1999, 12, 31, 23, 59, 59), _dtm.time(0, 0), _dtm.time(12, 30),
           _dtm.date(2020, 1, 1), _dtm.date(2020, 1, 2), 1, 2, 2.5, 'a', 'b', b'a', (1, 'a'), (1, 'b')]
    for x_ in dts:
        for y_ in dts:
            if type(x_) is type(y_) or (isinstance(x_, (int, float)) and isinstance(y_, (int, float))):
                got = (_Cmp(x_) < _Cmp(y_), _Cmp(x_) == _Cmp(y_))
                ctx.case(('after-foreign-comparison', repr(x_), repr(y_)))
                ctx.count('after-foreign-comparison')
                if got != (x_ < y_, x_ == y_):
                    ctx.spec_fail('Comparable|stateful', 'after comparisons of values outside the domain, two values of one type no longer follow their native order',
                                  {'x': repr(x_), 'y': repr(y_), '(x < y, x == y) under Comparable': got, 'native': (x_ < y_, x_ == y_)})
    # ---- operands that are sort views (issorted, merge joins)
    util.view_operand_cases(etl, ctx.rng, ctx, [
        ('issorted', 1, lambda t: [[etl.issorted(t, 'x'), etl.issorted(t, 'x', strict=True), etl.issorted(t, 'x', reverse=True),
                                    etl.issorted(t, 'x', reverse=True, strict=True), etl.issorted(t), etl.issorted(t, ('x', 'xy'), strict=True)]]),
        ('issorted(xy)', 1, lambda t: [[etl.issorted(t, 'xy'), etl.issorted(t, 'xy', strict=True), etl.issorted(t, 'xy', reverse=True, strict=True)]]),
        ('join', 2, lambda a, b: etl.join(a, b, key='x')),
        ('leftjoin', 2, lambda a, b: etl.leftjoin(a, b, key='x')),
        ('selectlt', 1, lambda t: etl.selectlt(t, 'x', 2)),
        ('sort', 1, lambda t: etl.sort(t, 'x')),
    ], 240 if ctx.thorough() else 60)

def replay(d):
    import ast as _ast
    print('replay: evaluate the case by hand with petl.comparison.Comparable:', d.get('case'))
    return 0
