"""C18 — temporary files live exactly as long as something can still read them."""
import os, gc, sys, tempfile, shutil, itertools
from .. import lean, proto, gen, util

REQUIRED = ['Petl.C18.' + n for n in (
    'files_are_exactly_held no_leak live_reader_complete never_crashes failure_leaves_nothing').split()]


class Boom(Exception):
    pass


class Source(object):
    """header + nrows data rows with descending keys; raises Boom when data row `fail_at` is requested"""
    def __init__(self, nrows, fail_at):
        self.nrows, self.fail_at = nrows, fail_at

    def __iter__(self):
        yield ('k', 'v')
        for i in range(self.nrows):
            if self.fail_at == i:
                raise Boom()
            yield (self.nrows - i, i)
        if self.fail_at == self.nrows:
            raise Boom()


def nfiles(d, collect=False):
    if collect:
        gc.collect()
    return len(os.listdir(d))


def real_history(etl, tmpd, nrows, bs, cache, fail_at, ops):
    view = etl.sort(Source(nrows, fail_at), 'k', buffersize=bs, cache=cache, tempdir=tmpd)
    expected = [('k', 'v')] + [(nrows - i, i) for i in reversed(range(nrows))]
    its = []
    out = []
    for op in ops:
        o = '.'
        if op == 'n':
            if view is not None:
                its.append(iter(view))
        elif op == 'v':
            view = None
        elif op == 'c':
            if view is not None:
                view.clearcache()         # the public way to drop a sort view's cache
        elif op[0] == 'd':
            i = int(op[1:])
            if i < len(its):
                its[i] = None
        else:
            i = int(op[1:])
            if i < len(its):
                it = its[i]
                if it is None:
                    o = 'STOP'
                else:
                    try:
                        row = next(it)
                        k = expected.index(tuple(row)) if tuple(row) in expected else -1
                        o = 'r%d' % k
                    except StopIteration:
                        o = 'STOP'
                        its[i] = None
                    except Boom:
                        o = 'RAISED'
                        its[i] = None
                    except Exception as e:   # noqa
                        o = 'CRASH'
                        its[i] = None
                    it = None
        out.append('%s:%d' % (o, nfiles(tmpd, collect=(o in ('RAISED', 'CRASH')))))
    del its, view
    left = nfiles(tmpd, collect=True)
    return ' | '.join(out), left


def histories(rng, thorough):
    hs = []
    # one iterator: abandonment at every point, view released before/after
    for stop_at in range(0, 8):
        hs.append(['n'] + ['x0'] * stop_at + ['d0', 'v'])
        hs.append(['n'] + ['x0'] * stop_at + ['v', 'd0'])
        hs.append(['n'] + ['x0'] * stop_at + ['v'] + ['x0'] * 6 + ['d0'])
    # a full pass then later passes from the cache, readers outliving the view
    for k in range(0, 6):
        hs.append(['n'] + ['x0'] * 7 + ['n'] + ['x1'] * k + ['v'] + ['x1'] * 7)
        hs.append(['n', 'n'] + ['x0'] * 7 + ['n'] + ['x2'] * k + ['x1'] * 2 + ['x2'] * 7 + ['v', 'd1'])
    ntarget = len(hs)
    n = 300 if thorough else 160
    for _ in range(n):
        ops, created, dropped_view = [], 0, False
        for _ in range(rng.randrange(2, 18)):
            r = rng.random()
            if not dropped_view and created < 3 and (created == 0 or r < 0.15):
                ops.append('n'); created += 1
            elif r < 0.22 and created:
                ops.append('d%d' % rng.randrange(created))
            elif r < 0.27 and not dropped_view:
                ops.append('v'); dropped_view = True
            elif created:
                ops.append('x%d' % rng.randrange(created))
        hs.append(ops)
    return hs, ntarget


def run(ctx):
    import petl as etl
    ctx.rule = ('external sorts over a counting/failing source: nrows 0..4 x buffersize 1..3 x cache on/off x source failure at '
                'every row index (and at exhaustion) or none; histories of new / next i / abandon i / release the view with up to '
                '3 iterators: abandonment at every point, view released before or after the iterators, later passes from the file '
                'cache, readers outliving the view, plus random histories; after EVERY operation the number of files in a private '
                'tempdir (after gc.collect()) and the row delivered are compared with the model; at the end everything is released '
                'and the directory must be empty. fromdicts(generator): spill file present iff created and the view is reachable. '
                'Non-trivial: histories in which a chunk file is created.')
    ctx.assumptions += ['CPython reference counting + gc.collect(); exception tracebacks are released by the harness before listing',
                        'interpreter exit is not modelled']
    from translators import fingerprints as _fp
    try:
        _fpi = _fp.generate()
        ctx.bridge('translator: fingerprints of the petl functions the hand-written models mirror (%d bodies)' % _fpi['names'], True)
    except Exception as e:   # noqa
        ctx.bridge('translator: source fingerprints extracted', False, repr(e))
    ctx.prove(['PetlProofs.Props.C18', 'PetlProofs.Snapshot.C18'], REQUIRED + ['Petl.Snapshot.C18_sources_as_validated'])
    rng = ctx.rng
    tmpd = tempfile.mkdtemp(prefix='petl_c18_')
    lines, metas = [], []
    try:
        hs, ntarget = histories(rng, ctx.thorough())
        configs = [(n, bs, c) for n in range(0, 5) for bs in (1, 2, 3) for c in (True, False)]
        for (n, bs, c) in configs:
            fails = [None] + list(range(0, n + 1))
            for fa in fails:
                sel = hs if ctx.thorough() else ((hs[:ntarget] if fa is None and bs <= n else rng.sample(hs[:ntarget], 6)) + rng.sample(hs[ntarget:], 8))
                for ops in sel:
                    lines.append('tf %d %d %s %s %s' % (n, bs, proto.enc_bool(c), proto.enc_opt(fa), proto.enc_list(ops)))
                    metas.append((n, bs, c, fa, ops))
        model = lean.run_driver(lines)
        for (n, bs, c, fa, ops), spec in zip(metas, model):
            real, left = real_history(etl, tmpd, n, bs, c, fa, ops)
            made = any(int(x.split(':')[1]) > 0 for x in spec.split(' | ')) if spec and ':' in spec else False
            ctx.case((n, bs, c, fa, tuple(ops)) if made else None,
                     sample={'nrows': n, 'buffersize': bs, 'cache': c, 'fail_at': fa, 'history': ' '.join(ops), 'trace(out:files)': real}
                     if len(ctx.samples) < 6 and made and ctx.evaluations % 131 == 0 else None)
            ctx.count('chunked' if bs <= n else 'in-memory')
            ctx.count('source-fails' if fa is not None else 'source-ok')
            case = {'nrows': n, 'buffersize': bs, 'cache': c, 'fail_at': fa, 'history': ' '.join(ops), 'real': real, 'model': spec}
            if spec.startswith(('PARSE', 'BADOP')):
                ctx.corr_fail('sort-tempfiles', 'driver: ' + spec, case)
                continue
            ctx.exact(real == spec, case)
            if left != 0:
                ctx.spec_fail('sort|leak|%s' % ('fail' if fa is not None else 'ok'),
                              '%d temporary file(s) left after the view and all iterators were released' % left, case)
                for f in os.listdir(tmpd):
                    os.unlink(os.path.join(tmpd, f))
            elif 'CRASH' in real:
                ctx.spec_fail('sort|reader-crash', 'an iterator that still holds its chunk files failed', case)
            elif real != spec:
                # file counts or rows differ from the model while nothing leaked: which is right?
                rp = [x.split(':') for x in real.split(' | ')]
                sp = [x.split(':') for x in spec.split(' | ')]
                rows_differ = [a[0] for a in rp] != [b[0] for b in sp]
                if rows_differ:
                    ctx.spec_fail('sort|wrong-rows', 'an iterator does not yield the complete sorted sequence', case)
                else:
                    # files kept longer/shorter than the holder analysis says: longer = outlives its users
                    longer = any(int(a[1]) > int(b[1]) for a, b in zip(rp, sp))
                    if longer:
                        ctx.spec_fail('sort|file-outlives-users', 'a temporary file exists although nothing can read it any more', case)
                    else:
                        ctx.corr_fail('sort-tempfiles', 'files disappear earlier than the model says but no reader failed', case)
        # ---- histories with an explicit clearcache(): not in the Lean machine; checked against the property directly — every
        # iterator delivers the sorted rows in order (completely, if run to the end), none crashes, nothing is left behind
        cc = []
        for k in range(0, 6):
            cc.append(['n'] + ['x0'] * 7 + ['n'] + ['x1'] * k + ['c'] + ['x1'] * 7 + ['v'])
            cc.append(['n'] + ['x0'] * 7 + ['n', 'n'] + ['x1'] * k + ['c'] + ['x2'] * 3 + ['x1'] * 7 + ['n'] + ['x3'] * 7 + ['v', 'x2', 'x2', 'x2', 'x2'])
            cc.append(['n'] + ['x0'] * k + ['c'] + ['x0'] * 7 + ['n'] + ['x1'] * 7 + ['c', 'v'])
        for (n, bs, c) in [(n, bs, c) for n in (2, 4) for bs in (1, 2, 5) for c in (True, False)]:
            for ops in cc:
                real, left = real_history(etl, tmpd, n, bs, c, None, ops)
                outs = [x.split(':')[0] for x in real.split(' | ')]
                per_it = {}
                for op, o in zip(ops, outs):
                    if op[0] == 'x':
                        per_it.setdefault(op, []).append(o)
                in_order = all([int(o[1:]) for o in seq if o.startswith('r')] == list(range(len([o for o in seq if o.startswith('r')]))) and
                               ('STOP' not in seq or seq.index('STOP') == n + 1) for seq in per_it.values())
                ctx.case(('clearcache', n, bs, c, tuple(ops)))
                ctx.count('explicit-clearcache')
                case = {'nrows': n, 'buffersize': bs, 'cache': c, 'history': ' '.join(ops), 'real': real}
                if left != 0:
                    ctx.spec_fail('sort|leak|clearcache', '%d temporary file(s) left after the view and all iterators were released' % left, case)
                    for f in os.listdir(tmpd):
                        os.unlink(os.path.join(tmpd, f))
                elif 'CRASH' in outs or 'r-1' in outs or not in_order:
                    ctx.spec_fail('sort|reader-crash|clearcache', 'after an explicit clearcache() an iterator that was already running fails or does not deliver the sorted rows', case)
        # ---- fromdicts(generator): the spill file
        old_tmp = tempfile.tempdir
        tempfile.tempdir = tmpd
        try:
            for nrows in (0, 1, 3):
                # every interleaving of two iterators (a leader that fills the spill file, a follower served from it)
                import itertools as _it
                inter = [['n', 'n'] + ['x%d' % b for b in bits] + ['v', 'x0', 'x1', 'x0', 'x1']
                         for bits in _it.product((0, 1), repeat=(9 if ctx.thorough() else 7))] if nrows == 3 else []
                for ops in (hs if ctx.thorough() else rng.sample(hs, 40)) + inter:
                    view = etl.fromdicts(({'a': i} for i in range(nrows)), header=['a'])
                    its, created = [], False
                    nexts = []
                    ok = True
                    trace = []
                    wrong_rows = []
                    for op in ops:
                        if op == 'n':
                            if view is not None:
                                its.append(iter(view))
                                nexts.append(0)
                        elif op == 'v':
                            view = None
                        elif op[0] == 'd':
                            i = int(op[1:])
                            if i < len(its):
                                its[i] = None
                        else:
                            i = int(op[1:])
                            if i < len(its) and its[i] is not None:
                                nexts[i] += 1
                                if nexts[i] >= 2:
                                    created = True   # the first next() beyond the header creates the spill file
                                expect = ([('a',)] + [(j,) for j in range(nrows)])
                                try:
                                    got_row = tuple(next(its[i]))
                                    if nexts[i] > len(expect) or got_row != expect[nexts[i] - 1]:
                                        wrong_rows.append((i, nexts[i] - 1, got_row))
                                except StopIteration:
                                    its[i] = None
                                    if nexts[i] != len(expect) + 1:
                                        wrong_rows.append((i, nexts[i] - 1, 'stopped early'))
                        reachable = view is not None or any(x is not None for x in its)
                        want = 1 if (created and reachable) else 0
                        got = nfiles(tmpd)
                        trace.append((op, got, want))
                        if got != want:
                            ok = False
                    del its, view
                    left = nfiles(tmpd, collect=True)
                    ctx.case(('dictsgen', nrows, tuple(ops)) if created else None)
                    ctx.count('fromdicts-generator')
                    if wrong_rows:
                        ctx.spec_fail('fromdicts|spill-file|rows',
                                      'an iterator over fromdicts(generator), served partly from the spill file, does not deliver the correct sequence',
                                      {'nrows': nrows, 'history': ' '.join(ops), 'wrong(iterator,position,row)': wrong_rows[:5]})
                    if left or not ok:
                        ctx.spec_fail('fromdicts|spill-file|%s' % ('leak' if left else 'lifetime'),
                                      'the spill file of fromdicts(generator) does not live exactly as long as the view is reachable',
                                      {'nrows': nrows, 'history': ' '.join(ops), 'trace(op,files,expected)': trace, 'left': left})
                        for f in os.listdir(tmpd):
                            os.unlink(os.path.join(tmpd, f))
            # the generator behind fromdicts fails at item j: whatever was spilled is gone once view and iterators are released
            class GenBoom(Exception):
                pass
            for nrows in (1, 3):
                for j in range(0, nrows + 1):
                    for passes in (1, 2):
                        def failing():
                            for i in range(nrows):
                                if i == j:
                                    raise GenBoom()
                                yield {'a': i}
                            if j == nrows:
                                raise GenBoom()
                        view = etl.fromdicts(failing(), header=['a'])
                        got = []
                        for _p in range(passes):
                            it = iter(view)
                            try:
                                for row in it:
                                    got.append(tuple(row))
                            except GenBoom:
                                pass
                            except Exception as e:   # noqa
                                got.append('ERR ' + type(e).__name__)
                            it = None
                        # a later pass, and an iterator opened before the failure, deliver (at least) what had been handed over
                        first_len = len([g for g in got if not isinstance(g, str)])
                        try:
                            again = [tuple(r) for r in view]
                        except GenBoom:
                            again = None
                        except Exception as e:   # noqa
                            again = 'ERR ' + type(e).__name__
                        if passes == 1 and isinstance(again, list) and j >= 1 and again[:1 + min(j, nrows)] != [('a',)] + [(i,) for i in range(min(j, nrows))]:
                            ctx.spec_fail('fromdicts|spill-file|rows-after-failure', 'after the generator behind fromdicts failed, a later pass no longer delivers the rows handed over before the failure',
                                          {'nrows': nrows, 'generator_fails_at': j, 'first pass': repr(got), 'later pass': repr(again)})
                        elif isinstance(again, str):
                            ctx.spec_fail('fromdicts|spill-file|rows-after-failure', 'after the generator behind fromdicts failed, a later pass raises %s' % again,
                                          {'nrows': nrows, 'generator_fails_at': j, 'first pass': repr(got)})
                        during = nfiles(tmpd)
                        del view
                        left = nfiles(tmpd, collect=True)
                        ctx.case(('dictsgen-fails', nrows, j, passes))
                        ctx.count('fromdicts-generator-fails')
                        if left:
                            ctx.spec_fail('fromdicts|spill-file|leak', 'the spill file of fromdicts(generator) is left behind when the generator raises',
                                          {'nrows': nrows, 'generator_fails_at': j, 'passes': passes, 'files_while_alive': during, 'left': left})
                            for f in os.listdir(tmpd):
                                os.unlink(os.path.join(tmpd, f))
        finally:
            tempfile.tempdir = old_tmp
        # ---- objects still referenced when the interpreter exits (a module global, as in a script): no file survives the process
        import subprocess
        CHILD = (
            "import sys, os, tempfile\n"
            "sys.path.insert(0, %r)\n"
            "import petl as etl\n"
            "tempfile.tempdir = sys.argv[1]\n"
            "kind, consumed, keep = sys.argv[2], int(sys.argv[3]), sys.argv[4]\n"
            "if kind == 'fromdicts':\n"
            "    v = etl.fromdicts(({'a': i} for i in range(5)), header=['a'])\n"
            "else:\n"
            "    v = etl.sort([['k', 'v']] + [[5 - i, i] for i in range(5)], 'k', buffersize=2, cache=(kind == 'sort-cached'), tempdir=sys.argv[1])\n"
            "it = iter(v)\n"
            "rows = [next(it) for _ in range(consumed)]\n"
            "if keep == 'view': del it\n"
            "elif keep == 'iterator': del v\n"
            "print(len(rows))\n"
        ) % os.environ.get('PETL_REPO', '/repo')
        for kind in ('fromdicts', 'sort-cached', 'sort-uncached'):
            for consumed, keep in ((2, 'both'), (6, 'both'), (3, 'view'), (3, 'iterator')) if ctx.thorough() else ((3, 'both'), (2, 'iterator')):
                cd = tempfile.mkdtemp(prefix='petl_c18_child_', dir=tmpd)
                try:
                    r = subprocess.run([sys.executable, '-c', CHILD, cd, kind, str(consumed), keep], stdout=subprocess.PIPE, stderr=subprocess.PIPE, timeout=120)
                    leftc = sorted(os.listdir(cd))
                    okc = r.returncode == 0 and not leftc
                except Exception as e:   # noqa
                    okc, leftc, r = False, repr(e), None
                ctx.case(('at-exit', kind, consumed, keep))
                ctx.count('referenced-at-exit')
                if not okc:
                    ctx.spec_fail('%s|left-at-exit' % kind.split('-')[0], 'a temporary file is left behind by a process that exits while the view or an iterator is still referenced',
                                  {'view': kind, 'rows consumed': consumed, 'still referenced': keep, 'left': repr(leftc),
                                   'child stderr': (r.stderr.decode(errors='replace')[-300:] if r is not None else '')})
                shutil.rmtree(cd, ignore_errors=True)
        # a fault inside the spill itself: a cell that cannot be pickled makes the chunk dump fail part-way;
        # whatever was created so far must be gone once the view and its iterators are released
        import threading
        for opname, mk in (('sort', lambda t, bs, c: etl.sort(t, 'k', buffersize=bs, cache=c, tempdir=tmpd)),
                           ('distinct', lambda t, bs, c: etl.distinct(t, 'k', buffersize=bs, cache=c, tempdir=tmpd)),
                           ('mergesort', lambda t, bs, c: etl.mergesort(t, [['k', 'v'], [0, 0]], key='k', buffersize=bs, cache=c, tempdir=tmpd))):
            for n, bs in ((2, 1), (3, 2), (4, 2), (5, 3)):
                for bad in range(n):
                    for c in (True, False):
                        t = [['k', 'v']] + [[n - i, threading.Lock() if i == bad else i] for i in range(n)]
                        v = mk(t, bs, c)
                        outcome = 'ok'
                        for _pass in range(2):
                            try:
                                for _ in v:
                                    pass
                            except Exception as e:   # noqa
                                outcome = type(e).__name__
                        del v
                        left = nfiles(tmpd, collect=True)
                        ctx.case((opname, 'unpicklable', n, bs, bad, c))
                        ctx.count('spill-fault:' + outcome)
                        if left:
                            ctx.spec_fail('%s|leak|spill-fault' % opname,
                                          'a chunk file is left behind when writing a chunk fails (unpicklable cell)',
                                          {'op': opname, 'nrows': n, 'buffersize': bs, 'bad_row': bad, 'cache': c, 'left': left})
                            for f in os.listdir(tmpd):
                                os.unlink(os.path.join(tmpd, f))
        # hundreds of chunk files (limits on open files or merge fan-in live here): everything must still be gone
        for n, bs in ((503, 2), (260, 1)):
            t = [['k', 'v']] + [[(i * 7) % 11, i] for i in range(n)]
            want = [('k', 'v')] + sorted(((r[0], r[1]) for r in t[1:]), key=lambda r: r[0])
            for c in (True, False):
                for stop in (None, 1, 5):
                    v = etl.sort(t, 'k', buffersize=bs, cache=c, tempdir=tmpd)
                    it = iter(v)
                    got = list(it) if stop is None else [next(it) for _ in range(stop)]
                    it2 = iter(v)
                    got2 = list(it2)
                    wrong = (stop is None and got != want) or got2 != want
                    del it, it2, v
                    left = nfiles(tmpd, collect=True)
                    ctx.case(('sort', 'many-chunks', n, bs, c, stop))
                    ctx.count('many-chunks')
                    if wrong:
                        ctx.spec_fail('sort|wrong-rows|many-chunks', 'a %d-chunk sort does not yield the complete sorted sequence' % (-(-n // bs)),
                                      {'nrows': n, 'buffersize': bs, 'cache': c, 'abandon_after': stop})
                    if left:
                        ctx.spec_fail('sort|leak|many-chunks', '%d temporary file(s) left after a %d-chunk sort was released' % (left, -(-n // bs)),
                                      {'nrows': n, 'buffersize': bs, 'cache': c, 'abandon_after': stop, 'left': left})
                        for f in os.listdir(tmpd):
                            os.unlink(os.path.join(tmpd, f))
    finally:
        gc.collect()
        shutil.rmtree(tmpd, ignore_errors=True)


def replay(d):
    print('replay case:', d.get('case'))
    return 0
