"""C08 — set operations obey multiset algebra; hash variants agree."""
from collections import Counter
from .. import lean, proto, gen, util
from .c06 import norm_tok

REQUIRED = ['Petl.C08.' + n for n in (
    'complement_count complement_strict_count intersection_count complement_append_intersection '
    'hash_variants_same_counts hash_variants_in_order_of_a hash_counts recordcomplement_count alignRows_cells alignRows_rect').split()]

CELLS = [None, 1, 1.0, True, 2, 'a', 'b', (1, 'a'), 2.5, b'a']


def nrows_counter(line):
    """model/real output line -> (header tuple, Counter of normalised data rows)"""
    t = proto.parse_table(line)
    return tuple(t[0]) if t else None, Counter(tuple(norm_tok(c) for c in r) for r in t[1:])


import collections as _collections
_Point = _collections.namedtuple('_Point', ['x', 'y'])      # module level: rows go through pickle in chunked sorts


def run(ctx):
    import petl as etl
    ctx.rule = ('pairs of rectangular tables over one header (1-3 fields, 0-6 rows) with cells from a 10-value pool (None, '
                '1/1.0/True, text, bytes, tuple) so duplicated rows on both sides and cross-type equal rows are frequent; '
                'complement (strict on/off), intersection, hashcomplement, hashintersection, diff, recordcomplement, recorddiff '
                '(b with permuted columns) x buffersize: real vs model (exact sequence; multiset under == when the order differs) '
                'and vs collections.Counter arithmetic. Non-trivial: both sides non-empty with a shared row.')
    ctx.assumptions += ['collections.Counter on tuples of hashable cells (hash consistent with ==)',
                        'cells are scalars or tuples (a list cell equal item-wise to a tuple cell is Comparable-equal but not ==)']
    from translators import fingerprints as _fp
    try:
        _fpi = _fp.generate()
        ctx.bridge('translator: fingerprints of the petl functions the hand-written models mirror (%d bodies)' % _fpi['names'], True)
    except Exception as e:   # noqa
        ctx.bridge('translator: source fingerprints extracted', False, repr(e))
    ctx.prove(['PetlProofs.Props.C08', 'PetlProofs.Props.C08Record', 'PetlProofs.Snapshot.C08'], REQUIRED + ['Petl.Snapshot.C08_sources_as_validated'])
    rng = ctx.rng
    n = 2500 if ctx.thorough() else 350
    jobs = []   # (name, line, thunk, oracle Counter or None, hdr expected, case)
    for ci in range(n):
        hdr = gen.header(rng, n=rng.choice([1, 2, 2, 3]))
        pool = rng.sample(CELLS, rng.choice([2, 3, 4]))
        A = gen.table(rng, hdr, default_pool=pool, maxn=6, ragged=0.0)
        B = gen.table(rng, hdr, default_pool=pool, maxn=6, ragged=0.0)
        # a data row that repeats the header (e.g. a concatenated export): it is data, and only data
        u = rng.random()
        if u < 0.12:
            A.insert(rng.randint(1, len(A)), list(hdr))
        elif u < 0.18:
            B.insert(rng.randint(1, len(B)), list(hdr))
        elif u < 0.22:
            A.insert(rng.randint(1, len(A)), list(hdr))
            B.insert(rng.randint(1, len(B)), list(hdr))
        bs = rng.choice([None, None, 1, 2, 3])
        strict = rng.random() < 0.4
        ca = Counter(tuple(r) for r in A[1:])
        cb = Counter(tuple(r) for r in B[1:])
        def diffc(x, y, strict):
            if strict:
                return Counter({k: v for k, v in x.items() if y[k] == 0})
            return x - y
        enc = lambda c: Counter({tuple(norm_tok(proto.enc(v)) for v in k): m for k, m in c.items()})
        base = {'A': repr(A), 'B': repr(B), 'strict': strict, 'buffersize': bs, '_nt': bool(ca & cb)}
        def line(op, X, Y, st):
            return 'setop %s %s %s %s %s' % (op, proto.enc_bool(st), proto.enc_opt(bs), proto.enc_table(X), proto.enc_table(Y))
        jobs.append(('complement', line('complement', A, B, strict),
                     lambda A=A, B=B, strict=strict, bs=bs: etl.complement(A, B, strict=strict, buffersize=bs), enc(diffc(ca, cb, strict)), base))
        jobs.append(('intersection', line('intersection', A, B, False),
                     lambda A=A, B=B, bs=bs: etl.intersection(A, B, buffersize=bs), enc(ca & cb), base))
        jobs.append(('hashcomplement', line('hashcomplement', A, B, strict),
                     lambda A=A, B=B, strict=strict: etl.hashcomplement(A, B, strict=strict), enc(diffc(ca, cb, strict)), base))
        jobs.append(('hashintersection', line('hashintersection', A, B, False),
                     lambda A=A, B=B: etl.hashintersection(A, B), enc(ca & cb), base))
        # diff = both complements
        jobs.append(('diff.added', line('complement', B, A, strict),
                     lambda A=A, B=B, strict=strict, bs=bs: etl.diff(A, B, strict=strict, buffersize=bs)[0], enc(diffc(cb, ca, strict)), base))
        jobs.append(('diff.subtracted', line('complement', A, B, strict),
                     lambda A=A, B=B, strict=strict, bs=bs: etl.diff(A, B, strict=strict, buffersize=bs)[1], enc(diffc(ca, cb, strict)), base))
        # record variants: b with its columns permuted; the harness aligns b to a's field order itself
        if len(set(hdr)) == len(hdr):
            perm = list(range(len(hdr)))
            rng.shuffle(perm)
            Bp = [[r[j] for j in perm] for r in B]
            basep = dict(base, B_permuted=repr(Bp))
            jobs.append(('recordcomplement', line('complement', A, B, strict),
                         lambda A=A, Bp=Bp, strict=strict, bs=bs: etl.recordcomplement(A, Bp, strict=strict, buffersize=bs), enc(diffc(ca, cb, strict)), basep))
            Ap = [[r[j] for j in perm] for r in A]
            cbp = Counter(tuple(r) for r in Bp[1:])
            cap = Counter(tuple(r) for r in Ap[1:])
            jobs.append(('recorddiff.added', line('complement', Bp, Ap, strict),
                         lambda A=A, Bp=Bp, strict=strict, bs=bs: etl.recorddiff(A, Bp, strict=strict, buffersize=bs)[0], enc(diffc(cbp, cap, strict)), basep))
    model = lean.run_driver([j[1] for j in jobs])
    for (name, line, thunk, oracle, base), spec in zip(jobs, model):
        real = util.run_show(thunk)
        base = dict(base)
        nt = base.pop('_nt')
        ctx.case((name, line) if nt else None,
                 sample=dict(base, op=name, out=real) if len(ctx.samples) < 5 and len(real) > 40 else None)
        ctx.count('op:' + name)
        case = dict(base, op=name, real=real, spec=spec)
        if spec.startswith(('PARSE', 'BADOP')):
            ctx.corr_fail(name, 'driver: ' + spec, case)
            continue
        ctx.exact(real == spec, case)
        bad = None
        if ' ERR ' in real or real.startswith('UNENC'):
            bad = 'raised'
        else:
            rh, rc = nrows_counter(real)
            if rc != oracle:
                bad = 'multiset differs from Counter arithmetic: extra %s missing %s' % (
                    list((rc - oracle).items())[:2], list((oracle - rc).items())[:2])
            elif name.startswith(('recorddiff.added',)):
                pass   # header is b's (permuted) header
            elif name in ('diff.added',):
                pass
        if bad:
            ctx.spec_fail('%s|%s' % (name, 'raises' if bad == 'raised' else 'wrong-multiset'),
                          '%s: %s' % (name, bad), case)
            continue
        if real != spec and ' ERR ' not in spec:
            sh, sc = nrows_counter(spec)
            rh, rc = nrows_counter(real)
            if sc != rc or sh != rh:
                ctx.corr_fail(name, 'real output satisfies the Counter oracle but differs from the model (multiset/header)', case)
            elif name.startswith('hash'):
                # order of a is part of the property for the hash variants
                ctx.spec_fail('%s|order' % name, '%s does not keep the order of a' % name, case)
    # ---- argument forms and inputs the model does not speak: presorted=True with rows of different sequence types,
    # field names that are integers (a header is data, never a list of positions)
    from petl.comparison import Comparable as _C
    for ci in range(200 if ctx.thorough() else 40):
        w = rng.choice([1, 2, 2, 3])
        pool = rng.sample([None, 1, 2, 'a', 'b', 2.5], rng.choice([2, 3]))
        hdr_s = ['f%d' % j for j in range(w)]
        hdr_i = rng.choice([list(range(w))[::-1], [2019 + j for j in range(w)], [1] * w, [0] + ['x'] * (w - 1)])
        A = gen.table(rng, hdr_s, default_pool=pool, maxn=6, ragged=0.0)
        B = gen.table(rng, hdr_s, default_pool=pool, maxn=6, ragged=0.0)
        ca, cb = Counter(tuple(r) for r in A[1:]), Counter(tuple(r) for r in B[1:])
        nt = bool(ca & cb)
        # (a) presorted inputs, a's rows tuples and b's rows lists
        srt = lambda T: [T[0]] + sorted(T[1:], key=lambda r: tuple(_C(v) for v in r))
        As = [tuple(r) for r in srt(A)]
        Bs = [list(r) for r in srt(B)]
        for name, call, want in (('complement', lambda: etl.complement(As, Bs, presorted=True), ca - cb),
                                 ('intersection', lambda: etl.intersection(As, Bs, presorted=True), ca & cb),
                                 ('complement(strict)', lambda: etl.complement(As, Bs, presorted=True, strict=True),
                                  Counter({k: v for k, v in ca.items() if cb[k] == 0}))):
            rows, err = util.collect(call())
            ctx.case((name, 'presorted-mixed-rowtypes', repr(As), repr(Bs)) if nt else None)
            ctx.count('presorted-mixed-rowtypes')
            if err is not None or Counter(tuple(r) for r in rows[1:]) != want:
                ctx.spec_fail('%s|presorted|row-types' % name, '%s(presorted=True) with tuple rows in a and list rows in b is not the multiset operation' % name,
                              {'op': name, 'a': repr(As), 'b': repr(Bs), 'got': repr(rows), 'error': err})
        # (b) the same tables under a header of integer field names
        Ai, Bi = [hdr_i] + A[1:], [hdr_i] + B[1:]
        for name, call, want in (('complement', lambda: etl.complement(Ai, Bi), ca - cb),
                                 ('intersection', lambda: etl.intersection(Ai, Bi), ca & cb),
                                 ('diff.added', lambda: etl.diff(Ai, Bi)[0], cb - ca),
                                 ('hashcomplement', lambda: etl.hashcomplement(Ai, Bi), ca - cb)):
            rows, err = util.collect(call())
            ctx.case((name, 'int-field-names', repr(Ai), repr(Bi)) if nt else None)
            ctx.count('int-field-names')
            if err is not None or Counter(tuple(r) for r in rows[1:]) != want:
                ctx.spec_fail('%s|int-field-names' % name, '%s on tables whose field names are integers is not the multiset operation' % name,
                              {'op': name, 'a': repr(Ai), 'b': repr(Bi), 'got': repr(rows), 'error': err})

    # ---- operands that are sort views
    util.view_operand_cases(etl, rng, ctx, [
        ('complement', 2, lambda a, b: etl.complement(a, b)), ('complement(strict)', 2, lambda a, b: etl.complement(a, b, strict=True)),
        ('intersection', 2, lambda a, b: etl.intersection(a, b)), ('diff[0]', 2, lambda a, b: etl.diff(a, b)[0]),
        ('diff[1]', 2, lambda a, b: etl.diff(a, b)[1]), ('recordcomplement', 2, lambda a, b: etl.recordcomplement(a, b)),
        ('hashcomplement', 2, lambda a, b: etl.hashcomplement(a, b)), ('hashintersection', 2, lambda a, b: etl.hashintersection(a, b)),
    ], 320 if ctx.thorough() else 80)
    # ---- a set-operation view is a description of its operands, not of what they held when it was first read: a pass after an
    # edit of either operand reflects the edit (the hash variants keep nothing between passes)
    for ci in range(120 if ctx.thorough() else 30):
        mk = lambda: [['k', 'v']] + [[rng.choice([1, 2, 3]), rng.choice([0, 1])] for _ in range(rng.choice([1, 2, 4]))]
        A, B = mk(), mk()
        for name in ('hashcomplement', 'hashintersection', 'complement', 'intersection'):
            kw = {'cache': False} if not name.startswith('hash') else {}
            v = getattr(etl, name)(A, B, **kw)
            first = list(v)
            side = rng.choice(['a', 'b'])
            T_ = A if side == 'a' else B
            edit = rng.choice(['append', 'remove', 'replace'])
            saved = [list(r) for r in T_]
            if edit == 'append':
                T_.append(list(rng.choice((A if side == 'b' else B)[1:])))
            elif edit == 'remove' and len(T_) > 1:
                del T_[rng.randrange(1, len(T_))]
            elif len(T_) > 1:
                T_[rng.randrange(1, len(T_))] = [9, 9]
            second = util.run_show(lambda: v)
            fresh = util.run_show(lambda: getattr(etl, name)(A, B, **kw))
            T_[:] = saved
            ctx.case(('edit-between-passes', name, repr(A), repr(B), side, edit))
            ctx.count('edit-between-passes')
            if second != fresh:
                ctx.spec_fail('%s|stale-after-edit' % name, '%s: a pass made after an operand was edited is not what a fresh view of the same operands gives' % name,
                              {'op': name, 'a': repr(A), 'b': repr(B), 'edited': side, 'edit': edit, 'second pass': second, 'fresh view': fresh})
    # ---- cells that are records (namedtuples) holding None or values of several types
    for ci in range(120 if ctx.thorough() else 30):
        cells = [_Point(None, 1), _Point(2, 1), _Point(2, 'a'), _Point('a', None), (2, 1), _Point(1, 1)]
        A = [['p', 'v']] + [[rng.choice(cells), rng.choice([0, 1])] for _ in range(rng.choice([2, 3, 5]))]
        B = [['p', 'v']] + [[rng.choice(cells), rng.choice([0, 1])] for _ in range(rng.choice([1, 2, 4]))]
        ca, cb = Counter(tuple(r) for r in A[1:]), Counter(tuple(r) for r in B[1:])
        try:
            comp = Counter(tuple(r) for r in list(etl.complement(A, B))[1:])
            inter = Counter(tuple(r) for r in list(etl.intersection(A, B))[1:])
            hcomp = Counter(tuple(r) for r in list(etl.hashcomplement(A, B))[1:])
            ok = comp == ca - cb and inter == ca & cb and hcomp == comp
        except Exception as e:   # noqa
            ok, comp, inter = False, repr(e), None
        ctx.case(('record-cells', repr(A), repr(B)))
        ctx.count('record-cells')
        if not ok:
            ctx.spec_fail('complement|record-cells', 'complement / intersection on cells that are records (tuple subclasses) are not the multiset operations',
                          {'A': repr(A), 'B': repr(B), 'complement': repr(comp), 'intersection': repr(inter)})

    util.exotic_key_cases(etl, rng, ctx, 'C08', 200 if ctx.thorough() else 50)
    util.positional_call_cases(etl, rng, ctx, ['complement', 'intersection'], 120 if ctx.thorough() else 36, 2)

def replay(d):
    print('replay case:', d.get('case'))
    return 0
