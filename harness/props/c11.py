"""C11 — execution-strategy arguments never change results."""
import os, pathlib
import operator, tempfile, shutil
from collections import OrderedDict
from .. import lean, proto, gen, util

REQUIRED = ['Petl.C11.' + n for n in (
    'sortRows_bs_irrelevant sortedGroups_bs_irrelevant join_strategy_irrelevant setop_strategy_irrelevant '
    'dedup_strategy_irrelevant grouping_strategy_irrelevant presorted_on_sorted cache_false_fresh cache_true_replay '
    'first_pass_is_sort all_strategy_arguments_forwarded').split()]


class Counting(object):
    """a source over a mutable list of rows that counts every row handed out"""
    def __init__(self, rows):
        self.rows = rows
        self.pulls = 0

    def __iter__(self):
        for r in self.rows:
            self.pulls += 1
            yield tuple(r)


def operators(etl):
    """name -> (arity, call(tables, **strategy kwargs), key fields the inputs must be sorted by for presorted=True (or None))"""
    R = [['k', 'w'], [1, 'x'], [2, 'y'], [1, 'z'], [None, 'n']]
    ops = OrderedDict()
    for fn in ('join', 'leftjoin', 'rightjoin', 'outerjoin', 'antijoin', 'lookupjoin'):
        ops[fn] = (2, (lambda a, b, fn=fn, **kw: getattr(etl, fn)(a, b, key='k', **kw)), 'k')
    ops['complement'] = (2, lambda a, b, **kw: etl.complement(a, b, **kw), ())
    ops['intersection'] = (2, lambda a, b, **kw: etl.intersection(a, b, **kw), ())
    ops['diff[0]'] = (2, lambda a, b, **kw: etl.diff(a, b, **kw)[0], ())
    ops['diff[1]'] = (2, lambda a, b, **kw: etl.diff(a, b, **kw)[1], ())
    ops['recordcomplement'] = (2, lambda a, b, **kw: etl.recordcomplement(a, b, **kw), None)
    ops['recorddiff[0]'] = (2, lambda a, b, **kw: etl.recorddiff(a, b, **kw)[0], None)
    ops['duplicates'] = (1, lambda a, **kw: etl.duplicates(a, 'k', **kw), 'k')
    ops['unique'] = (1, lambda a, **kw: etl.unique(a, 'k', **kw), 'k')
    ops['conflicts'] = (1, lambda a, **kw: etl.conflicts(a, 'k', **kw), 'k')
    ops['distinct'] = (1, lambda a, **kw: etl.distinct(a, 'k', **kw), 'k')
    # without a key: whole rows (presorted: by all fields)
    ops['distinct(key=None)'] = (1, lambda a, **kw: etl.distinct(a, **kw), ())
    ops['duplicates(key=None)'] = (1, lambda a, **kw: etl.duplicates(a, **kw), ())
    ops['unique(key=None)'] = (1, lambda a, **kw: etl.unique(a, **kw), ())
    ops['distinct(key=None, count)'] = (1, lambda a, **kw: etl.distinct(a, count='n', **kw), ())
    ops['distinct(count)'] = (1, lambda a, **kw: etl.distinct(a, 'k', count='n', **kw), 'k')
    ops['aggregate'] = (1, lambda a, **kw: etl.aggregate(a, 'k', list, 'v', **kw), 'k')
    ops['aggregate(multi)'] = (1, lambda a, **kw: etl.aggregate(a, 'k', OrderedDict([('n', len), ('l', ('v', list))]), **kw), 'k')
    ops['rowreduce'] = (1, lambda a, **kw: etl.rowreduce(a, 'k', lambda k, rows: [k, [tuple(r) for r in rows]], header=['k', 'rows'], **kw), 'k')
    ops['rowgroupmap'] = (1, lambda a, **kw: etl.rowgroupmap(a, 'k', lambda k, rows: ((k, i, r[1]) for i, r in enumerate(rows)), header=['k', 'i', 'v'], **kw), 'k')
    ops['fold'] = (1, lambda a, **kw: etl.fold(a, 'k', lambda x, y: (x if isinstance(x, list) else [x]) + [y], 'v', **kw), 'k')
    ops['groupselectfirst'] = (1, lambda a, **kw: etl.groupselectfirst(a, 'k', **kw), 'k')
    ops['groupselectlast'] = (1, lambda a, **kw: etl.groupselectlast(a, 'k', **kw), 'k')
    ops['groupselectmin'] = (1, lambda a, **kw: etl.groupselectmin(a, 'k', 'v', **kw), 'k')
    ops['groupselectmax'] = (1, lambda a, **kw: etl.groupselectmax(a, 'k', 'v', **kw), 'k')
    ops['mergeduplicates'] = (1, lambda a, **kw: etl.mergeduplicates(a, 'k', **kw), 'k')
    ops['merge'] = (2, lambda a, b, **kw: etl.merge(a, b, key='k', **kw), 'k')
    ops['mergesort'] = (2, lambda a, b, **kw: etl.mergesort(a, b, key='k', **kw), 'k')
    ops['mergesort(reverse)'] = (2, lambda a, b, **kw: etl.mergesort(a, b, key='k', reverse=True, **kw), None)
    ops['sort(reverse)'] = (1, lambda a, **kw: etl.sort(a, 'k', reverse=True, **{k: v for k, v in kw.items() if k != 'presorted'}), None)
    ops['pivot'] = (1, lambda a, **kw: etl.pivot(a, 'k', 'v', 'v', list, **kw), ('k', 'v'))
    ops['unjoin[0]'] = (1, lambda a, **kw: etl.unjoin(a, 'v', key='k', **kw)[0], None)
    ops['unjoin[1]'] = (1, lambda a, **kw: etl.unjoin(a, 'v', key='k', **kw)[1], None)
    ops['unjoin(nokey)[1]'] = (1, lambda a, **kw: etl.unjoin(a, 'v', **kw)[1], 'v')
    return ops


import datetime as _dt
# key pools: the usual mix; and dates next to datetimes of the same instant (ordered by type name, never tied), with a time
KEY_POOLS = [[1, 2, 3, None, 'a'], [1, 2, 3, None, 'a'],
             [_dt.date(2020, 1, 1), _dt.datetime(2020, 1, 1), _dt.date(2020, 1, 2), _dt.datetime(2020, 1, 2), None, _dt.datetime(2019, 12, 31, 23, 59)],
             [1, 1.0, True, 2, b'a', 'a', (1, 'a')]]


def mk_table(rng, names=('k', 'v')):
    n = rng.choice([0, 1, 2, 3, 4, 5])
    pool = rng.choice(KEY_POOLS)
    vpool = rng.choice([[1, 2, 5, 7], [1, 2, 5, 7], [1, 2, 5, 7], [1, 2, bytearray(b'ab'), b'ab']])      # bytearray: a chunk file must hand back what went in
    return [list(names)] + [[rng.choice(pool), rng.choice(vpool)] for _ in range(n)]


def run(ctx):
    import petl as etl
    import petl.config as config
    from translators import sort_wiring
    ctx.rule = ('every sort-backed operator (joins, set operations, dedup, grouping/aggregation, pivot, mergesort, merge, unjoin, '
                'rowgroupmap) on generated tables with duplicate/None/mixed keys: the output under buffersize 1..nrows+1 and None x '
                'cache on/off x tempdir set/unset, under petl.config.sort_buffersize, and with presorted=True on inputs pre-sorted by '
                'the key must equal the default call; histories of (iterate, edit source, iterate) with a counting source: with '
                'cache=False the second pass reflects the edit, with cache=True it replays the first pass and reads no source row. '
                'Non-trivial: inputs with at least 2 rows.')
    ctx.assumptions += ['the Lean cache machine abstracts the operator to "sortOf source"; the wiring table covers petl/transform/*.py']
    # (d) wiring from the current source
    try:
        info = sort_wiring.generate()
        ctx.bridge('translator: sort wiring extracted (%d call sites, %d sort-backed callables)' % (info['sites'], len(info['sortbacked'])), True)
        ctx.extra['wiring_not_forwarded'] = [list(x) for x in info['not_forwarded']]
    except Exception as e:   # noqa
        ctx.bridge('translator: sort wiring extracted', False, repr(e))
    from translators import merge_shape as _ms
    try:
        _msi = _ms.generate()
        ctx.bridge('translator: %d syntactic facts about the merge machinery of sorts.py' % len(_msi['facts']), True)
    except Exception as e:   # noqa
        ctx.bridge('translator: merge machinery facts extracted', False, repr(e))
    from translators import fingerprints as _fp
    try:
        _fpi = _fp.generate()
        ctx.bridge('translator: fingerprints of the petl sources this check vouches for (%d entries over all properties)' % _fpi['names'], True)
    except Exception as e:   # noqa
        ctx.bridge('translator: source fingerprints extracted', False, repr(e))
    ctx.prove(['PetlProofs.Props.C11', 'PetlProofs.Props.C05Shape', 'PetlProofs.Snapshot.C11'], REQUIRED + ['Petl.C05.merge_machinery_as_modelled', 'Petl.Snapshot.C11_sources_as_validated'])
    rng = ctx.rng
    ops = operators(etl)
    tmpd = tempfile.mkdtemp(prefix='petl_c11_')
    saved = config.sort_buffersize
    n = 60 if ctx.thorough() else 8
    try:
        for name, (arity, call, skey) in ops.items():
            for ci in range(n):
                tabs = [mk_table(rng) for _ in range(arity)]
                if name.startswith(('recordcomplement', 'recorddiff')):
                    tabs[1] = [['v', 'k']] + [[r[1], r[0]] for r in tabs[1][1:]]
                nmax = max(len(t) - 1 for t in tabs)
                default = util.run_show_typed(lambda: call(*tabs))
                nt = nmax >= 2
                def check(kw, what):
                    out = util.run_show_typed(lambda: call(*tabs, **kw))
                    ctx.case((name, repr(tabs), repr(sorted(kw.items()))) if nt else None,
                             sample={'op': name, 'tables': repr(tabs), 'args': repr(kw), 'out': out} if len(ctx.samples) < 5 and nt and ctx.evaluations % 301 == 0 else None)
                    ctx.count('arg:' + what)
                    if out != default:
                        ctx.spec_fail('%s|%s|%s' % (name, what, 'raises' if ' ERR ' in out else 'differs'),
                                      '%s: %s changes the result' % (name, what),
                                      {'op': name, 'tables': repr(tabs), 'args': repr(kw), 'default': default, 'got': out})
                for bs in [None] + list(range(1, nmax + 2)):
                    for cache in (True, False):
                        for td in (None, tmpd, os.fsencode(tmpd) if (bs or 0) % 2 else pathlib.Path(tmpd)):
                            kw = {'buffersize': bs, 'cache': cache, 'tempdir': td}
                            if name.startswith(('recordcomplement', 'recorddiff')) or True:
                                check(kw, 'buffersize/cache/tempdir')
                # global default
                for bs in (1, 2, None):
                    config.sort_buffersize = bs
                    try:
                        check({}, 'config.sort_buffersize')
                    finally:
                        config.sort_buffersize = saved
                # presorted on pre-sorted input
                if skey is not None:
                    sk = None if skey == () else skey
                    # list rows next to tuple rows: what is delivered must not be the source's own row, and equal rows of different row types are one row
                    ptabs = [[(list(r) if j % 2 else tuple(r)) for j, r in enumerate(etl.sort(t, sk))] for t in tabs]
                    ptabs = [[list(t_[0])] + t_[1:] for t_ in ptabs]
                    pdefault = util.run_show_typed(lambda: call(*ptabs))
                    out = util.run_show_typed(lambda: call(*ptabs, presorted=True))
                    ctx.case((name, 'presorted', repr(ptabs)) if nt else None)
                    ctx.count('arg:presorted')
                    if out != pdefault:
                        ctx.spec_fail('%s|presorted|%s' % (name, 'raises' if ' ERR ' in out else 'differs'),
                                      '%s: presorted=True on input sorted by the key changes the result' % name,
                                      {'op': name, 'tables': repr(ptabs), 'default': pdefault, 'got': out})
            # ---- cache clause: histories (pass, edit, pass)
            for ci in range(max(2, n // 2)):
                rowsets = [mk_table(rng) for _ in range(arity)]
                if name.startswith(('recordcomplement', 'recorddiff')):
                    continue
                for cache in (True, False):
                    for bs in (None, 2):
                        srcs = [Counting([list(r) for r in t]) for t in rowsets]
                        try:
                            view = call(*srcs, cache=cache, buffersize=bs, tempdir=tmpd)
                            first = util.show_out(*util.collect(iter(view)))
                        except Exception as e:   # noqa
                            continue
                        # edit every source: append a row with an existing key and a new one
                        for s in srcs:
                            s.rows.append([1, 99])
                            s.rows.append(['zz', 98])
                        if not cache and name in ('mergesort', 'mergesort(reverse)', 'sort(reverse)', 'join', 'leftjoin', 'outerjoin', 'complement', 'intersection',
                                                  'duplicates', 'unique', 'distinct', 'conflicts'):
                            # ... and rename the field that is not the key, in every source (mergesort: in the first only)
                            for si, s in enumerate(srcs):
                                if name.startswith('mergesort') and si > 0:
                                    continue
                                s.rows[0] = [s.rows[0][0], str(s.rows[0][1]) + '_renamed'] + list(s.rows[0][2:])
                        before = [s.pulls for s in srcs]
                        second = util.show_out(*util.collect(iter(view)))
                        pulled = sum(s.pulls for s in srcs) - sum(before)
                        fresh = util.run_show(lambda: call(*[Counting([list(r) for r in s.rows]) for s in srcs], cache=cache, buffersize=bs))
                        ctx.case((name, 'history', repr(rowsets), cache, bs))
                        ctx.count('history:cache=%s' % cache)
                        case = {'op': name, 'tables': repr(rowsets), 'cache': cache, 'buffersize': bs, 'first_pass': first,
                                'second_pass_after_edit': second, 'fresh_view_on_edited_sources': fresh, 'rows_pulled_by_second_pass': pulled}
                        if ' ERR ' in first:
                            continue
                        if not cache and second != fresh:
                            ctx.spec_fail('%s|cache=False|stale' % name,
                                          '%s(cache=False): a second pass does not reflect the edited sources' % name, case)
                        if cache and second == first and 0 < pulled <= len(srcs):
                            # only header rows were read again: an input whose sort the first pass never advanced
                            # beyond its header (the other side was empty) is not cached
                            ctx.spec_fail('sort-backed|cache=True|header-reread-of-unstarted-input',
                                          '%s(cache=True): a later pass reads the header row of an input again' % name, case)
                        elif cache and (second != first or pulled != 0):
                            ctx.spec_fail('%s|cache=True|%s' % (name, 're-reads' if pulled else 'differs'),
                                          '%s(cache=True): a pass after a completed one is not a replay without reading the sources' % name, case)
        # ---- hundreds to thousands of chunk files, also under a lowered limit on open files (a guard against too many open
        # files must not reorder ties)
        util.many_chunk_cases(etl, rng, ctx, 'sort', ctx.thorough())
        # ---- the cache machine vs the real SortView (exact): pass / edit sequences
        for ci in range(40 if not ctx.thorough() else 300):
            T = mk_table(rng)
            for cache in (True, False):
                src = Counting([list(r) for r in T])
                view = etl.sort(src, 'k', cache=cache)
                st_cache = None
                ok = True
                hist = []
                for step in range(rng.choice([2, 3, 4])):
                    if rng.random() < 0.4:
                        src.rows.append([rng.choice([1, 2, 'q']), step])
                        hist.append('edit')
                        continue
                    before = src.pulls
                    out = util.show_out(*util.collect(iter(view)))
                    pulled = src.pulls - before
                    want_out = st_cache if (cache and st_cache is not None) else util.run_show(lambda: etl.sort([tuple(r) for r in src.rows], 'k'))
                    want_pulls = 0 if (cache and st_cache is not None) else len(src.rows)
                    if cache and st_cache is None:
                        st_cache = want_out
                    hist.append('pass')
                    if out != want_out or pulled != want_pulls:
                        ok = False
                ctx.exact(ok, {'table': repr(T), 'cache': cache, 'history': hist})
                ctx.case(('sortcache', repr(T), cache, tuple(hist)))
                ctx.count('sort-cache-machine')
                if not ok:
                    ctx.spec_fail('sort|cache=%s|history' % cache, 'sort does not follow the cache clause over this history',
                                  {'table': repr(T), 'cache': cache, 'history': hist})
        # strategy arguments on inputs that 8-row tables cannot provide: hundreds of chunk files, and keys that are equal
        # under the ordering without being equal objects of one type (a tuple and a list with the same items)
        big = [['k', 'i']] + [[rng.choice([None, 1, 2, 'a']), i] for i in range(420)]
        mixed = [['k', 'i']] + [[[(1, 2), [1, 2]][i % 2] if i % 3 else 5, i] for i in range(7)]
        big_ops = [('sort', lambda t, **kw: etl.sort(t, 'k', **kw)),
                   ('sort(reverse)', lambda t, **kw: etl.sort(t, 'k', reverse=True, **kw)),
                   ('groupselectfirst', lambda t, **kw: etl.groupselectfirst(t, 'k', **kw)),
                   ('groupselectlast', lambda t, **kw: etl.groupselectlast(t, 'k', **kw)),
                   ('distinct(key)', lambda t, **kw: etl.distinct(t, 'k', **kw)),
                   ('aggregate(list)', lambda t, **kw: etl.aggregate(t, 'k', list, 'i', **kw)),
                   ('lookupjoin', lambda t, **kw: etl.lookupjoin(t, t, key='k', **kw)),
                   ('mergesort', lambda t, **kw: etl.mergesort(t, t, key='k', **kw))]
        for tname, t, sizes in (('420 rows', big, (1, 2, 3)), ('tuple/list keys', mixed, (1, 2, 3, 4, 8))):
            for name, call in big_ops:
                default = util.run_show(lambda: call(t))
                for bs in sizes:
                    for how in ('arg', 'config'):
                        for cache in (True, False):
                            config.sort_buffersize = saved
                            try:
                                if how == 'config':
                                    config.sort_buffersize = bs
                                    v = call(t, cache=cache)
                                else:
                                    v = call(t, buffersize=bs, cache=cache)
                                outs = [util.run_show(lambda: v) for _ in (1, 2)]
                            except Exception as e:   # noqa
                                outs = ['TB0 ERR ' + util.errkind(e)]
                            finally:
                                config.sort_buffersize = saved
                            ctx.case((name, tname, bs, how, cache))
                            ctx.count('arg:many-chunks/ordering-ties')
                            for pno, out in enumerate(outs, 1):
                                if out != default:
                                    ctx.spec_fail('%s|%s|differs' % (name, 'many-chunks' if t is big else 'tuple-list-keys'),
                                                  '%s on %s: buffersize %d (%s), cache=%s, pass %d changes the result'
                                                  % (name, tname, bs, 'petl.config.sort_buffersize' if how == 'config' else 'argument', cache, pno),
                                                  {'op': name, 'table': tname if t is big else repr(t), 'buffersize': bs, 'from': how, 'cache': cache, 'pass': pno})
                                    break
    finally:
        config.sort_buffersize = saved
        shutil.rmtree(tmpd, ignore_errors=True)


def replay(d):
    print('replay case:', d.get('case'))
    return 0
