"""C10 — duplicates/unique/distinct/conflicts partition rows by key multiplicity."""
from collections import Counter
from .. import lean, proto, gen, util
from .c06 import norm_tok

REQUIRED = ['Petl.C10.' + n for n in (
    'duplicates_eq_groups unique_eq_groups duplicates_unique_partition mem_duplicates_iff mem_unique_iff '
    'distinct_first_of_each_group distinct_count_sum_nrows conflicts_sublist_duplicates isunique_iff').split()]

CELLS = [None, 1, 1.0, True, 2, 'a', 'b', (1, 'a'), 2.5, -1, -2]
# distinct values with equal hashes in CPython: membership must be by equality, not by hash
COLLIDING = [[-1, -2], [0, 2 ** 61 - 1], [(-1, 'a'), (-2, 'a')], [-1, -2, -1]]


def keyfun(T, key):
    from petl.comparison import comparable_itemgetter
    from petl.util.base import asindices
    idx = list(range(len(T[0]))) if key is None else asindices(T[0], key)
    return comparable_itemgetter(*idx)


def run(ctx):
    import petl as etl
    ctx.rule = ('rectangular tables (1-3 fields, 0-7 rows; header-only and single-row over-represented) with cells from small '
                'pools incl. None and cross-type equal values; key None / single / compound / by index; duplicates, unique, '
                'distinct (with and without count), conflicts (missing, include/exclude), isunique x buffersize: real vs model '
                '(exact sequence) and vs a Counter-of-keys oracle (membership by key multiplicity). Non-trivial: some key repeats.')
    ctx.assumptions += ['raw == on key tuples agrees with the Comparable equality used by the sort (hashable cells, no lists)']
    from translators import argforms as _af
    try:
        _info = _af.generate()
        ctx.bridge('translator: truthiness tests on selection-like arguments in %d functions (%d sites)' % (_info['functions'], len(_info['sites'])), True)
    except Exception as e:   # noqa
        ctx.bridge('translator: argument-form sites extracted', False, repr(e))
    from translators import fingerprints as _fp
    try:
        _fpi = _fp.generate()
        ctx.bridge('translator: fingerprints of the petl functions the hand-written models mirror (%d bodies)' % _fpi['names'], True)
    except Exception as e:   # noqa
        ctx.bridge('translator: source fingerprints extracted', False, repr(e))
    ctx.prove(['PetlProofs.Props.C10', 'PetlProofs.Props.ArgForms', 'PetlProofs.Snapshot.C10'], REQUIRED + ['Petl.ArgForms.selection_arguments_not_tested_by_truthiness', 'Petl.ArgForms.selection_arguments_not_compared_by_identity'] + ['Petl.Snapshot.C10_sources_as_validated'])
    rng = ctx.rng
    n = 2500 if ctx.thorough() else 400
    jobs = []
    for ci in range(n + 2 * len(COLLIDING)):
        hdr = gen.header(rng, n=rng.choice([1, 2, 2, 3]))
        pool = rng.sample(CELLS, rng.choice([2, 3, 4]))
        T = gen.table(rng, hdr, default_pool=pool, maxn=7, ragged=0.03)
        key = util.rand_key(rng, hdr, allow_none=True)
        if ci >= n:
            vals = COLLIDING[(ci - n) // 2]
            if (ci - n) % 2 == 0:
                hdr, key = ['k', 'v'], 'k'
                T = [hdr] + [[v, i] for i, v in enumerate(vals)]
            else:
                hdr, key = ['k', 'j', 'v'], ('k', 'j')
                T = [hdr] + [[v, 'x', i] for i, v in enumerate(vals)]
        bs = rng.choice([None, None, 1, 2, 3])
        tt = proto.enc_table(T)
        kt = util.enc_key(key)
        bt = proto.enc_opt(bs)
        base = {'table': repr(T), 'key': repr(key), 'buffersize': bs}
        rect = all(len(r) == len(hdr) for r in T[1:])
        for op in ('duplicates', 'unique', 'distinct'):
            jobs.append((op, 'dedup %s %s %s %s' % (op, kt, bt, tt),
                         lambda T=T, key=key, bs=bs, op=op: getattr(etl, op)(T, key, buffersize=bs), base, T, key, rect))
        jobs.append(('distinct(count)', 'dedup distinctcount %s %s %s %s' % (kt, bt, proto.enc('n'), tt),
                     lambda T=T, key=key, bs=bs: etl.distinct(T, key, count='n', buffersize=bs), base, T, key, rect))
        if key is not None:
            # equal to cells of the pool without being the same object (a float outside any cache, a freshly built tuple)
            missing = gen.fresh(rng.choice([None, None, 1, 'a', 2.5, 1.0, (1, 'a')]))
            mode = rng.choice(['all', 'all', 'include', 'exclude'])
            names = rng.sample(hdr, rng.choice([1, min(2, len(hdr))])) if mode != 'all' else None
            kw = {'missing': missing}
            if mode == 'include':
                kw['include'] = names if rng.random() < 0.5 or len(names) > 1 else names[0]
            if mode == 'exclude':
                kw['exclude'] = names if rng.random() < 0.5 or len(names) > 1 else names[0]
            cthunk = lambda T=T, key=key, bs=bs, kw=kw: etl.conflicts(T, key, buffersize=bs, **kw)
            cthunk.kw = kw
            jobs.append(('conflicts', 'dedup conflicts %s %s %s %s %s %s' % (kt, bt, proto.enc(missing), mode, util.enc_key(names), tt),
                         cthunk, dict(base, **{k: repr(v) for k, v in kw.items()}), T, key, rect))
            jobs.append(('isunique', 'isunique %s %s' % (kt, tt), None, base, T, key, rect))
    model = lean.run_driver([j[1] for j in jobs])
    for (op, line, thunk, base, T, key, rect), spec in zip(jobs, model):
        if op == 'isunique':
            try:
                real = proto.enc_bool(etl.isunique(T, key))
            except Exception as e:   # noqa
                real = 'ERR ' + util.errkind(e)
        else:
            real = util.run_show(thunk)
        try:
            gk = keyfun(T, key)
            mult = Counter()
            ks = [gk(r) for r in T[1:]]
            nt = len(ks) > 1 and any(ks[i] == ks[j] for i in range(len(ks)) for j in range(i))
        except Exception:   # noqa
            nt = False
        ctx.case((op, line) if nt else None,
                 sample=dict(base, op=op, out=real) if len(ctx.samples) < 6 and nt and len(real) > 30 else None)
        ctx.count('op:' + op)
        ctx.count('rows:%s' % ('0' if len(T) == 1 else ('1' if len(T) == 2 else '2+')))
        case = dict(base, op=op, real=real, spec=spec)
        if spec.startswith(('PARSE', 'BADOP', 'ERR unsupported')):
            ctx.corr_fail(op, 'driver: ' + spec, case)
            continue
        if not rect:
            # outside the property's domain: both sides must at least agree on failing
            if (' ERR ' in real or real.startswith('ERR')) != (' ERR ' in spec or spec.startswith('ERR')):
                ctx.exact(False, case)
            continue
        ctx.exact(real == spec, case)
        if real == spec:
            continue
        # multiplicity oracle
        why = None
        if ' ERR ' in real or real.startswith('ERR'):
            why = 'raised'
        elif op in ('duplicates', 'unique'):
            gk = keyfun(T, key)
            rows = [tuple(r) for r in T[1:]]
            def mult(r):
                return sum(1 for x in rows if gk(x) == gk(r))
            want = Counter(proto.enc_row(r) for r in rows if (mult(r) > 1) == (op == 'duplicates'))
            got = Counter(proto.enc_row(r) for r in list(thunk())[1:])
            if want != got:
                why = 'membership is not by key multiplicity: extra %s missing %s' % (list((got - want).items())[:2], list((want - got).items())[:2])
        elif op in ('distinct', 'distinct(count)'):
            gk = keyfun(T, key)
            out = list(thunk())[1:]
            keys_out = [gk(r[:len(T[0])]) for r in out]
            distinct_keys = []
            for r in T[1:]:
                if not any(gk(r) == k for k in distinct_keys):
                    distinct_keys.append(gk(r))
            if len(out) != len(distinct_keys) or any(not any(k == d for d in distinct_keys) for k in keys_out):
                why = 'not exactly one row per distinct key'
            elif op == 'distinct(count)' and sum(r[-1] for r in out) != len(T) - 1:
                why = 'count column does not add up to nrows'
        elif op == 'conflicts':
            # every row reported belongs to a key group in which it disagrees with another row on a field under consideration
            # where neither value is `missing`; a group without such a pair contributes nothing
            gk = keyfun(T, key)
            kw = thunk.kw
            hdr_ = list(T[0])
            fields = [j for j, f in enumerate(hdr_)
                      if (kw.get('include') is None or f in (kw['include'] if isinstance(kw['include'], (list, tuple)) else [kw['include']]))
                      and (kw.get('exclude') is None or f not in (kw['exclude'] if isinstance(kw['exclude'], (list, tuple)) else [kw['exclude']]))]
            miss = kw.get('missing')
            rows = [tuple(r) for r in T[1:]]
            def disagree(r, s_):
                return any(not (r[j] == miss or s_[j] == miss) and r[j] != s_[j] for j in fields)
            out = [tuple(r) for r in list(thunk())[1:]]
            bad = [r for r in out if not any(gk(s_) == gk(r) and disagree(r, s_) for s_ in rows)]
            if bad:
                why = 'reports %r, which disagrees with no row of its key group on a non-missing value' % (bad[0],)
        elif op == 'isunique':
            gk = keyfun(T, key)
            ks = [gk(r) for r in T[1:]]
            want = not any(ks[i] == ks[j] for i in range(len(ks)) for j in range(i))
            if (real == '1') != want:
                why = 'isunique disagrees with "no key repeats"'
        else:
            why = None
        if why:
            ctx.spec_fail('%s|%s|%s' % (op, 'raises' if why == 'raised' else 'wrong', 'header-only' if len(T) == 1 else 'rows'),
                          '%s: %s' % (op, why), case)
        else:
            ctx.corr_fail(op, 'real output passes the multiplicity oracle but differs from the model', case)

    # ---- operands that are sort views
    util.view_operand_cases(etl, rng, ctx, [
        ('duplicates', 1, lambda t: etl.duplicates(t, 'x')), ('unique', 1, lambda t: etl.unique(t, 'x')),
        ('distinct', 1, lambda t: etl.distinct(t, 'x')), ('distinct(count)', 1, lambda t: etl.distinct(t, 'x', count='n')),
        ('conflicts', 1, lambda t: etl.conflicts(t, 'x')), ('duplicates(None)', 1, lambda t: etl.duplicates(t)),
        ('isunique', 1, lambda t: [[etl.isunique(t, 'x'), etl.isunique(t, 'xy')]]), ('duplicates(compound)', 1, lambda t: etl.duplicates(t, ('x', 'xy'))),
        # the key a later field of the (compound) key the operand is sorted by
        ('duplicates(xy)', 1, lambda t: etl.duplicates(t, 'xy')), ('unique(xy)', 1, lambda t: etl.unique(t, 'xy')),
        ('distinct(xy, count)', 1, lambda t: etl.distinct(t, 'xy', count='n')), ('conflicts(xy)', 1, lambda t: etl.conflicts(t, 'xy')),
        ('unique(x)', 1, lambda t: etl.unique(t, 'x')), ('duplicates(v)', 1, lambda t: etl.duplicates(t, 'v')),
    ], 900 if ctx.thorough() else 420)
    # ---- the partition survives a sort that spills into more than a thousand chunk files
    for n, bs in (((1100, 1), (2300, 2)) if ctx.thorough() else ((1100, 1),)):
        rows = [[(rng.choice([1, 2, 3, 'a', None]) if i % 5 else 'once-%d' % i), i] for i in range(n)]
        T = [['k', 'i']] + rows
        mult = Counter(r[0] for r in rows)
        try:
            dup = [tuple(r) for r in etl.duplicates(T, 'k', buffersize=bs)][1:]
            uni = [tuple(r) for r in etl.unique(T, 'k', buffersize=bs)][1:]
            dis = [tuple(r) for r in etl.distinct(T, 'k', count='n', buffersize=bs)][1:]
            ok = Counter(dup) == Counter(tuple(r) for r in rows if mult[r[0]] > 1) and Counter(uni) == Counter(tuple(r) for r in rows if mult[r[0]] == 1) \
                and sum(r[-1] for r in dis) == n and len(dis) == len(mult)
        except Exception as e:   # noqa
            ok = False
        ctx.case(('dedup', 'many-chunks', n, bs))
        ctx.count('many-chunks')
        if not ok:
            ctx.spec_fail('duplicates|many-chunks', 'duplicates / unique / distinct over a sort of %d rows in chunks of %d do not partition the rows by key multiplicity' % (n, bs),
                          {'nrows': n, 'buffersize': bs, 'table': 'rows [key, i]: every fifth key occurs once, the others are drawn from [1, 2, 3, "a", None]'})

    # ---- an operand already sorted by a leading part of a compound key (a sort view, or presorted rows) is not sorted by the key
    for ci in range(90 if ctx.thorough() else 30):
        rows = [[rng.choice([1, 2]), rng.choice(['a', 'b']), i] for i in range(rng.choice([3, 4, 6]))]
        T = [['x', 'y', 'i']] + rows
        for op in ('duplicates', 'unique', 'distinct', 'conflicts'):
            for opnd, label in ((etl.sort(T, 'x'), 'sort(x)'), (etl.sort(T, 'x', buffersize=2), 'sort(x, buffersize=2)'), (etl.sort(T, ('x',)), "sort(('x',))")):
                a = util.run_show(lambda: getattr(etl, op)(opnd, ('x', 'y')))
                b = util.run_show(lambda: getattr(etl, op)([tuple(r) for r in opnd], ('x', 'y')))
                ctx.case(('prefix-sorted-operand', op, label, repr(rows)))
                ctx.count('prefix-sorted-operand')
                if a != b:
                    ctx.spec_fail('%s|sort-view-operand' % op, '%s with a compound key over an operand that is a sort view on the leading key field only differs from the same on the table the view stands for' % op,
                                  {'op': op, 'table': repr(T), 'operand': label, 'key': "('x', 'y')", 'with the view': a, 'with the materialised view': b})

    # ---- conflicts: the names of the fields that are not the key do not matter, not even when one repeats the key's name
    for ci in range(120 if ctx.thorough() else 40):
        rows = [[rng.choice([1, 2]), rng.choice(['p', 'q']), rng.choice([0, 1, None])] for _ in range(rng.choice([2, 3, 5]))]
        for hdr_dup, hdr_uni, key in ((['a', 'b', 'a'], ['a', 'b', 'c'], 'a'), (['k', 'k', 'v'], ['k', 'w', 'v'], 'k'), (['a', 'b', 'a'], ['a', 'b', 'c'], 0)):
            a = list(etl.conflicts([hdr_dup] + rows, key))[1:]
            b = list(etl.conflicts([hdr_uni] + rows, key))[1:]
            ctx.case(('conflicts-repeated-name', repr(rows), repr(hdr_dup), repr(key)))
            ctx.count('conflicts:repeated-field-name')
            if a != b:
                ctx.spec_fail('conflicts|repeated-field-name', 'conflicts over a header that repeats the key field\'s name reports other rows than over distinct names',
                              {'rows': repr(rows), 'header': repr(hdr_dup), 'key': repr(key), 'reported': repr(a), 'with distinct names': repr(b)})

    # ---- a key given as a negative position names the same field as its name does
    for ci in range(120 if ctx.thorough() else 40):
        hdr = ['a', 'b', 'c'][:rng.choice([2, 3])]
        T = [hdr] + [[rng.choice([1, 2, 3, None]) for _ in hdr] for _ in range(rng.choice([2, 3, 5, 6]))]
        j = rng.randrange(len(hdr))
        neg, nm = j - len(hdr), hdr[j]
        keys = [(neg, nm)]
        if len(hdr) == 3:
            keys.append(((-3, -1), ('a', 'c')))
            keys.append((('a', -1), ('a', 'c')))
        for kneg, knm in keys:
            for op in ('duplicates', 'unique', 'distinct', 'conflicts'):
                a, b = util.run_show(lambda: getattr(etl, op)(T, kneg)), util.run_show(lambda: getattr(etl, op)(T, knm))
                ctx.case(('negative-key', op, repr(T), repr(kneg)))
                ctx.count('negative-key')
                if a != b or etl.isunique(T, kneg) != etl.isunique(T, knm):
                    ctx.spec_fail('%s|negative-key-position' % op, '%s with the key given as a negative position differs from the same key given by name' % op,
                                  {'op': op, 'table': repr(T), 'key by position': repr(kneg), 'key by name': repr(knm), 'by position': a, 'by name': b})

    util.exotic_key_cases(etl, rng, ctx, 'C10', 200 if ctx.thorough() else 50)
    util.positional_call_cases(etl, rng, ctx, ['duplicates', 'unique', 'distinct'], 120 if ctx.thorough() else 36, 1)

def replay(d):
    print('replay case:', d.get('case'))
    return 0
